(* C17 engine: the two wake-up protocols of the property, evaluated together.
   A case with cfg [init; mode] is a writeQuota case (model/WriteQuota.v), a case with cfg
   [m0] is a stream-admission case (model/StreamQuota.v, shared with C13); clause ids of the
   latter are shifted by 20 so that the two engines' clauses stay distinguishable.
   No proofs here. *)
From Coq Require Import List ZArith Bool.
From VLib Require Import Codec Machine.
From VModel Require WriteQuota StreamQuota.
Import ListNotations.
Open Scope Z_scope.

Definition shift (v : verdict) : verdict :=
  match v with
  | PropFail c i => PropFail (c + 20) i
  | Many fs d => Many (map (fun f => (fst f + 20, snd f)) fs) d
  | _ => v
  end.

Definition check_case (c : case) : verdict :=
  match c_cfg c with
  | [_] => shift (StreamQuota.check_case c)
  | _ => WriteQuota.check_case c
  end.
