(* C10: a handler's status as the client observes it.
   Transcribes http2Server.writeStatus (grpc-status = strconv.Itoa(int(code)),
   grpc-message = encodeGrpcMessage(msg), grpc-status-details-bin present iff the status
   has details and proto.Marshal succeeds), http2Client.operateHeaders
   (strconv.ParseInt(_, 10, 32), decodeGrpcMessage), istatus.NewWithProto (including the
   code-mismatch branch) and Status.Err (OK |-> nil).
   encodeGrpcMessage / decodeGrpcMessage / utf8.ValidString are C08's model (PctEnc);
   decimal formatting/parsing is C07's (Timeout.format_int / parse_dec).
   proto.Marshal/Unmarshal of google.rpc.Status is not modelled byte by byte: the
   details-bin header value is carried as the structured message (DESIGN: round-trip law
   assumed); Marshal fails exactly when a string field (message, a type_url) is not valid
   UTF-8.  HPACK/framing is an order-preserving transport.  No proofs here. *)
From Coq Require Import List ZArith Bool String Ascii.
From VLib Require Import Codec Machine.
From VModel Require PctEnc Timeout.
Import ListNotations.
Open Scope Z_scope.

Definition bstr := list Z.
Definition s2l (s : string) : bstr := map (fun a => Z.of_nat (nat_of_ascii a)) (list_ascii_of_string s).
Definition detail := (bstr * bstr)%type.                    (* anypb.Any: type_url, value *)
Record hstatus := mkst { h_code : Z; h_msg : bstr; h_details : list detail }.

(* google.rpc.Status as carried by grpc-status-details-bin *)
Record sproto := mkproto { p_code : Z (* int32 *); p_msg : bstr; p_details : list detail }.

(* the handler returns status.FromProto(...).Err(): nil when the code is OK, and then the
   server writes the OK status with an empty message *)
Definition handler_status (s : hstatus) : hstatus :=
  if h_code s =? 0 then mkst 0 [] [] else s.

(* ---- server: writeStatus ---- *)
Definition marshalable (s : hstatus) : bool :=
  PctEnc.valid_utf8 (h_msg s) && forallb (fun d => PctEnc.valid_utf8 (fst d)) (h_details s).
Record trailer := mktr { t_status : bstr; t_message : bstr; t_details : option sproto }.
Definition write_status (s : hstatus) : trailer :=
  mktr (Timeout.format_int (h_code s))                         (* Itoa(int(st.Code())) *)
       (PctEnc.encode (h_msg s))
       (match h_details s with
        | [] => None
        | _ => if marshalable s then Some (mkproto (i32 (h_code s)) (h_msg s) (h_details s)) else None
        end).

(* ---- client: operateHeaders + NewWithProto + Err ---- *)
Definition parse_int32 (s : bstr) : option Z :=                  (* ParseInt(s, 10, 32) on digit strings *)
  match Timeout.parse_uint s with
  | Some c => if c <=? max_i32 then Some c else None
  | None => None
  end.
Definition msg_malformed_pre : bstr := Eval vm_compute in
  s2l "transport: malformed grpc-status: strconv.ParseInt: parsing """.
Definition msg_malformed_post : bstr := Eval vm_compute in s2l """: value out of range".
Definition msg_mismatch : bstr := Eval vm_compute in s2l "grpc-status-details-bin mismatch".

Record cresult := mkres { r_nil : bool; r_code : Z; r_msg : bstr; r_details : list detail }.
Definition of_status (code : Z) (msg : bstr) (ds : list detail) : cresult :=
  mkres (code =? 0) code msg ds.                                 (* Status.Err: OK |-> nil *)
Definition read_status (t : trailer) : cresult :=
  match parse_int32 (t_status t) with
  | None => of_status 2 (msg_malformed_pre ++ t_status t ++ msg_malformed_post) []
  | Some c =>
    let code := u32 c in
    let m := PctEnc.decode (t_message t) in
    match t_details t with
    | None => of_status code m []
    | Some p => if p_code p =? i32 code then of_status (u32 (p_code p)) (p_msg p) (p_details p)
                else of_status 13 msg_mismatch []   (* text of the mismatch message not modelled *)
    end
  end.

Definition wire (s : hstatus) : cresult := read_status (write_status (handler_status s)).

(* ---- the property's reference ---- *)
Definition expected (s : hstatus) : cresult :=
  if h_code s =? 0 then mkres true 0 [] []
  else mkres false (h_code s) (PctEnc.sanitize (h_msg s)) (h_details s).

(* ---- encoding of cases ---- *)
Fixpoint get_details (n : nat) (w : word) : option (list detail * word) :=
  match n with
  | O => Some ([], w)
  | S n' => match get_bytes w with
            | Some (tu, r) =>
              match get_bytes r with
              | Some (v, r') => match get_details n' r' with
                                | Some (l, r'') => Some ((tu, v) :: l, r'')
                                | None => None
                                end
              | None => None
              end
            | None => None
            end
  end.
Fixpoint put_details (l : list detail) : word :=
  match l with
  | [] => []
  | (tu, v) :: r => put_bytes tu ++ put_bytes v ++ put_details r
  end.
(* op [1; mode; code; msg; n; details...]; the mode (0 unary / 1 streaming / 2 streaming
   trailers-only / 3 = 2 with ClientStream.Header() called before RecvMsg / 4 = 3 on a bidi stream)
   does not enter the model: the status travels in the same trailer fields *)
Definition decode_op (w : word) : option hstatus :=
  match w with
  | 1 :: mode :: code :: r =>
    if (mode <? 0) || (mode >? 4) || (code <? 0) || (code >? max_u32) then None else
    match get_bytes r with
    | Some (msg, n :: r') =>
      if n <? 0 then None else
      match get_details (Z.to_nat n) r' with
      | Some (ds, []) => Some (mkst code msg ds)
      | _ => None
      end
    | _ => None
    end
  | _ => None
  end.
Definition obs_of (c : cresult) : word :=
  [b2z (r_nil c); r_code c] ++ put_bytes (r_msg c) ++ [Z.of_nat (List.length (r_details c))] ++
  put_details (r_details c).

(* op [2; g; n; code]: stress.  g goroutines each perform n RPCs (alternately unary and
   server-streaming trailers-only) on one connection; every handler returns the status
   (code, "stress", no details).  The observation is the number of RPCs whose client-side
   result differs from that status.  Each RPC is the same function [wire], so the model's
   count is all-or-nothing; concurrency on one HTTP/2 connection is not modelled (the
   property has no schedule-dependent sentence: every RPC must see its handler's status). *)
Definition stress_msg : bstr := Eval vm_compute in s2l "stress".
Definition decode_stress (w : word) : option (Z * Z * Z) :=
  match w with
  | [2; g; n; code] =>
    if (g <? 0) || (n <? 0) || (code <? 1) || (code >? max_u32) then None else Some (g, n, code)
  | _ => None
  end.
Definition stress_bad (g n code : Z) : Z :=
  let s := mkst code stress_msg [] in
  if word_eqb (obs_of (wire s)) (obs_of (expected s)) then 0 else g * n.

Definition run_op (w : word) : option word :=
  match decode_op w with
  | Some s => Some (obs_of (wire s))
  | None => match decode_stress w with
            | Some (g, n, code) => Some [stress_bad g n code]
            | None => None
            end
  end.
Fixpoint run (ops : list word) : option (list word) :=
  match ops with
  | [] => Some []
  | w :: r => match run_op w, run r with
              | Some o, Some os => Some (o :: os)
              | _, _ => None
              end
  end.

(* clause ids:
   1  the client observes the handler's status: nil error iff the code is 0; otherwise the
      same code, the message with invalid UTF-8 replaced by U+FFFD, the same details
   97 clause 1 for a code above 2^31-1 (known finding)
   98 clause 1 for a status with details whose message or a type_url is not valid UTF-8
      (known finding)
   2  a non-OK status never becomes a nil error, a nil handler error stays nil
   4  stress: every one of g*n concurrent RPCs returned its handler's (non-OK) status
   0  malformed case *)
Definition clause_op (i : Z) (w obs : word) : list (Z * Z * bool) :=
  match decode_op w with
  | None => match decode_stress w with
            | Some (g, n, code) =>
              [(if code >? max_i32 then 97 else 4, i, match obs with [bad] => bad =? 0 | _ => false end)]
            | None => [(0, i, false)]
            end
  | Some s =>
    [(2, i, match obs with isnil :: _ => isnil =? b2z (h_code s =? 0) | [] => false end);
     (if h_code s >? max_i32 then 97
      else if negb (h_code s =? 0) && match h_details s with [] => false | _ => negb (marshalable s) end then 98
      else 1, i, word_eqb obs (obs_of (expected s)))]
  end.
Fixpoint clauses_from (i : Z) (ops obs : list word) : list (Z * Z * bool) :=
  match ops, obs with
  | w :: r, ob :: r' => clause_op i w ob ++ clauses_from (i + 1) r r'
  | [], [] => []
  | _, _ => [(0, i, false)]
  end.
Definition clauses (ops obs : list word) : list (Z * Z * bool) := clauses_from 0 ops obs.
Definition holds_b (ops obs : list word) : bool := forallb (fun c => snd c) (clauses ops obs).
Definition check_case (c : case) : verdict :=
  decide (run (c_ops c)) (c_obs c) (clauses (c_ops c) (c_obs c)).
