(* C21: effective message size limits.
   Transcribes getMaxSize / minPointers (service_config.go), the way call options are
   applied in newClientStreamWithParams (dial-time default call options first, then the
   per-call options: the last MaxCallSendMsgSize / MaxCallRecvMsgSize wins), the send
   checks of clientStream.SendMsg and serverStream.SendMsg (payloadLen > max, stream.go),
   and the receive checks of parser.recvMsg and decompress (rpc_util.go) for an
   encoding.Compressor.  One unary exchange is modelled end to end.
   The test compressor maps a message of n > 0 equal bytes to 10 bytes and any other
   non-empty message of n bytes to n + 1 bytes; empty messages are never compressed
   (rpc_util.go compress).  No proofs here. *)
From Coq Require Import List ZArith Bool.
From VLib Require Import Codec.
Import ListNotations.
Open Scope Z_scope.

Definition defaultClientMaxSend : Z := 2147483647.      (* math.MaxInt32 *)
Definition defaultClientMaxRecv : Z := 4194304.         (* 4 MiB *)
Definition defaultServerMaxSend : Z := 2147483647.
Definition defaultServerMaxRecv : Z := 4194304.

Definition minPointers (a b : Z) : Z := if a <? b then a else b.

Definition getMaxSize (mc dopt : option Z) (def : Z) : Z :=
  match mc, dopt with
  | None, None => def
  | Some a, Some b => minPointers a b
  | Some a, None => a
  | None, Some b => b
  end.

(* opts = combine(cc.dopts.callOptions, opts); each option's before() overwrites the
   pointer in callInfo: the per-call option, when given, replaces the dial-time default *)
Definition apply_opts (dial call : option Z) : option Z :=
  match call with Some c => Some c | None => dial end.

Definition client_limit (sc dial call : option Z) (def : Z) : Z :=
  getMaxSize sc (apply_opts dial call) def.

(* serverOptions: default unless the option is given *)
Definition server_limit (o : option Z) (def : Z) : Z :=
  match o with Some v => v | None => def end.

(* a message of n bytes; pat = 0: all bytes equal, else bytes i mod 251 *)
Definition uniform (n pat : Z) : bool := (pat =? 0) || (n <=? 1).

(* length of the payload put on the wire (after compression when a compressor is used) *)
Definition payload_len (comp : bool) (n pat : Z) : Z :=
  if comp && (0 <? n) then (if uniform n pat then 10 else n + 1) else n.

(* SendMsg: payloadLen > max -> RESOURCE_EXHAUSTED, nothing written *)
Definition send_fails (comp : bool) (n pat limit : Z) : bool := payload_len comp n pat >? limit.

(* recvMsg: wire length > max; decompress: decompressed length > max *)
Definition recv_fails (comp : bool) (n pat limit : Z) : bool :=
  (payload_len comp n pat >? limit) || (comp && (0 <? n) && (n >? limit)).

Record rpccfg := mkcfg {
  sc_req : option Z; sc_resp : option Z;          (* service config maxRequest/ResponseMessageBytes *)
  dial_send : option Z; dial_recv : option Z;     (* WithDefaultCallOptions(MaxCall..MsgSize) *)
  call_send : option Z; call_recv : option Z;     (* per-call MaxCallSendMsgSize / MaxCallRecvMsgSize *)
  srv_recv : option Z; srv_send : option Z;       (* grpc.MaxRecvMsgSize / grpc.MaxSendMsgSize *)
  comp : bool;                                    (* the client uses the compressor (the server answers with it) *)
  n_req : Z; pat_req : Z; n_resp : Z; pat_resp : Z }.

Definition eff_send (c : rpccfg) : Z := client_limit (sc_req c) (dial_send c) (call_send c) defaultClientMaxSend.
Definition eff_recv (c : rpccfg) : Z := client_limit (sc_resp c) (dial_recv c) (call_recv c) defaultClientMaxRecv.
Definition eff_srv_recv (c : rpccfg) : Z := server_limit (srv_recv c) defaultServerMaxRecv.
Definition eff_srv_send (c : rpccfg) : Z := server_limit (srv_send c) defaultServerMaxSend.

(* outcome of the exchange:
   code          status seen by the client (0 OK, 8 RESOURCE_EXHAUSTED)
   srv_got       the server handler's RecvMsg delivered the request
   srv_recv_exh  the server handler's RecvMsg failed with RESOURCE_EXHAUSTED
   srv_sent      the server handler's SendMsg succeeded
   srv_send_exh  the server handler's SendMsg failed with RESOURCE_EXHAUSTED
   cli_got       the client's RecvMsg delivered the response *)
Record outcome := mkout { code : Z; srv_got : bool; srv_recv_exh : bool; srv_sent : bool;
                          srv_send_exh : bool; cli_got : bool }.

Definition exchange (c : rpccfg) : outcome :=
  if send_fails (comp c) (n_req c) (pat_req c) (eff_send c) then mkout 8 false false false false false else
  if recv_fails (comp c) (n_req c) (pat_req c) (eff_srv_recv c) then mkout 8 false true false false false else
  if send_fails (comp c) (n_resp c) (pat_resp c) (eff_srv_send c) then mkout 8 true false false true false else
  if recv_fails (comp c) (n_resp c) (pat_resp c) (eff_recv c) then mkout 8 true false true false false else
  mkout 0 true false true false true.

(* ---- codec ---- *)

Definition get_opt (s v : Z) : option Z := if s =? 0 then None else Some v.

(* op [1; mset; m; dset; d; def]          getMaxSize(mc, dopt, def) called directly
   op [2; 8 x (set, value); comp; n_req; pat_req; n_resp; pat_resp; prep_req; prep_resp]
                                          one unary exchange; prep_req / prep_resp = 1: the
                                          client / the server passes the message to SendMsg as a
                                          *PreparedMsg (pre-encoded by PreparedMsg.Encode): prepareMsg
                                          hands back the same payload and SendMsg applies the same
                                          check, so the outcome does not depend on these flags
   obs op1 = [result]
   obs op2 = [eff_send; eff_recv; code; srv_got; req_intact; srv_recv_exh; srv_sent; srv_send_exh;
              cli_got; resp_intact] *)
Definition get_cfg (r : word) : option rpccfg :=
  match r with
  | [s1; v1; s2; v2; s3; v3; s4; v4; s5; v5; s6; v6; s7; v7; s8; v8; cp; nq; pq; nr; pr; _; _] =>
    if (0 <=? nq) && (0 <=? nr) then
      Some (mkcfg (get_opt s1 v1) (get_opt s2 v2) (get_opt s3 v3) (get_opt s4 v4) (get_opt s5 v5)
                  (get_opt s6 v6) (get_opt s7 v7) (get_opt s8 v8) (z2b cp) nq pq nr pr)
    else None
  | _ => None
  end.

Definition obs_of (c : rpccfg) : word :=
  let o := exchange c in
  [eff_send c; eff_recv c; code o; b2z (srv_got o); b2z (srv_got o); b2z (srv_recv_exh o);
   b2z (srv_sent o); b2z (srv_send_exh o); b2z (cli_got o); b2z (cli_got o)].

Definition run_op (op : word) : option word :=
  match op with
  | [1; ms; m; ds; d; def] => Some [getMaxSize (get_opt ms m) (get_opt ds d) def]
  | 2 :: r => match get_cfg r with Some c => Some (obs_of c) | None => None end
  | _ => None
  end.

Fixpoint run_ops (ops : list word) : option (list word) :=
  match ops with
  | [] => Some []
  | op :: r => match run_op op, run_ops r with
               | Some o, Some os => Some (o :: os)
               | _, _ => None
               end
  end.
Definition run (cfg : word) (ops : list word) : option (list word) := run_ops ops.

(* ---- the property on an observation (written with Z.min and explicit sizes, not with
   the transcribed functions) ----
   clause 1: the effective client limits are the smaller of the service-config value and the
             option value (per-call option if given, else dial-time default option), the one
             that is set if only one is, the default if none; getMaxSize direct likewise
   clause 2: request payload (post-compression) larger than the client send limit: the RPC
             fails RESOURCE_EXHAUSTED and the server never receives the request
   clause 3: a received message whose wire size or decompressed size exceeds the receiver's
             limit (server: server option / 4 MiB default; client: effective limit) fails
             RESOURCE_EXHAUSTED and is not delivered
   clause 4: everything within the limits: status OK, request and response delivered intact
   clause 5: response payload larger than the server's send limit: the server's SendMsg fails
             RESOURCE_EXHAUSTED, nothing reaches the client, the RPC fails RESOURCE_EXHAUSTED *)
Definition spec_limit (sc opt : option Z) (def : Z) : Z :=
  match sc, opt with
  | Some a, Some b => Z.min a b
  | Some a, None => a
  | None, Some b => b
  | None, None => def
  end.

Definition spec_opt (dial call : option Z) : option Z :=
  match call with Some c => Some c | None => dial end.

Definition wire_size (cp : bool) (n pat : Z) : Z :=
  if cp && (0 <? n) then (if (pat =? 0) || (n <=? 1) then 10 else n + 1) else n.

Definition too_big_recv (cp : bool) (n pat lim : Z) : bool :=
  (lim <? wire_size cp n pat) || (cp && (0 <? n) && (lim <? n)).

Definition clause_exchange (k : Z) (c : rpccfg) (o : word) : list (Z * Z * bool) :=
  match o with
  | [es; er; cd; sgot; sreq; srexh; ssent; ssexh; cgot; cresp] =>
    let ls := spec_limit (sc_req c) (spec_opt (dial_send c) (call_send c)) 2147483647 in
    let lr := spec_limit (sc_resp c) (spec_opt (dial_recv c) (call_recv c)) 4194304 in
    let lsr := match srv_recv c with Some v => v | None => 4194304 end in
    let lss := match srv_send c with Some v => v | None => 2147483647 end in
    let cp := comp c in
    (1, k, (es =? ls) && (er =? lr)) ::
    if ls <? wire_size cp (n_req c) (pat_req c) then [(2, k, (cd =? 8) && (sgot =? 0) && (cgot =? 0))] else
    if too_big_recv cp (n_req c) (pat_req c) lsr then [(3, k, (cd =? 8) && (sgot =? 0) && (srexh =? 1) && (cgot =? 0))] else
    if lss <? wire_size cp (n_resp c) (pat_resp c)
    then [(5, k, (cd =? 8) && (sgot =? 1) && (sreq =? 1) && (ssent =? 0) && (ssexh =? 1) && (cgot =? 0))] else
    if too_big_recv cp (n_resp c) (pat_resp c) lr then [(3, k, (cd =? 8) && (sgot =? 1) && (sreq =? 1) && (cgot =? 0))] else
    [(4, k, (cd =? 0) && (sgot =? 1) && (sreq =? 1) && (ssent =? 1) && (cgot =? 1) && (cresp =? 1))]
  | _ => [(0, k, false)]
  end.

Definition clause_op (k : Z) (op o : word) : list (Z * Z * bool) :=
  match op with
  | [1; ms; m; ds; d; def] =>
    match o with
    | [v] => [(1, k, v =? spec_limit (get_opt ms m) (get_opt ds d) def)]
    | _ => [(0, k, false)]
    end
  | 2 :: r => match get_cfg r with Some c => clause_exchange k c o | None => [(0, k, false)] end
  | _ => [(0, k, false)]
  end.

Fixpoint clauses_from (k : Z) (ops obs : list word) : list (Z * Z * bool) :=
  match ops, obs with
  | op :: r, o :: r' => clause_op k op o ++ clauses_from (k + 1) r r'
  | [], [] => []
  | _, _ => [(0, k, false)]
  end.
Definition clauses (cfg : word) (ops obs : list word) : list (Z * Z * bool) := clauses_from 0 ops obs.

Definition holds_b (cfg : word) (ops obs : list word) : bool :=
  forallb (fun c => snd c) (clauses cfg ops obs).

Definition check_case (c : case) : verdict :=
  decide (run (c_cfg c) (c_ops c)) (c_obs c) (clauses (c_cfg c) (c_ops c) (c_obs c)).
