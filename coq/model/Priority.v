(* C39: priority LB policy failover.
   Transcribes internal/xds/balancer/priority: balancer.go (UpdateClientConnState, Close,
   run), balancer_priority.go (syncPriority, switchToChild,
   stopSubBalancersLowerThanPriority, handleChildStateUpdate) and balancer_child.go
   (start, stop, startInitTimer / timer callback).
   Child names are integers 0..K-1 (K = cfg[0]); "" is -1.  Connectivity states:
   0 IDLE, 1 CONNECTING, 2 READY, 3 TRANSIENT_FAILURE.  Picker ids: 0 = the
   ErrNoSubConnAvailable placeholder of a child that is not started, -1 =
   ErrAllPrioritiesRemoved, -4 = the error picker of a child whose UpdateClientConnState
   failed, anything else = the id a stub child attached.  Time is in
   units of one second; DefaultPriorityInitTimeout = 10 units.  The balancer group's
   sub-balancer cache is disabled (SubBalancerCloseTimeout = 0), so stop() closes the
   child policy at once and "built" = started.  No proofs here. *)
From Coq Require Import List ZArith Bool.
From VLib Require Import Codec Machine.
Import ListNotations.
Open Scope Z_scope.

Definition IDLE : Z := 0.
Definition CONNECTING : Z := 1.
Definition READY : Z := 2.
Definition TF : Z := 3.
Definition initTimeout : Z := 10.

Record child := mkchild {
  started : bool;
  cstate : Z;            (* child.state.ConnectivityState *)
  picker : Z;            (* child.state.Picker *)
  tf : bool;             (* reportedTF *)
  timer : option Z;      (* initTimer: deadline when running *)
  btype : Z              (* balancerName *)
}.

Record state := mkst {
  now : Z;
  closed : bool;
  inuse : Z;                      (* childInUse *)
  prios : list Z;                 (* priorities *)
  children : Z -> option child;   (* children *)
  parent : Z * Z;                 (* last balancer.State given to the parent ClientConn *)
  out : list Z                    (* parent updates of the current op: s1 p1 s2 p2 ... *)
}.

Definition init : state := mkst 0 false (-1) [] (fun _ => None) (-1, -2) [].

Definition set_children (st : state) (ch : Z -> option child) : state :=
  mkst (now st) (closed st) (inuse st) (prios st) ch (parent st) (out st).
Definition set_inuse (st : state) (n : Z) : state :=
  mkst (now st) (closed st) n (prios st) (children st) (parent st) (out st).
Definition upd (ch : Z -> option child) (n : Z) (c : child) : Z -> option child :=
  fun m => if m =? n then Some c else ch m.

(* b.cc.UpdateState(child.state) *)
Definition emit (st : state) (s p : Z) : state :=
  mkst (now st) (closed st) (inuse st) (prios st) (children st) (s, p) (out st ++ [s; p]).

(* newChildBalancer *)
Definition fresh (ty : Z) : child := mkchild false CONNECTING 0 false None ty.

(* childBalancer.stop *)
Definition stop_child (c : child) : child :=
  if started c then mkchild false CONNECTING 0 false None (btype c) else c.

(* childBalancer.startInitTimer *)
Definition start_timer (t : Z) (c : child) : child :=
  match timer c with
  | Some _ => c
  | None => mkchild (started c) (cstate c) (picker c) (tf c) (Some (t + initTimeout)) (btype c)
  end.

(* policy types 2 and 3 reject the first UpdateClientConnState after they are built *)
Definition fails (c : child) : bool := 2 <=? btype c.

(* childBalancer.start.  If sendUpdate fails (policy type >= 2) the child reports
   TRANSIENT_FAILURE with an error picker (id -4) through handleChildStateUpdate: state TF,
   reportedTF, init timer stopped; the nested syncPriority is in sync_scan. *)
Definition start_child (t : Z) (c : child) : child :=
  if started c then c
  else if fails c then mkchild true TF (-4) true None (btype c)
  else start_timer t (mkchild true (cstate c) (picker c) (tf c) (timer c) (btype c)).

Definition mem (n : Z) (l : list Z) : bool := existsb (Z.eqb n) l.

(* stopSubBalancersLowerThanPriority(p): every child named in priorities[p+1:] is stopped
   (the loop written as one map update; stop is idempotent) *)
Definition stop_names (ch : Z -> option child) (l : list Z) : Z -> option child :=
  fun m => if mem m l then option_map stop_child (ch m) else ch m.

(* the condition of the if in syncPriority; last = (p == len(priorities)-1) *)
Definition eligible (c : child) (last : bool) : bool :=
  negb (started c) || (cstate c =? READY) || (cstate c =? IDLE) ||
  ((cstate c =? CONNECTING) && match timer c with Some _ => true | None => false end) || last.

(* switchToChild(child, p); lower = priorities[p+1:] *)
Definition switch_to (st : state) (name : Z) (lower : list Z) : state :=
  let st1 := set_children st (stop_names (children st) lower) in
  match children st1 name with
  | None => st1
  | Some c =>
    if (inuse st1 =? name) && started c then st1
    else
      let st2 := set_inuse st1 name in
      if started c then st2 else set_children st2 (upd (children st2) name (start_child (now st2) c))
  end.

(* the for loop of syncPriority over priorities[p:] *)
Fixpoint sync_scan (st : state) (updating : Z) (l : list Z) : state :=
  match l with
  | [] => st
  | name :: r =>
    match children st name with
    | None => sync_scan st updating r
    | Some c =>
      if eligible c (match r with [] => true | _ => false end) then
        let st1 := if negb (inuse st =? name) || (name =? updating)
                   then emit st (cstate c) (picker c) else st in
        let st2 := switch_to st1 name r in
        (* a start that failed ran handleChildStateUpdate -> syncPriority(name) from inside
           start(): the priorities before this one are unchanged and not eligible, this one is
           now TF, so that nested scan continues with the next priority (the last priority
           stays in use and its error picker is pushed) *)
        if negb (started c) && fails c then
          match r with
          | [] => emit st2 TF (-4)
          | _ => sync_scan st2 name r
          end
        else st2
      else sync_scan st updating r
    end
  end.

(* syncPriority(childUpdating); inhibitPickerUpdates is false whenever it is reached
   (child policies never report from inside UpdateClientConnState here) *)
Definition sync (st : state) (updating : Z) : state := sync_scan st updating (prios st).

(* handleChildStateUpdate(name, State{s, pk}) *)
Definition child_update (st : state) (name s pk : Z) : state :=
  match children st name with
  | None => st
  | Some c =>
    if negb (started c) then st else
    let c1 :=
      if (s =? READY) || (s =? IDLE) then mkchild true s pk false None (btype c)
      else if s =? TF then mkchild true s pk true None (btype c)
      else (* CONNECTING *)
        let c0 := mkchild true s pk (tf c) (timer c) (btype c) in
        if negb (tf c) && negb (cstate c =? CONNECTING) then start_timer (now st) c0 else c0 in
    sync (set_children st (upd (children st) name c1)) name
  end.

Fixpoint assoc (n : Z) (l : list (Z * Z)) : option Z :=
  match l with
  | [] => None
  | (k, v) :: r => if k =? n then Some v else assoc n r
  end.

(* UpdateClientConnState with Priorities = map fst l, Children = l (name -> policy type).
   The two loops over the children maps are written as one map comprehension: names in
   the config are created or (on a policy-type change) stopped and renamed, all other
   children are stopped and deleted. *)
Definition config (st : state) (l : list (Z * Z)) : state :=
  let ch := fun m =>
    match assoc m l with
    | None => None
    | Some ty =>
      match children st m with
      | None => Some (fresh ty)
      | Some c =>
        if btype c =? ty then Some c
        else let c' := stop_child c in
             Some (mkchild (started c') (cstate c') (picker c') (tf c') (timer c') ty)
      end
    end in
  let st1 := mkst (now st) (closed st) (inuse st) (map fst l) ch (parent st) (out st) in
  match l with
  | [] => emit (set_inuse st1 (-1)) TF (-1)
  | _ => sync st1 (inuse st1)          (* resumePickerUpdates in run() *)
  end.

(* the AfterFunc callbacks whose deadline is the current instant *)
Fixpoint fire_all (st : state) (names : list Z) : state :=
  match names with
  | [] => st
  | n :: r =>
    let st' :=
      match children st n with
      | Some c =>
        match timer c with
        | Some d =>
          if d =? now st then
            sync (set_children st (upd (children st) n
                   (mkchild (started c) (cstate c) (picker c) (tf c) None (btype c)))) (-1)
          else st
        | None => st
        end
      | None => st
      end in
    fire_all st' r
  end.

Definition tick (st : state) : state :=
  let st1 := mkst (now st + 1) (closed st) (inuse st) (prios st) (children st) (parent st) (out st) in
  fire_all st1 (prios st1).

Fixpoint sleep (d : nat) (st : state) : state :=
  match d with O => st | S d' => sleep d' (tick st) end.

(* Close *)
Definition close (st : state) : state :=
  mkst (now st) true (-1) (prios st) (stop_names (children st) (prios st)) (parent st) (out st).

Fixpoint pairs (w : list Z) : option (list (Z * Z)) :=
  match w with
  | [] => Some []
  | a :: b :: r => match pairs r with Some l => Some ((a, b) :: l) | None => None end
  | _ => None
  end.

Fixpoint nodup_b (l : list Z) : bool :=
  match l with [] => true | x :: r => negb (mem x r) && nodup_b r end.

Definition valid_config (K : Z) (l : list (Z * Z)) : bool :=
  forallb (fun p => (0 <=? fst p) && (fst p <? K) && (0 <=? snd p) && (snd p <=? 3)) l &&
  nodup_b (map fst l).

(* ops  [1; n1; t1; n2; t2; ...]  UpdateClientConnState, priorities n1 n2 ... with policy types
        [2; n; s; pk]             the (built) child policy n reports State{s, picker pk}
        [3; d]                    d seconds pass
        [4]                       Close
   anything malformed, and everything after Close, is a no-op *)
Definition step (K : Z) (st : state) (op : word) : state :=
  let st0 := mkst (now st) (closed st) (inuse st) (prios st) (children st) (parent st) [] in
  if closed st then st0 else
  match op with
  | 1 :: r =>
    match pairs r with
    | Some l => if valid_config K l then config st0 l else st0
    | None => st0
    end
  | [2; n; s; pk] => if (0 <=? s) && (s <=? 3) then child_update st0 n s pk else st0
  | [3; d] => if (0 <=? d) && (d <=? 30) then sleep (Z.to_nat d) st0 else st0
  | [4] => close st0
  | _ => st0
  end.

Definition names (K : Z) : list Z := map Z.of_nat (seq 0 (Z.to_nat K)).

Definition is_started (st : state) (n : Z) : bool :=
  match children st n with Some c => started c | None => false end.

(* obs of one op: [parent state; parent picker; built_0 .. built_{K-1}; updates of this op] *)
Definition obs_of (K : Z) (st : state) : word :=
  fst (parent st) :: snd (parent st) :: map (fun n => b2z (is_started st n)) (names K) ++ out st.

Fixpoint run_from (K : Z) (st : state) (ops : list word) : list word :=
  match ops with
  | [] => []
  | op :: r => let st' := step K st op in obs_of K st' :: run_from K st' r
  end.

Definition cfg_K (cfg : word) : option Z :=
  match cfg with
  | [K] => if (1 <=? K) && (K <=? 16) then Some K else None
  | _ => None
  end.

Definition run (cfg : word) (ops : list word) : option (list word) :=
  match cfg_K cfg with Some K => Some (run_from K init ops) | None => None end.

Fixpoint final (K : Z) (st : state) (ops : list word) : state :=
  match ops with [] => st | op :: r => final K (step K st op) r end.

(* ---- the property as a computable predicate ---- *)

(* READY or IDLE, or CONNECTING with the init timer still running *)
Definition good (c : child) : bool :=
  (cstate c =? READY) || (cstate c =? IDLE) ||
  ((cstate c =? CONNECTING) && match timer c with Some _ => true | None => false end).

(* failed (TRANSIENT_FAILURE) or timed out (CONNECTING, init timer gone) *)
Definition failed (c : child) : bool := started c && negb (good c).

(* the child the property says must be in use: first good one, else the lowest *)
Fixpoint best (ch : Z -> option child) (l : list Z) : option Z :=
  match l with
  | [] => None
  | [x] => Some x
  | x :: r => match ch x with
              | Some c => if good c then Some x else best ch r
              | None => best ch r
              end
  end.

(* names strictly before / after n in l *)
Fixpoint before (n : Z) (l : list Z) : list Z :=
  match l with [] => [] | x :: r => if x =? n then [] else x :: before n r end.
Fixpoint after (n : Z) (l : list Z) : list Z :=
  match l with [] => [] | x :: r => if x =? n then r else after n r end.

Definition live_bit (K : Z) (o : word) (n : Z) : Z :=
  if (0 <=? n) && (n <? K) then nth (Z.to_nat n) (skipn 2 o) 0 else 0.

(* clause 1: the parent's current picker/state is that of the best child
   clause 2: the built children are exactly the priorities down to the best child
   clause 3: after a built child reports READY no lower priority is built
   clause 4: a child that became built in this op has only failed / timed-out children above it *)
Definition clause_op (K : Z) (st st' : state) (prev : word) (op o : word) (i : Z)
  : list (Z * Z * bool) :=
  if (Z.of_nat (length o) <? 2 + K) then [(0, i, false)] else
  if closed st' then
    [(2, i, forallb (fun n => live_bit K o n =? 0) (names K))]
  else
  match best (children st') (prios st') with
  | None => [(2, i, forallb (fun n => live_bit K o n =? 0) (names K))]
  | Some b =>
    [ (1, i, match children st' b with
             | Some c => (nth 0 o 0 =? cstate c) && (nth 1 o 0 =? picker c)
             | None => false
             end);
      (2, i, forallb (fun n => live_bit K o n =?
                               b2z (mem n (before b (prios st')) || (n =? b))) (names K));
      (3, i, match op with
             | [2; n; s; _] =>
               if (s =? READY) && (live_bit K prev n =? 1) && mem n (prios st') then
                 forallb (fun m => live_bit K o m =? 0) (after n (prios st'))
               else true
             | _ => true
             end);
      (4, i, forallb (fun n =>
               if (live_bit K o n =? 1) && (live_bit K prev n =? 0) then
                 forallb (fun m => match children st' m with
                                   | Some c => failed c
                                   | None => false
                                   end) (before n (prios st'))
               else true) (names K)) ]
  end.

Fixpoint clauses_from (K : Z) (st : state) (prev : word) (i : Z) (ops obs : list word)
  : list (Z * Z * bool) :=
  match ops, obs with
  | op :: r, o :: r' =>
    let st' := step K st op in
    clause_op K st st' prev op o i ++ clauses_from K st' o (i + 1) r r'
  | [], [] => []
  | _, _ => [(0, i, false)]
  end.

Definition clauses (cfg : word) (ops obs : list word) : list (Z * Z * bool) :=
  match cfg_K cfg with
  | Some K => clauses_from K init (obs_of K init) 0 ops obs
  | None => [(0, 0, false)]
  end.

Definition holds_b (cfg : word) (ops obs : list word) : bool :=
  forallb (fun c => snd c) (clauses cfg ops obs).

Definition check_case (c : case) : verdict :=
  decide (run (c_cfg c) (c_ops c)) (c_obs c) (clauses (c_cfg c) (c_ops c) (c_obs c)).


(* ==== the same machine without rejecting child policies (policy types 0 and 1 only) ====
   These are the definitions above with start_child never failing (so sync_scan has no
   nested-scan branch).  proof/Priority_proofs.v proves that on histories whose config
   updates use only policy types 0 and 1 (no_failing_types) the two machines coincide; the
   theorems are proved on this one and transported. *)
(* childBalancer.start (sendUpdate to a stub child never fails) *)
Definition start_child_nf (t : Z) (c : child) : child :=
  if started c then c
  else start_timer t (mkchild true (cstate c) (picker c) (tf c) (timer c) (btype c)).

(* switchToChild(child, p); lower = priorities[p+1:] *)
Definition switch_to_nf (st : state) (name : Z) (lower : list Z) : state :=
  let st1 := set_children st (stop_names (children st) lower) in
  match children st1 name with
  | None => st1
  | Some c =>
    if (inuse st1 =? name) && started c then st1
    else
      let st2 := set_inuse st1 name in
      if started c then st2 else set_children st2 (upd (children st2) name (start_child_nf (now st2) c))
  end.

(* the for loop of syncPriority over priorities[p:] *)
Fixpoint sync_scan_nf (st : state) (updating : Z) (l : list Z) : state :=
  match l with
  | [] => st
  | name :: r =>
    match children st name with
    | None => sync_scan_nf st updating r
    | Some c =>
      if eligible c (match r with [] => true | _ => false end) then
        let st1 := if negb (inuse st =? name) || (name =? updating)
                   then emit st (cstate c) (picker c) else st in
        switch_to_nf st1 name r
      else sync_scan_nf st updating r
    end
  end.

(* syncPriority(childUpdating); inhibitPickerUpdates is false whenever it is reached
   (child policies never report from inside UpdateClientConnState here) *)
Definition sync_nf (st : state) (updating : Z) : state := sync_scan_nf st updating (prios st).

(* handleChildStateUpdate(name, State{s, pk}) *)
Definition child_update_nf (st : state) (name s pk : Z) : state :=
  match children st name with
  | None => st
  | Some c =>
    if negb (started c) then st else
    let c1 :=
      if (s =? READY) || (s =? IDLE) then mkchild true s pk false None (btype c)
      else if s =? TF then mkchild true s pk true None (btype c)
      else (* CONNECTING *)
        let c0 := mkchild true s pk (tf c) (timer c) (btype c) in
        if negb (tf c) && negb (cstate c =? CONNECTING) then start_timer (now st) c0 else c0 in
    sync_nf (set_children st (upd (children st) name c1)) name
  end.

(* UpdateClientConnState with Priorities = map fst l, Children = l (name -> policy type).
   The two loops over the children maps are written as one map comprehension: names in
   the config are created or (on a policy-type change) stopped and renamed, all other
   children are stopped and deleted. *)
Definition config_nf (st : state) (l : list (Z * Z)) : state :=
  let ch := fun m =>
    match assoc m l with
    | None => None
    | Some ty =>
      match children st m with
      | None => Some (fresh ty)
      | Some c =>
        if btype c =? ty then Some c
        else let c' := stop_child c in
             Some (mkchild (started c') (cstate c') (picker c') (tf c') (timer c') ty)
      end
    end in
  let st1 := mkst (now st) (closed st) (inuse st) (map fst l) ch (parent st) (out st) in
  match l with
  | [] => emit (set_inuse st1 (-1)) TF (-1)
  | _ => sync_nf st1 (inuse st1)          (* resumePickerUpdates in run() *)
  end.

(* the AfterFunc callbacks whose deadline is the current instant *)
Fixpoint fire_all_nf (st : state) (names : list Z) : state :=
  match names with
  | [] => st
  | n :: r =>
    let st' :=
      match children st n with
      | Some c =>
        match timer c with
        | Some d =>
          if d =? now st then
            sync_nf (set_children st (upd (children st) n
                   (mkchild (started c) (cstate c) (picker c) (tf c) None (btype c)))) (-1)
          else st
        | None => st
        end
      | None => st
      end in
    fire_all_nf st' r
  end.

Definition tick_nf (st : state) : state :=
  let st1 := mkst (now st + 1) (closed st) (inuse st) (prios st) (children st) (parent st) (out st) in
  fire_all_nf st1 (prios st1).

Fixpoint sleep_nf (d : nat) (st : state) : state :=
  match d with O => st | S d' => sleep_nf d' (tick_nf st) end.

Definition valid_config_nf (K : Z) (l : list (Z * Z)) : bool :=
  forallb (fun p => (0 <=? fst p) && (fst p <? K) && ((snd p =? 0) || (snd p =? 1))) l &&
  nodup_b (map fst l).

(* ops  [1; n1; t1; n2; t2; ...]  UpdateClientConnState, priorities n1 n2 ... with policy types
        [2; n; s; pk]             the (built) child policy n reports State{s, picker pk}
        [3; d]                    d seconds pass
        [4]                       Close
   anything malformed, and everything after Close, is a no-op *)
Definition step_nf (K : Z) (st : state) (op : word) : state :=
  let st0 := mkst (now st) (closed st) (inuse st) (prios st) (children st) (parent st) [] in
  if closed st then st0 else
  match op with
  | 1 :: r =>
    match pairs r with
    | Some l => if valid_config_nf K l then config_nf st0 l else st0
    | None => st0
    end
  | [2; n; s; pk] => if (0 <=? s) && (s <=? 3) then child_update_nf st0 n s pk else st0
  | [3; d] => if (0 <=? d) && (d <=? 30) then sleep_nf (Z.to_nat d) st0 else st0
  | [4] => close st0
  | _ => st0
  end.

Fixpoint run_from_nf (K : Z) (st : state) (ops : list word) : list word :=
  match ops with
  | [] => []
  | op :: r => let st' := step_nf K st op in obs_of K st' :: run_from_nf K st' r
  end.

Definition run_nf (cfg : word) (ops : list word) : option (list word) :=
  match cfg_K cfg with Some K => Some (run_from_nf K init ops) | None => None end.

Fixpoint final_nf (K : Z) (st : state) (ops : list word) : state :=
  match ops with [] => st | op :: r => final_nf K (step_nf K st op) r end.

Fixpoint clauses_from_nf (K : Z) (st : state) (prev : word) (i : Z) (ops obs : list word)
  : list (Z * Z * bool) :=
  match ops, obs with
  | op :: r, o :: r' =>
    let st' := step_nf K st op in
    clause_op K st st' prev op o i ++ clauses_from_nf K st' o (i + 1) r r'
  | [], [] => []
  | _, _ => [(0, i, false)]
  end.

Definition clauses_nf (cfg : word) (ops obs : list word) : list (Z * Z * bool) :=
  match cfg_K cfg with
  | Some K => clauses_from_nf K init (obs_of K init) 0 ops obs
  | None => [(0, 0, false)]
  end.

Definition holds_b_nf (cfg : word) (ops obs : list word) : bool :=
  forallb (fun c => snd c) (clauses_nf cfg ops obs).


(* no config update of the history names a rejecting policy type (2 or 3) *)
Definition op_nf (op : word) : bool :=
  match op with
  | 1 :: r => match pairs r with
              | Some l => forallb (fun p => snd p <? 2) l
              | None => true
              end
  | _ => true
  end.
Definition no_failing_types (ops : list word) : bool := forallb op_nf ops.
