(* C46: xDS routing: virtual host choice, route matching, runtime fraction,
   weighted cluster pick and request hash.
   Transcribes
     internal/xds/xdsclient/xdsresource/matcher.go   (matchTypeForDomain, match,
        FindBestMatchingVirtualHost, RouteToMatcher, CompositeMatcher.Match,
        fractionMatcher.match)
     internal/xds/xdsclient/xdsresource/matcher_path.go (exact / prefix path matchers)
     internal/xds/matcher/matcher_header.go (valueFromMD, present / string matchers,
        without ignore_case: that is C47)
     internal/xds/resolver/serviceconfig.go (configSelector.SelectConfig, generateHash)
     internal/xds/resolver/xds_resolver.go (newConfigSelector: clusters.Add in order)
     internal/wrr/random.go (randomWRR.Add / Next)
   Strings are byte lists.  xxhash is an argument [H].  No proofs here. *)
From Coq Require Import List ZArith Bool.
From VLib Require Import Codec Machine.
From VModel Require Matchers.
Import ListNotations.
Open Scope Z_scope.

Definition str := list Z.
Definition str_eqb : str -> str -> bool := word_eqb.
Definition slen (s : str) : Z := Z.of_nat (length s).

Fixpoint prefixb (p s : str) : bool :=
  match p, s with
  | [], _ => true
  | x :: p', y :: s' => (x =? y) && prefixb p' s'
  | _ :: _, [] => false
  end.
Definition suffixb (p s : str) : bool := prefixb (rev p) (rev s).
Fixpoint containsb (p s : str) : bool :=
  prefixb p s || match s with [] => false | _ :: s' => containsb p s' end.

(* strings.ToUpper on ASCII input *)
Definition up1 (c : Z) : Z := if (97 <=? c) && (c <=? 122) then c - 32 else c.
Definition upper (s : str) : str := map up1 s.

(* ------------------------------------------------------------------ *)
(* virtual host choice                                                  *)

Definition star : Z := 42.
(* domainMatchType: 0 invalid, 1 universal, 2 prefix, 3 suffix, 4 exact *)
Definition mtype (d : str) : Z :=
  match d with
  | [] => 0
  | c :: r =>
    if (c =? star) && (match r with [] => true | _ => false end) then 1 else
    if c =? star then 3 else
    if last d 0 =? star then 2 else
    if existsb (Z.eqb star) d then 0 else 4
  end.

(* match(domain, host): the boolean result *)
Definition dmatch (d host : str) : bool :=
  let t := mtype d in
  if t =? 1 then true else
  if t =? 2 then prefixb (removelast d) host else
  if t =? 3 then suffixb (tl d) host else
  if t =? 4 then str_eqb d host else false.

(* the two nested range loops visit the (virtual host index, domain) pairs in this order *)
Fixpoint flat_from (i : Z) (vhs : list (list str)) : list (Z * str) :=
  match vhs with
  | [] => []
  | ds :: r => map (pair i) ds ++ flat_from (i + 1) r
  end.

(* loop state: matchVh (None = nil), matchType, matchLen; result None = nil *)
Fixpoint vh_loop (host : str) (l : list (Z * str)) (mv : option Z) (mt ml : Z) : option Z :=
  match l with
  | [] => mv
  | (i, d) :: r =>
    let typ := mtype d in
    if typ =? 0 then None else
    if (mt >? typ) || ((mt =? typ) && (ml >=? slen d)) || negb (dmatch d host)
    then vh_loop host r mv mt ml
    else vh_loop host r (Some i) typ (slen d)
  end.

Definition find_best (host : str) (vhs : list (list str)) : option Z :=
  vh_loop host (flat_from 0 vhs) None 0 0.

(* the property's order as an independent (quadratic) checker *)
Definition key_le (a b : str) : bool :=
  (mtype a <? mtype b) || ((mtype a =? mtype b) && (slen a <=? slen b)).
Definition is_best (host : str) (fl : list (Z * str)) (d : str) : bool :=
  forallb (fun e => negb (dmatch (snd e) host) || key_le (snd e) d) fl.
Definition vhost_ref (host : str) (vhs : list (list str)) : option Z :=
  let fl := flat_from 0 vhs in
  if existsb (fun e => mtype (snd e) =? 0) fl then None else
  match find (fun e => dmatch (snd e) host && is_best host fl (snd e)) fl with
  | Some (i, _) => Some i
  | None => None
  end.

(* ------------------------------------------------------------------ *)
(* metadata: list of (key, value) in append order                      *)

Definition md := list (str * str).
Definition vals (m : md) (k : str) : list str :=
  map snd (filter (fun kv => str_eqb (fst kv) k) m).
Definition comma : Z := 44.
Fixpoint join (vs : list str) : str :=
  match vs with
  | [] => []
  | [v] => v
  | v :: r => v ++ comma :: join r
  end.
(* valueFromMD *)
Definition value_from (m : md) (k : str) : option str :=
  match vals m k with [] => None | vs => Some (join vs) end.

(* header matchers are those of C47 (coq/model/Matchers.v), evaluated on the metadata grouped
   by key: kind 1..4 / 7..10 string matchers exact/prefix/suffix/contains (7..10 with
   ignore_case = h_a), 5 range [h_a, h_b), 6 present (h_a), 11 regex (h_re).  RouteToMatcher
   builds them from RegexMatch / RangeMatch / PresentMatch / StringMatch. *)
Record hmatch := mkh { h_kind : Z; h_inv : bool; h_a : Z; h_b : Z; h_name : str; h_arg : str;
                       h_re : Matchers.re }.

Definition to_mdt (m : md) : Matchers.mdt :=
  fold_left (fun acc kv => Matchers.md_add acc (fst kv) (snd kv)) m [].

Definition hdr_match (h : hmatch) (m : md) : bool :=
  if h_kind h =? 11 then Matchers.hdr_regex_eval (h_inv h) (h_name h) (h_re h) (to_mdt m)
  else Matchers.hdr_eval Matchers.tl true (h_kind h) (h_inv h) (h_a h) (h_b h) (h_name h) (h_arg h) (to_mdt m).

(* hash policies: p_chan = false: HEADER, true: CHANNEL_ID; p_re = Some (regex, substitution) *)
Record hpol := mkp { p_chan : bool; p_term : bool; p_name : str; p_re : option (str * str) }.

(* routes. r_pkind 1 exact, 2 regex (r_re), otherwise prefix; r_action = RouteActionType
   (1 = RouteActionRoute); r_plugin <> [] = the route names a cluster specifier plugin *)
Record route := mkr {
  r_pkind : Z; r_ci : bool; r_path : str; r_re : Matchers.re; r_frac : option Z; r_action : Z;
  r_hdrs : list hmatch; r_ws : list Z; r_pols : list hpol; r_plugin : str }.

Definition path_match (r : route) (method : str) : bool :=
  if r_pkind r =? 2 then Matchers.rmatch (r_re r) method else
  let p := if r_ci r then upper (r_path r) else r_path r in
  let s := if r_ci r then upper method else method in
  if r_pkind r =? 1 then str_eqb p s else prefixb p s.

(* fractionMatcher.match with the draw t = RandInt64n(1000000) *)
Definition frac_match (f t : Z) : bool := t <=? f.
(* what the property asks for: f of the million draws *)
Definition frac_spec (f t : Z) : bool := t <? f.

Definition route_match_with (fm : Z -> Z -> bool) (r : route) (method : str) (m : md) (t : Z) : bool :=
  path_match r method && forallb (fun h => hdr_match h m) (r_hdrs r) &&
  match r_frac r with None => true | Some f => fm f t end.
Definition route_match := route_match_with frac_match.

Fixpoint first_match_from (fm : Z -> Z -> bool) (i : Z) (rs : list route) (method : str) (m : md) (t : Z)
  : option (Z * route) :=
  match rs with
  | [] => None
  | r :: rest => if route_match_with fm r method m t then Some (i, r)
                 else first_match_from fm (i + 1) rest method m t
  end.
Definition first_match := first_match_from frac_match 0.

(* ------------------------------------------------------------------ *)
(* internal/wrr/random.go                                               *)

Fixpoint eqw (ws : list Z) : bool :=
  match ws with
  | a :: ((b :: _) as r) => (a =? b) && eqw r
  | _ => true
  end.
Definition sumw (ws : list Z) : Z := fold_right Z.add 0 ws.
(* sort.Search over ascending accumulated weights: first index with acc > r *)
Fixpoint first_gt (r acc : Z) (ws : list Z) (i : Z) : Z :=
  match ws with
  | [] => i
  | w :: rest => if acc + w >? r then i else first_gt r (acc + w) rest (i + 1)
  end.
(* Next with randInt64n(n) = w mod n *)
Definition wrr_pick (ws : list Z) (w : Z) : option Z :=
  match ws with
  | [] => None
  | _ => if eqw ws then Some (w mod slen ws)
         else Some (first_gt (w mod sumw ws) 0 ws 0)
  end.

(* ------------------------------------------------------------------ *)
(* generateHash                                                         *)

Definition rotl1 (h : Z) : Z := u64 (h * 2) + h / 2 ^ 63.
Definition dashbin : str := [45; 98; 105; 110].

Definition hash_values (m em : md) (name : str) : list str :=
  match vals em name with [] => vals m name | vs => vs end.

Section Hash.
  Variable H : str -> Z.   (* xxhash.Sum64String *)
  Variable RW : str -> str -> str -> str.   (* regexp.Compile(re).ReplaceAllString(input, subst) *)
  Definition rewrite (p : hpol) (v : str) : str :=
    match p_re p with Some (re, sub) => RW re sub v | None => v end.
  Fixpoint gh (chan : Z) (m em : md) (ps : list hpol) (hash : Z) (gen : bool) : Z * bool :=
    match ps with
    | [] => (hash, gen)
    | p :: r =>
      if p_chan p then
        let hash' := Z.lxor (rotl1 hash) chan in
        if p_term p then (hash', true) else gh chan m em r hash' true
      else if suffixb dashbin (p_name p) then gh chan m em r hash gen
      else match hash_values m em (p_name p) with
           | [] => gh chan m em r hash gen
           | vs => let hash' := Z.lxor (rotl1 hash) (H (rewrite p (join vs))) in
                   if p_term p then (hash', true) else gh chan m em r hash' true
           end
    end.
  Definition gen_hash (chan : Z) (m em : md) (ps : list hpol) : Z * bool := gh chan m em ps 0 false.
End Hash.

(* ------------------------------------------------------------------ *)
(* SelectConfig                                                         *)

(* metadata used for matching: outgoing md, joined with the extra metadata and
   stripped of "-bin" keys only when extra metadata is attached to the context *)
Definition match_md (m em : md) (has_extra : bool) : md :=
  if has_extra then filter (fun kv => negb (suffixb dashbin (fst kv))) (m ++ em) else m.

(* obs [code; route; cluster; generated; hash] ++ plugin; code 0 ok, 1 no matched route,
   2 unsupported action, 3 no cluster (Internal).  A route naming a cluster specifier plugin
   has the single "cluster" cluster_specifier_plugin:<name> (weight 1): cluster = -1 and the
   plugin name follows. *)
Definition select_with (fm : Z -> Z -> bool) (H : str -> Z) (RW : str -> str -> str -> str) (chan : Z)
           (rs : list route) (m em : md) (has_extra : bool) (method : str) (t w : Z) : word :=
  match first_match_from fm 0 rs method (match_md m em has_extra) t with
  | None => [1; 0; 0; 0; 0]
  | Some (i, r) =>
    if negb (r_action r =? 1) then [2; 0; 0; 0; 0] else
    let pick := match r_plugin r with
                | [] => match wrr_pick (r_ws r) w with Some j => Some (j, []) | None => None end
                | name => Some (-1, put_bytes name)
                end in
    match pick with
    | None => [3; 0; 0; 0; 0]
    | Some (j, tail) =>
      let '(h, g) := gen_hash H RW chan m (if has_extra then em else []) (r_pols r) in
      (if g then [0; i; j; 1; i64 h] else [0; i; j; 0; 0]) ++ tail
    end
  end.
Definition select := select_with frac_match.

(* ------------------------------------------------------------------ *)
(* the op machine                                                       *)

Record state := mkst {
  s_routes : list route; s_vhs : list (list str);
  s_md : md; s_emd : md; s_extra : bool; s_tbl : list (str * Z);
  s_rw : list (str * str * str * str) }.
Definition st0 : state := mkst [] [] [] [] false [] [].

Fixpoint rw_get (tb : list (str * str * str * str)) (re sub v : str) : str :=
  match tb with
  | [] => v
  | (re', sub', v', out) :: r =>
    if str_eqb re' re && str_eqb sub' sub && str_eqb v' v then out else rw_get r re sub v
  end.

Fixpoint tbl_get (tb : list (str * Z)) (s : str) : Z :=
  match tb with
  | [] => 0
  | (k, v) :: r => if str_eqb k s then v else tbl_get r s
  end.

Fixpoint upd_last {A} (f : A -> A) (l : list A) : list A :=
  match l with
  | [] => []
  | [x] => [f x]
  | x :: r => x :: upd_last f r
  end.

Definition get2 (l : list Z) : option (str * str) :=
  match get_bytes l with
  | Some (a, r) => match get_bytes r with Some (b, []) => Some (a, b) | _ => None end
  | None => None
  end.
Definition get1 (l : list Z) : option str :=
  match get_bytes l with Some (a, []) => Some a | _ => None end.
Definition get4 (l : list Z) : option (str * str * str * str) :=
  match get_bytes l with
  | Some (a, r) => match get_bytes r with
                   | Some (b, r2) => match get2 r2 with Some (c, d) => Some (a, b, c, d) | None => None end
                   | None => None
                   end
  | None => None
  end.

Definition million : Z := 1000000.

(* decoded operations *)
Inductive dop :=
| DRoute (pk : Z) (ci hf : bool) (f act : Z) (p : str) (re : Matchers.re)
| DHdr (h : hmatch) | DClus (w : Z) | DPol (p : hpol) | DClrR
| DPolRe (re sub : str) | DPlugin (name : str) | DRw (re sub v out : str)
| DVh | DDom (d : str) | DClrV
| DMd (k v : str) | DEmd (k v : str) | DExtra | DClrM
| DTbl (h : Z) (x : str)
| QVhost (host : str) | QFrac (f t : Z) | QSelect (t w : Z) (method : str) | QMatch (t : Z) (method : str).

Definition decode (op : word) : option dop :=
  match op with
  | 10 :: pk :: ci :: hf :: f :: act :: rest =>
    match get1 rest with Some p => Some (DRoute pk (z2b ci) (z2b hf) f act p Matchers.RNone) | None => None end
  | 9 :: hf :: f :: act :: rest =>
    match Matchers.get_re rest with Some re => Some (DRoute 2 false (z2b hf) f act [] re) | None => None end
  | 11 :: k :: inv :: a :: b :: rest =>
    match get2 rest with Some (n, arg) => Some (DHdr (mkh k (z2b inv) a b n arg Matchers.RNone)) | None => None end
  | 8 :: inv :: rest =>
    match get_bytes rest with
    | Some (n, w) => match Matchers.get_re w with
                     | Some re => Some (DHdr (mkh 11 (z2b inv) 0 0 n [] re))
                     | None => None
                     end
    | None => None
    end
  | 18 :: rest => match get2 rest with Some (re, sub) => Some (DPolRe re sub) | None => None end
  | 19 :: rest => match get1 rest with Some n => Some (DPlugin n) | None => None end
  | 25 :: rest => match get4 rest with Some (re, sub, v, out) => Some (DRw re sub v out) | None => None end
  | [12; wt] => Some (DClus wt)
  | 13 :: ty :: term :: rest =>
    match get1 rest with Some n => Some (DPol (mkp (z2b ty) (z2b term) n None)) | None => None end
  | [14] => Some DClrR
  | [15] => Some DVh
  | 16 :: rest => match get1 rest with Some d => Some (DDom d) | None => None end
  | [17] => Some DClrV
  | 20 :: rest => match get2 rest with Some (k, v) => Some (DMd k v) | None => None end
  | 21 :: rest => match get2 rest with Some (k, v) => Some (DEmd k v) | None => None end
  | [22] => Some DExtra
  | [23] => Some DClrM
  | 24 :: h :: rest => match get1 rest with Some x => Some (DTbl h x) | None => None end
  | 1 :: rest => match get1 rest with Some host => Some (QVhost host) | None => None end
  | [2; f; t] => Some (QFrac f t)
  | 3 :: t :: w :: rest => match get1 rest with Some m => Some (QSelect t w m) | None => None end
  | 4 :: t :: rest => match get1 rest with Some m => Some (QMatch t m) | None => None end
  | _ => None
  end.

Definition add_hdr (h : hmatch) (r : route) : route :=
  mkr (r_pkind r) (r_ci r) (r_path r) (r_re r) (r_frac r) (r_action r) (r_hdrs r ++ [h]) (r_ws r) (r_pols r) (r_plugin r).
Definition add_clus (w : Z) (r : route) : route :=
  mkr (r_pkind r) (r_ci r) (r_path r) (r_re r) (r_frac r) (r_action r) (r_hdrs r) (r_ws r ++ [w]) (r_pols r) (r_plugin r).
Definition add_pol (p : hpol) (r : route) : route :=
  mkr (r_pkind r) (r_ci r) (r_path r) (r_re r) (r_frac r) (r_action r) (r_hdrs r) (r_ws r) (r_pols r ++ [p]) (r_plugin r).
Definition set_pol_re (re sub : str) (r : route) : route :=
  mkr (r_pkind r) (r_ci r) (r_path r) (r_re r) (r_frac r) (r_action r) (r_hdrs r) (r_ws r)
      (upd_last (fun p => mkp (p_chan p) (p_term p) (p_name p) (Some (re, sub))) (r_pols r)) (r_plugin r).
Definition set_plugin (n : str) (r : route) : route :=
  mkr (r_pkind r) (r_ci r) (r_path r) (r_re r) (r_frac r) (r_action r) (r_hdrs r) (r_ws r) (r_pols r) n.

Definition apply (chan : Z) (s : state) (o : dop) : state * word :=
  let '(mkst rs vhs m em ex tb rw) := s in
  match o with
  | DRoute pk ci hf f act p re =>
    (mkst (rs ++ [mkr pk ci p re (if hf then Some f else None) act [] [] [] []]) vhs m em ex tb rw, [])
  | DPolRe re sub => (mkst (upd_last (set_pol_re re sub) rs) vhs m em ex tb rw, [])
  | DPlugin n => (mkst (upd_last (set_plugin n) rs) vhs m em ex tb rw, [])
  | DRw re sub v out => (mkst rs vhs m em ex tb ((re, sub, v, out) :: rw), put_bytes out)
  | DHdr h => (mkst (upd_last (add_hdr h) rs) vhs m em ex tb rw, [])
  | DClus w => (mkst (upd_last (add_clus w) rs) vhs m em ex tb rw, [])
  | DPol p => (mkst (upd_last (add_pol p) rs) vhs m em ex tb rw, [])
  | DClrR => (mkst [] vhs m em ex tb rw, [])
  | DVh => (mkst rs (vhs ++ [[]]) m em ex tb rw, [])
  | DDom d => (mkst rs (upd_last (fun ds => ds ++ [d]) vhs) m em ex tb rw, [])
  | DClrV => (mkst rs [] m em ex tb rw, [])
  | DMd k v => (mkst rs vhs (m ++ [(k, v)]) em ex tb rw, [])
  | DEmd k v => (mkst rs vhs m (em ++ [(k, v)]) true tb rw, [])
  | DExtra => (mkst rs vhs m em true tb rw, [])
  | DClrM => (mkst rs vhs [] [] false tb rw, [])
  | DTbl h x => (mkst rs vhs m em ex ((x, u64 h) :: tb) rw, [h])
  | QVhost host => (s, [match find_best host vhs with Some i => i | None => -1 end])
  | QFrac f t => (s, [b2z (frac_match f t)])
  | QSelect t w method => (s, select (tbl_get tb) (rw_get rw) (u64 chan) rs m em ex method t w)
  | QMatch t method => (s, map (fun r => b2z (route_match r method m t)) rs)
  end.

Definition step (chan : Z) (s : state) (op : word) : option (state * word) :=
  match decode op with Some o => Some (apply chan s o) | None => None end.

Fixpoint run_from (chan : Z) (s : state) (ops : list word) : option (list word) :=
  match ops with
  | [] => Some []
  | op :: r => match step chan s op with
               | Some (s', o) => match run_from chan s' r with
                                 | Some os => Some (o :: os)
                                 | None => None
                                 end
               | None => None
               end
  end.

Definition run (cfg : word) (ops : list word) : option (list word) :=
  match cfg with [chan] => run_from chan st0 ops | _ => None end.

(* ------------------------------------------------------------------ *)
(* the property on observations                                         *)
(* clause 1: the virtual host returned is the property's best match (vhost_ref)
   clause 2: the route used is the first whose path, header and fraction matchers match;
             every route's CompositeMatcher.Match equals path && headers && fraction
             (for a draw equal to a fraction either reading is accepted here, see 9)
   clause 3: the cluster is the one whose cumulative weight interval contains the draw
   clause 4: the request hash is the rotate-xor fold over the configured policy inputs
   clause 5: a fraction f matches draw t iff t < f, for t <> f
   clause 9: (known finding) a draw t = f does not match / does not decide the route *)

Definition clause_op (chan : Z) (s : state) (o : dop) (obs : word) : list (Z * Z * bool) :=
  let '(mkst rs vhs m em ex tb rw) := s in
  match o with
  | QVhost host =>
    match obs with
    | [i] => [(1, 0, match vhost_ref host vhs with Some j => i =? j | None => i =? -1 end)]
    | _ => [(1, 0, false)]
    end
  | QFrac f t =>
    match obs with
    | [b] => if t =? f then [(9, f, b =? 0)] else [(5, f, b =? b2z (frac_spec f t))]
    | _ => [(5, f, false)]
    end
  | QSelect t w method =>
    let spec := select_with frac_spec (tbl_get tb) (rw_get rw) (u64 chan) rs m em ex method t w in
    let impl := select_with frac_match (tbl_get tb) (rw_get rw) (u64 chan) rs m em ex method t w in
    match obs, spec, impl with
    | c :: i :: j :: g :: h :: tl0, c1 :: i1 :: j1 :: g1 :: h1 :: tl1, c2 :: i2 :: j2 :: g2 :: h2 :: tl2 =>
      let is1 := (c =? c1) && (i =? i1) in
      let is2 := (c =? c2) && (i =? i2) in
      [(2, i, is1 || is2);
       (3, j, (is1 && (j =? j1) && word_eqb tl0 tl1) || (is2 && (j =? j2) && word_eqb tl0 tl2));
       (4, g, (is1 && (g =? g1) && (h =? h1)) || (is2 && (g =? g2) && (h =? h2)));
       (9, i, is1)]
    | _, _, _ => [(2, 0, false)]
    end
  | QMatch t method =>
    let spec := map (fun r => b2z (route_match_with frac_spec r method m t)) rs in
    let impl := map (fun r => b2z (route_match_with frac_match r method m t)) rs in
    [(2, 0, word_eqb obs spec || word_eqb obs impl); (9, 0, word_eqb obs spec)]
  | _ => []
  end.

Fixpoint clauses_from (chan : Z) (s : state) (ops obs : list word) : list (Z * Z * bool) :=
  match ops, obs with
  | op :: r, o :: r' =>
    match decode op with
    | Some d => clause_op chan s d o ++ clauses_from chan (fst (apply chan s d)) r r'
    | None => [(0, 0, false)]
    end
  | [], [] => []
  | _, _ => [(0, 0, false)]
  end.

(* findings last, so that any other failure of the same case is reported first *)
Definition is9 (c : Z * Z * bool) : bool := fst (fst c) =? 9.
Definition clauses (cfg : word) (ops obs : list word) : list (Z * Z * bool) :=
  match cfg with
  | [chan] => let l := clauses_from chan st0 ops obs in
              filter (fun c => negb (is9 c)) l ++ filter is9 l
  | _ => [(0, 0, false)]
  end.

(* everything except the known-finding clause 9 *)
Definition holds_b (cfg : word) (ops obs : list word) : bool :=
  forallb (fun c => is9 c || snd c) (clauses cfg ops obs).

Definition op_wf (op : word) : bool := match decode op with Some _ => true | None => false end.

Definition check_case (c : case) : verdict :=
  decide (run (c_cfg c) (c_ops c)) (c_obs c) (clauses (c_cfg c) (c_ops c) (c_obs c)).
