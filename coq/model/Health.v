(* C54: health.Server (health/server.go): SetServingStatus / Shutdown / Resume / Check / Watch.
   Granularity (DESIGN 4, concurrency (i)): every method body runs under s.mu and only does
   non-blocking channel operations on the capacity-1 update channels, so it is one atomic step.
   A Watch stream is a small program: registration (atomic, part of the Watch call), then a loop
   "receive from update; if equal to lastSentStatus continue; lastSentStatus = it; stream.Send".
   The receive (HTake) and the completion of Send (HSent: a slow sender stays inside Send as long
   as the schedule wants) are separate steps, so "all schedules" = all lists of fine ops.
   Status values: 0 UNKNOWN 1 SERVING 2 NOT_SERVING 3 SERVICE_UNKNOWN.  No proofs here. *)
From Coq Require Import List ZArith Bool.
From VLib Require Import Codec.
Import ListNotations.
Open Scope Z_scope.

Definition SERVING : Z := 1.
Definition NOT_SERVING : Z := 2.
Definition SERVICE_UNKNOWN : Z := 3.

(* wslot = the update channel (capacity 1); wsend = Some s: inside stream.Send(s);
   wlast = lastSentStatus; ghost wrep = last status whose Send returned nil (-1 none);
   walive = still registered in s.updates; whold = driver flag: Send blocks until released;
   ghost whist = every status the stream started to send, newest first *)
Record wat := mkwat { wid : Z; wsvc : Z; wslot : option Z; wsend : option Z; wlast : Z;
                      wrep : Z; walive : bool; whold : bool; whist : list Z }.
Record hs := mkhs { hshut : bool; hmap : list (Z * Z); hws : list wat }.
(* NewServer: the empty service name (service 0) is registered SERVING *)
Definition hs0 : hs := mkhs false [(0, SERVING)] [].

Fixpoint lookup (svc : Z) (m : list (Z * Z)) : option Z :=
  match m with [] => None | (k, v) :: r => if k =? svc then Some v else lookup svc r end.
Fixpoint upsert (svc st : Z) (m : list (Z * Z)) : list (Z * Z) :=
  match m with
  | [] => [(svc, st)]
  | (k, v) :: r => if k =? svc then (k, st) :: r else (k, v) :: upsert svc st r
  end.
(* what a new Watch stream is told first *)
Definition cur (m : list (Z * Z)) (svc : Z) : Z :=
  match lookup svc m with Some st => st | None => SERVICE_UNKNOWN end.

Definition set_slot (s : Z) (w : wat) : wat :=
  mkwat (wid w) (wsvc w) (Some s) (wsend w) (wlast w) (wrep w) (walive w) (whold w) (whist w).
(* setServingStatusLocked's loop over s.updates[service]: drop an unread update, put the new one *)
Definition push (svc st : Z) (ws : list wat) : list wat :=
  map (fun w => if walive w && (wsvc w =? svc) then set_slot st w else w) ws.
(* Shutdown / Resume: setServingStatusLocked(service, st) for every registered service; the
   effects on different services are independent, so the map's iteration order does not matter *)
Definition set_all (st : Z) (h : hs) (shut : bool) : hs :=
  mkhs shut (map (fun kv => (fst kv, st)) (hmap h))
       (map (fun w => if walive w && match lookup (wsvc w) (hmap h) with Some _ => true | None => false end
                      then set_slot st w else w) (hws h)).

Inductive ev := EStart (w s : Z) | ESent (w s : Z) | EFail (w s : Z) | EExit (w : Z).
Inductive fop := HSet (svc st : Z) | HShutdown | HResume | HCheck (svc : Z)
               | HWatch (w svc : Z) (hold : bool) | HTake (w : Z) | HSent (w : Z) | HCancel (w : Z).

Definition has_wid (w : Z) (ws : list wat) : bool := existsb (fun x => wid x =? w) ws.

Definition take1 (x : wat) : wat * list ev :=
  match walive x, wsend x, wslot x with
  | true, None, Some s =>
    if s =? wlast x
    then (mkwat (wid x) (wsvc x) None None (wlast x) (wrep x) true (whold x) (whist x), [])
    else (mkwat (wid x) (wsvc x) None (Some s) s (wrep x) true (whold x) (s :: whist x), [EStart (wid x) s])
  | _, _, _ => (x, [])
  end.
Definition sent1 (x : wat) : wat * list ev :=
  match walive x, wsend x with
  | true, Some s => (mkwat (wid x) (wsvc x) (wslot x) None (wlast x) s true (whold x) (whist x), [ESent (wid x) s])
  | _, _ => (x, [])
  end.
Definition cancel1 (x : wat) : wat * list ev :=
  if walive x then
    (mkwat (wid x) (wsvc x) (wslot x) None (wlast x) (wrep x) false (whold x) (whist x),
     match wsend x with Some s => [EFail (wid x) s] | None => [] end ++ [EExit (wid x)])
  else (x, []).
(* apply a watcher step to the watcher(s) with id w *)
Fixpoint on_w (f : wat -> wat * list ev) (w : Z) (ws : list wat) : list wat * list ev :=
  match ws with
  | [] => ([], [])
  | x :: r => let (r', e2) := on_w f w r in
              if wid x =? w then let (x', e1) := f x in (x' :: r', e1 ++ e2) else (x :: r', e2)
  end.

(* result of HCheck: (found, status) *)
Definition hstep (h : hs) (o : fop) : hs * list ev * (Z * Z) :=
  match o with
  | HSet svc st =>
    if hshut h then (h, [], (0, 0))
    else (mkhs false (upsert svc st (hmap h)) (push svc st (hws h)), [], (0, 0))
  | HShutdown => (set_all NOT_SERVING h true, [], (0, 0))
  | HResume => (set_all SERVING h false, [], (0, 0))
  | HCheck svc => (h, [], match lookup svc (hmap h) with Some st => (1, st) | None => (0, 0) end)
  | HWatch w svc hold =>
    if has_wid w (hws h) then (h, [], (0, 0))
    else (mkhs (hshut h) (hmap h)
               (hws h ++ [mkwat w svc (Some (cur (hmap h) svc)) None (-1) (-1) true hold []]), [], (0, 0))
  | HTake w => let (ws, e) := on_w take1 w (hws h) in (mkhs (hshut h) (hmap h) ws, e, (0, 0))
  | HSent w => let (ws, e) := on_w sent1 w (hws h) in (mkhs (hshut h) (hmap h) ws, e, (0, 0))
  | HCancel w => let (ws, e) := on_w cancel1 w (hws h) in (mkhs (hshut h) (hmap h) ws, e, (0, 0))
  end.

Fixpoint hsteps (h : hs) (l : list fop) : hs * list ev :=
  match l with
  | [] => (h, [])
  | o :: r => let '(h1, e1, _) := hstep h o in let (h2, e2) := hsteps h1 r in (h2, e1 ++ e2)
  end.

(* ---- driver semantics: after every op each stream advances until it blocks ---- *)
Definition settle (h : hs) : list fop :=
  flat_map (fun w => HTake (wid w) :: if whold w then [] else [HSent (wid w)]) (hws h).
Definition ev_w (e : ev) : Z := match e with EStart w _ | ESent w _ | EFail w _ | EExit w => w end.
Definition enc_ev (e : ev) : word :=
  match e with EStart w s => [1; w; s] | ESent w s => [2; w; s] | EFail w s => [3; w; s] | EExit w => [4; w; 0] end.
Fixpoint ins_ev (e : ev) (l : list ev) : list ev :=     (* stable insertion by watcher id *)
  match l with
  | [] => [e]
  | x :: r => if ev_w e <=? ev_w x then e :: l else x :: ins_ev e r
  end.
Definition sort_evs (l : list ev) : list ev := fold_right ins_ev [] l.
Definition enc_evs (l : list ev) : word := concat (map enc_ev (sort_evs l)).

(* driver ops: [1;svc;st] SetServingStatus  [2] Shutdown  [3] Resume  [4;svc] Check
               [5;w;svc;hold] start Watch stream w  [6;w] let w's blocked Send return  [7;w] cancel w
   obs = [found; status] for Check, then the stream events of the op sorted by stream:
         [1;w;s] Send(s) entered  [2;w;s] Send(s) returned nil  [3;w;s] Send(s) failed (cancelled)
         [4;w;0] Watch returned *)
Definition base (op : word) : option fop :=
  match op with
  | [1; svc; st] => Some (HSet svc st)
  | [2] => Some HShutdown
  | [3] => Some HResume
  | [4; svc] => Some (HCheck svc)
  | [5; w; svc; hold] => Some (HWatch w svc (negb (hold =? 0)))
  | [6; w] => Some (HSent w)
  | [7; w] => Some (HCancel w)
  | _ => None
  end.
Definition is_check (op : word) : bool := match op with [4; _] => true | _ => false end.

Definition cstep (h : hs) (op : word) : option (hs * word) :=
  match base op with
  | None => None
  | Some o =>
    let '(h1, e1, (f, st)) := hstep h o in
    let (h2, e2) := hsteps h1 (settle h1) in
    Some (h2, (if is_check op then [f; st] else []) ++ enc_evs (e1 ++ e2))
  end.
Fixpoint cexec (h : hs) (ops : list word) : option (list word) :=
  match ops with
  | [] => Some []
  | op :: r => match cstep h op with
               | Some (h', o) => option_map (cons o) (cexec h' r)
               | None => None
               end
  end.
Definition run (cfg : word) (ops : list word) : option (list word) :=
  match cfg with [] => cexec hs0 ops | _ => None end.

(* ================= the property as a monitor over (ops, obs) =================
   The monitor keeps the specification state: the status table (SetServingStatus ignored while
   shut down, Shutdown/Resume overwrite every registered service) and, per stream, its service,
   the status being sent, the last status started and the last status reported.
   clause ids
    1 a status a stream starts to send is the service's current status (SERVICE_UNKNOWN if
      unregistered) -- in particular the first one; and only registered streams send
    2 a stream never starts to send the status it sent last
    3 Send completions / failures / exits match what the stream was doing
    4 convergence: at the end of every op, every live stream that is not inside Send has
      reported the service's current status
    5 Check returns the latest status (not found iff unregistered); between Shutdown and Resume
      that is NOT_SERVING for every registered service and SetServingStatus is ignored *)
Definition cl := (Z * Z * bool)%type.
Record mw := mkmw { mid : Z; msvc : Z; msend : option Z; mlast : Z; mrep : Z; malive : bool; mhold : bool }.
Record mon := mkmon { mshut : bool; mmap : list (Z * Z); mws : list mw }.
Definition mon0 := mkmon false [(0, SERVING)] [].

Fixpoint mfind (w : Z) (l : list mw) : option mw :=
  match l with [] => None | x :: r => if mid x =? w then Some x else mfind w r end.
Fixpoint mupd (x' : mw) (l : list mw) : list mw :=
  match l with [] => [] | x :: r => if mid x =? mid x' then x' :: r else x :: mupd x' r end.

Fixpoint dec_evs_f (fuel : nat) (w : word) : option (list ev) :=
  match w with
  | [] => Some []
  | c :: a :: b :: r =>
    match fuel with
    | O => None
    | S f =>
      let e := if c =? 1 then Some (EStart a b) else if c =? 2 then Some (ESent a b) else
               if c =? 3 then Some (EFail a b) else if c =? 4 then Some (EExit a) else None in
      match e, dec_evs_f f r with Some e, Some l => Some (e :: l) | _, _ => None end
    end
  | _ => None
  end.
Definition dec_evs (w : word) : option (list ev) := dec_evs_f (length w) w.

Definition mon_ev (m : mon) (e : ev) : mon * list cl :=
  match e with
  | EStart w s =>
    match mfind w (mws m) with
    | Some x =>
      (mkmon (mshut m) (mmap m) (mupd (mkmw w (msvc x) (Some s) s (mrep x) (malive x) (mhold x)) (mws m)),
       [(1, w, malive x && (s =? cur (mmap m) (msvc x)) && match msend x with None => true | Some _ => false end);
        (2, w, negb (s =? mlast x))])
    | None => (m, [(1, w, false)])
    end
  | ESent w s =>
    match mfind w (mws m) with
    | Some x =>
      (mkmon (mshut m) (mmap m) (mupd (mkmw w (msvc x) None (mlast x) s (malive x) (mhold x)) (mws m)),
       [(3, w, malive x && match msend x with Some s' => s =? s' | None => false end)])
    | None => (m, [(3, w, false)])
    end
  | EFail w s =>
    match mfind w (mws m) with
    | Some x =>
      (mkmon (mshut m) (mmap m) (mupd (mkmw w (msvc x) None (mlast x) (mrep x) (malive x) (mhold x)) (mws m)),
       [(3, w, negb (malive x) && match msend x with Some s' => s =? s' | None => false end)])
    | None => (m, [(3, w, false)])
    end
  | EExit w =>
    match mfind w (mws m) with
    | Some x => (m, [(3, w, negb (malive x) && match msend x with None => true | Some _ => false end)])
    | None => (m, [(3, w, false)])
    end
  end.
Fixpoint mon_evs (m : mon) (l : list ev) : mon * list cl :=
  match l with
  | [] => (m, [])
  | e :: r => let (m1, c1) := mon_ev m e in let (m2, c2) := mon_evs m1 r in (m2, c1 ++ c2)
  end.

(* the op's effect on the specification state; returns the expected Check result *)
Definition mon_op (m : mon) (op : word) : option (mon * list Z) :=
  match op with
  | [1; svc; st] => Some (if mshut m then m else mkmon false (upsert svc st (mmap m)) (mws m), [])
  | [2] => Some (mkmon true (map (fun kv => (fst kv, NOT_SERVING)) (mmap m)) (mws m), [])
  | [3] => Some (mkmon false (map (fun kv => (fst kv, SERVING)) (mmap m)) (mws m), [])
  | [4; svc] => Some (m, match lookup svc (mmap m) with Some st => [1; st] | None => [0; 0] end)
  | [5; w; svc; hold] =>
    Some (match mfind w (mws m) with
          | Some _ => m
          | None => mkmon (mshut m) (mmap m) (mws m ++ [mkmw w svc None (-1) (-1) true (negb (hold =? 0))])
          end, [])
  | [6; w] => Some (m, [])
  | [7; w] =>
    Some (match mfind w (mws m) with
          | Some x => mkmon (mshut m) (mmap m) (mupd (mkmw w (msvc x) (msend x) (mlast x) (mrep x) false (mhold x)) (mws m))
          | None => m
          end, [])
  | _ => None
  end.
Fixpoint take_n' (n : nat) (l : list Z) : list Z * list Z :=
  match n, l with
  | S n', x :: r => let (a, b) := take_n' n' r in (x :: a, b)
  | _, _ => ([], l)
  end.
Definition converged (m : mon) : list cl :=
  map (fun x => (4, mid x,
                 negb (malive x) || match msend x with Some _ => true | None => mrep x =? cur (mmap m) (msvc x) end))
      (mws m).
Definition clause_op (m : mon) (op obs : word) : mon * list cl :=
  match mon_op m op with
  | None => (m, [(0, 0, false)])
  | Some (m1, expect) =>
    let (hd, tl) := take_n' (length expect) obs in
    match dec_evs tl with
    | None => (m1, [(0, 1, false)])
    | Some evs =>
      let (m2, c2) := mon_evs m1 evs in
      (m2, (5, 0, word_eqb hd expect) :: c2 ++ converged m2)
    end
  end.
Fixpoint clauses_from (m : mon) (ops obs : list word) : list cl :=
  match ops, obs with
  | op :: r, o :: r' => let (m', c) := clause_op m op o in c ++ clauses_from m' r r'
  | [], [] => []
  | _, _ => [(0, 0, false)]
  end.
Definition clauses (cfg : word) (ops obs : list word) : list cl :=
  match cfg with [] => clauses_from mon0 ops obs | _ => [(0, 0, false)] end.
Definition holds_b (cfg : word) (ops obs : list word) : bool :=
  forallb (fun c => snd c) (clauses cfg ops obs).
Definition check_case (c : case) : verdict :=
  decide (run (c_cfg c) (c_ops c)) (c_obs c) (clauses (c_cfg c) (c_ops c) (c_obs c)).

Definition op_wf (op : word) : bool := match base op with Some _ => true | None => false end.
Definition wf (cfg : word) (ops : list word) : bool :=
  match cfg with [] => forallb op_wf ops | _ => false end.
