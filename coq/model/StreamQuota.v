(* C13 (and C17 part b): client-side MAX_CONCURRENT_STREAMS accounting.
   Transcribes internal/transport/http2_client.go: NewStream's checkForStreamQuota
   (run inside controlBuf.executeAndPut), the wait loop of NewStream, closeStream's
   addBackStreamQuota and handleSettings' updateStreamQuota.

   Atomicity: the three closures run under controlBuf.mu, so each is one step; a
   blocked NewStream call is a thread that holds the channel it read under the lock and
   performs a separate blocking receive (ARecv), may leave on its context (ALeave), and
   after a wake-up performs the retry attempt (ARetry).  streamsQuotaAvailable is a
   1-slot channel: generation number [cur], slot [token]; close-and-replace adds the
   old generation to [cg] and starts a fresh empty one.

   Not modelled: attempts on a draining/closed transport (after GOAWAY / Close the
   code refuses every attempt before assigning an id; [dead] is absorbing here and the
   driver stops there), uint32 wrap of nextID / waitingStreams (needs 2^31 streams or
   2^32 simultaneous waiters), MaxStreamID draining; a change of MAX_HEADER_LIST_SIZE while
   calls wait (the case runner sends it only while no call is pending: a woken call whose
   header list has meanwhile become too large returns from its retry with the wake-up token
   it consumed, without passing it on).  The header-list-size check, SETTINGS frames that
   carry the parameter twice, a stream close that coincides with context cancellations and
   senders blocked on the write quota of an open stream live in the case runner ([op_act]):
   they are sequences of the atomic steps below.  No proofs here. *)
From Coq Require Import List ZArith Bool.
From VLib Require Import Codec Machine.
Import ListNotations.
Open Scope Z_scope.

Inductive pc := Blocked (g : Z) | Retry.

Record st := mk {
  quota : Z;            (* t.streamQuota (int64, may be negative) *)
  maxc : Z;             (* t.maxConcurrentStreams *)
  waiting : Z;          (* t.waitingStreams *)
  nextid : Z;           (* t.nextID *)
  cur : Z;              (* generation of t.streamsQuotaAvailable *)
  ngen : Z;             (* next fresh generation *)
  cg : list Z;          (* closed generations *)
  token : bool;         (* the 1-slot buffer of the current channel is full *)
  open : list Z;        (* ids admitted and not yet closed (quota not yet returned) *)
  thr : list (Z * pc);  (* NewStream calls that failed at least once and have not returned *)
  dead : bool;          (* GOAWAY received or transport closed *)
  adm : list Z          (* ghost: every id ever assigned, in order *)
}.

Definition init (m : Z) : st := mk m m 0 1 0 1 [] false [] [] false [].

Inductive act :=
| AFirst (tid : Z)      (* first executeAndPut(checkForStreamQuota) of a NewStream call *)
| ARecv (tid : Z)       (* select: <-ch succeeds (token or closed channel) *)
| ARetry (tid : Z)      (* executeAndPut(checkForStreamQuota) with firstTry = false *)
| ALeave (tid : Z)      (* select: <-ctx.Done() *)
| AClose (id : Z)       (* closeStream: executeAndPut(addBackStreamQuota, cleanup) *)
| ASettings (v : Z)     (* handleSettings: updateStreamQuota *)
| ADead (kind : Z).     (* 0: GOAWAY (goAway channel closed, draining); 1: Close *)

Fixpoint lookup (t : Z) (l : list (Z * pc)) : option pc :=
  match l with
  | [] => None
  | (t', p) :: l' => if t =? t' then Some p else lookup t l'
  end.
Fixpoint remove_t (t : Z) (l : list (Z * pc)) : list (Z * pc) :=
  match l with
  | [] => []
  | (t', p) :: l' => if t =? t' then l' else (t', p) :: remove_t t l'
  end.
Fixpoint set_t (t : Z) (p : pc) (l : list (Z * pc)) : list (Z * pc) :=
  match l with
  | [] => []
  | (t', p') :: l' => if t =? t' then (t', p) :: l' else (t', p') :: set_t t p l'
  end.
Fixpoint remove_z (x : Z) (l : list Z) : list Z :=
  match l with
  | [] => []
  | y :: l' => if x =? y then l' else y :: remove_z x l'
  end.
Definition mem (x : Z) (l : list Z) : bool := existsb (Z.eqb x) l.

Definition set_thr (s : st) (l : list (Z * pc)) : st :=
  mk (quota s) (maxc s) (waiting s) (nextid s) (cur s) (ngen s) (cg s) (token s) (open s) l
     (dead s) (adm s).

(* checkForStreamQuota; None = returned false with ch := t.streamsQuotaAvailable *)
Definition try_admit (s : st) (first : bool) : st * option Z :=
  if quota s <=? 0 then
    (mk (quota s) (maxc s) (if first then waiting s + 1 else waiting s) (nextid s) (cur s)
        (ngen s) (cg s) (token s) (open s) (thr s) (dead s) (adm s), None)
  else
    let w' := if first then waiting s else waiting s - 1 in
    let q' := quota s - 1 in
    let id := nextid s in
    (mk q' (maxc s) w' (id + 2) (cur s) (ngen s) (cg s)
        (if (q' >? 0) && (w' >? 0) then true else token s)
        (open s ++ [id]) (thr s) (dead s) (adm s ++ [id]), Some id).

Definition can_recv (s : st) (g : Z) : bool := mem g (cg s) || ((g =? cur s) && token s).

Definition astep (s : st) (a : act) : st * word :=
  if dead s then
    match a with
    | ARecv t | ARetry t | ALeave t =>
      match lookup t (thr s) with
      | Some _ => (set_thr s (remove_t t (thr s)), [2])   (* errStreamDrain / ErrConnClosing *)
      | None => (s, [])
      end
    | _ => (s, [])
    end
  else
  match a with
  | AFirst t =>
    match lookup t (thr s) with
    | Some _ => (s, [])
    | None =>
      match try_admit s true with
      | (s1, Some id) => (s1, [1; id])
      | (s1, None) => (set_thr s1 (thr s1 ++ [(t, Blocked (cur s1))]), [0])
      end
    end
  | ARecv t =>
    match lookup t (thr s) with
    | Some (Blocked g) =>
      if mem g (cg s) then (set_thr s (set_t t Retry (thr s)), [1])
      else if (g =? cur s) && token s then
        (mk (quota s) (maxc s) (waiting s) (nextid s) (cur s) (ngen s) (cg s) false (open s)
            (set_t t Retry (thr s)) (dead s) (adm s), [1])
      else (s, [0])
    | _ => (s, [])
    end
  | ARetry t =>
    match lookup t (thr s) with
    | Some Retry =>
      match try_admit s false with
      | (s1, Some id) => (set_thr s1 (remove_t t (thr s1)), [1; id])
      | (s1, None) => (set_thr s1 (set_t t (Blocked (cur s1)) (thr s1)), [0])
      end
    | _ => (s, [])
    end
  | ALeave t =>
    match lookup t (thr s) with
    | Some (Blocked _) => (set_thr s (remove_t t (thr s)), [1])
    | _ => (s, [])
    end
  | AClose id =>
    if mem id (open s) then
      let q' := quota s + 1 in
      (mk q' (maxc s) (waiting s) (nextid s) (cur s) (ngen s) (cg s)
          (if (q' >? 0) && (waiting s >? 0) then true else token s)
          (remove_z id (open s)) (thr s) (dead s) (adm s), [1])
    else (s, [0])
  | ASettings v =>
    let delta := v - maxc s in
    if (delta >? 0) && (waiting s >? 0) then
      (mk (quota s + delta) v (waiting s) (nextid s) (ngen s) (ngen s + 1) (cur s :: cg s) false
          (open s) (thr s) (dead s) (adm s), [])
    else
      (mk (quota s + delta) v (waiting s) (nextid s) (cur s) (ngen s) (cg s) (token s)
          (open s) (thr s) (dead s) (adm s), [])
  | ADead k =>
    (mk (quota s) (maxc s) (waiting s) (nextid s) (cur s) (ngen s) (cg s) (token s)
        (if k =? 1 then [] else open s) (thr s) true (adm s), [])
  end.

Definition exec (s : st) (l : list act) : st := fold_left (fun s a => fst (astep s a)) l s.

(* ---- running to quiescence (what synctest.Wait() does for the real goroutines) ----
   [held] lists calls that the scheduler keeps between "registered as a waiter"
   (executeAndPut returned false) and "parked in the select": they take no step until
   released.  That is only a choice of schedule; the atomic steps are unchanged. *)
Definition runnable (s : st) (held : list Z) (e : Z * pc) : bool :=
  negb (mem (fst e) held) &&
  (dead s || match snd e with Retry => true | Blocked g => can_recv s g end).

Definition first_runnable (s : st) (held : list Z) : option Z :=
  match filter (runnable s held) (thr s) with
  | [] => None
  | e :: _ => Some (fst e)
  end.

Fixpoint settle (fuel : nat) (held : list Z) (s : st) : st :=
  match fuel with
  | O => s
  | S f => match first_runnable s held with
           | None => s
           | Some t => settle f held (exec s [ARecv t; ARetry t])
           end
  end.

Definition fuel_of (s : st) : nat := 4 * length (thr s) + 2.

(* waiting calls that are held / parked, in registration order *)
Definition held_in (s : st) (held : list Z) : list Z := filter (fun t => mem t held) (map fst (thr s)).
Definition parked (s : st) (held : list Z) : list Z := filter (fun t => negb (mem t held)) (map fst (thr s)).

(* cfg [m0] (-1: the server preface has no MAX_CONCURRENT_STREAMS = 2^32-1)
   [1] NewStream   [2; v] SETTINGS   [3; k; how] k-th open stream ends
   [2; v1; v2] one SETTINGS frame that carries MAX_CONCURRENT_STREAMS twice (the last one is in force)
   [4; k] the context of the k-th parked call is cancelled
   [5; kind] GOAWAY / Close (terminal) -- while calls are held it only releases all of them
   [6; w] a later SETTINGS frame that does not carry MAX_CONCURRENT_STREAMS (the limit stays);
          w mod 3 = 0: it carries MAX_HEADER_LIST_SIZE = 2^20 + w
   [7] NewStream whose caller is held before its first select if it has to wait
   [8; k] the k-th held call is released (goes on to its select)
   [9; v] SETTINGS MAX_HEADER_LIST_SIZE = v, sent only while no NewStream call is pending
   [10] NewStream whose header list is big (see [rej])
   [11; k] the client closes the k-th open stream and at the same instant the contexts of all
           parked calls are cancelled: if the close posts the wake-up token, the call it is handed
           to is already committed to the channel case of its select and goes on to its retry;
           every other parked call leaves on its context
   [12; k] a sender on the k-th open stream writes more than the stream's write quota and
           blocks in writeQuota.get (the peer does not read); it must return when the stream ends
   obs [quota; waiting; #open (streams whose HEADERS the server saw and that have not ended);
        #waiting calls; #of them held; #ctx errors; #terminal errors; #header-list-size errors;
        len(activeStreams); #blocked senders; #senders still blocked on a stream that ended; n;
        ids seen by the server this step (n); ids returned by NewStream this step (n)] *)
Definition nth_mod (k : Z) (l : list Z) : option Z :=
  match l with
  | [] => None
  | _ => nth_error l (Z.to_nat (k mod Z.of_nat (length l)))
  end.

(* what the case runner carries besides the protocol state: the advertised
   MAX_HEADER_LIST_SIZE (-1: none) and the streams that have a blocked sender *)
Record ext := mke { hl : Z; wr : list Z }.

(* checkForHeaderListSize (runs BEFORE checkForStreamQuota, so a rejected call touches nothing):
   the header list of an ordinary call measures between 101 and 1000 bytes, that of a big call
   between 3001 and 4000 (the driver checks both); limits inside those bands are excluded by
   op_wf *)
Definition rej (h : Z) (big : bool) : bool := (0 <=? h) && (h <=? (if big then 3000 else 100)).

Definition new_call (held : list Z) (e : ext) (tid : Z) (big hold : bool)
  : option (list act * list Z * ext * Z) :=
  if rej (hl e) big then Some ([], held, e, 1)
  else Some ([AFirst tid], if hold then tid :: held else held, e, 0).

Definition op_act (s : st) (held : list Z) (e : ext) (tid : Z) (op : word)
  : option (list act * list Z * ext * Z) :=
  match op with
  | [1] => new_call held e tid false false
  | [2; v] => Some ([ASettings v], held, e, 0)
  | [2; _; v] => Some ([ASettings v], held, e, 0)   (* RFC 7540 6.5.3: processed in order, the last value wins *)
  | [3; k; _] => match nth_mod k (open s) with Some id => Some ([AClose id], held, e, 0) | None => Some ([], held, e, 0) end
  | [4; k] => match nth_mod k (parked s held) with Some t => Some ([ALeave t], held, e, 0) | None => Some ([], held, e, 0) end
  | [5; k] => match held_in s held with [] => Some ([ADead k], held, e, 0) | _ => Some ([], [], e, 0) end
  | [6; w] => (* handleSettings without MAX_CONCURRENT_STREAMS: no updateStreamQuota *)
    Some ([], held, (if w mod 3 =? 0 then mke (1048576 + w) (wr e) else e), 0)
  | [7] => new_call held e tid false true
  | [8; k] => match nth_mod k (held_in s held) with Some t => Some ([], remove_z t held, e, 0) | None => Some ([], held, e, 0) end
  | [9; v] => Some ([], held, match thr s with [] => mke v (wr e) | _ => e end, 0)
  | [10] => new_call held e tid true false
  | [11; k] =>
    match nth_mod k (open s) with
    | Some id =>
      let ps := parked s held in
      let lv := if (quota s + 1 >? 0) && (waiting s >? 0) then tl ps else ps in
      Some (AClose id :: map ALeave lv, held, e, 0)
    | None => Some ([], held, e, 0)
    end
  | [12; k] =>
    match nth_mod k (open s) with
    | Some id => Some ([], held, (if mem id (wr e) then e else mke (hl e) (wr e ++ [id])), 0)
    | None => Some ([], held, e, 0)
    end
  | _ => None
  end.

Definition count_leave (l : list act) : Z :=
  Z.of_nat (length (filter (fun a => match a with ALeave _ => true | _ => false end) l)).

Definition op_step (s : st) (held : list Z) (e : ext) (tid : Z) (op : word)
  : option (st * list Z * ext * word) :=
  match op_act s held e tid op with
  | None => None
  | Some (acts, held', e1, nhdr) =>
    let s1 := exec s acts in
    let s2 := settle (fuel_of s1) held' s1 in
    let new := skipn (length (adm s)) (adm s2) in
    (* closeStream closes s.done: a sender blocked in writeQuota.get returns *)
    let wr2 := filter (fun id => mem id (open s2)) (wr e1) in
    Some (s2, held', mke (hl e1) wr2,
          [quota s2; waiting s2; Z.of_nat (length (open s2)); Z.of_nat (length (thr s2));
           Z.of_nat (length (held_in s2 held'));
           (if dead s2 then 0 else count_leave acts);
           (if dead s2 then Z.of_nat (length (thr s1)) else 0);
           nhdr; Z.of_nat (length (open s2)); Z.of_nat (length wr2); 0;
           Z.of_nat (length new)] ++ new ++ new)
  end.

Fixpoint go (s : st) (held : list Z) (e : ext) (tid : Z) (ops : list word) : option (list word) :=
  match ops with
  | [] => Some []
  | op :: r =>
    if dead s then Some [] else
    match op_step s held e tid op with
    | Some (s', held', e', o) =>
      match go s' held' e' (tid + 1) r with Some os => Some (o :: os) | None => None end
    | None => None
    end
  end.

Definition max_of_cfg (m0 : Z) : Z := if m0 <? 0 then max_u32 else m0.

Definition run (cfg : word) (ops : list word) : option (list word) :=
  match cfg with
  | [m0] => go (init (max_of_cfg m0)) [] (mke (-1) []) 0 ops
  | _ => None
  end.

(* ---- the property on an observed trace ----
   tracker: current advertised limit, last stream id seen by the server, number of held
   calls, terminal flag
   clause 1: ledger  streamQuota + #open = limit
   clause 2: if a stream opened in this step then #open <= current limit
   clause 3: ids seen by the server are odd and strictly increasing; NewStream returned the same ids
   clause 4: a call is parked in its select only while no quota is free (quota <= 0)
   clause 5: after GOAWAY / Close no call stays blocked and nothing opens
   clause 6: the client's table of active streams has exactly the streams that are open on the wire
   clause 7: no sender stays blocked on write quota after its stream ended *)
Record trk := mkt { t_max : Z; t_last : Z; t_nh : Z; t_dead : bool }.

Fixpoint incr_odd (last : Z) (l : list Z) : bool :=
  match l with
  | [] => true
  | x :: r => (last <? x) && Z.odd x && incr_odd x r
  end.

Definition cl_op (t : trk) (op obs : word) : trk * list (Z * Z * bool) :=
  match obs with
  | q :: w :: no :: nb :: nh :: nctx :: nterm :: nhdr :: na :: nw :: nws :: n :: ids =>
    match take_n (Z.to_nat n) ids with
    | Some (sids, cids) =>
      let mx' := match op with [2; v] => v | [2; _; v] => v | _ => t_max t end in
      let dd := match op with [5; _] => t_nh t =? 0 | _ => false end in
      let t' := mkt mx' (last sids (t_last t)) nh dd in
      (t', [(3, n, (0 <=? n) && incr_odd (t_last t) sids && word_eqb sids cids);
            (1, q, dd || (q + no =? mx'));
            (2, no, dd || (n <=? 0) || (no <=? mx'));
            (4, nb - nh, dd || (nb - nh <=? 0) || (q <=? 0));
            (5, nb, negb dd || ((nb =? 0) && (n =? 0)));
            (6, na, na =? no);
            (7, nws, nws =? 0)])
    | None => (t, [(0, 0, false)])
    end
  | _ => (t, [(0, 0, false)])
  end.

Fixpoint cl_go (t : trk) (ops obs : list word) : list (Z * Z * bool) :=
  match ops with
  | [] => match obs with [] => [] | _ => [(0, 1, false)] end
  | op :: r =>
    if t_dead t then match obs with [] => [] | _ => [(0, 2, false)] end else
    match obs with
    | o :: r' => let '(t', cs) := cl_op t op o in cs ++ cl_go t' r r'
    | [] => [(0, 3, false)]
    end
  end.

Definition clauses (cfg : word) (ops obs : list word) : list (Z * Z * bool) :=
  match cfg with
  | [m0] => cl_go (mkt (max_of_cfg m0) 0 0 false) ops obs
  | _ => [(0, 0, false)]
  end.

Definition holds_b (cfg : word) (ops obs : list word) : bool :=
  forallb (fun c => snd c) (clauses cfg ops obs).

Definition check_case (c : case) : verdict :=
  decide (run (c_cfg c) (c_ops c)) (c_obs c) (clauses (c_cfg c) (c_ops c) (c_obs c)).
