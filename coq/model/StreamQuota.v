(* C13 (and C17 part b): client-side MAX_CONCURRENT_STREAMS accounting.
   Transcribes internal/transport/http2_client.go: NewStream's checkForStreamQuota
   (run inside controlBuf.executeAndPut), the wait loop of NewStream, closeStream's
   addBackStreamQuota and handleSettings' updateStreamQuota.

   Atomicity: the three closures run under controlBuf.mu, so each is one step; a
   blocked NewStream call is a thread that holds the channel it read under the lock and
   performs a separate blocking receive (ARecv), may leave on its context (ALeave), and
   after a wake-up performs the retry attempt (ARetry).  streamsQuotaAvailable is a
   1-slot channel: generation number [cur], slot [token]; close-and-replace adds the
   old generation to [cg] and starts a fresh empty one.

   Not modelled: attempts on a draining/closed transport (after GOAWAY / Close the
   code refuses every attempt before assigning an id; [dead] is absorbing here and the
   driver stops there), uint32 wrap of nextID / waitingStreams (needs 2^31 streams or
   2^32 simultaneous waiters), MaxStreamID draining.  No proofs here. *)
From Coq Require Import List ZArith Bool.
From VLib Require Import Codec Machine.
Import ListNotations.
Open Scope Z_scope.

Inductive pc := Blocked (g : Z) | Retry.

Record st := mk {
  quota : Z;            (* t.streamQuota (int64, may be negative) *)
  maxc : Z;             (* t.maxConcurrentStreams *)
  waiting : Z;          (* t.waitingStreams *)
  nextid : Z;           (* t.nextID *)
  cur : Z;              (* generation of t.streamsQuotaAvailable *)
  ngen : Z;             (* next fresh generation *)
  cg : list Z;          (* closed generations *)
  token : bool;         (* the 1-slot buffer of the current channel is full *)
  open : list Z;        (* ids admitted and not yet closed (quota not yet returned) *)
  thr : list (Z * pc);  (* NewStream calls that failed at least once and have not returned *)
  dead : bool;          (* GOAWAY received or transport closed *)
  adm : list Z          (* ghost: every id ever assigned, in order *)
}.

Definition init (m : Z) : st := mk m m 0 1 0 1 [] false [] [] false [].

Inductive act :=
| AFirst (tid : Z)      (* first executeAndPut(checkForStreamQuota) of a NewStream call *)
| ARecv (tid : Z)       (* select: <-ch succeeds (token or closed channel) *)
| ARetry (tid : Z)      (* executeAndPut(checkForStreamQuota) with firstTry = false *)
| ALeave (tid : Z)      (* select: <-ctx.Done() *)
| AClose (id : Z)       (* closeStream: executeAndPut(addBackStreamQuota, cleanup) *)
| ASettings (v : Z)     (* handleSettings: updateStreamQuota *)
| ADead (kind : Z).     (* 0: GOAWAY (goAway channel closed, draining); 1: Close *)

Fixpoint lookup (t : Z) (l : list (Z * pc)) : option pc :=
  match l with
  | [] => None
  | (t', p) :: l' => if t =? t' then Some p else lookup t l'
  end.
Fixpoint remove_t (t : Z) (l : list (Z * pc)) : list (Z * pc) :=
  match l with
  | [] => []
  | (t', p) :: l' => if t =? t' then l' else (t', p) :: remove_t t l'
  end.
Fixpoint set_t (t : Z) (p : pc) (l : list (Z * pc)) : list (Z * pc) :=
  match l with
  | [] => []
  | (t', p') :: l' => if t =? t' then (t', p) :: l' else (t', p') :: set_t t p l'
  end.
Fixpoint remove_z (x : Z) (l : list Z) : list Z :=
  match l with
  | [] => []
  | y :: l' => if x =? y then l' else y :: remove_z x l'
  end.
Definition mem (x : Z) (l : list Z) : bool := existsb (Z.eqb x) l.

Definition set_thr (s : st) (l : list (Z * pc)) : st :=
  mk (quota s) (maxc s) (waiting s) (nextid s) (cur s) (ngen s) (cg s) (token s) (open s) l
     (dead s) (adm s).

(* checkForStreamQuota; None = returned false with ch := t.streamsQuotaAvailable *)
Definition try_admit (s : st) (first : bool) : st * option Z :=
  if quota s <=? 0 then
    (mk (quota s) (maxc s) (if first then waiting s + 1 else waiting s) (nextid s) (cur s)
        (ngen s) (cg s) (token s) (open s) (thr s) (dead s) (adm s), None)
  else
    let w' := if first then waiting s else waiting s - 1 in
    let q' := quota s - 1 in
    let id := nextid s in
    (mk q' (maxc s) w' (id + 2) (cur s) (ngen s) (cg s)
        (if (q' >? 0) && (w' >? 0) then true else token s)
        (open s ++ [id]) (thr s) (dead s) (adm s ++ [id]), Some id).

Definition can_recv (s : st) (g : Z) : bool := mem g (cg s) || ((g =? cur s) && token s).

Definition astep (s : st) (a : act) : st * word :=
  if dead s then
    match a with
    | ARecv t | ARetry t | ALeave t =>
      match lookup t (thr s) with
      | Some _ => (set_thr s (remove_t t (thr s)), [2])   (* errStreamDrain / ErrConnClosing *)
      | None => (s, [])
      end
    | _ => (s, [])
    end
  else
  match a with
  | AFirst t =>
    match lookup t (thr s) with
    | Some _ => (s, [])
    | None =>
      match try_admit s true with
      | (s1, Some id) => (s1, [1; id])
      | (s1, None) => (set_thr s1 (thr s1 ++ [(t, Blocked (cur s1))]), [0])
      end
    end
  | ARecv t =>
    match lookup t (thr s) with
    | Some (Blocked g) =>
      if mem g (cg s) then (set_thr s (set_t t Retry (thr s)), [1])
      else if (g =? cur s) && token s then
        (mk (quota s) (maxc s) (waiting s) (nextid s) (cur s) (ngen s) (cg s) false (open s)
            (set_t t Retry (thr s)) (dead s) (adm s), [1])
      else (s, [0])
    | _ => (s, [])
    end
  | ARetry t =>
    match lookup t (thr s) with
    | Some Retry =>
      match try_admit s false with
      | (s1, Some id) => (set_thr s1 (remove_t t (thr s1)), [1; id])
      | (s1, None) => (set_thr s1 (set_t t (Blocked (cur s1)) (thr s1)), [0])
      end
    | _ => (s, [])
    end
  | ALeave t =>
    match lookup t (thr s) with
    | Some (Blocked _) => (set_thr s (remove_t t (thr s)), [1])
    | _ => (s, [])
    end
  | AClose id =>
    if mem id (open s) then
      let q' := quota s + 1 in
      (mk q' (maxc s) (waiting s) (nextid s) (cur s) (ngen s) (cg s)
          (if (q' >? 0) && (waiting s >? 0) then true else token s)
          (remove_z id (open s)) (thr s) (dead s) (adm s), [1])
    else (s, [0])
  | ASettings v =>
    let delta := v - maxc s in
    if (delta >? 0) && (waiting s >? 0) then
      (mk (quota s + delta) v (waiting s) (nextid s) (ngen s) (ngen s + 1) (cur s :: cg s) false
          (open s) (thr s) (dead s) (adm s), [])
    else
      (mk (quota s + delta) v (waiting s) (nextid s) (cur s) (ngen s) (cg s) (token s)
          (open s) (thr s) (dead s) (adm s), [])
  | ADead k =>
    (mk (quota s) (maxc s) (waiting s) (nextid s) (cur s) (ngen s) (cg s) (token s)
        (if k =? 1 then [] else open s) (thr s) true (adm s), [])
  end.

Definition exec (s : st) (l : list act) : st := fold_left (fun s a => fst (astep s a)) l s.

(* ---- running to quiescence (what synctest.Wait() does for the real goroutines) ----
   [held] lists calls that the scheduler keeps between "registered as a waiter"
   (executeAndPut returned false) and "parked in the select": they take no step until
   released.  That is only a choice of schedule; the atomic steps are unchanged. *)
Definition runnable (s : st) (held : list Z) (e : Z * pc) : bool :=
  negb (mem (fst e) held) &&
  (dead s || match snd e with Retry => true | Blocked g => can_recv s g end).

Definition first_runnable (s : st) (held : list Z) : option Z :=
  match filter (runnable s held) (thr s) with
  | [] => None
  | e :: _ => Some (fst e)
  end.

Fixpoint settle (fuel : nat) (held : list Z) (s : st) : st :=
  match fuel with
  | O => s
  | S f => match first_runnable s held with
           | None => s
           | Some t => settle f held (exec s [ARecv t; ARetry t])
           end
  end.

Definition fuel_of (s : st) : nat := 4 * length (thr s) + 2.

(* waiting calls that are held / parked, in registration order *)
Definition held_in (s : st) (held : list Z) : list Z := filter (fun t => mem t held) (map fst (thr s)).
Definition parked (s : st) (held : list Z) : list Z := filter (fun t => negb (mem t held)) (map fst (thr s)).

(* cfg [m0] (-1: the server preface has no MAX_CONCURRENT_STREAMS = 2^32-1)
   [1] NewStream   [2; v] SETTINGS   [3; k; how] k-th open stream ends
   [4; k] the context of the k-th parked call is cancelled
   [5; kind] GOAWAY / Close (terminal) -- while calls are held it only releases all of them
   [6; w] a later SETTINGS frame that does not carry MAX_CONCURRENT_STREAMS (the limit stays)
   [7] NewStream whose caller is held before its first select if it has to wait
   [8; k] the k-th held call is released (goes on to its select)
   obs [quota; waiting; #open; #waiting calls; #of them held; #ctx errors; #terminal errors; n;
        ids seen by the server this step (n); ids returned by NewStream this step (n)] *)
Definition nth_mod (k : Z) (l : list Z) : option Z :=
  match l with
  | [] => None
  | _ => nth_error l (Z.to_nat (k mod Z.of_nat (length l)))
  end.

Definition op_act (s : st) (held : list Z) (tid : Z) (op : word) : option (list act * list Z) :=
  match op with
  | [1] => Some ([AFirst tid], held)
  | [2; v] => Some ([ASettings v], held)
  | [3; k; _] => match nth_mod k (open s) with Some id => Some ([AClose id], held) | None => Some ([], held) end
  | [4; k] => match nth_mod k (parked s held) with Some t => Some ([ALeave t], held) | None => Some ([], held) end
  | [5; k] => match held_in s held with [] => Some ([ADead k], held) | _ => Some ([], []) end
  | [6; _] => Some ([], held)  (* handleSettings without MAX_CONCURRENT_STREAMS: no updateStreamQuota *)
  | [7] => Some ([AFirst tid], tid :: held)
  | [8; k] => match nth_mod k (held_in s held) with Some t => Some ([], remove_z t held) | None => Some ([], held) end
  | _ => None
  end.

Definition is_leave (l : list act) : Z := match l with [ALeave _] => 1 | _ => 0 end.

Definition op_step (s : st) (held : list Z) (tid : Z) (op : word) : option (st * list Z * word) :=
  match op_act s held tid op with
  | None => None
  | Some (acts, held') =>
    let s1 := exec s acts in
    let s2 := settle (fuel_of s1) held' s1 in
    let new := skipn (length (adm s)) (adm s2) in
    Some (s2, held',
          [quota s2; waiting s2; Z.of_nat (length (open s2)); Z.of_nat (length (thr s2));
           Z.of_nat (length (held_in s2 held'));
           (if dead s2 then 0 else is_leave acts);
           (if dead s2 then Z.of_nat (length (thr s1)) else 0);
           Z.of_nat (length new)] ++ new ++ new)
  end.

Fixpoint go (s : st) (held : list Z) (tid : Z) (ops : list word) : option (list word) :=
  match ops with
  | [] => Some []
  | op :: r =>
    if dead s then Some [] else
    match op_step s held tid op with
    | Some (s', held', o) =>
      match go s' held' (tid + 1) r with Some os => Some (o :: os) | None => None end
    | None => None
    end
  end.

Definition max_of_cfg (m0 : Z) : Z := if m0 <? 0 then max_u32 else m0.

Definition run (cfg : word) (ops : list word) : option (list word) :=
  match cfg with
  | [m0] => go (init (max_of_cfg m0)) [] 0 ops
  | _ => None
  end.

(* ---- the property on an observed trace ----
   tracker: current advertised limit, last stream id seen by the server, number of held
   calls, terminal flag
   clause 1: ledger  streamQuota + #open = limit
   clause 2: if a stream opened in this step then #open <= current limit
   clause 3: ids seen by the server are odd and strictly increasing; NewStream returned the same ids
   clause 4: a call is parked in its select only while no quota is free (quota <= 0)
   clause 5: after GOAWAY / Close no call stays blocked and nothing opens *)
Record trk := mkt { t_max : Z; t_last : Z; t_nh : Z; t_dead : bool }.

Fixpoint incr_odd (last : Z) (l : list Z) : bool :=
  match l with
  | [] => true
  | x :: r => (last <? x) && Z.odd x && incr_odd x r
  end.

Definition cl_op (t : trk) (op obs : word) : trk * list (Z * Z * bool) :=
  match obs with
  | q :: w :: no :: nb :: nh :: nctx :: nterm :: n :: ids =>
    match take_n (Z.to_nat n) ids with
    | Some (sids, cids) =>
      let mx' := match op with [2; v] => v | _ => t_max t end in
      let dd := match op with [5; _] => t_nh t =? 0 | _ => false end in
      let t' := mkt mx' (last sids (t_last t)) nh dd in
      (t', [(3, n, (0 <=? n) && incr_odd (t_last t) sids && word_eqb sids cids);
            (1, q, dd || (q + no =? mx'));
            (2, no, dd || (n <=? 0) || (no <=? mx'));
            (4, nb - nh, dd || (nb - nh <=? 0) || (q <=? 0));
            (5, nb, negb dd || ((nb =? 0) && (n =? 0)))])
    | None => (t, [(0, 0, false)])
    end
  | _ => (t, [(0, 0, false)])
  end.

Fixpoint cl_go (t : trk) (ops obs : list word) : list (Z * Z * bool) :=
  match ops with
  | [] => match obs with [] => [] | _ => [(0, 1, false)] end
  | op :: r =>
    if t_dead t then match obs with [] => [] | _ => [(0, 2, false)] end else
    match obs with
    | o :: r' => let '(t', cs) := cl_op t op o in cs ++ cl_go t' r r'
    | [] => [(0, 3, false)]
    end
  end.

Definition clauses (cfg : word) (ops obs : list word) : list (Z * Z * bool) :=
  match cfg with
  | [m0] => cl_go (mkt (max_of_cfg m0) 0 0 false) ops obs
  | _ => [(0, 0, false)]
  end.

Definition holds_b (cfg : word) (ops obs : list word) : bool :=
  forallb (fun c => snd c) (clauses cfg ops obs).

Definition check_case (c : case) : verdict :=
  decide (run (c_cfg c) (c_ops c)) (c_obs c) (clauses (c_cfg c) (c_ops c) (c_obs c)).
