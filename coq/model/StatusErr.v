(* C24: every RPC error is a status with a legal code.
   Transcribes toRPCErr (rpc_util.go), status.FromError (status/status.go, as the
   "is this a status error, and of which code" test), IsRestrictedControlPlaneCode
   (internal/status/status.go) and the three control-plane call sites:
   pickerWrapper.pick (picker_wrapper.go), newClientStream's SelectConfig handling
   (stream.go) and http2Client.getTrAuthData / getCallAuthData (per-RPC credentials).
   Error values are an ADT; a conversion that "returns err" returns the same value.
   No proofs here. *)
From Coq Require Import List ZArith Bool.
From VLib Require Import Codec.
Import ListNotations.
Open Scope Z_scope.

Inductive err :=
| ENil                 (* nil *)
| EEOF                 (* io.EOF *)
| ECanceled            (* context.Canceled *)
| EDeadline            (* context.DeadlineExceeded *)
| EUnexpEOF            (* io.ErrUnexpectedEOF *)
| EConn                (* transport.ConnectionError *)
| EStatus (c : Z)      (* *status.Error of code c (status.Error never builds one with c = 0) *)
| EGS (c : Z)          (* a user type whose GRPCStatus() is a non-nil Status of code c; c may be 0 *)
| EGSNil               (* a user type whose GRPCStatus() is nil *)
| EWrap (c : Z)        (* fmt.Errorf("%w", *status.Error of code c) *)
| EWrapGS (c : Z)      (* fmt.Errorf("%w", EGS c) *)
| EWrapGSNil           (* fmt.Errorf("%w", EGSNil) *)
| EOther               (* any other error value: errors.New, a wrapped context error, ... *)
| ENoSub               (* balancer.ErrNoSubConnAvailable *)
| ENSE (e : err).      (* *transport.NewStreamError{Err: e} *)

(* status.FromError(err): Some c iff ok = true, c the code of the Status *)
Definition status_of (e : err) : option Z :=
  match e with
  | EStatus c | EGS c | EWrap c | EWrapGS c => Some c
  | _ => None
  end.

Fixpoint toRPCErr (e : err) : err :=
  match e with
  | ENil => ENil
  | EEOF => EEOF
  | EDeadline => EStatus 4
  | ECanceled => EStatus 1
  | EUnexpEOF => EStatus 13
  | EConn => EStatus 14
  | ENSE e' => toRPCErr e'
  | _ => match status_of e with
         | Some _ => e
         | None => EStatus 2
         end
  end.

(* gRFC A54: INVALID_ARGUMENT NOT_FOUND ALREADY_EXISTS FAILED_PRECONDITION ABORTED
   OUT_OF_RANGE DATA_LOSS *)
Definition restricted (c : Z) : bool :=
  (c =? 3) || (c =? 5) || (c =? 6) || (c =? 9) || (c =? 10) || (c =? 11) || (c =? 15).

(* the shape shared by the three call sites:
   if st, ok := status.FromError(err); ok { if restricted { err = Internal }; return err } *)
Definition restrict (e : err) : option err :=
  match status_of e with
  | Some c => Some (if restricted c then EStatus 13 else e)
  | None => None
  end.

(* pickerWrapper.pick on a picker error e <> nil, the RPC's context having a deadline:
   ErrNoSubConnAvailable and (wait-for-ready + non-status error) block until the context
   expires -> status DEADLINE_EXCEEDED; fail-fast + non-status error -> UNAVAILABLE *)
Definition picker_err (failfast : bool) (e : err) : err :=
  match e with
  | ENoSub => EStatus 4
  | _ => match restrict e with
         | Some r => r
         | None => if failfast then EStatus 14 else EStatus 4
         end
  end.

(* newClientStream on a SelectConfig error e <> nil *)
Definition config_err (e : err) : err :=
  match restrict e with
  | Some r => r
  | None => toRPCErr e
  end.

(* getCallAuthData (call = true: INTERNAL) / getTrAuthData (UNAUTHENTICATED) on a
   GetRequestMetadata error e <> nil; NewStream wraps it in NewStreamError and
   csAttempt.newStream applies toRPCErr to the unwrapped error *)
Definition creds_err (call : bool) (e : err) : err :=
  toRPCErr (ENSE (match restrict e with
                  | Some r => r
                  | None => EStatus (if call then 13 else 16)
                  end)).

(* what Invoke / NewStream+SendMsg+RecvMsg report when source src yields error e
   src 1 picker, 2 config selector, 3 call credentials, 4 dial credentials,
   6 the server handler returns status code e = EStatus c (data plane);
   src 7 (see run_op): a channel whose dialer always fails (TRANSIENT_FAILURE): fail-fast ->
   UNAVAILABLE, wait-for-ready -> blocks until the deadline *)
Definition rpc (src : Z) (failfast : bool) (e : err) : err :=
  match e with
  | ENil => ENil
  | _ =>
    if src =? 1 then picker_err failfast e else
    if src =? 2 then config_err e else
    if src =? 3 then creds_err true e else
    if src =? 4 then creds_err false e else
    e
  end.

(* ---- codec ---- *)

(* how the driver builds the error value from (kind, c) *)
Definition mk_err (kind c : Z) : err :=
  if kind =? 0 then ENil else
  if kind =? 1 then EEOF else
  if kind =? 2 then ECanceled else
  if kind =? 3 then EDeadline else
  if kind =? 4 then EUnexpEOF else
  if kind =? 5 then EConn else
  if kind =? 6 then (if c =? 0 then ENil else EStatus c) else     (* status.Error(OK, _) = nil *)
  if kind =? 7 then EGS c else
  if kind =? 8 then EGSNil else
  if kind =? 9 then (if c =? 0 then EOther else EWrap c) else     (* %w of nil wraps nothing *)
  if kind =? 10 then EWrapGS c else
  if kind =? 11 then EWrapGSNil else
  if kind =? 13 then ENoSub else
  EOther.

Fixpoint wrap_nse (d : nat) (e : err) : err :=
  match d with O => e | S d' => ENSE (wrap_nse d' e) end.

(* obs = [kind; ok; code]: kind 0 nil, 1 io.EOF, 2 other; ok = status.FromError's flag;
   code = status.Code(err) *)
Definition obs_of (r : err) : word :=
  match r with
  | ENil => [0; 1; 0]
  | EEOF => [1; 0; 2]
  | _ => match status_of r with
         | Some c => [2; 1; c]
         | None => [2; 0; 2]
         end
  end.

Definition code_ok (c : Z) : bool := (0 <=? c) && (c <? 4294967296).

(* src 8: the server ends the stream (trailers-only) after the client created it but BEFORE the
   client writes the request: c = 0 unknown method -> UNIMPLEMENTED, c > 0 a handler that
   returns status c without reading.  The write then fails (stream done), SendMsg reports
   io.EOF, and invoke / the application go on to RecvMsg, which yields the server's status. *)
Definition early_code (c : Z) : Z := if c =? 0 then 12 else c.

(* src 9: the method has a retry policy, the attempt fails trailers-only with a retryable code
   and attempts are left, so csAttempt.shouldRetry sleeps the back-off (10 s); the RPC's
   context expires (c = 0) or is cancelled (c <> 0) during that sleep:
   status.FromContextError -> DEADLINE_EXCEEDED / CANCELED.
   src 10: the server allows one concurrent stream, it is taken by another RPC, this RPC is
   parked inside http2Client.NewStream waiting for stream quota when the server's GOAWAY
   (GracefulStop) arrives: errStreamDrain, transparently retried; the listener is closed, so
   the channel goes to TRANSIENT_FAILURE and the fail-fast RPC ends UNAVAILABLE. *)
Definition backoff_code (c : Z) : Z := if c =? 0 then 4 else 1.

(* op [1; depth; kind; c]            toRPCErr(NewStreamError^depth(mk_err kind c))
   op [2; src; ff; api; kind; c]     one RPC (api 0 Invoke, 1 NewStream/SendMsg/RecvMsg) *)
Definition run_op (op : word) : option word :=
  match op with
  | [1; d; kind; c] =>
    if (0 <=? d) && (d <=? 8) && code_ok c then Some (obs_of (toRPCErr (wrap_nse (Z.to_nat d) (mk_err kind c))))
    else None
  | [2; src; ff; api; kind; c] =>
    if code_ok c && (1 <=? src) && (src <=? 10) && negb (src =? 5) then
      if src =? 6 then Some (obs_of (if c =? 0 then ENil else EStatus c))
      else if src =? 7 then Some (obs_of (EStatus (if z2b ff then 14 else 4)))
      else if src =? 8 then Some (obs_of (EStatus (early_code c)))
      else if src =? 9 then Some (obs_of (EStatus (backoff_code c)))
      else if src =? 10 then Some (obs_of (EStatus 14))
      else Some (obs_of (rpc src (z2b ff) (mk_err kind c)))
    else None
  | _ => None
  end.

Fixpoint run_ops (ops : list word) : option (list word) :=
  match ops with
  | [] => Some []
  | op :: r => match run_op op, run_ops r with
               | Some o, Some os => Some (o :: os)
               | _, _ => None
               end
  end.
Definition run (cfg : word) (ops : list word) : option (list word) := run_ops ops.

(* ---- the property on an observation ----
   clause 1: the error is nil, (for SendMsg/RecvMsg-level conversions: io.EOF,) or a status
             error (status.FromError ok), i.e. it carries a gRPC status code
   clause 2: a status error with an A54-restricted code from the picker, the config selector
             or per-RPC credentials is surfaced as INTERNAL
   clause 3: a status sent by the server (data plane) arrives with its own code, restricted or
             not - also when the server ended the stream before the request was written;
             the RPC succeeds exactly when no error was injected
   clause 6: REFUTED (narrow): a config selector returning io.EOF makes Invoke/NewStream
             return bare io.EOF
   (note, no clause: an error value whose GRPCStatus() is a non-nil Status with code OK is
   surfaced unchanged, a non-nil error of code OK; the model says so and the correspondence
   run compares it) *)
Definition is_status_obs (o : word) : bool :=
  match o with [k; ok; _] => (k =? 2) && (ok =? 1) | _ => false end.
Definition is_nil_obs (o : word) : bool :=
  match o with [k; _; _] => k =? 0 | _ => false end.
Definition is_eof_obs (o : word) : bool :=
  match o with [k; _; _] => k =? 1 | _ => false end.
Definition code_obs (o : word) : Z := nth 2 o (-1).

Fixpoint inner (e : err) : err := match e with ENSE e' => inner e' | _ => e end.

(* the clauses of one RPC during which control-plane source src returned e <> nil *)
Definition is_eof_err (e : err) : bool := match e with EEOF => true | _ => false end.
Definition is_nil_err (e : err) : bool := match e with ENil => true | _ => false end.

Definition clause_rpc (k src : Z) (e : err) (o : word) : list (Z * Z * bool) :=
  (if (src =? 2) && is_eof_err e then [(6, k, is_status_obs o)]
   else [(1, k, is_status_obs o)]) ++
  match status_of e with
  | Some c' => if restricted c' then [(2, k, is_status_obs o && (code_obs o =? 13))] else []
  | None => []
  end.

Definition clause_op (k : Z) (op o : word) : list (Z * Z * bool) :=
  match op with
  | [1; d; kind; c] =>
    [(1, k, is_nil_obs o || is_eof_obs o || is_status_obs o)]
  | [2; src; ff; api; kind; c] =>
    if src =? 6 then
      [(3, k, if c =? 0 then is_nil_obs o else is_status_obs o && (code_obs o =? c))]
    else if src =? 7 then [(1, k, is_status_obs o)]
    else if src =? 8 then [(1, k, is_status_obs o); (3, k, code_obs o =? early_code c)]
    else if (src =? 9) || (src =? 10) then [(1, k, is_status_obs o)]
    else
      let e := mk_err kind c in
      if is_nil_err e then [(3, k, is_nil_obs o)] else clause_rpc k src e o
  | _ => [(0, k, false)]
  end.

Fixpoint clauses_from (k : Z) (ops obs : list word) : list (Z * Z * bool) :=
  match ops, obs with
  | op :: r, o :: r' => clause_op k op o ++ clauses_from (k + 1) r r'
  | [], [] => []
  | _, _ => [(0, k, false)]
  end.
Definition clauses (cfg : word) (ops obs : list word) : list (Z * Z * bool) := clauses_from 0 ops obs.

(* every clause but the refuted one (6) *)
Definition holds_b (cfg : word) (ops obs : list word) : bool :=
  forallb (fun c => (fst (fst c) =? 6) || snd c) (clauses cfg ops obs).

Definition check_case (c : case) : verdict :=
  decide (run (c_cfg c) (c_ops c)) (c_obs c) (clauses (c_cfg c) (c_ops c) (c_obs c)).
