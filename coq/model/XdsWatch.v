(* C43: what xDS watchers are told (internal/xds/clients/xdsclient/authority.go:
   handleADSResourceUpdate, handleADSResourceDoesNotExist, handleADSStreamFailure /
   propagateConnectivityErrorToAllWatchers, watchResource, unwatchResource) together with the
   part of ads_stream.go that decides which watch-expiry timers run (ResourceWatchState,
   startWatchTimersLocked, onRecv, onError) and which subscription requests go out.

   One management server.  Types: 0 requires all resources in every SotW response, 1 does
   not; names 0..2; resource key k = 4*type + name; watchers 0..5, several per resource.
   One step = one driver op run to quiescence (drivers/ext/ads/xdswatch_test.go).
   Callbacks: (1, content) ResourceChanged, (2, e) ResourceError, (3, e) AmbientError with
   e = 1 connection error, 2 resource does not exist, 1000+c NACK of the update with content c.
   No proofs here. *)
From Coq Require Import List ZArith Bool.
From VLib Require Import Codec Machine.
Import ListNotations.
Open Scope Z_scope.

Fixpoint mem (n : Z) (l : list Z) : bool :=
  match l with [] => false | x :: r => (x =? n) || mem n r end.
Fixpoint ins (n : Z) (l : list Z) : list Z :=
  match l with
  | [] => [n]
  | x :: r => if n <? x then n :: l else if n =? x then l else x :: ins n r
  end.
Fixpoint rem (n : Z) (l : list Z) : list Z :=
  match l with [] => [] | x :: r => if x =? n then rem n r else x :: rem n r end.

(* ---- one resource *)
Record rstate := mkR {
  rw : list Z;      (* watchers; [] = no state for this resource *)
  cache : Z;        (* cached content, -1 = none *)
  stat : Z;         (* md.Status: 1 requested, 2 ACKed, 3 NACKed, 4 does not exist *)
  err : Z;          (* content id of md.ErrState.Err, -1 = no ErrState *)
  delign : bool;    (* deletionIgnored *)
  ws : Z            (* ADS watch state: 0 started, 1 requested (expiry timer running), 2 received, 3 timeout *)
}.
Definition r_empty : rstate := mkR [] (-1) 0 (-1) false 0.

Inductive revent :=
| EValid (c : Z)    (* a valid update with content c *)
| EInvalid (c : Z)  (* an invalid (but named) update whose error text carries c *)
| EMissing          (* SotW response of its type that does not contain it *)
| EConn             (* connectivity error propagated to all watchers *)
| EDown             (* stream error: requested -> started, timer stopped *)
| EExpire           (* watch expiry timer fires *)
| ESent.            (* a request listing it went out: started -> requested, timer started *)

Definition cb := (Z * Z)%type.

Definition err_cb (r : rstate) (e : Z) : cb := if cache r =? -1 then (2, e) else (3, e).
Definition recvd (w : Z) : Z := if (w =? 0) || (w =? 1) then 2 else w.

(* transition of an existing resource and the callbacks EVERY watcher of it receives *)
Definition rstep (ign : bool) (r : rstate) (e : revent) : rstate * list cb :=
  match rw r with
  | [] => (r, [])
  | _ =>
    match e with
    | EValid c =>
      let r' := mkR (rw r) c 2 (-1) false (recvd (ws r)) in
      if (cache r =? -1) || negb (cache r =? c) || negb (err r =? -1) then (r', [(1, c)]) else (r', [])
    | EInvalid c =>
      let r' := mkR (rw r) (cache r) 3 c (delign r) (recvd (ws r)) in
      if (err r =? -1) || negb (err r =? c) then (r', [err_cb r (1000 + c)]) else (r', [])
    | EMissing =>
      if cache r =? -1 then (r, [])
      else if stat r =? 4 then (r, [])
      else if ign then (mkR (rw r) (cache r) (stat r) (err r) true (ws r), [])
      else (mkR (rw r) (-1) 4 (-1) (delign r) (ws r), [(2, 2)])
    | EConn => (r, [err_cb r 1])
    | EDown => (if ws r =? 1 then mkR (rw r) (cache r) (stat r) (err r) (delign r) 0 else r, [])
    | EExpire =>
      if ws r =? 1 then (mkR (rw r) (-1) 4 (-1) (delign r) 3, [(2, 2)]) else (r, [])
    | ESent => (if ws r =? 0 then mkR (rw r) (cache r) (stat r) (err r) (delign r) 1 else r, [])
    end
  end.

Fixpoint rsteps (ign : bool) (r : rstate) (es : list revent) : rstate * list cb :=
  match es with
  | [] => (r, [])
  | e :: t => let '(r1, c1) := rstep ign r e in let '(r2, c2) := rsteps ign r1 t in (r2, c1 ++ c2)
  end.

(* what a new watcher is told at once *)
Definition replay (r : rstate) : list cb :=
  (if cache r =? -1 then [] else [(1, cache r)]) ++
  (if stat r =? 3 then [err_cb r (1000 + err r)] else []) ++
  (if stat r =? 4 then [(2, 2)] else []).

(* ---- operations *)
Inductive aop :=
| AWatch (w t n : Z) | AUnwatch (w : Z) | AAllow | AFail
| AResp (t v n : Z) (rs : list (Z * Z * Z))   (* (name, kind, content)* *)
| ABreak | AExpire | ANop.

Fixpoint triples (l : list Z) : option (list (Z * Z * Z)) :=
  match l with
  | [] => Some []
  | a :: b :: c :: r =>
    if (0 <=? a) && (a <=? 255) && (0 <=? b) && (b <=? 255) && (0 <=? c) && (c <=? 255) then
      match triples r with Some x => Some ((a, b, c) :: x) | None => None end
    else None
  | _ => None
  end.

Definition decode (w : word) : aop :=
  match w with
  | c :: a =>
    if c =? 1 then
      match a with
      | [w; t; n] => if (0 <=? w) && (w <=? 5) && (0 <=? t) && (t <=? 1) && (0 <=? n) && (n <=? 2)
                     then AWatch w t n else ANop
      | _ => ANop
      end
    else if c =? 2 then match a with [w] => if (0 <=? w) && (w <=? 5) then AUnwatch w else ANop | _ => ANop end
    else if c =? 3 then match a with [] => AAllow | _ => ANop end
    else if c =? 4 then match a with [] => AFail | _ => ANop end
    else if c =? 5 then
      match a with
      | t :: v :: n :: r =>
        if (0 <=? t) && (t <=? 1) && (0 <=? v) && (0 <=? n) then
          match triples r with Some rs => AResp t v n rs | None => ANop end
        else ANop
      | _ => ANop
      end
    else if c =? 6 then match a with [] => ABreak | _ => ANop end
    else if c =? 8 then match a with [] => AExpire | _ => ANop end
    else ANop
  | [] => ANop
  end.

(* ---- whole client *)
Record st := mkS {
  res : Z -> rstate;     (* by resource key *)
  wm : Z -> Z;           (* watcher -> resource key, -1 = not watching *)
  has : Z -> bool;       (* the ADS stream has type state for this type *)
  live : bool;           (* runner inside recv(stream); false = blocked in NewStream *)
  sender : Z;            (* send goroutine's stream: 0 nil, 1 latest, 2 broken *)
  msgrecv : bool         (* a response was received on the current stream *)
}.
Definition init : st := mkS (fun _ => r_empty) (fun _ => -1) (fun _ => false) false 0 false.

Definition updr (f : Z -> rstate) (k : Z) (v : rstate) : Z -> rstate := fun x => if x =? k then v else f x.
Definition updz (f : Z -> Z) (k : Z) (v : Z) : Z -> Z := fun x => if x =? k then v else f x.
Definition updb (f : Z -> bool) (k : Z) (v : bool) : Z -> bool := fun x => if x =? k then v else f x.

Definition all_keys : list Z := [0; 1; 2; 4; 5; 6].
Definition all_watchers : list Z := [0; 1; 2; 3; 4; 5].
Definition ktype (k : Z) : Z := k / 4.
Definition kname (k : Z) : Z := k mod 4.
Definition nonempty (l : list Z) : bool := match l with [] => false | _ => true end.
Definition names (rs : Z -> rstate) (t : Z) : list Z :=
  filter (fun n => nonempty (rw (rs (4 * t + n)))) [0; 1; 2].

(* events of each resource for this op, as a function of the key *)
Definition apply_events (ign : bool) (s : st) (ev : Z -> list revent) : (Z -> rstate) * (Z -> list cb) :=
  (fun k => fst (rsteps ign (res s k) (ev k)), fun k => snd (rsteps ign (res s k) (ev k))).

(* last named entry of the response for a name *)
Fixpoint last_named (n : Z) (rs : list (Z * Z * Z)) : option (Z * Z) :=
  match rs with
  | [] => None
  | (a, k, c) :: r =>
    match last_named n r with
    | Some x => Some x
    | None => if (a =? n) && ((k =? 0) || (k =? 1)) then Some (k, c) else None
    end
  end.

Definition resp_events (sotw : bool) (n : Z) (rs : list (Z * Z * Z)) : list revent :=
  match last_named n rs with
  | Some (k, c) => if k =? 1 then [EValid c] else [EInvalid c]
  | None => if sotw then [EMissing] else []
  end.

Definition req_word (rs : Z -> rstate) (t : Z) : word := [100; t] ++ names rs t.

(* a subscription request of type t through the send goroutine *)
Definition send (ign : bool) (s : st) (t : Z) : st * list word :=
  if sender s =? 1 then
    let rs' := fst (apply_events ign s (fun k => if ktype k =? t then [ESent] else [])) in
    (mkS rs' (wm s) (has s) (live s) (sender s) (msgrecv s), [req_word (res s) t])
  else if sender s =? 2 then (mkS (res s) (wm s) (has s) (live s) 0 (msgrecv s), [])
  else (s, []).

Definition watcher_words (s : st) (cbs : Z -> list cb) (only : Z) : list word :=
  map (fun w =>
         w :: (if (wm s w =? -1) || ((0 <=? only) && negb (w =? only)) then []
               else flat_map (fun c => [fst c; snd c]) (cbs (wm s w))))
      all_watchers.

Definition mk_out (applied : bool) (ws : list word) (rq : list word) : list word :=
  [b2z applied; Z.of_nat (length rq)] :: ws ++ rq.
Definition quiet (s : st) (applied : bool) (rq : list word) : list word :=
  mk_out applied (watcher_words s (fun _ => []) (-1)) rq.

Definition step (ign : bool) (s : st) (a : aop) : st * list word :=
  match a with
  | AWatch w t n =>
    if wm s w =? -1 then
      let k := 4 * t + n in
      let r := res s k in
      let fresh := negb (nonempty (rw r)) in
      let r' := if fresh then mkR [w] (-1) 1 (-1) false 0
                else mkR (ins w (rw r)) (cache r) (stat r) (err r) (delign r) (ws r) in
      let s1 := mkS (updr (res s) k r') (updz (wm s) w k) (if fresh then updb (has s) t true else has s)
                    (live s) (sender s) (msgrecv s) in
      let '(s2, rq) := if fresh then send ign s1 t else (s1, []) in
      (s2, mk_out true (watcher_words s2 (fun _ => if fresh then [] else replay r) w) rq)
    else (s, quiet s false [])
  | AUnwatch w =>
    if wm s w =? -1 then (s, quiet s false [])
    else
      let k := wm s w in
      let r := res s k in
      let l := rem w (rw r) in
      let last := negb (nonempty l) in
      let r' := if last then r_empty else mkR l (cache r) (stat r) (err r) (delign r) (ws r) in
      let s1 := mkS (updr (res s) k r') (updz (wm s) w (-1)) (has s) (live s) (sender s) (msgrecv s) in
      let '(s2, rq) := if last then send ign s1 (ktype k) else (s1, []) in
      (s2, quiet s2 true rq)
  | AAllow =>
    if live s then (s, quiet s false [])
    else
      let s0 := mkS (res s) (wm s) (has s) true 1 false in
      let '(s1, q0) := if has s0 0 && nonempty (names (res s0) 0) then send ign s0 0 else (s0, []) in
      let '(s2, q1) := if has s1 1 && nonempty (names (res s1) 1) then send ign s1 1 else (s1, []) in
      (s2, quiet s2 true (q0 ++ q1))
  | AFail =>
    if live s then (s, quiet s false [])
    else
      let '(rs', cbs) := apply_events ign s (fun _ => [EDown; EConn]) in
      let s' := mkS rs' (wm s) (has s) (live s) (sender s) (msgrecv s) in
      (s', mk_out true (watcher_words s' cbs (-1)) [])
  | ABreak =>
    if live s then
      let '(rs', cbs) := apply_events ign s (fun _ => if msgrecv s then [EDown] else [EDown; EConn]) in
      let s' := mkS rs' (wm s) (has s) false 2 (msgrecv s) in
      (s', mk_out true (watcher_words s' cbs (-1)) [])
    else (s, quiet s false [])
  | AExpire =>
    let '(rs', cbs) := apply_events ign s (fun _ => [EExpire]) in
    let s' := mkS rs' (wm s) (has s) (live s) (sender s) (msgrecv s) in
    (s', mk_out true (watcher_words s' cbs (-1)) [])
  | AResp t v n rs =>
    if live s then
      let '(rs', cbs) := apply_events ign s (fun k => if ktype k =? t then resp_events (t =? 0) (kname k) rs else []) in
      let s' := mkS rs' (wm s) (has s) (live s) (sender s) true in
      (s', mk_out true (watcher_words s' cbs (-1)) (if has s t then [req_word rs' t] else []))
    else (s, quiet s false [])
  | ANop => (s, quiet s false [])
  end.

Fixpoint run_from (ign : bool) (s : st) (ops : list word) : list word :=
  match ops with
  | [] => []
  | op :: r => let '(s', o) := step ign s (decode op) in o ++ run_from ign s' r
  end.

Definition is_ign (cfg : word) : bool := match cfg with [1] => true | _ => false end.
Definition run (cfg : word) (ops : list word) : option (list word) :=
  Some (run_from (is_ign cfg) init ops).

(* ---- the property as monitors over (ops, observations) ---------------------------------
   Pass A looks at each watcher's own callback sequence only.  Per watcher: val = content of
   the valid resource it holds (-1 none: nothing received yet, or invalidated by a
   ResourceError), fr = c when its last callback other than a connection error was
   ResourceChanged(c) (-1 otherwise).
     clause 2  no ResourceChanged(c) while fr = c (identical update, no NACK in between)
     clause 3  AmbientError only while it holds a valid resource, ResourceError for a
               rejected update / connection failure only while it holds none
   Pass B also tracks watcher -> resource from the ops.
     clause 1  every callback is justified by the op: ResourceChanged(c) only for a valid
               resource (name, c) of the response (last entry of that name), or on a new
               watch when another watcher of the resource holds c - and then it comes first;
               NACK errors only for an invalid entry; 'does not exist' only for a resource
               missing from a SotW response (never with ignore_resource_deletion) or on expiry of the
               timer of a watcher that holds no valid resource;
               no callback on cancel, on ops that were not applied, or for other watchers
     clause 5  every request lists exactly the names that have a watcher
     clause 6  a failed stream (before any response on it) gives every watcher exactly one
               connection error; after a response it gives none (gRFC A57, see props/C43.v)
   clause 0 malformed observation *)
Fixpoint take_words (n : nat) (l : list word) : option (list word * list word) :=
  match n with
  | O => Some ([], l)
  | S n' => match l with
            | [] => None
            | x :: r => match take_words n' r with
                        | Some (a, b) => Some (x :: a, b)
                        | None => None
                        end
            end
  end.

Fixpoint pairs (l : list Z) : option (list cb) :=
  match l with
  | [] => Some []
  | k :: a :: r => match pairs r with Some x => Some ((k, a) :: x) | None => None end
  | _ => None
  end.

(* pass A: one watcher's callbacks *)
Fixpoint cbs_A (i : Z) (val fr : Z) (cbs : list cb) : Z * Z * list (Z * Z * bool) :=
  match cbs with
  | [] => (val, fr, [])
  | (k, a) :: r =>
    let cl :=
      if k =? 1 then [(2, i, negb (fr =? a))]
      else if k =? 3 then [(3, i, negb (val =? -1))]
      else if (k =? 2) && negb (a =? 2) then [(3, i, val =? -1)]
      else [] in
    let val' := if k =? 1 then a else if k =? 2 then -1 else val in
    let fr' := if k =? 1 then a else if a =? 1 then fr else -1 in
    let '(v2, f2, cl2) := cbs_A i val' fr' r in (v2, f2, cl ++ cl2)
  end.

Record monA := mkA { a_val : Z -> Z; a_fr : Z -> Z }.
Definition monA_init : monA := mkA (fun _ => -1) (fun _ => -1).

Fixpoint words_A (i : Z) (m : monA) (ws : list word) : monA * list (Z * Z * bool) :=
  match ws with
  | [] => (m, [])
  | (w :: l) :: r =>
    match pairs l with
    | Some cbs =>
      let '(v, f, cl) := cbs_A i (a_val m w) (a_fr m w) cbs in
      let '(m2, cl2) := words_A i (mkA (updz (a_val m) w v) (updz (a_fr m) w f)) r in
      (m2, cl ++ cl2)
    | None => (m, [(0, i, false)])
    end
  | [] :: _ => (m, [(0, i, false)])
  end.

Definition opA (m : monA) (a : aop) (applied : bool) : monA :=
  match a with
  | AUnwatch w => if applied then mkA (updz (a_val m) w (-1)) (updz (a_fr m) w (-1)) else m
  | _ => m
  end.

Fixpoint clauses_A (m : monA) (i : Z) (ops obs : list word) : list (Z * Z * bool) :=
  match ops with
  | [] => match obs with [] => [] | _ => [(0, i, false)] end
  | op :: r =>
    match obs with
    | [ap; nreq] :: obs' =>
      match take_words 6 obs' with
      | Some (ws, rest1) =>
        match take_words (Z.to_nat nreq) rest1 with
        | Some (_, rest) =>
          let '(m', cl) := words_A i (opA m (decode op) (z2b ap)) ws in
          cl ++ clauses_A m' (i + 1) r rest
        | None => [(0, i, false)]
        end
      | None => [(0, i, false)]
      end
    | _ => [(0, i, false)]
    end
  end.

(* pass B *)
Record monB := mkB { b_wm : Z -> Z; b_val : Z -> Z; b_live : bool; b_msg : bool }.
Definition monB_init : monB := mkB (fun _ => -1) (fun _ => -1) false false.

Definition peer_holds (m : monB) (k w c : Z) : bool :=
  existsb (fun x => negb (x =? w) && (b_wm m x =? k) && (b_val m x =? c)) all_watchers.
Definition peer_content (m : monB) (k w : Z) : Z :=
  fold_right (fun x acc => if negb (x =? w) && (b_wm m x =? k) && negb (b_val m x =? -1) then b_val m x else acc)
             (-1) all_watchers.

Definition justified (ign : bool) (m : monB) (a : aop) (applied : bool) (w : Z) (cbs : list cb) : bool :=
  if negb applied then negb (nonempty (map fst cbs)) else
  match a with
  | AWatch w0 t n =>
    if w =? w0 then
      let k := 4 * t + n in
      let pc := peer_content m k w in
      forallb (fun c => if fst c =? 1 then peer_holds m k w (snd c) else true) cbs &&
      (if pc =? -1 then true else match cbs with (1, c) :: _ => c =? pc | _ => false end)
    else negb (nonempty (map fst cbs))
  | AResp t v n rs =>
    let k := b_wm m w in
    if (k =? -1) || negb (ktype k =? t) then negb (nonempty (map fst cbs))
    else
      match cbs with
      | [] => true
      | [(kd, e)] =>
        match last_named (kname k) rs with
        | Some (vk, c) =>
          if vk =? 1 then (kd =? 1) && (e =? c)
          else ((kd =? 2) || (kd =? 3)) && (e =? 1000 + c)
        | None => (kd =? 2) && (e =? 2) && (t =? 0) && negb ign
        end
      | _ => false
      end
  | AFail =>
    if b_wm m w =? -1 then negb (nonempty (map fst cbs))
    else match cbs with [(kd, e)] => ((kd =? 2) || (kd =? 3)) && (e =? 1) | _ => false end
  | ABreak =>
    if (b_wm m w =? -1) || b_msg m then negb (nonempty (map fst cbs))
    else match cbs with [(kd, e)] => ((kd =? 2) || (kd =? 3)) && (e =? 1) | _ => false end
  | AExpire =>
    (* a watcher that holds a valid resource has no running expiry timer: nothing may be reported *)
    if (b_wm m w =? -1) || negb (b_val m w =? -1) then negb (nonempty (map fst cbs))
    else match cbs with [] => true | [(kd, e)] => (kd =? 2) && (e =? 2) | _ => false end
  | _ => negb (nonempty (map fst cbs))
  end.

Definition cl_of (a : aop) : Z := match a with AFail | ABreak => 6 | _ => 1 end.

Fixpoint last_val (v : Z) (cbs : list cb) : Z :=
  match cbs with
  | [] => v
  | (k, a) :: r => last_val (if k =? 1 then a else if k =? 2 then -1 else v) r
  end.

Fixpoint words_B (ign : bool) (i : Z) (m0 m : monB) (a : aop) (applied : bool) (ws : list word)
  : monB * list (Z * Z * bool) :=
  match ws with
  | [] => (m, [])
  | (w :: l) :: r =>
    match pairs l with
    | Some cbs =>
      let m1 := mkB (b_wm m) (updz (b_val m) w (last_val (b_val m w) cbs)) (b_live m) (b_msg m) in
      let '(m2, cl2) := words_B ign i m0 m1 a applied r in
      (m2, (cl_of a, i, justified ign m0 a applied w cbs) :: cl2)
    | None => (m, [(0, i, false)])
    end
  | [] :: _ => (m, [(0, i, false)])
  end.

Definition opB (m : monB) (a : aop) (applied : bool) : monB :=
  if negb applied then m else
  match a with
  | AWatch w t n => mkB (updz (b_wm m) w (4 * t + n)) (b_val m) (b_live m) (b_msg m)
  | AUnwatch w => mkB (updz (b_wm m) w (-1)) (updz (b_val m) w (-1)) (b_live m) (b_msg m)
  | AAllow => mkB (b_wm m) (b_val m) true false
  | ABreak => mkB (b_wm m) (b_val m) false (b_msg m)
  | AResp _ _ _ _ => mkB (b_wm m) (b_val m) (b_live m) true
  | _ => m
  end.

Fixpoint list_eqb (a b : list Z) : bool :=
  match a, b with
  | [], [] => true
  | x :: a', y :: b' => (x =? y) && list_eqb a' b'
  | _, _ => false
  end.
Definition watched (m : monB) (t : Z) : list Z :=
  filter (fun n => existsb (fun w => b_wm m w =? 4 * t + n) all_watchers) [0; 1; 2].
Definition req_B (i : Z) (m : monB) (r : word) : Z * Z * bool :=
  match r with
  | c :: t :: ns => (5, i, (c =? 100) && list_eqb ns (watched m t))
  | _ => (0, i, false)
  end.

Fixpoint clauses_B (ign : bool) (m : monB) (i : Z) (ops obs : list word) : list (Z * Z * bool) :=
  match ops with
  | [] => []
  | op :: r =>
    match obs with
    | [ap; nreq] :: obs' =>
      match take_words 6 obs' with
      | Some (ws, rest1) =>
        match take_words (Z.to_nat nreq) rest1 with
        | Some (rq, rest) =>
          let a := decode op in
          let m1 := opB m a (z2b ap) in
          let '(m2, cl) := words_B ign i m m1 a (z2b ap) ws in
          cl ++ map (req_B i m2) rq ++ clauses_B ign m2 (i + 1) r rest
        | None => [(0, i, false)]
        end
      | None => [(0, i, false)]
      end
    | _ => [(0, i, false)]
    end
  end.

Definition clauses (cfg : word) (ops obs : list word) : list (Z * Z * bool) :=
  clauses_A monA_init 0 ops obs ++ clauses_B (is_ign cfg) monB_init 0 ops obs.

Definition holds_A (ops obs : list word) : bool := forallb (fun c => snd c) (clauses_A monA_init 0 ops obs).
Definition holds_b (cfg : word) (ops obs : list word) : bool :=
  forallb (fun c => snd c) (clauses cfg ops obs).

Definition check_case (c : case) : verdict :=
  decide (run (c_cfg c) (c_ops c)) (c_obs c) (clauses (c_cfg c) (c_ops c) (c_obs c)).
