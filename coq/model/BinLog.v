(* C55: binary-log truncation and omitted headers.
   Transcribes internal/binarylog/method_logger.go: TruncatingMethodLogger.Build (the
   payload switch), truncateMetadata, truncateMessage, metadataKeyOmit,
   mdToMetadataProto.  A metadata entry is (key bytes, value length, value tag): the
   code only looks at the key and at the length of the value; the tag identifies the
   value so that "in order / prefix" is observable.  No proofs here. *)
From Coq Require Import String Ascii List ZArith Bool.
From VLib Require Import Codec Machine.
Import ListNotations.
Open Scope Z_scope.

Definition bytes_of (s : string) : list Z :=
  map (fun a => Z.of_N (N_of_ascii a)) (list_ascii_of_string s).

Fixpoint list_eqb (a b : list Z) : bool :=
  match a, b with
  | [], [] => true
  | x :: a', y :: b' => (x =? y) && list_eqb a' b'
  | _, _ => false
  end.

(* strings.HasPrefix(k, p) *)
Fixpoint has_prefix (p k : list Z) : bool :=
  match p, k with
  | [], _ => true
  | x :: p', y :: k' => (x =? y) && has_prefix p' k'
  | _ :: _, [] => false
  end.

Definition entry := (list Z * Z * Z)%type.      (* key, len(value), value tag *)
Definition e_key (e : entry) : list Z := fst (fst e).
Definition e_vlen (e : entry) : Z := snd (fst e).

Definition k_trace : list Z := bytes_of "grpc-trace-bin".
Definition k_grpc_dash : list Z := bytes_of "grpc-".

(* metadataKeyOmit *)
Definition omit_names : list (list Z) :=
  map bytes_of ["lb-token"; ":path"; ":authority"; "content-encoding"; "content-type";
                "user-agent"; "te"]%string.
Definition key_omit (k : list Z) : bool :=
  if existsb (list_eqb k) omit_names then true
  else if list_eqb k k_trace then false
  else has_prefix k_grpc_dash k.

(* mdToMetadataProto: md is the map in iteration order, (key, values) *)
Definition md_to_proto (md : list (list Z * list (Z * Z))) : list entry :=
  flat_map (fun kv => if key_omit (fst kv) then []
                      else map (fun v => (fst kv, fst v, snd v)) (snd kv)) md.

Definition max_uint : Z := 2 ^ 64 - 1.
Definition is_trace (e : entry) : bool := list_eqb (e_key e) k_trace.
Definition e_size (e : entry) : Z := Z.of_nat (length (e_key e)) + e_vlen e.

(* the loop of truncateMetadata: value of index when the loop ends *)
Fixpoint cut_index (limit : Z) (es : list entry) : nat :=
  match es with
  | [] => O
  | e :: r =>
    if is_trace e then S (cut_index limit r)                (* continue *)
    else if e_size e >? limit then O                        (* break *)
    else S (cut_index (limit - e_size e) r)
  end.

Definition truncate_md (hmax : Z) (es : list entry) : list entry * bool :=
  if hmax =? max_uint then (es, false) else
  let i := cut_index hmax es in
  (firstn i es, (Z.of_nat i <? Z.of_nat (length es))).

(* truncateMessage on a payload of n bytes: (len(Data) afterwards, truncated) *)
Definition truncate_msg (mmax n : Z) : Z * bool :=
  if mmax =? max_uint then (n, false) else
  if mmax >=? n then (n, false) else (mmax, true).

(* Build: kinds 0 = ClientHeader, 1 = ServerHeader are truncated; 2 = Trailer is not
   in the payload switch, so its metadata is left alone and PayloadTruncated stays false *)
Definition build_md (kind hmax : Z) (es : list entry) : list entry * bool :=
  if kind =? 2 then (es, false) else truncate_md hmax es.

(* ---- the property, stated independently of the loop ---- *)

(* headers the property says never appear *)
Definition prop_omit_names : list (list Z) :=
  map bytes_of [":path"; ":authority"; "content-type"; "user-agent"; "te"; "lb-token"]%string.
Definition prop_omit (k : list Z) : bool :=
  (has_prefix k_grpc_dash k && negb (list_eqb k k_trace)) || existsb (list_eqb k) prop_omit_names.

(* total size of the counted (non-trace) entries *)
Fixpoint counted_size (es : list entry) : Z :=
  match es with
  | [] => 0
  | e :: r => (if is_trace e then 0 else e_size e) + counted_size r
  end.

(* the statement's reading: keep the longest prefix of the counted entries that fits;
   grpc-trace-bin entries are always kept, wherever they are *)
Fixpoint spec_keep (limit : Z) (cut : bool) (es : list entry) : list entry :=
  match es with
  | [] => []
  | e :: r =>
    if is_trace e then e :: spec_keep limit cut r
    else if cut then spec_keep limit cut r
    else if e_size e >? limit then spec_keep limit true r
    else e :: spec_keep (limit - e_size e) cut r
  end.
Definition spec_md (hmax : Z) (es : list entry) : list entry * bool :=
  let out := spec_keep hmax false es in
  (out, (Z.of_nat (length out) <? Z.of_nat (length es))).

Definition entry_eqb (a b : entry) : bool :=
  list_eqb (e_key a) (e_key b) && (e_vlen a =? e_vlen b) && (snd a =? snd b).
Fixpoint entries_eqb (a b : list entry) : bool :=
  match a, b with
  | [], [] => true
  | x :: a', y :: b' => entry_eqb x y && entries_eqb a' b'
  | _, _ => false
  end.

(* "out, t" is the prefix of es before the first counted entry that does not fit *)
Definition prefix_ok (hmax : Z) (es out : list entry) (t : bool) : bool :=
  let n := length out in
  entries_eqb out (firstn n es) &&
  Bool.eqb t (Z.of_nat n <? Z.of_nat (length es)) &&
  if hmax =? max_uint then negb t
  else (counted_size out <=? hmax) &&
       match nth_error es n with
       | Some e => negb (is_trace e) && (hmax <? counted_size out + e_size e)
       | None => true
       end.

Definition count_trace (es : list entry) : Z :=
  Z.of_nat (length (filter is_trace es)).

(* ---- case encoding ---- *)

Definition key_table : list (list Z) :=
  map bytes_of ["grpc-trace-bin"; "lb-token"; ":path"; ":authority"; "content-encoding";
                "content-type"; "user-agent"; "te"; "grpc-status"; "grpc-";
                "grpc-trace-bin2"; "grpc-trace-bi"; "grpc-timeout"; "grpc"; "grpc_x";
                "Grpc-foo"; "a"; "abcdef"; "key-bin"; ""; "te2"; "x-grpc-y"; ":method";
                "content-typ"; "user-agent2"; "lb-tokens";
                "grpc-tags-bin"; "grpc-status-details-bin"; "grpc-x-bin"; "grpc--bin";
                "grpc-bin"; "user-key-bin"; "x-grpc-trace-bin"]%string.
Definition key_of (kid : Z) : option (list Z) :=
  if kid <? 0 then None else nth_error key_table (Z.to_nat kid).
Fixpoint kid_from (i : Z) (tbl : list (list Z)) (k : list Z) : Z :=
  match tbl with
  | [] => -1
  | x :: r => if list_eqb x k then i else kid_from (i + 1) r k
  end.
Definition kid_of (k : list Z) : Z := kid_from 0 key_table k.

(* n entries [kid; vlen; vtag] *)
Fixpoint get_entries (n : nat) (w : word) : option (list entry * word) :=
  match n with
  | O => Some ([], w)
  | S n' =>
    match w with
    | kid :: vlen :: vtag :: r =>
      match key_of kid, get_entries n' r with
      | Some k, Some (es, r') => if vlen <? 0 then None else Some ((k, vlen, vtag) :: es, r')
      | _, _ => None
      end
    | _ => None
    end
  end.

(* n values [vlen; vtag] *)
Fixpoint get_vals (n : nat) (w : word) : option (list (Z * Z) * word) :=
  match n with
  | O => Some ([], w)
  | S n' =>
    match w with
    | vlen :: vtag :: r =>
      match get_vals n' r with
      | Some (vs, r') => if vlen <? 0 then None else Some ((vlen, vtag) :: vs, r')
      | None => None
      end
    | _ => None
    end
  end.

(* n keys [kid; nvals; values] *)
Fixpoint get_md (n : nat) (w : word) : option (list (list Z * list (Z * Z)) * word) :=
  match n with
  | O => Some ([], w)
  | S n' =>
    match w with
    | kid :: nv :: r =>
      if (nv <? 0) || (1000 <? nv) then None else
      match key_of kid, get_vals (Z.to_nat nv) r with
      | Some k, Some (vs, r') =>
        match get_md n' r' with
        | Some (md, r'') => Some ((k, vs) :: md, r'')
        | None => None
        end
      | _, _ => None
      end
    | _ => None
    end
  end.

Definition put_entries (es : list entry) : word :=
  flat_map (fun e => [kid_of (e_key e); e_vlen e; snd e]) es.

Definition small_count (n : Z) : bool := (0 <=? n) && (n <=? 1000).

(* a decoded operation *)
Inductive dop :=
| DMd (kind hmax : Z) (es : list entry)          (* Build of a header/trailer with these entries *)
| DMsg (mmax n : Z)                              (* Build of a message with n payload bytes *)
| DConv (md : list (list Z * list (Z * Z)))      (* mdToMetadataProto *)
| DHdr (kind hmax : Z) (md : list (list Z * list (Z * Z))).   (* Build of a real config *)

(* op [1; kind; hlim; n; (kid; vlen; vtag)*n]      limits travel as int64 = uint64 bits
   op [2; kind; mlim; len]
   op [3; nkeys; (kid; nvals; (vlen; vtag)*nvals)*nkeys]
   op [4; kind; hlim; kid; nvals; (vlen; vtag)*nvals] *)
Definition decode_op (op : word) : option dop :=
  match op with
  | 1 :: kind :: h :: n :: r =>
    if small_count n && (0 <=? kind) && (kind <=? 2) then
      match get_entries (Z.to_nat n) r with
      | Some (es, []) => Some (DMd kind (u64 h) es)
      | _ => None
      end
    else None
  | [2; kind; m; n] =>
    if (0 <=? n) && (n <? 2 ^ 31) then Some (DMsg (u64 m) n) else None
  | 3 :: n :: r =>
    if small_count n then
      match get_md (Z.to_nat n) r with
      | Some (md, []) => Some (DConv md)
      | _ => None
      end
    else None
  | 4 :: kind :: h :: r =>
    if (0 <=? kind) && (kind <=? 2) then
      match get_md 1 r with
      | Some (md, []) => Some (DHdr kind (u64 h) md)
      | _ => None
      end
    else None
  | _ => None
  end.

Definition obs_md (r : list entry * bool) : word :=
  b2z (snd r) :: Z.of_nat (length (fst r)) :: put_entries (fst r).

(* obs: metadata [truncated; m; (kid; vlen; vtag)*m]; message [truncated; len(Data); is prefix];
   conversion [m; (kid; vlen; vtag)*m] *)
Definition run_dop (d : dop) : word :=
  match d with
  | DMd kind h es => obs_md (build_md kind h es)
  | DMsg m n => let '(l, t) := truncate_msg m n in [b2z t; l; 1]
  | DConv md => let es := md_to_proto md in Z.of_nat (length es) :: put_entries es
  | DHdr kind h md => obs_md (build_md kind h (md_to_proto md))
  end.

Definition run_op (op : word) : option word :=
  match decode_op op with Some d => Some (run_dop d) | None => None end.

Fixpoint run (ops : list word) : option (list word) :=
  match ops with
  | [] => Some []
  | op :: r => match run_op op, run r with
               | Some o, Some os => Some (o :: os)
               | _, _ => None
               end
  end.

(* ---- clauses ----
   1  header entry: kept entries are, in order, the prefix before the first counted
      entry that does not fit; counted sizes fit; flag <-> something dropped
   2  message entry: len = min(n, limit), a prefix of the payload, flag <-> n > limit
   3  no omitted key in what mdToMetadataProto / Build of a real config produce, and
      exactly the non-omitted entries of the map are produced in per-key order
   4  FINDING (trace-bin after the cut): every grpc-trace-bin entry of the input is kept
   5  FINDING (trailer): a trailer whose counted entries exceed the limit is cut
   6  trailer entry: behaves as a header entry or is left untouched with flag false *)
Definition parse_md_obs (o : word) : option (bool * list entry) :=
  match o with
  | t :: m :: r =>
    if small_count m && ((t =? 0) || (t =? 1)) then
      match get_entries (Z.to_nat m) r with
      | Some (es, []) => Some (z2b t, es)
      | _ => None
      end
    else None
  | _ => None
  end.

Definition no_omitted (es : list entry) : bool :=
  forallb (fun e => negb (prop_omit (e_key e))) es.

Definition md_clauses (kind h : Z) (es : list entry) (o : word) : list (Z * Z * bool) :=
  match parse_md_obs o with
  | None => [(1, -1, false)]
  | Some (t, out) =>
    if kind =? 2 then
      let untouched := entries_eqb out es && negb t in
      [(6, 0, prefix_ok h es out t || untouched);
       (5, 0, negb (untouched && negb (h =? max_uint) && (h <? counted_size es)))]
    else
      [(1, 0, prefix_ok h es out t);
       (4, 0, count_trace out =? count_trace es)]
  end.

Definition clause_op (op obs : word) : list (Z * Z * bool) :=
  match decode_op op with
  | None => [(0, 0, false)]
  | Some (DMd kind h es) => md_clauses kind h es obs
  | Some (DMsg m n) =>
    match obs with
    | [t; l; p] => [(2, 0, (l =? Z.min n m) && (p =? 1) && (t =? b2z (m <? n)))]
    | _ => [(2, -1, false)]
    end
  | Some (DConv md) =>
    match obs with
    | m :: r =>
      if small_count m then
        match get_entries (Z.to_nat m) r with
        | Some (es, []) =>
          [(3, 0, no_omitted es && entries_eqb es (md_to_proto md))]
        | _ => [(3, -1, false)]
        end
      else [(3, -1, false)]
    | _ => [(3, -1, false)]
    end
  | Some (DHdr kind h md) =>
    match parse_md_obs obs with
    | None => [(3, -1, false)]
    | Some (_, out) => (3, 1, no_omitted out) :: md_clauses kind h (md_to_proto md) obs
    end
  end.

Fixpoint clauses (ops obs : list word) : list (Z * Z * bool) :=
  match ops, obs with
  | op :: r, o :: r' => clause_op op o ++ clauses r r'
  | [], [] => []
  | _, _ => [(0, 0, false)]
  end.

(* clauses 4 and 5 are refuted sentences (see proof/BinLog_proofs.v); the predicate
   proved for every model trace is the conjunction of the others *)
Definition is_finding_clause (c : Z * Z * bool) : bool :=
  (fst (fst c) =? 4) || (fst (fst c) =? 5).
Definition holds_b (ops obs : list word) : bool :=
  forallb (fun c => is_finding_clause c || snd c) (clauses ops obs).

(* Codec.decide reports every false clause and the first differing observation, so a
   known finding (clauses 4, 5) cannot mask another failure in the same case. *)
Definition check_case (c : case) : verdict :=
  decide (run (c_ops c)) (c_obs c) (clauses (c_ops c) (c_obs c)).
