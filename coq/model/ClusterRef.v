(* C51: xDS resolver cluster reference counting.
   Transcribes internal/xds/resolver/xds_resolver.go (Update, onResourceError,
   newConfigSelector, addOrGetActiveClusterInfo, sendNewServiceConfig,
   pruneActiveClustersAndPlugins) and serviceconfig.go (configSelector.SelectConfig with its
   OnCommitted closure, configSelector.stop), at the granularity of one serializer callback /
   one SelectConfig / one OnCommitted call per step.
   clusterInfo objects live in a heap (list, index = pointer identity) and are never freed;
   activeClusters and activePlugins are one list of heap ids (a key < 0 is a cluster
   specifier plugin, a key > 0 a cluster).  Loops over Go maps (cs.clusters, cs.plugins,
   activeClusters) are written pointwise over the heap, so no iteration order is involved.
   The RefCounted route clusters (interceptor lifetime) are not modelled.  No proofs here. *)
From Coq Require Import List ZArith Bool.
From VLib Require Import Codec Machine.
Import ListNotations.
Open Scope Z_scope.

Record ci := mk_ci { ci_key : Z; ci_ref : Z; ci_unsub : Z }.
(* an RPC: the clusterInfo captured by its OnCommitted closure, the cluster key, done =
   the sync.OnceFunc has fired *)
Record rpc := mk_rpc { rp_ci : nat; rp_key : Z; rp_done : bool }.
(* curConfigSelector: nil | erroringConfigSelector | configSelector (per route, the
   clusterInfo of each weighted cluster / of the plugin) *)
Inductive sel := SNone | SErr | SCfg (routes : list (list nat)).
Record st := mk_st { heap : list ci; active : list nat; cur : sel; rpcs : list rpc }.
Definition st0 : st := mk_st [] [] SNone [].

Definition dummy_ci : ci := mk_ci 0 0 0.
Definition get (h : list ci) (id : nat) : ci := nth id h dummy_ci.
Definition is_plugin (k : Z) : bool := k <? 0.
Definition memb (x : nat) (l : list nat) : bool := existsb (Nat.eqb x) l.

Fixpoint mapi_from {A : Type} (i : nat) (f : nat -> A -> A) (l : list A) : list A :=
  match l with [] => [] | x :: r => f i x :: mapi_from (S i) f r end.
Definition mapi {A : Type} (f : nat -> A -> A) (l : list A) : list A := mapi_from 0 f l.

(* addOrGetActiveClusterInfo *)
Definition find_active (k : Z) (h : list ci) (a : list nat) : option nat :=
  find (fun id => ci_key (get h id) =? k) a.
Definition add_or_get (k : Z) (h : list ci) (a : list nat) : nat * list ci * list nat :=
  match find_active k h a with
  | Some id => (id, h, a)
  | None => (length h, h ++ [mk_ci k 0 0], a ++ [length h])
  end.

(* the route loop of newConfigSelector *)
Fixpoint build_route (ks : list Z) (h : list ci) (a : list nat) : list nat * list ci * list nat :=
  match ks with
  | [] => ([], h, a)
  | k :: r =>
    let '(id, h1, a1) := add_or_get k h a in
    let '(ids, h2, a2) := build_route r h1 a1 in
    (id :: ids, h2, a2)
  end.
Fixpoint build_routes (rs : list (list Z)) (h : list ci) (a : list nat)
  : list (list nat) * list ci * list nat :=
  match rs with
  | [] => ([], h, a)
  | ks :: r =>
    let '(ids, h1, a1) := build_route ks h a in
    let '(rest, h2, a2) := build_routes r h1 a1 in
    (ids :: rest, h2, a2)
  end.

Definition sel_ids (s : sel) : list nat :=
  match s with SCfg routes => concat routes | _ => [] end.

(* for _, ci := range cs.clusters/cs.plugins { ci.refCount.Add(1) } *)
Definition acquire (set : list nat) (h : list ci) : list ci :=
  mapi (fun id c => if memb id set then mk_ci (ci_key c) (ci_ref c + 1) (ci_unsub c) else c) h.

(* refCount.Add(-1) on every clusterInfo of the set; at zero a cluster calls unsubscribe,
   a plugin schedules sendNewServiceConfig (counted by nsched on the heap before release) *)
Definition release (set : list nat) (h : list ci) : list ci :=
  mapi (fun id c =>
    if memb id set then
      let r := ci_ref c - 1 in
      mk_ci (ci_key c) r (if (r =? 0) && negb (is_plugin (ci_key c)) then ci_unsub c + 1 else ci_unsub c)
    else c) h.
Definition nsched (set : list nat) (h : list ci) : nat :=
  length (filter (fun id => memb id set && is_plugin (ci_key (get h id)) && (ci_ref (get h id) - 1 =? 0))
                 (seq 0 (length h))).

(* pruneActiveClustersAndPlugins *)
Definition prune (h : list ci) (a : list nat) : list ci * list nat :=
  (mapi (fun id c =>
     if memb id a && (ci_ref c =? 0) && negb (is_plugin (ci_key c))
     then mk_ci (ci_key c) (ci_ref c) (ci_unsub c + 1) else c) h,
   filter (fun id => negb (ci_ref (get h id) =? 0)) a).

(* observations are sorted by key: insertion sort of the heap ids by their key *)
Fixpoint ins_id (h : list ci) (x : nat) (l : list nat) : list nat :=
  match l with
  | [] => [x]
  | y :: r => if ci_key (get h x) <=? ci_key (get h y) then x :: l else y :: ins_id h x r
  end.
Fixpoint sort_ids (h : list ci) (l : list nat) : list nat :=
  match l with [] => [] | x :: r => ins_id h x (sort_ids h r) end.

Fixpoint live_from (i : nat) (l : list rpc) : list (nat * rpc) :=
  match l with
  | [] => []
  | r :: t => if rp_done r then live_from (S i) t else (i, r) :: live_from (S i) t
  end.
Definition live (l : list rpc) : list (nat * rpc) := live_from 0 l.

(* the service config handed to cc.UpdateState: children with their reference counts at
   that moment, followed by the uncommitted RPCs (id, key) *)
Definition emit (normal : bool) (h : list ci) (a : list nat) (rs : list rpc) : word :=
  if normal then
    1 :: 1 :: Z.of_nat (length a)
      :: flat_map (fun id => [ci_key (get h id); ci_ref (get h id)]) (sort_ids h a)
      ++ flat_map (fun p => [Z.of_nat (fst p); rp_key (snd p)]) (live rs)
  else 1 :: 0 :: 0 :: flat_map (fun p => [Z.of_nat (fst p); rp_key (snd p)]) (live rs).

Definition cur_normal (c : sel) : bool := match c with SErr => false | _ => true end.

(* sendNewServiceConfig(r.curConfigSelector) *)
Definition send (s : st) : st * word :=
  let '(h, a) := prune (heap s) (active s) in
  (mk_st h a (cur s) (rpcs s), emit (cur_normal (cur s)) h a (rpcs s)).
Fixpoint sends (n : nat) (s : st) : st * list word :=
  match n with
  | O => (s, [])
  | S n' => let '(s1, w) := send s in let '(s2, ws) := sends n' s1 in (s2, w :: ws)
  end.

(* a route in an Update word: entries up to the next 0; a negative first entry makes it a
   cluster-specifier-plugin route, otherwise its positive entries are weighted clusters *)
Fixpoint split0 (l cur : list Z) : list (list Z) :=
  match l with
  | [] => [rev cur]
  | x :: r => if x =? 0 then rev cur :: split0 r [] else split0 r (x :: cur)
  end.
Definition norm_route (ks : list Z) : list Z :=
  match ks with
  | [] => []
  | k :: _ => if k <? 0 then [k] else filter (fun x => 0 <? x) ks
  end.

(* xdsResolver.Update *)
Definition do_update (rs : list (list Z)) (s : st) : st * list word :=
  let '(routes, h1, a1) := build_routes rs (heap s) (active s) in
  let h2 := acquire (concat routes) h1 in
  let '(h3, a3) := prune h2 a1 in
  let w := emit true h3 a3 (rpcs s) in
  let old := sel_ids (cur s) in
  let n := nsched old h3 in
  let '(s', ws) := sends n (mk_st (release old h3) a3 (SCfg routes) (rpcs s)) in
  (s', w :: ws).

(* xdsResolver.Error -> onResourceError *)
Definition do_error (s : st) : st * list word :=
  let '(h1, a1) := prune (heap s) (active s) in
  let w := emit false h1 a1 (rpcs s) in
  let old := sel_ids (cur s) in
  let n := nsched old h1 in
  let '(s', ws) := sends n (mk_st (release old h1) a1 SErr (rpcs s)) in
  (s', w :: ws).

(* configSelector.SelectConfig on route i, the WRR returning entry (c mod length) *)
Definition do_select (i c : Z) (s : st) : st * list word :=
  match cur s with
  | SCfg routes =>
    if i <? 0 then (s, [[2; 0; 0]]) else
    match nth_error routes (Z.to_nat i) with
    | Some (e :: es) =>
      let ent := e :: es in
      let id := nth (Z.to_nat (c mod Z.of_nat (length ent))) ent e in
      let k := ci_key (get (heap s) id) in
      (mk_st (acquire [id] (heap s)) (active s) (cur s) (rpcs s ++ [mk_rpc id k false]), [[2; 1; k]])
    | _ => (s, [[2; 0; 0]])
    end
  | _ => (s, [[2; 0; 0]])
  end.

Fixpoint set_done (n : nat) (l : list rpc) : list rpc :=
  match l, n with
  | [], _ => []
  | r :: t, O => mk_rpc (rp_ci r) (rp_key r) true :: t
  | r :: t, S n' => r :: set_done n' t
  end.

(* RPCConfig.OnCommitted() of RPC number j *)
Definition do_commit (j : Z) (s : st) : st * list word :=
  if j <? 0 then (s, []) else
  match nth_error (rpcs s) (Z.to_nat j) with
  | None => (s, [])
  | Some p =>
    let before := ci_ref (get (heap s) (rp_ci p)) in
    if rp_done p then (s, [[6; 0; before; before]]) else
    let n := nsched [rp_ci p] (heap s) in
    let '(s', ws) := sends n (mk_st (release [rp_ci p] (heap s)) (active s) (cur s)
                                    (set_done (Z.to_nat j) (rpcs s))) in
    (s', ws ++ [[6; 1; before; ci_ref (get (heap s') (rp_ci p))]])
  end.

(* an RPC that the channel rejects while creating the client stream, after the config
   selector ran (stream.go newClientStream: the deferred endOfClientStream runs the OnFinish
   hook that calls OnCommitted): selected and committed within the same step *)
Definition do_early (i c : Z) (s : st) : st * list word :=
  let '(s1, ws1) := do_select i c s in
  if Nat.eqb (length (rpcs s1)) (length (rpcs s)) then (s1, ws1) else
  let '(s2, ws2) := do_commit (Z.of_nat (length (rpcs s))) s1 in
  (s2, ws1 ++ ws2).

(* after every step: uncommitted RPCs (id, key, interceptor closed = 0: observed, not
   modelled) and activeClusters/activePlugins (key, refCount, unsubscribe calls) *)
Definition snapshot (s : st) : word :=
  3 :: Z.of_nat (length (live (rpcs s)))
    :: flat_map (fun p => [Z.of_nat (fst p); rp_key (snd p); 0]) (live (rpcs s))
    ++ flat_map (fun id => [ci_key (get (heap s) id); ci_ref (get (heap s) id); ci_unsub (get (heap s) id)])
                (sort_ids (heap s) (active s)).

(* ops:  1 :: entries   Update with the routes (split0 entries), obs: emissions, snapshot
         [2; i; c]      SelectConfig,  obs [2; ok; key], snapshot
         [3; j]         OnCommitted of RPC j, obs: emissions, [6; first; before; after], snapshot
         [4]            resource error, obs: emissions, snapshot
         [5; i; c]      RPC through a real channel that fails in newClientStream after
                        SelectConfig, obs [2; ok; key], emissions, [6; 1; before; after], snapshot
   anything else is ignored (no observation). *)
Definition step (s : st) (op : word) : st * list word :=
  match op with
  | [] => (s, [])
  | tag :: a =>
    if tag =? 1 then
      let '(s', ws) := do_update (map norm_route (split0 a [])) s in (s', ws ++ [snapshot s'])
    else if tag =? 2 then
      match a with
      | [i; c] => let '(s', ws) := do_select i c s in (s', ws ++ [snapshot s'])
      | _ => (s, [])
      end
    else if tag =? 3 then
      match a with
      | [j] => let '(s', ws) := do_commit j s in (s', ws ++ [snapshot s'])
      | _ => (s, [])
      end
    else if tag =? 4 then
      match a with
      | [] => let '(s', ws) := do_error s in (s', ws ++ [snapshot s'])
      | _ => (s, [])
      end
    else if tag =? 5 then
      match a with
      | [i; c] => let '(s', ws) := do_early i c s in (s', ws ++ [snapshot s'])
      | _ => (s, [])
      end
    else (s, [])
  end.

Fixpoint run_from (s : st) (ops : list word) : list word :=
  match ops with
  | [] => []
  | op :: r => let '(s', ws) := step s op in ws ++ run_from s' r
  end.
Definition run (cfg : word) (ops : list word) : option (list word) := Some (run_from st0 ops).

(* ---------- the property as a predicate on each observed word ----------
   2   every uncommitted RPC's cluster is a child of the emitted service config / is in the
       active set, with reference count >= 1
   3   OnCommitted: the first call decrements the cluster's count by exactly 1, later calls
       leave it unchanged
   4   every child of an emitted service config has reference count >= 1
   5   reference counts are never negative
   6   the interceptor handed to an uncommitted RPC is not closed (observed only)
   The empty service config "{}" pushed on a resource error (onResourceError) carries no
   clause: resource errors are outside the property's quantification (route configuration
   updates); that behaviour stays in the model and is compared by correspondence only. *)
Fixpoint pairs (l : list Z) : list (Z * Z) :=
  match l with a :: b :: r => (a, b) :: pairs r | _ => [] end.
Fixpoint triples (l : list Z) : list (Z * Z * Z) :=
  match l with a :: b :: c :: r => (a, b, c) :: triples r | _ => [] end.

Definition clause_word (i : Z) (w : word) : list (Z * Z * bool) :=
  match w with
  | 1 :: kind :: n :: rest =>
    let ps := pairs (firstn (2 * Z.to_nat n) rest) in
    let lv := pairs (skipn (2 * Z.to_nat n) rest) in
    if kind =? 1 then
      [(2, i, forallb (fun l => existsb (fun p => (fst p =? snd l) && (1 <=? snd p)) ps) lv);
       (4, i, forallb (fun p => 1 <=? snd p) ps)]
    else []
  | 3 :: n :: rest =>
    let lv := triples (firstn (3 * Z.to_nat n) rest) in
    let sn := triples (skipn (3 * Z.to_nat n) rest) in
    [(2, i, forallb (fun l => existsb (fun t => (fst (fst t) =? snd (fst l)) && (1 <=? snd (fst t))) sn) lv);
     (6, i, forallb (fun l => snd l =? 0) lv);
     (5, i, forallb (fun t => 0 <=? snd (fst t)) sn)]
  | [6; first; before; after] =>
    [(3, i, if first =? 1 then after =? before - 1 else after =? before)]
  | _ => []
  end.

Fixpoint clause_words (i : Z) (obs : list word) : list (Z * Z * bool) :=
  match obs with
  | [] => []
  | w :: r => clause_word i w ++ clause_words (i + 1) r
  end.

Definition clauses (cfg : word) (ops obs : list word) : list (Z * Z * bool) := clause_words 0 obs.

Definition holds_b (cfg : word) (ops obs : list word) : bool :=
  forallb (fun c => snd c) (clauses cfg ops obs).

Definition check_case (c : case) : verdict :=
  decide (run (c_cfg c) (c_ops c)) (c_obs c) (clauses (c_cfg c) (c_ops c) (c_obs c)).
