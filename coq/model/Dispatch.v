(* C26: server method dispatch.
   Transcribes Server.handleStream / handleMalformedMethodName / Server.register of
   /repo/server.go: the path is cut at its leading '/', split at its LAST '/', the
   service is looked up in the map s.services and the method in srv.streams (a map
   filled from ServiceDesc.Streams and then ServiceDesc.Methods, later entries
   overwriting earlier ones).  Strings are byte lists.  A path that is not a legal
   HTTP/2 header value never reaches handleStream (the framer resets the stream).
   No proofs here. *)
From Coq Require Import List ZArith Bool.
From VLib Require Import Codec.
Import ListNotations.
Open Scope Z_scope.

Definition str := list Z.
Definition slash : Z := 47.

(* a service: its name and the names of its descriptors in registration order
   (Streams then Methods); handler (i, j) is descriptor j of service i *)
Definition svc := (str * list str)%type.
Definition registry := list svc.

(* strings.CutPrefix(method, "/") *)
Definition cut_slash (p : str) : option str :=
  match p with
  | c :: r => if c =? slash then Some r else None
  | [] => None
  end.

(* pos := strings.LastIndex(sm, "/"); (sm[:pos], sm[pos+1:]) ; None when pos = -1 *)
Fixpoint split_last (s : str) : option (str * str) :=
  match s with
  | [] => None
  | c :: r =>
    match split_last r with
    | Some (a, b) => Some (c :: a, b)
    | None => if c =? slash then Some ([], r) else None
    end
  end.

(* s.services[name]: RegisterService refuses a duplicate name (log.Fatal), so the
   entry of a name is its first registration *)
Fixpoint find_svc (i : Z) (reg : registry) (name : str) : option (Z * list str) :=
  match reg with
  | [] => None
  | (n, ms) :: r => if word_eqb n name then Some (i, ms) else find_svc (i + 1) r name
  end.

(* srv.streams[name]: later insertions overwrite, so the last descriptor wins *)
Fixpoint find_meth (j : Z) (ms : list str) (name : str) : option Z :=
  match ms with
  | [] => None
  | m :: r =>
    match find_meth (j + 1) r name with
    | Some k => Some k
    | None => if word_eqb m name then Some j else None
    end
  end.

(* Unimpl k: UNIMPLEMENTED written by the server itself without running any handler;
   k = 1 "malformed method name", 2 "unknown service", 3 "unknown method".
   Rejected: the transport refused the request (status INTERNAL at the client). *)
Inductive outcome := Handler (i j : Z) | UnknownH | Unimpl (k : Z) | Rejected.

Definition dispatch (unk : bool) (reg : registry) (p : str) : outcome :=
  match cut_slash p with
  | None => Unimpl 1
  | Some sm =>
    match split_last sm with
    | None => Unimpl 1
    | Some (service, method) =>
      match find_svc 0 reg service with
      | Some (i, ms) =>
        match find_meth 0 ms method with
        | Some j => Handler i j
        | None => if unk then UnknownH else Unimpl 3
        end
      | None => if unk then UnknownH else Unimpl 2
      end
    end
  end.

(* golang.org/x/net/http/httpguts.ValidHeaderFieldValue, per byte *)
Definition hdr_byte_ok (c : Z) : bool :=
  negb (((c <? 32) || (c =? 127)) && negb ((c =? 32) || (c =? 9))).
Definition wire_ok (p : str) : bool := forallb hdr_byte_ok p.

Definition serve (unk : bool) (reg : registry) (p : str) : outcome :=
  if wire_ok p then dispatch unk reg p else Rejected.

(* http = the server is driven through Server.ServeHTTP (net/http handler transport): net/http
   refuses a :path that is empty, does not start with '/' or contains a TAB before gRPC sees
   it (the client gets INTERNAL); every other path reaches handleStream unchanged.  (Paths with '%', '?' or
   '#' are rewritten by net/http's URL parsing; the driver does not generate them.) *)
Definition starts_slash (p : str) : bool :=
  match p with c :: _ => c =? slash | [] => false end.
(* net/http: url.ParseRequestURI needs the leading '/' and refuses every control byte, TAB too *)
Definition http_ok (p : str) : bool := starts_slash p && forallb (fun c => negb (c =? 9)) p.
Definition transport_ok (http : bool) (p : str) : bool :=
  wire_ok p && (negb http || http_ok p).
Definition serve_t (http unk : bool) (reg : registry) (p : str) : outcome :=
  if transport_ok http p then dispatch unk reg p else Rejected.

(* ---- the property's own vocabulary (independent of split_last and find_svc) ---- *)

Definition has_slash (s : str) : bool := existsb (fun c => c =? slash) s.

(* "/" ++ service ++ "/" ++ method *)
Definition full_path (service method : str) : str := slash :: service ++ slash :: method.

(* leading slash and a second slash *)
Definition well_formed (p : str) : bool :=
  match p with
  | c :: r => (c =? slash) && has_slash r
  | [] => false
  end.

(* descriptor j (name m) of service i is live: not shadowed by a later descriptor of
   the same name / an earlier service of the same name *)
Definition later_same (m : str) (rest : list str) : bool := existsb (fun m' => word_eqb m' m) rest.

(* all live (i, j, method name) whose full path is p *)
Fixpoint targets_meths (i j : Z) (sname : str) (ms : list str) (p : str) : list (Z * Z * str) :=
  match ms with
  | [] => []
  | m :: r =>
    (if word_eqb (full_path sname m) p && negb (later_same m r) then [(i, j, m)] else [])
    ++ targets_meths i (j + 1) sname r p
  end.

Fixpoint targets_from (i : Z) (seen : list str) (reg : registry) (p : str) : list (Z * Z * str) :=
  match reg with
  | [] => []
  | (n, ms) :: r =>
    (if existsb (fun n' => word_eqb n' n) seen then [] else targets_meths i 0 n ms p)
    ++ targets_from (i + 1) (n :: seen) r p
  end.
Definition targets (reg : registry) (p : str) : list (Z * Z * str) := targets_from 0 [] reg p.

(* ---- case codec ---- *)

Fixpoint get_strs (n : nat) (w : word) : option (list str * word) :=
  match n with
  | O => Some ([], w)
  | S n' =>
    match get_bytes w with
    | Some (s, w') =>
      match get_strs n' w' with
      | Some (l, w'') => Some (s :: l, w'')
      | None => None
      end
    | None => None
    end
  end.

Fixpoint get_svcs (n : nat) (w : word) : option (registry * word) :=
  match n with
  | O => Some ([], w)
  | S n' =>
    match get_bytes w with
    | Some (name, ns :: nm :: w') =>
      if (ns <? 0) || (nm <? 0) then None else
      match get_strs (Z.to_nat nm) w' with
      | Some (ms, w'') =>
        match get_svcs n' w'' with
        | Some (l, w3) => Some ((name, ms) :: l, w3)
        | None => None
        end
      | None => None
      end
    | _ => None
    end
  end.

Definition get_cfg (cfg : word) : option (bool * registry) :=
  match cfg with
  | unk :: n :: w =>
    if n <? 0 then None else
    match get_svcs (Z.to_nat n) w with
    | Some (reg, []) => Some (z2b (unk mod 2), reg)
    | _ => None
    end
  | _ => None
  end.

(* op [1; path] = unary Invoke, op [2; path] = the same call through NewStream:
   both reach handleStream with the same :path *)
(* cfg flags: bit 0 = unknown-service handler installed, bit 1 = served through ServeHTTP *)
Definition get_http (cfg : word) : bool :=
  match cfg with f :: _ => z2b ((f / 2) mod 2) | [] => false end.

Definition get_op (op : word) : option str :=
  match op with
  | k :: r => if (k =? 1) || (k =? 2)
              then match get_bytes r with Some (p, []) => Some p | _ => None end
              else None
  | _ => None
  end.

(* obs = [nran; kind; i; j; code; ukind; methok; respok] *)
Definition obs_of (o : outcome) : word :=
  match o with
  | Handler i j => [1; 1; i; j; 0; 0; 1; 1]
  | UnknownH => [1; 2; 0; 0; 0; 0; 1; 1]
  | Unimpl k => [0; 0; 0; 0; 12; k; 1; 1]
  | Rejected => [0; 0; 0; 0; 13; 0; 1; 1]
  end.

Fixpoint run_ops (http unk : bool) (reg : registry) (ops : list word) : option (list word) :=
  match ops with
  | [] => Some []
  | op :: r =>
    match get_op op, run_ops http unk reg r with
    | Some p, Some os => Some (obs_of (serve_t http unk reg p) :: os)
    | _, _ => None
    end
  end.

Definition run (cfg : word) (ops : list word) : option (list word) :=
  match get_cfg cfg with
  | Some (unk, reg) => run_ops (get_http cfg) unk reg ops
  | None => None
  end.

(* ---- the property evaluated on an observation ----
   clause 1: a path naming a live registered (service, method) whose method name has no
             '/' ran exactly that handler, once, the handler saw the same path, the client
             got that handler's reply with status OK
   clause 2: any other well-formed path: the unknown-service handler (once, OK) when one is
             installed, else no handler and UNIMPLEMENTED
   clause 3: a malformed path (no leading '/', or no second '/'): no handler at all (not even
             the unknown-service handler) and UNIMPLEMENTED
   clause 4: (refuted, statement finding) a path naming a live registered (service, method)
             whose method name contains '/' ran that handler
   clause 5: a path that the transport refuses (not a legal HTTP/2 header value; with ServeHTTP
             also: empty or no leading '/') reaches no handler *)
Definition ran_handler (o : word) (i j : Z) : bool :=
  match o with
  | [nran; kind; i'; j'; code; _; methok; respok] =>
    (nran =? 1) && (kind =? 1) && (i' =? i) && (j' =? j) && (code =? 0) && (methok =? 1) && (respok =? 1)
  | _ => false
  end.
Definition ran_unknown (o : word) : bool :=
  match o with
  | [nran; kind; _; _; code; _; methok; respok] =>
    (nran =? 1) && (kind =? 2) && (code =? 0) && (methok =? 1) && (respok =? 1)
  | _ => false
  end.
Definition ran_none (o : word) : bool :=
  match o with
  | [nran; kind; _; _; _; _; _; respok] => (nran =? 0) && (kind =? 0) && (respok =? 1)
  | _ => false
  end.
Definition code_of (o : word) : Z := nth 4 o (-1).

Definition plain_targets (reg : registry) (p : str) : list (Z * Z * str) :=
  filter (fun t => negb (has_slash (snd t))) (targets reg p).
Definition slash_targets (reg : registry) (p : str) : list (Z * Z * str) :=
  filter (fun t => has_slash (snd t)) (targets reg p).

Definition clause_op (k : Z) (http unk : bool) (reg : registry) (p : str) (o : word) : list (Z * Z * bool) :=
  if negb (transport_ok http p) then [(5, k, ran_none o)] else
  match plain_targets reg p with
  | (_ :: _) as ts => map (fun t => (1, k, ran_handler o (fst (fst t)) (snd (fst t)))) ts
  | [] =>
    if well_formed p
    then [(2, k, if unk then ran_unknown o else ran_none o && (code_of o =? 12))]
    else [(3, k, ran_none o && (code_of o =? 12))]
  end ++
  map (fun t => (4, k, ran_handler o (fst (fst t)) (snd (fst t)))) (slash_targets reg p).

Fixpoint clauses_ops (k : Z) (http unk : bool) (reg : registry) (ops obs : list word) : list (Z * Z * bool) :=
  match ops, obs with
  | op :: r, o :: r' =>
    match get_op op with
    | Some p => clause_op k http unk reg p o
    | None => [(0, k, false)]
    end ++ clauses_ops (k + 1) http unk reg r r'
  | [], [] => []
  | _, _ => [(0, k, false)]
  end.

Definition clauses (cfg : word) (ops obs : list word) : list (Z * Z * bool) :=
  match get_cfg cfg with
  | Some (unk, reg) => clauses_ops 0 (get_http cfg) unk reg ops obs
  | None => [(0, 0, false)]
  end.

(* every clause but the refuted one (4) *)
Definition holds_b (cfg : word) (ops obs : list word) : bool :=
  forallb (fun c => (fst (fst c) =? 4) || snd c) (clauses cfg ops obs).

Definition check_case (c : case) : verdict :=
  decide (run (c_cfg c) (c_ops c)) (c_obs c) (clauses (c_cfg c) (c_ops c) (c_obs c)).
