(* C23 / C32: pickerWrapper.pick, csAttempt.getTransport / finish, clientStream.withRetry
   (first op), retryLocked, clientStream.finish.
   Transcribes picker_wrapper.go (pickerGeneration swap, pick loop) and the parts of
   stream.go that decide when a pick result's Done callback runs.

   Granularity (DESIGN 4, concurrency (ii)).  A pick goroutine touches shared state only by
   pickerGen.Load, by the receive on blockingCh / ctx.Done, and by addrConn.getReadyTransport;
   updatePicker / reset / close are one atomic Swap followed by close(old.blockingCh).  A
   goroutine is parked either in the select of the pick loop or inside the picker's Pick
   (i.e. between its Load and its getReadyTransport), so one op = one shared-memory event
   plus the thread-local code that follows it until the next parking point.  An event that
   falls between getReadyTransport and the following Load commutes with both, so every
   interleaving of the real instructions is equivalent to a list of these ops.
   The picker is scripted by the op that lets a Pick call return (its result is an argument
   of the op), so "all picker behaviours" = all op lists.

   Retries: a transparent retry of an attempt whose stream could not be created (ns = 2), and
   - op [10;t] - a retry-policy retry of an RPC whose stream WAS created and whose stream
   operation then failed with a retryable status (retryLocked with a non-empty replay buffer:
   finish the attempt, back off, newAttemptLocked, replay op 0 = getTransport + newStream on the
   new attempt; this is the only way the loop of retryLocked runs a second time, i.e. the only
   place where "attempt" and "cs.attempt" are different objects).
   Not modelled: lastPickErr (only changes an error string), pick.blocked (stats only),
   the retry budget (MaxAttempts is 2^30 in the driver), throttling and pushback (C18).
   No proofs in this file. *)
From Coq Require Import List ZArith Bool.
From VLib Require Import Codec.
Import ListNotations.
Open Scope Z_scope.

(* pickerWrapper.pickerGen: generation number, picker != nil, pointer == nil (closed) *)
Record pw := mkpw { gen : Z; haspk : bool; closed : bool }.

(* one RPC = one clientStream driven by one goroutine.
   st   0 not started, 1 parked in the select of pick, 2 parked inside picker.Pick,
        3 withRetry(op) returned nil (stream created, cs.attempt = a), 4 it returned an error
   chg  the local variable ch of pick: generation whose blockingCh it holds, -1 = nil
   pgen generation of the picker of the latest Pick call (-1 none)
   ctxs 0 live, 1 cancelled, 2 deadline exceeded
   tok  Done token of cs.attempt.pickResult (0 = no Done); afin = cs.attempt.finished *)
Record th := mkth { st : Z; chg : Z; pgen : Z; ff : bool; ctxs : Z; npick : Z; natt : Z;
                    code : Z; sc : Z; tok : Z; afin : bool; committed : bool; csfin : bool }.
Definition th0 : th := mkth 0 (-1) (-1) false 0 0 0 0 0 0 false false false.

Record state := mkst { p : pw; scs : list bool; ths : list th; ntok : Z }.

(* EIssue tok own t: a picker returned a result with a Done callback to thread t
   (own = its SubConn is an *acBalancerWrapper); EDone tok e: that callback ran with
   DoneInfo.Err != nil iff e = 1; EPick t g: thread t called Pick on the picker of generation g *)
Inductive ev := EIssue (tok : Z) (own : bool) (t : Z) | EDone (tok e : Z) | EPick (t g : Z).

Definition set_st (t : th) (s : Z) : th :=
  mkth s (chg t) (pgen t) (ff t) (ctxs t) (npick t) (natt t) (code t) (sc t) (tok t) (afin t) (committed t) (csfin t).
Definition fail (t : th) (c : Z) : th :=
  mkth 4 (chg t) (pgen t) (ff t) (ctxs t) (npick t) (natt t) c (sc t) (tok t) (afin t) true (csfin t).
Definition park1 (t : th) (g : Z) : th :=
  mkth 1 g (pgen t) (ff t) (ctxs t) (npick t) (natt t) (code t) (sc t) (tok t) (afin t) (committed t) (csfin t).
Definition park2 (t : th) (g : Z) : th :=
  mkth 2 g g (ff t) (ctxs t) (npick t + 1) (natt t) (code t) (sc t) (tok t) (afin t) (committed t) (csfin t).
Definition set_ctx (t : th) (c : Z) : th :=
  mkth (st t) (chg t) (pgen t) (ff t) c (npick t) (natt t) (code t) (sc t) (tok t) (afin t) (committed t) (csfin t).
Definition set_pick (t : th) (s tk : Z) : th :=   (* a.transport, a.pickResult = pick... *)
  mkth (st t) (chg t) (pgen t) (ff t) (ctxs t) (npick t) (natt t) (code t) s tk false (committed t) (csfin t).
Definition fresh_attempt (t : th) : th :=         (* &csAttempt{...}; a new call of pick *)
  mkth (st t) (-1) (pgen t) (ff t) (ctxs t) 0 (natt t + 1) (code t) (sc t) 0 false (committed t) (csfin t).
Definition set_afin (t : th) : th :=
  mkth (st t) (chg t) (pgen t) (ff t) (ctxs t) (npick t) (natt t) (code t) (sc t) (tok t) true (committed t) (csfin t).
Definition set_commit (t : th) (fin : bool) : th :=
  mkth (st t) (chg t) (pgen t) (ff t) (ctxs t) (npick t) (natt t) (code t) (sc t) (tok t) (afin t) true (csfin t || fin).

(* status code of the error for a done context *)
Definition ctx_code (c : Z) : Z := if c =? 1 then 1 else 4.

(* one pass of the for loop of pickerWrapper.pick, from its top to the next parking point
   or return.  id = thread index (for the EPick event). *)
Definition top (q : pw) (id : Z) (t : th) : th * list ev :=
  if closed q then (fail t 1, []) else                 (* pg == nil: ErrClientConnClosing *)
  let ch := if haspk q then chg t else gen q in        (* if pg.picker == nil { ch = pg.blockingCh } *)
  if ch =? gen q then                                  (* if ch == pg.blockingCh { select ... } *)
    (if ctxs t =? 0 then (park1 t (gen q), []) else (fail t (ctx_code (ctxs t)), []))
  else (park2 t (gen q), [EPick id (gen q)]).          (* ch = pg.blockingCh; p.Pick(info) *)

(* newAttemptLocked (checks cs.ctx.Err()) followed by op(a): getTransport -> pick *)
Definition new_attempt (q : pw) (id : Z) (t : th) : th * list ev :=
  if ctxs t =? 0 then top q id (fresh_attempt t) else (fail t (ctx_code (ctxs t)), []).

(* csAttempt.finish(err): idempotent by a.finished; calls pickResult.Done if non-nil *)
Definition afinish (t : th) (e : Z) : th * list ev :=
  if afin t then (t, []) else
  (set_afin t, if tok t =? 0 then [] else [EDone (tok t) e]).

(* gRFC A54 restriction applied to picker status errors *)
Definition restricted (c : Z) : bool :=
  (c =? 3) || (c =? 5) || (c =? 6) || (c =? 9) || (c =? 10) || (c =? 11) || (c =? 15).

Definition ready (l : list bool) (a : Z) : bool := nth (Z.to_nat a) l false.

(* Pick returned (kind, a, b); ns = what transport.NewStream will do if the pick succeeds.
   kind 0 ErrNoSubConnAvailable; 1 status error with code a; 2 any other error;
   3 SubConn a of the channel's own type, Done != nil iff b; 4 SubConn of a foreign type.
   ns 0 NewStream succeeds, 1 fails (no transparent retry), 2 fails with AllowTransparentRetry.
   Result: thread, events, next token. *)
Definition pick_return (q : pw) (l : list bool) (nt id : Z) (t : th) (kind a : Z) (b : bool) (ns : Z)
  : th * list ev * Z :=
  if kind =? 0 then (top q id t, nt) else
  if kind =? 1 then (fail t (if restricted a then 13 else a), [], nt) else
  if kind =? 2 then (if ff t then (fail t 14, [], nt) else (top q id t, nt)) else
  let tk := if b then nt else 0 in
  let nt' := if b then nt + 1 else nt in
  if kind =? 3 then
    let iss := if b then [EIssue tk true id] else [] in
    if ready l a then
      let t1 := set_pick t a tk in
      if ns =? 0 then (set_st t1 3, iss, nt') else
      let '(t2, d) := afinish t1 1 in                  (* retryLocked: attempt.finish(err) *)
      if ns =? 1 then (fail t2 8, iss ++ d, nt') else
      let '(t3, e3) := new_attempt q id t2 in (t3, iss ++ d ++ e3, nt')
    else                                               (* pickResult.Done(balancer.DoneInfo{}) *)
      let '(t1, e1) := top q id t in (t1, iss ++ (if b then [EDone tk 0] else []) ++ e1, nt')
  else                                                 (* kind 4: logged, continue; Done dropped *)
    let '(t1, e1) := top q id t in (t1, (if b then [EIssue tk false id] else []) ++ e1, nt').

Fixpoint upd {A} (l : list A) (n : nat) (x : A) : list A :=
  match l, n with
  | [], _ => []
  | _ :: r, O => x :: r
  | y :: r, S n' => y :: upd r n' x
  end.

(* wake every goroutine parked in the select (close(old.blockingCh)) *)
Fixpoint wake (q : pw) (id : Z) (l : list th) : list th * list ev :=
  match l with
  | [] => ([], [])
  | t :: r =>
    let '(t', e) := if st t =? 1 then top q id t else (t, []) in
    let '(r', e') := wake q (id + 1) r in (t' :: r', e ++ e')
  end.

Definition getth (s : state) (t : Z) : option th :=
  if t <? 0 then None else nth_error (ths s) (Z.to_nat t).
Definition putth (s : state) (t : Z) (x : th) : state :=
  mkst (p s) (scs s) (upd (ths s) (Z.to_nat t) x) (ntok s).

Definition valid_code (a : Z) : bool := (1 <=? a) && (a <=? 16).
Definition valid_sc (s : state) (a : Z) : bool := (0 <=? a) && (a <? Z.of_nat (length (scs s))).

(* ops
   [1;t;ff]          start RPC t (fail-fast iff ff = 1): withRetry(op) in its own goroutine
   [2]               updatePicker(non-nil picker)      [3] reset()      [4] close()
   [5;t;kind;a;b;ns] the Pick call thread t is parked in returns (see pick_return)
   [6;a;r]           SubConn a becomes READY (r = 1) / not READY (r = 0)
   [7;t;how]         the context of RPC t is cancelled (how = 1) / exceeds its deadline (2)
   [8;t;e]           cs.finish(err), err == nil (io.EOF) iff e = 0          (stream created)
   [9;t]             withRetry(op returning an error, commitAttemptLocked)  (stream created)
   [10;t]            withRetry(op failing once with a status the retry policy retries,
                     commitAttemptLocked)                                   (stream created)
                     The committed flag is set by this op already: it gates only ops 9/10, which
                     need st = 3, and st = 3 is reached again only through onSuccess =
                     commitAttemptLocked (every failure path commits or ends the RPC as well).
   [11;o]            an LB policy publishes a picker through ccBalancerWrapper.UpdateState: o = 0 the
                     channel's current policy (= [2]); o <> 0 the policy of a balancer wrapper that
                     was closed when the channel entered idle mode: dropped, a no-op (a pick never
                     sees a picker of a policy that is not the channel's current one)
   [12]              ClientConn.enterIdleMode: pickerWrapper.reset() (= [3]), the balancer wrapper is
                     closed and replaced by a fresh one
   anything else, or an op that does not apply in the current state, is a no-op *)
Inductive dop := DStart (t f : Z) | DUpdate | DReset | DClose | DPick (t kind a b ns : Z) | DSetSC (a r : Z)
  | DCancel (t how : Z) | DFinish (t e : Z) | DOpFail (t : Z) | DRetryFail (t : Z) | DNop.
Definition decode (op : word) : dop :=
  match op with
  | [1; t; f] => DStart t f
  | [2] => DUpdate
  | [3] => DReset
  | [4] => DClose
  | [5; t; kind; a; b; ns] => DPick t kind a b ns
  | [6; a; r] => DSetSC a r
  | [7; t; how] => DCancel t how
  | [8; t; e] => DFinish t e
  | [9; t] => DOpFail t
  | [10; t] => DRetryFail t
  | [11; o] => if o =? 0 then DUpdate else DNop
  | [12] => DReset
  | _ => DNop
  end.

Definition dstep (s : state) (d : dop) : state * list ev :=
  match d with
  | DStart t f =>
    match getth s t with
    | Some x => if st x =? 0 then
                  let x1 := mkth 0 (chg x) (pgen x) (negb (f =? 0)) (ctxs x) (npick x) (natt x) 0 0 0 false false false in
                  let '(x2, e) := new_attempt (p s) t x1 in (putth s t x2, e)
                else (s, [])
    | None => (s, [])
    end
  | DUpdate => if closed (p s) then (s, []) else
           let q := mkpw (gen (p s) + 1) true false in
           let '(l, e) := wake q 0 (ths s) in (mkst q (scs s) l (ntok s), e)
  | DReset => if closed (p s) then (s, []) else
           let q := mkpw (gen (p s) + 1) false false in
           let '(l, e) := wake q 0 (ths s) in (mkst q (scs s) l (ntok s), e)
  | DClose => if closed (p s) then (s, []) else
           let q := mkpw (gen (p s)) (haspk (p s)) true in
           let '(l, e) := wake q 0 (ths s) in (mkst q (scs s) l (ntok s), e)
  | DPick t kind a b ns =>
    match getth s t with
    | Some x =>
      if (st x =? 2) && (0 <=? kind) && (kind <=? 4) && (0 <=? ns) && (ns <=? 2) &&
         ((b =? 0) || (b =? 1)) &&
         (if kind =? 1 then valid_code a else if kind =? 3 then valid_sc s a else true)
      then let '(x', e, nt) := pick_return (p s) (scs s) (ntok s) t x kind a (b =? 1) ns in
           (mkst (p s) (scs s) (upd (ths s) (Z.to_nat t) x') nt, e)
      else (s, [])
    | None => (s, [])
    end
  | DSetSC a r => if valid_sc s a then (mkst (p s) (upd (scs s) (Z.to_nat a) (negb (r =? 0))) (ths s) (ntok s), [])
                 else (s, [])
  | DCancel t how =>
    match getth s t with
    | Some x => if (ctxs x =? 0) && ((how =? 1) || (how =? 2)) then
                  let x1 := set_ctx x how in
                  (putth s t (if st x =? 1 then fail x1 (ctx_code how) else x1), [])
                else (s, [])
    | None => (s, [])
    end
  | DFinish t e =>
    match getth s t with
    | Some x => if (st x =? 3) && negb (csfin x) then
                  let '(x1, d) := afinish x (if e =? 0 then 0 else 1) in (putth s t (set_commit x1 true), d)
                else (s, [])
    | None => (s, [])
    end
  | DOpFail t =>
    match getth s t with
    | Some x => if (st x =? 3) && negb (committed x) then
                  let '(x1, d) := afinish x 1 in (putth s t (set_commit x1 false), d)
                else (s, [])
    | None => (s, [])
    end
  | DRetryFail t =>
    match getth s t with
    | Some x => if (st x =? 3) && (negb (committed x) && negb (csfin x)) then
                  let '(x1, d) := afinish x 1 in               (* retryLocked: attempt.finish(err) *)
                  (* shouldRetry backs off (or returns the context's error), newAttemptLocked,
                     replayBufferLocked: op 0 on the new attempt *)
                  let '(x2, e2) := new_attempt (p s) t (set_commit x1 false) in (putth s t x2, d ++ e2)
                else (s, [])
    | None => (s, [])
    end
  | DNop => (s, [])
  end.
Definition step (s : state) (op : word) : state * list ev := dstep s (decode op).


(* ---- observations ---- *)
Definition snap (t : th) : word :=
  [st t; pgen t; npick t; natt t; if st t =? 4 then code t else if st t =? 3 then sc t else 0].
Fixpoint dones (e : list ev) : word :=
  match e with
  | [] => []
  | EDone k x :: r => k :: x :: dones r
  | _ :: r => dones r
  end.
Fixpoint ndone (e : list ev) : nat :=
  match e with
  | [] => O
  | EDone _ _ :: r => S (ndone r)
  | _ :: r => ndone r
  end.
Definition obs_of (s : state) (e : list ev) : word :=
  Z.of_nat (ndone e) :: dones e ++ concat (map snap (ths s)).

Definition init (cfg : word) : option state :=
  match cfg with
  | [n; m] => if (1 <=? n) && (n <=? 6) && (1 <=? m) && (m <=? 3)
              then Some (mkst (mkpw 0 false false) (repeat false (Z.to_nat m)) (repeat th0 (Z.to_nat n)) 1)
              else None
  | _ => None
  end.

(* trace and event list from a state *)
Fixpoint exec (s : state) (ops : list word) : list word * list ev * state :=
  match ops with
  | [] => ([], [], s)
  | op :: r => let '(s1, e) := step s op in
               let '(os, es, sf) := exec s1 r in (obs_of s1 e :: os, e ++ es, sf)
  end.

Definition run (cfg : word) (ops : list word) : option (list word) :=
  match init cfg with
  | Some s => Some (fst (fst (exec s ops)))
  | None => None
  end.

(* ================= the properties as predicates on (pre-state, op, observed word) =========
   The walk below advances the model and evaluates the property of each op on what the
   IMPLEMENTATION reported for that op, relative to the state before the op; it stops at the
   first op where implementation and model differ (after evaluating that op), so every
   evaluation is relative to a history on which both agree. *)

(* parse an observation: Done pairs and the per-thread snapshots *)
Fixpoint chunk5 (fuel : nat) (w : word) : option (list word) :=
  match w with
  | [] => Some []
  | a :: b :: c :: d :: e :: r =>
    match fuel with
    | O => None
    | S f => match chunk5 f r with Some l => Some ([a; b; c; d; e] :: l) | None => None end
    end
  | _ => None
  end.
Definition parse_obs (nthreads : nat) (o : word) : option (word * list word) :=
  match o with
  | nd :: r =>
    if nd <? 0 then None else
    match take_n (Z.to_nat (2 * nd)) r with
    | Some (d, rest) =>
      match chunk5 (length rest) rest with
      | Some l => if Nat.eqb (length l) nthreads then Some (d, l) else None
      | None => None
      end
    | None => None
    end
  | [] => None
  end.

Definition applies5 (s : state) (x : th) (kind a b ns : Z) : bool :=
  (st x =? 2) && (0 <=? kind) && (kind <=? 4) && (0 <=? ns) && (ns <=? 2) &&
  ((b =? 0) || (b =? 1)) &&
  (if kind =? 1 then valid_code a else if kind =? 3 then valid_sc s a else true).

(* C23: the Done calls the statement demands during this op, as a word of (token, err) pairs.
   - a result with Done for a sub-channel that is not READY: now, with a nil error;
   - READY but the stream cannot be created: now (the attempt is finished before a retry
     or before the error is returned), with the error;
   - stream created: at the first cs.finish / failed stream operation of that RPC (also when
     that failure is retried: the attempt being abandoned is finished before the next one
     is picked, and a retry attempt is a pick like any other for the first two rules). *)
Definition due (s : state) (op : dop) : word :=
  match op with
  | DPick t kind a b ns =>
    match getth s t with
    | Some x => if applies5 s x kind a b ns && (kind =? 3) && (b =? 1) then
                  if ready (scs s) a then (if ns =? 0 then [] else [ntok s; 1])
                  else [ntok s; 0]
                else []
    | None => []
    end
  | DFinish t e =>
    match getth s t with
    | Some x => if (st x =? 3) && negb (csfin x) && negb (afin x) && negb (tok x =? 0)
                then [tok x; if e =? 0 then 0 else 1] else []
    | None => []
    end
  | DOpFail t =>
    match getth s t with
    | Some x => if (st x =? 3) && negb (committed x) && negb (afin x) && negb (tok x =? 0)
                then [tok x; 1] else []
    | None => []
    end
  | DRetryFail t =>
    match getth s t with
    | Some x => if (st x =? 3) && (negb (committed x) && negb (csfin x)) && negb (afin x) && negb (tok x =? 0)
                then [tok x; 1] else []
    | None => []
    end
  | _ => []
  end.

(* foreign SubConn with a Done callback returned to a parked Pick call *)
Definition foreign_done (s : state) (op : dop) : bool :=
  match op with
  | DPick t kind a b ns =>
    match getth s t with
    | Some x => applies5 s x kind a b ns && (kind =? 4) && (b =? 1)
    | None => false
    end
  | _ => false
  end.

Definition w_st (w : word) : Z := nth 0 w 0.
Definition w_gen (w : word) : Z := nth 1 w 0.
Definition w_np (w : word) : Z := nth 2 w 0.
Definition w_na (w : word) : Z := nth 3 w 0.
Definition w_c (w : word) : Z := nth 4 w 0.

(* f i t w for every thread t (index i, state before the op) and its snapshot w after the op *)
Fixpoint all2i (f : Z -> th -> word -> bool) (i : Z) (l : list th) (ws : list word) : bool :=
  match l, ws with
  | t :: r, w :: r' => f i t w && all2i f (i + 1) r r'
  | [], [] => true
  | _, _ => false
  end.

(* C23 second sentence: a pick parked in the select is woken by the op *)
Definition woken (s : state) (op : dop) (ws : list word) : bool :=
  match op with
  | DUpdate => if closed (p s) then true else
           all2i (fun _ t w => if st t =? 1 then (w_st w =? 2) && (w_gen w =? gen (p s) + 1) && (w_np w =? npick t + 1)
                               else true) 0 (ths s) ws
  | DClose => if closed (p s) then true else
           all2i (fun _ t w => if st t =? 1 then (w_st w =? 4) && (w_c w =? 1) else true) 0 (ths s) ws
  | DCancel t how =>
    match getth s t, (if t <? 0 then None else nth_error ws (Z.to_nat t)) with
    | Some x, Some w => if (ctxs x =? 0) && ((how =? 1) || (how =? 2)) && (st x =? 1)
                        then (w_st w =? 4) && (w_c w =? ctx_code how) else true
    | Some _, None => false
    | None, _ => true
    end
  | _ => true
  end.

(* clause ids C23: 1 a Done call that is not due (second call, wrong time, unknown token)
                   2 a due Done call is missing or has the wrong error flag
                   3 a blocked pick was not woken by updatePicker / close / its context
                   5 FINDING: Done of a result whose SubConn is not the channel's own type is dropped *)
Definition clauses23_op (s : state) (w o : word) : list (Z * Z * bool) :=
  let op := decode w in
  match parse_obs (length (ths s)) o with
  | None => [(0, 0, false)]
  | Some (d, ws) =>
    let e := due s op in
    [(1, nth 0 d 0, match d with [] => true | _ => word_eqb d e end);
     (2, nth 0 e 0, match e with [] => true | _ => word_eqb d e end);
     (3, 0, woken s op ws)] ++
    (if foreign_done s op then [(5, ntok s, false)] else [])
  end.

(* C32.  cur = pickerWrapper state after the op (a function of the ops alone). *)
Definition pw_after (q : pw) (op : dop) : pw :=
  if closed q then q else
  match op with
  | DUpdate => mkpw (gen q + 1) true false
  | DReset => mkpw (gen q + 1) false false
  | DClose => mkpw (gen q) (haspk q) true
  | _ => q
  end.

(* 1: every Pick call observed after this op is on the picker that is current after the op,
      which is newer than the one of the thread's previous Pick call in the same pick *)
Definition latest1 (q : pw) (i : Z) (t : th) (w : word) : bool :=
  if (w_st w =? 2) && negb ((w_np w =? npick t) && (w_na w =? natt t) && (st t =? 2)) then
    (w_gen w =? gen q) && haspk q && negb (closed q) &&
    (if w_na w =? natt t then (w_np w =? npick t + 1) && (pgen t <? w_gen w)
     else (w_np w =? 1) && (w_na w =? natt t + 1))
  else true.

(* 2: a thread whose stream is created by this op was given the transport of a SubConn
      that is READY now, by the picker whose Pick call it was parked in *)
Definition ready1 (s : state) (op : dop) (i : Z) (t : th) (w : word) : bool :=
  if (w_st w =? 3) && negb (st t =? 3) then
    match op with
    | DPick t' kind a b ns =>
      (t' =? i) && (st t =? 2) && (kind =? 3) && (ns =? 0) && valid_sc s a && ready (scs s) a &&
      (w_c w =? a) && (w_gen w =? pgen t) && (w_np w =? npick t) && (w_na w =? natt t)
    | _ => false
    end
  else true.

(* 3: ErrNoSubConnAvailable, a non-status error of a wait-for-ready RPC, a SubConn that is
      not READY (or not the channel's): the pick blocks or re-picks; it fails only because
      the channel is closed or its context is done.  A status error, or a non-status error
      of a fail-fast RPC: the RPC fails with that status / UNAVAILABLE. *)
Definition bvf1 (q : pw) (l : list bool) (x : th) (kind a : Z) (w : word) : bool :=
  if kind =? 1 then (w_st w =? 4) && (w_c w =? (if restricted a then 13 else a)) else
  if (kind =? 2) && ff x then (w_st w =? 4) && (w_c w =? 14) else
  if (kind =? 3) && ready l a then true else
  (* must block or re-pick *)
  if w_st w =? 4 then
    (closed q && (w_c w =? 1)) || (negb (ctxs x =? 0) && (w_c w =? ctx_code (ctxs x)))
  else if w_st w =? 1 then
    (* blocks: no picker newer than the one just used *)
    negb (closed q) && (ctxs x =? 0) && ((pgen x =? gen q) || negb (haspk q))
  else (w_st w =? 2) && (pgen x <? w_gen w).

Definition block_vs_fail (s : state) (op : dop) (ws : list word) : bool :=
  match op with
  | DPick t kind a b ns =>
    match getth s t, (if t <? 0 then None else nth_error ws (Z.to_nat t)) with
    | Some x, Some w => if applies5 s x kind a b ns then bvf1 (p s) (scs s) x kind a w else true
    | Some _, None => false
    | None, _ => true
    end
  | _ => true
  end.

Definition clauses32_op (s : state) (w o : word) : list (Z * Z * bool) :=
  let op := decode w in
  match parse_obs (length (ths s)) o with
  | None => [(0, 0, false)]
  | Some (d, ws) =>
    [(1, 0, all2i (latest1 (pw_after (p s) op)) 0 (ths s) ws);
     (2, 0, all2i (ready1 s op) 0 (ths s) ws);
     (3, 0, block_vs_fail s op ws)]
  end.

Fixpoint walk (f : state -> word -> word -> list (Z * Z * bool)) (s : state) (ops obs : list word)
  : list (Z * Z * bool) :=
  match ops, obs with
  | op :: r, o :: r' =>
    let '(s1, e) := step s op in
    f s op o ++ (if word_eqb (obs_of s1 e) o then walk f s1 r r' else [])
  | [], [] => []
  | _, _ => [(0, 0, false)]
  end.

Definition clauses_C23 (cfg : word) (ops obs : list word) : list (Z * Z * bool) :=
  match init cfg with Some s => walk clauses23_op s ops obs | None => [(0, 0, false)] end.
Definition clauses_C32 (cfg : word) (ops obs : list word) : list (Z * Z * bool) :=
  match init cfg with Some s => walk clauses32_op s ops obs | None => [(0, 0, false)] end.

Definition holds_C23 (cfg : word) (ops obs : list word) : bool :=
  forallb (fun c => snd c) (clauses_C23 cfg ops obs).
Definition holds_C32 (cfg : word) (ops obs : list word) : bool :=
  forallb (fun c => snd c) (clauses_C32 cfg ops obs).

Definition check_case_C23 (c : case) : verdict :=
  decide (run (c_cfg c) (c_ops c)) (c_obs c) (clauses_C23 (c_cfg c) (c_ops c) (c_obs c)).
Definition check_case_C32 (c : case) : verdict :=
  decide (run (c_cfg c) (c_ops c)) (c_obs c) (clauses_C32 (c_cfg c) (c_ops c) (c_obs c)).
