(* C27: compression is negotiated and applied consistently.
   Theorems only; each is closed by [exact] of a lemma from proof/Compress_proofs.v.
   Vocabulary (model/Compress.v): compressor names are integers (0 = "", 1 = "identity");
   [reg n] = n is registered with encoding.RegisterCompressor (universally quantified:
   every registry); an [rpc] record holds the client options (use = UseCompressor,
   wc/wd = legacy WithCompressor/WithDecompressor, acc = AcceptCompressors), the server
   options (scp/sdc = legacy RPCCompressor/RPCDecompressor), the handler's
   SetSendCompressor(setn) and the message lengths; client_send = the request's
   grpc-encoding, server_send = (legacy compressor, registry compressor, response
   grpc-encoding) in force when the server sends, flag_of c len = the compressed flag that
   rpc_util.compress produces with compressor c, [rule enc len] = 1 iff enc is a
   non-identity name and len <> 0. *)
From Coq Require Import List ZArith Bool.
From VLib Require Import Codec Machine.
From VModel Require Import Compress.
From VProof Require Import Compress_proofs.
Import ListNotations.
Open Scope Z_scope.

(* "A message is sent with the compressed flag set if and only if the stream's
   grpc-encoding is a non-identity compressor" - requests, every combination of
   UseCompressor / WithCompressor and every registry: flag = 1 iff the announced
   grpc-encoding is non-identity AND the message is non-empty *)
Theorem C27_flag_request : forall reg r rc l, client_send reg r = Some rc -> wc r <> 1 ->
  flag_of (client_codec r) l = rule rc l.
Proof. exact flag_request. Qed.
Print Assumptions C27_flag_request.

(* ... and the compressor the client compresses with is the one named in grpc-encoding *)
Theorem C27_client_codec_named : forall reg r rc, client_send reg r = Some rc -> wc r <> 1 ->
  client_codec r <> 0 -> client_codec r = rc /\ plain rc = false.
Proof. exact client_codec_named. Qed.
Print Assumptions C27_client_codec_named.

(* responses: the same rule with the response's grpc-encoding, for every server default
   (legacy RPCCompressor included), every SetSendCompressor and every registry *)
Theorem C27_flag_response : forall reg r rc v0 v1 ct m, reg 0 = false -> reg 1 = false ->
  scp r <> 1 -> server_send reg r rc = (v0, v1, ct) ->
  flag_of (pick v0 v1) m = rule ct m.
Proof. exact flag_response. Qed.
Print Assumptions C27_flag_response.

(* ... and the compressor the server compresses with is the one named in the response's
   grpc-encoding (ordinary sends; PreparedMsg outside the class of clause 10) *)
Theorem C27_server_codec_named : forall reg r rc v0 v1 ct, reg 0 = false -> reg 1 = false ->
  scp r <> 1 -> server_send reg r rc = (v0, v1, ct) -> pick v0 v1 <> 0 ->
  pick v0 v1 = ct /\ plain ct = false.
Proof. exact server_codec_named. Qed.
Print Assumptions C27_server_codec_named.

(* PreparedMsg: on the client (mode bit 1) and in a unary Invoke (bit 4) nothing changes; on
   the server (bit 2) a prepared message is compressed like an ordinary one unless the
   handler changed the send compressor with SetSendCompressor (f10) *)
Theorem C27_prepared_consistent : forall reg r rc, f10 reg r rc = false ->
  server_codec reg r rc = (let '(v0, v1, _) := server_send reg r rc in pick v0 v1).
Proof. exact server_codec_send. Qed.
Print Assumptions C27_prepared_consistent.

(* ... and REFUTED inside that class (finding, clause 10): PreparedMsg.Encode compresses with
   the compressors stored in the stream's rpcInfo when the stream was created.
   (a) client used gzip, handler SetSendCompressor(identity), Encode, SendMsg: header identity,
       body gzip, flag 1, client fails with INTERNAL;
   (b) uncompressed request, SetSendCompressor(gzip): header gzip, 5-byte message flag 0;
   (c) client used gzip, SetSendCompressor(x-va): header x-va, body compressed with gzip
       (server_codec = 2 although server_send names 3): the client cannot decode, INTERNAL *)
Theorem C27_prepared_after_set_refuted :
  run_rpc reg0 (mkRpc 2 0 0 None 0 0 1 [(5, 5)] 2) = [cInternal; 1; 1; 2; 1; 1; 0; 1; 1; 1; 1] /\
  run_rpc reg0 (mkRpc 0 0 0 None 0 0 2 [(5, 5)] 2) = [0; 1; 1; 0; 2; 1; 1; 1; 0; 1; 0] /\
  run_rpc reg0 (mkRpc 2 0 0 None 0 0 3 [(5, 5)] 2) = [cInternal; 1; 1; 2; 3; 1; 0; 1; 1; 1; 1] /\
  server_codec reg0 (mkRpc 2 0 0 None 0 0 3 [(5, 5)] 2) 2 = 2 /\
  server_send reg0 (mkRpc 2 0 0 None 0 0 3 [(5, 5)] 2) 2 = (0, 3, 3).
Proof. exact prepared_after_set_refuted. Qed.
Print Assumptions C27_prepared_after_set_refuted.

(* completion: the ping-pong exchange fails only on a flagged response the client cannot
   decode (given that a decoder, when present, is the compressor the server used) *)
Theorem C27_fails_only_when_undecodable : forall cc sc ct d,
  (sc <> 0 -> d <> 0 -> plain ct = false -> d = sc) ->
  forall rs code dq dr qs fs, play cc sc ct d rs = (code, dq, dr, qs, fs) -> code <> 0 ->
  existsb (fun f => f =? 1) fs = true /\ (plain ct = true \/ d = 0).
Proof. exact play_fail_reason. Qed.
Print Assumptions C27_fails_only_when_undecodable.

(* the literal sentence is REFUTED for empty messages (statement deviation, clause 7):
   UseCompressor(gzip), empty message -> grpc-encoding gzip, flag 0 *)
Theorem C27_flag_empty_refuted : exists r rc l,
  client_send reg0 r = Some rc /\ plain rc = false /\ l = 0 /\ flag_of (client_codec r) l = 0.
Proof. exact flag_empty_refuted. Qed.
Print Assumptions C27_flag_empty_refuted.

(* RPCCompressor + SetSendCompressor("identity") (repaired defect, /repo commit 6f92b96,
   clause 8): the handler's choice drops the legacy compressor, the header says identity
   and no message is flagged; the old witness (RPCCompressor(x-va), 5-byte messages) now
   completes with status OK and response flag 0 *)
Theorem C27_flag_legacy_identity_fixed : forall reg r rc m, reg 1 = false ->
  scp r <> 0 -> scp r <> 1 -> setn r = 1 ->
  server_send reg r rc = (0, 0, 1) /\ flag_of (pick 0 0) m = 0.
Proof. exact flag_legacy_identity_fixed. Qed.
Print Assumptions C27_flag_legacy_identity_fixed.

Theorem C27_legacy_identity_witness :
  run_rpc reg0 (mkRpc 0 0 0 None 3 0 1 [(5, 5)] 0) = [0; 1; 1; 0; 1; 1; 1; 1; 0; 1; 0].
Proof. exact legacy_identity_witness. Qed.
Print Assumptions C27_legacy_identity_witness.

(* "a server only compresses responses with a compressor the client advertised or the one
   the client used": whenever the response's grpc-encoding is not the legacy
   RPCCompressor's, it is absent/identity, advertised in grpc-accept-encoding, or the
   request's own grpc-encoding *)
Theorem C27_server_choice : forall reg r rc v0 v1 ct, server_send reg r rc = (v0, v1, ct) ->
  scp r = 0 \/ ct <> scp r ->
  plain ct = true \/ adv reg r ct = true \/ ct = rc.
Proof. exact server_choice. Qed.
Print Assumptions C27_server_choice.

(* REFUTED with the legacy RPCCompressor (statement deviation, clause 9): the client
   advertises gzip only and sends uncompressed, the server answers with x-va *)
Theorem C27_server_choice_legacy_refuted : exists r rc v0 v1 ct,
  client_send reg0 r = Some rc /\ server_send reg0 r rc = (v0, v1, ct) /\
  plain ct = false /\ adv reg0 r ct = false /\ ct <> rc.
Proof. exact server_choice_legacy_refuted. Qed.
Print Assumptions C27_server_choice_legacy_refuted.

(* SetSendCompressor(n) succeeds iff n is identity, or registered and advertised *)
Theorem C27_set_send_compressor : forall reg r n,
  set_valid reg r n = true <-> n = 1 \/ (reg n = true /\ adv reg r n = true).
Proof. exact set_valid_spec. Qed.
Print Assumptions C27_set_send_compressor.

(* default: the server answers with the client's encoding if it is registered, else
   uncompressed *)
Theorem C27_default_echo : forall reg r rc, scp r = 0 -> setn r = 0 ->
  server_send reg r rc = if negb (plain rc) && reg rc then (0, rc, rc) else (0, 0, 0).
Proof. exact default_echo. Qed.
Print Assumptions C27_default_echo.

(* "A receiver decodes each message with the compressor named by grpc-encoding": the
   client's decoder is nothing or exactly the named one (registered, or the matching legacy
   WithDecompressor), and a compressed message is delivered only if it was compressed with
   that decoder's compressor under a non-identity encoding *)
Theorem C27_client_decoder_named : forall reg r ct d, client_decoder reg r ct = Some d ->
  d = 0 \/ (d = ct /\ plain ct = false /\ (reg ct = true \/ wd r = ct)).
Proof. exact client_decoder_named. Qed.
Print Assumptions C27_client_decoder_named.

Theorem C27_delivered_only_if_decodable : forall ct d by_, client_takes ct d by_ = true ->
  by_ = 0 \/ (plain ct = false /\ d <> 0 /\ d = by_).
Proof. exact client_takes_spec. Qed.
Print Assumptions C27_delivered_only_if_decodable.

(* "an unsupported encoding fails the RPC with UNIMPLEMENTED (server)": the handler does not
   run and nothing is delivered *)
Theorem C27_unsupported_server : forall reg r rc, client_send reg r = Some rc ->
  plain rc = false -> reg rc = false -> sdc r <> rc ->
  run_rpc reg r = obs_of cUnimplemented 0 0 rc 0 0 0 [] [].
Proof. exact unsupported_server. Qed.
Print Assumptions C27_unsupported_server.

(* "... or INTERNAL (client) instead of delivering undecoded data": in the ping-pong
   exchange, as soon as a flagged response arrives under an encoding the client cannot
   decode (identity/absent, or no decoder), the RPC ends with INTERNAL and that message is
   not among the delivered ones *)
Theorem C27_unsupported_client : forall cc sc ct d rs code dq dr qs fs,
  play cc sc ct d rs = (code, dq, dr, qs, fs) ->
  (plain ct = true \/ d = 0) -> existsb (fun f => f =? 1) fs = true ->
  code = cInternal /\ dr < Z.of_nat (length fs).
Proof. exact play_undecodable. Qed.
Print Assumptions C27_unsupported_client.

(* UseCompressor with an unregistered name fails the RPC with INTERNAL before anything is sent *)
Theorem C27_unsupported_use_compressor : forall reg r, use r <> 0 -> use r <> 1 -> reg (use r) = false ->
  run_rpc reg r = obs_of cInternal 0 0 0 0 0 0 [] [].
Proof. exact unsupported_use_compressor. Qed.
Print Assumptions C27_unsupported_use_compressor.

(* The executable predicate evaluated on implementation traces (all clauses, clauses 8 and 11
   included, but the refuted 7, 9 and 10) holds on every trace of the model, for streaming,
   PreparedMsg and unary ops. *)
Theorem C27_holds_on_every_model_trace : forall ops, forallb op_wf ops = true ->
  exists obs, run ops = Some obs /\ holds_b ops obs = true.
Proof. exact model_trace_holds. Qed.
Print Assumptions C27_holds_on_every_model_trace.

(* the two refuted clauses are false on the model's own traces of their witnesses; clause 8
   is evaluated on its old witness and holds *)
Theorem C27_finding_clauses_fail_on_model :
  let ops := [[1; 2; 0; 0; 0; 0; 0; 0; 1; 0; 7]; [1; 0; 0; 0; 0; 3; 0; 1; 1; 5; 5];
              [1; 0; 0; 0; 1; 3; 0; 0; 1; 5; 5]] in
  forallb op_wf ops = true /\
  exists obs, run ops = Some obs /\
    filter (fun c => negb (snd c)) (clauses ops obs) = [(7, 0, false); (9, 0, false)] /\
    existsb (fun c => (fst (fst c) =? 8) && snd c) (clauses ops obs) = true.
Proof. exact finding_clauses_fail_on_model. Qed.
Print Assumptions C27_finding_clauses_fail_on_model.

Theorem C27_finding_clause10_fails_on_model :
  let ops := [[2; 2; 2; 0; 0; 0; 0; 0; 1; 1; 5; 5]; [2; 2; 0; 0; 0; 0; 0; 0; 2; 1; 5; 5];
              [2; 2; 2; 0; 0; 0; 0; 0; 3; 1; 5; 5]] in
  forallb op_wf ops = true /\
  exists obs, run ops = Some obs /\
    filter (fun c => negb (snd c)) (clauses ops obs) = [(10, 0, false); (10, 0, false); (10, 0, false)].
Proof. exact finding_clause10_fails_on_model. Qed.
Print Assumptions C27_finding_clause10_fails_on_model.

(* non-vacuity: gzip both ways over two rounds; SetSendCompressor(x-vb) accepted when
   advertised; x-unreg request rejected with UNIMPLEMENTED *)
Example C27_witness :
  run_rpc reg0 (mkRpc 2 0 0 None 0 0 0 [(7, 7); (3, 9)] 0) = [0; 1; 0; 2; 2; 2; 2; 2; 1; 1; 2; 1; 1] /\
  run_rpc reg0 (mkRpc 0 0 0 (Some (mask_has 4)) 0 0 4 [(7, 7)] 0) = [0; 1; 1; 0; 4; 1; 1; 1; 0; 1; 1] /\
  run_rpc reg0 (mkRpc 0 5 0 None 0 0 0 [(7, 7)] 0) = [12; 0; 0; 5; 0; 0; 0; 0; 0] /\
  forallb op_wf [[1; 2; 0; 0; 0; 0; 0; 0; 2; 7; 7; 3; 9]; [1; 0; 5; 0; 0; 0; 0; 0; 1; 7; 7];
                 [2; 3; 2; 0; 0; 0; 0; 0; 4; 2; 7; 7; 3; 9]; [2; 4; 3; 0; 0; 0; 0; 0; 0; 1; 7; 7]] = true.
Proof. vm_compute. repeat split. Qed.
