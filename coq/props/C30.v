(* C30: connectivity state reporting is consistent and never missed.
   Theorems only; each is closed by [exact] of a lemma from proof/ConnState_proofs.v.
   Model: coq/model/ConnState.v.  States: 0 IDLE, 1 CONNECTING, 2 READY, 3 TRANSIENT_FAILURE,
   4 SHUTDOWN.  Part A = connectivityStateManager + WaitForStateChange with one step per
   critical section (arun over lists of aop = all interleavings of updateState, getState,
   any number of watchers' two steps, and cancellations); part B = the addrConn state
   machine emitting updates into the balancer wrapper's FIFO (brun over lists of bop = all
   interleavings of Connect, dial outcomes, connection loss / GOAWAY (BServerClose g), back-off
   expiry / reset, SubConn.Shutdown, ClientConn.Close, address updates, serializer deliveries
   and - when client-side health checking is configured, stBi true - the health checker's
   reports (BHealth k: 1 SERVING, 0 not serving, 2 stream error, 3 Unimplemented) and the end
   of its retry back-off (BHBackoff)).  stB0 = stBi false: no health checking.
   NOTE (C30_health_*_note): client-side health checking is not among the event kinds C30
   quantifies over; a health-managed sub-channel follows gRFC A17 (TRANSIENT_FAILURE -> READY /
   CONNECTING directly), which is modelled, compared by correspondence and stated by the
   *_health theorems; the sentence "reaches READY only from CONNECTING and leaves
   TRANSIENT_FAILURE only to IDLE after backoff or to SHUTDOWN" is proved for sub-channels
   without health checking (C30_ready_only_from_connecting, C30_tf_left_only_after_backoff_or_shutdown)
   and for every step taken while no checker manages the state (C30_strict_unless_health_managed). *)
From Coq Require Import List ZArith Bool.
From VLib Require Import Codec.
From VModel Require Import ConnState.
From VProof Require Import ConnState_proofs.
Import ListNotations.
Open Scope Z_scope.

(* the transitions the statement names: nothing leaves SHUTDOWN, READY only from CONNECTING,
   TRANSIENT_FAILURE only to IDLE or SHUTDOWN (and a transition changes the state) *)
Theorem C30_allowed_means : forall o n, allowed o n = true <->
  o <> 4 /\ o <> n /\ (n = 2 -> o = 1) /\ (o = 3 -> n = 0 \/ n = 4).
Proof. exact allowed_spec. Qed.
Print Assumptions C30_allowed_means.

(* ---- channel (connectivityStateManager) ---- *)
(* "nothing leaves SHUTDOWN" *)
Theorem C30_channel_shutdown_absorbing : forall l a, cst (cm a) = 4 -> cst (cm (arun a l)) = 4.
Proof. exact shutdown_absorbing. Qed.
Print Assumptions C30_channel_shutdown_absorbing.

(* "GetState returns the most recently published state": the state after any schedule is
   the fold of the published values (a publication after SHUTDOWN is ignored) *)
Theorem C30_getstate_is_last_published : forall l a,
  cst (cm (arun a l)) = fold_left published l (cst (cm a)).
Proof. exact state_is_last_published. Qed.
Print Assumptions C30_getstate_is_last_published.

(* "WaitForStateChange(s) returns true whenever the state differs from s at or after the
   call": wdiff x is the ghost "the state differed from the watcher's source state at its
   first critical section or at some later time".  For every number of watchers and every
   schedule of fine-grained steps such a watcher is never blocked (ph 2) and never returns
   false (ph 4); if it is still between its two critical sections its next step returns
   true.  A blocked watcher is released by the very update that changes the state, and a
   watcher returns false only when its context was cancelled. *)
Theorem C30_wait_true_if_state_differs : forall n l x, In x (ws (arun (initA n) l)) -> wdiff x = true ->
  ph x <> 2 /\ ph x <> 4.
Proof. exact wait_true_if_differs. Qed.
Print Assumptions C30_wait_true_if_state_differs.

Theorem C30_wait_second_step_true : forall n l w x, let a := arun (initA n) l in
  getw a w = Some x -> ph x = 1 -> wdiff x = true ->
  exists x', getw (astep a (AW2 w)) w = Some x' /\ ph x' = 3.
Proof. exact wait_second_step_true. Qed.
Print Assumptions C30_wait_second_step_true.

Theorem C30_blocked_released_by_change : forall n l s x, let a := arun (initA n) l in
  In x (ws a) -> ph x = 2 -> cst (cm a) <> 4 -> s <> cst (cm a) ->
  ph (wake1 (csm_update (cm a) s) x) = 3.
Proof. exact blocked_released_by_change. Qed.
Print Assumptions C30_blocked_released_by_change.

Theorem C30_false_only_if_cancelled : forall n l x, In x (ws (arun (initA n) l)) -> ph x = 4 -> wcan x = true.
Proof. exact false_only_if_cancelled. Qed.
Print Assumptions C30_false_only_if_cancelled.

(* ---- sub-channel (addrConn) ---- *)
(* "subchannel states only take allowed transitions": the sequence of ALL updates a
   sub-channel ever emits, from IDLE, is a chain of allowed transitions (no client-side
   health checking) ... *)
Theorem C30_subchannel_transitions_allowed : forall l, chain_ok 0 (hist (brun stB0 l)) = true.
Proof. exact ac_transitions_allowed. Qed.
Print Assumptions C30_subchannel_transitions_allowed.

(* ... with health checking configured, a chain of the relation extended by what the health
   checker may do (TRANSIENT_FAILURE -> READY / CONNECTING) ... *)
Theorem C30_allowedR_means : forall f o n, allowedR f o n = true <->
  allowed o n = true \/ (f = true /\ o = 3 /\ (n = 2 \/ n = 1)).
Proof. exact allowedR_spec. Qed.
Print Assumptions C30_allowedR_means.
Theorem C30_subchannel_transitions_allowed_health : forall h l, chain_okR h 0 (hist (brun (stBi h) l)) = true.
Proof. exact ac_transitions_allowed_health. Qed.
Print Assumptions C30_subchannel_transitions_allowed_health.

(* ... and the extension is used only while the health checker manages the state (health
   checking configured AND a transport present): any other step - before the connection
   exists, during the connection back-off, after the connection is lost - emits updates that
   continue the un-extended chain, with IDLE after TRANSIENT_FAILURE only when the back-off
   ends (idle_rule false) *)
Theorem C30_strict_unless_health_managed : forall h l o, let b := brun (stBi h) l in
  o <> BDeliver -> hmanaged b = false ->
  exists e, hist (bstep b o) = hist b ++ e /\ chain_ok (ast b) e = true /\ idle_rule false (ast b) e o = true.
Proof. exact strict_unless_health_managed. Qed.
Print Assumptions C30_strict_unless_health_managed.

(* ... and per step: READY only from CONNECTING by a successful dial; TRANSIENT_FAILURE is
   left only to IDLE by the back-off timer / ResetConnectBackoff or to SHUTDOWN by
   Shutdown / Close (o ranges over every modelled event, UpdateAddresses, GOAWAY and the
   health events - which do nothing without health checking - included); SHUTDOWN is final *)
Theorem C30_ready_only_from_connecting : forall l o, let b := brun stB0 l in
  ast b <> 2 -> ast (bstep b o) = 2 -> ast b = 1 /\ o = BDial true.
Proof. exact ready_only_from_connecting. Qed.
Print Assumptions C30_ready_only_from_connecting.

Theorem C30_tf_left_only_after_backoff_or_shutdown : forall l o, let b := brun stB0 l in
  ast b = 3 -> ast (bstep b o) <> 3 ->
  (ast (bstep b o) = 0 /\ (o = BTimer \/ o = BReset)) \/ (ast (bstep b o) = 4 /\ (o = BShutdown \/ o = BClose)).
Proof. exact tf_exits. Qed.
Print Assumptions C30_tf_left_only_after_backoff_or_shutdown.

(* the same two sentences with client-side health checking: READY is reached by a successful
   dial only when no health checking is configured, otherwise by the checker's report SERVING /
   Unimplemented from CONNECTING or from TRANSIENT_FAILURE; TRANSIENT_FAILURE is left as above,
   or - only while the checker manages the state - to READY (SERVING / Unimplemented), to
   CONNECTING (the checker retries its stream: at once after a stream error if a response had
   been received, else when its back-off ends), to IDLE when the connection is lost / GOAWAY *)
Theorem C30_ready_reached_health : forall h l o, let b := brun (stBi h) l in
  ast b <> 2 -> ast (bstep b o) = 2 ->
  (ast b = 1 /\ o = BDial true /\ hcf b = false) \/
  (hmanaged b = true /\ (ast b = 1 \/ ast b = 3) /\ (o = BHealth 1 \/ o = BHealth 3)).
Proof. exact ready_from_health. Qed.
Print Assumptions C30_ready_reached_health.

Theorem C30_tf_left_health : forall h l o, let b := brun (stBi h) l in ast b = 3 -> ast (bstep b o) <> 3 ->
  (ast (bstep b o) = 0 /\ (o = BTimer \/ o = BReset)) \/ (ast (bstep b o) = 4 /\ (o = BShutdown \/ o = BClose)) \/
  (hmanaged b = true /\
   ((ast (bstep b o) = 2 /\ (o = BHealth 1 \/ o = BHealth 3)) \/
    (ast (bstep b o) = 1 /\ (o = BHealth 2 \/ o = BHBackoff)) \/
    (ast (bstep b o) = 0 /\ exists g, o = BServerClose g))).
Proof. exact tf_exits_health. Qed.
Print Assumptions C30_tf_left_health.

(* NOTES, outside C30's quantifier (client-side health checking is not one of its event kinds;
   gRFC A17 behaviour): a sub-channel whose server reported NOT_SERVING and then SERVING goes
   CONNECTING, TRANSIENT_FAILURE, READY; after a health stream error it goes TRANSIENT_FAILURE ->
   CONNECTING when the checker's back-off ends; on the trace the driver replays on the real code
   (case 9) every clause holds *)
Theorem C30_health_tf_to_ready_note : exists l, let b := brun (stBi true) l in
  ast b = 3 /\ ast (bstep b (BHealth 1)) = 2 /\ hist (bstep b (BHealth 1)) = [1; 3; 2].
Proof. exact health_tf_to_ready_note. Qed.
Print Assumptions C30_health_tf_to_ready_note.
Theorem C30_health_tf_to_connecting_note : exists l, let b := brun (stBi true) l in
  ast b = 3 /\ ast (bstep b BHBackoff) = 1.
Proof. exact health_tf_to_connecting_note. Qed.
Print Assumptions C30_health_tf_to_connecting_note.
Theorem C30_health_managed_transitions_note : exists cfg ops obs, cfg_wf cfg = true /\
  run cfg ops = Some obs /\ holds_b cfg ops obs = true /\ all_fails (clauses cfg ops obs) = [] /\
  obs = [[1;1;1;1;0]; [0;1;1;1]; [1;3;3;3;1]; [1;2;2;2;1]].
Proof. exact health_managed_transitions_note. Qed.
Print Assumptions C30_health_managed_transitions_note.

(* a health checker exists only for a present transport of a health-checked sub-channel, and
   without one its reports change nothing (setConnectivityState drops reports for a transport
   that is no longer current) *)
Theorem C30_no_checker_without_transport : forall h l, let b := brun (stBi h) l in
  hph b <> 0 -> tr b = true /\ hcf b = true.
Proof. exact no_checker_without_transport. Qed.
Print Assumptions C30_no_checker_without_transport.
Theorem C30_health_report_dropped_without_checker : forall b k, hph b = 0 ->
  bstep b (BHealth k) = b /\ bstep b BHBackoff = b.
Proof. exact health_report_dropped_without_checker. Qed.
Print Assumptions C30_health_report_dropped_without_checker.

(* GOAWAY (g = true) or a lost connection (g = false): a READY sub-channel goes IDLE, drops its
   transport and stops its health checker; a second such event changes nothing; both are the
   same step *)
Theorem C30_goaway_ready_to_idle : forall h l g, let b := brun (stBi h) l in
  ast b = 2 -> let b' := bstep b (BServerClose g) in
  ast b' = 0 /\ tr b' = false /\ hph b' = 0 /\ bstep b' (BServerClose g) = b' /\
  bstep b (BServerClose g) = bstep b (BServerClose (negb g)).
Proof. exact server_close_ready_to_idle. Qed.
Print Assumptions C30_goaway_ready_to_idle.

(* in particular an address update (SubConn.UpdateAddresses -> addrConn.updateAddrs) during the
   back-off does not restart the connection: the step changes nothing *)
Theorem C30_update_addrs_does_not_end_backoff : forall b fresh, ast b = 3 \/ ast b = 0 \/ ast b = 4 ->
  bstep b (BUpdAddrs fresh) = b.
Proof. exact upd_addrs_not_connecting. Qed.
Print Assumptions C30_update_addrs_does_not_end_backoff.

(* READY only with a live transport: a connection that is lost (GOAWAY / drop) after the server
   preface but before createTransport has installed the transport takes the CONNECTING
   sub-channel to IDLE with no connect goroutine left; READY is not reported for it *)
Theorem C30_connection_lost_while_connecting_goes_idle : forall b, phase b = 1 ->
  ast (bstep b BDialLost) = 0 /\ phase (bstep b BDialLost) = 0 /\ tr (bstep b BDialLost) = tr b.
Proof. exact dial_lost_goes_idle. Qed.
Print Assumptions C30_connection_lost_while_connecting_goes_idle.

Theorem C30_subchannel_shutdown_final : forall h l o, let b := brun (stBi h) l in ast b = 4 -> ast (bstep b o) = 4.
Proof. exact shutdown_is_final. Qed.
Print Assumptions C30_subchannel_shutdown_final.

(* "Subchannel state updates reach the LB policy in the order they happened": what the LB
   policy has received is a prefix of what was emitted, and while the balancer wrapper is
   open nothing is lost (received ++ queued = emitted) *)
Theorem C30_lb_delivery_in_order : forall h l, let b := brun (stBi h) l in
  (exists rest, hist b = dl b ++ rest) /\ (lbopen b = true -> dl b ++ q b = hist b).
Proof. exact lb_delivery_in_order. Qed.
Print Assumptions C30_lb_delivery_in_order.

(* "none arrive after the subchannel is shut down" *)
Theorem C30_nothing_delivered_after_shutdown : forall h l pre post,
  dl (brun (stBi h) l) = pre ++ 4 :: post -> post = [].
Proof. exact nothing_delivered_after_shutdown. Qed.
Print Assumptions C30_nothing_delivered_after_shutdown.

(* The executable predicate evaluated on implementation traces (every clause) holds on every
   model trace, health checking and GOAWAY histories included. *)
Theorem C30_holds_on_every_model_trace : forall cfg ops, cfg_wf cfg = true ->
  exists obs, run cfg ops = Some obs /\ holds_b cfg ops obs = true.
Proof. exact model_trace_holds. Qed.
Print Assumptions C30_holds_on_every_model_trace.

(* non-vacuity: a watcher on IDLE is released by the first update; a sub-channel goes
   CONNECTING, TRANSIENT_FAILURE, IDLE (after the back-off), CONNECTING, READY, IDLE (server
   closed), SHUTDOWN and the LB policy receives exactly that; an address update during the
   back-off is not reported, one on a READY sub-channel restarts it (READY -> CONNECTING), and
   a Shutdown racing with the end of the back-off (op 9) delivers SHUTDOWN only; GOAWAY moves
   READY to IDLE once; with health checking: connected (nothing reported), SERVING (READY),
   stream error after a response (TRANSIENT_FAILURE, CONNECTING at once), error without a
   response (TRANSIENT_FAILURE, checker back-off), back-off end (CONNECTING), Unimplemented
   (READY, checker gone), GOAWAY (IDLE) *)
Example C30_witness :
  run [0; 1] [[3;0;0]; [1;1]] = Some [[0; 2]; [1; 3]] /\
  dl (brun stB0 [BConnect; BDial false; BTimer; BConnect; BDial true; BServerClose false; BShutdown;
                 BDeliver; BDeliver; BDeliver; BDeliver; BDeliver; BDeliver; BDeliver]) = [1; 3; 0; 1; 2; 0; 4] /\
  run [1] [[1]; [2;0]; [8;0]; [4]; [1]; [2;1]; [8;1]; [8;0]; [2;0]; [9]; [7]] =
    Some [[1;1;1;1;0]; [1;3;3;3;0]; [0;3;3;0]; [1;0;0;0;0]; [1;1;1;1;0]; [1;2;2;2;0]; [0;2;2;0]; [1;1;1;1;0]; [1;3;3;3;0]; [1;4;4;3;0]; [0;4;3;0]] /\
  run [1; 0] [[1]; [2;1]; [12]; [12]; [3]] = Some [[1;1;1;1;0]; [1;2;2;2;0]; [1;0;0;0;0]; [0;0;0;0]; [0;0;0;0]] /\
  run [1; 1] [[1]; [2;1]; [10;1]; [10;2]; [10;2]; [11]; [10;3]; [10;0]; [12]] =
    Some [[1;1;1;1;0]; [0;1;1;1]; [1;2;2;2;1]; [2;3;1;1;1;1]; [1;3;3;3;2]; [1;1;1;1;1]; [1;2;2;2;0]; [0;2;2;0]; [1;0;0;0;0]] /\
  cfg_wf [0; 1] = true /\ cfg_wf [1] = true /\ cfg_wf [1; 1] = true.
Proof. vm_compute. repeat split; reflexivity. Qed.
