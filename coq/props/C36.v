(* C36: weighted round robin picks in proportion to weights.
   Theorems only; each is closed by [exact] of a lemma from proof/WRR_proofs.v.
   maxWeight = 65535; a sequence number idx addresses backend idx mod n in generation idx / n. *)
From Coq Require Import List ZArith Bool Floats.
From VLib Require Import Codec Machine.
From VModel Require Import WRR.
From VProof Require Import WRR_proofs.
From Coq Require Import Reals.
From Flocq Require Core.Core.
From VProof Require Flt_proofs WRRFlt_proofs.
Import ListNotations.
Open Scope Z_scope.

(* weight*generation + backendIndex*offset never wraps the uint64 it is computed in *)
Theorem C36_no_uint64_overflow : forall w g bi,
  0 <= w <= maxWeight -> 0 <= g < 2 ^ 32 -> 0 <= bi < 2 ^ 32 ->
  picked w g bi = pickedZ w (w * g + bi * offset).
Proof. intros. apply picked_nowrap, stride_range; assumption. Qed.
Print Assumptions C36_no_uint64_overflow.

(* a backend is picked on a generation exactly when floor((w*g+c)/65535) steps up *)
Theorem C36_pick_is_telescoping : forall w x, 0 <= w <= maxWeight ->
  (x + w) / maxWeight - x / maxWeight = if pickedZ w x then 1 else 0.
Proof. exact pick_telescoping. Qed.
Print Assumptions C36_pick_is_telescoping.

(* hence in ANY 65535 consecutive generations (any start g0, any per-backend constant c)
   a backend with scaled weight w is chosen exactly w times ... *)
Theorem C36_exact : forall w c g0, 0 <= w <= maxWeight ->
  gen_count w c g0 (Z.to_nat maxWeight) = w.
Proof. exact gen_count_exact. Qed.
Print Assumptions C36_exact.

(* ... and a window of 65535*n consecutive sequence numbers starting anywhere contains, for
   every backend i, exactly the sequence numbers of 65535 consecutive generations of i.
   Together: over any such window (below the uint32 wrap of the counter) each backend is
   chosen exactly its scaled weight many times, i.e. in proportion to the scaled weights. *)
Theorem C36_window_is_65535_generations : forall n s i, 0 < n -> 0 <= i < n ->
  let g0 := (s - i + n - 1) / n in
  forall idx, (s <= idx < s + maxWeight * n /\ backend n idx = i) <->
              (exists g, g0 <= g < g0 + maxWeight /\ idx = n * g + i).
Proof. exact window_generations. Qed.
Print Assumptions C36_window_is_65535_generations.

(* List level, on the picked sequence numbers themselves: among the 65535*n sequence numbers
   ctr+1 .. ctr+65535*n (below 2^32) the picked ones address backend i exactly w_i times
   ([wpicks] = the backends of the picked sequence numbers, in order). *)
Theorem C36_window_count : forall ws i ctr,
  (0 < zlen ws < 2 ^ 32 /\ forall i, 0 <= i < zlen ws -> 0 <= nthz ws i <= maxWeight) ->
  0 <= i < zlen ws -> 0 <= ctr -> ctr + maxWeight * zlen ws < 2 ^ 32 ->
  cnt i (wpicks ws ctr (Z.to_nat (maxWeight * zlen ws))) = nthz ws i.
Proof. exact window_count. Qed.
Print Assumptions C36_window_count.

(* ... and through the nextIndex loop: if some weight is 65535, the sum(ws) successive
   nextIndex calls after picker.idx = ctr (any fuel >= n for the loop) consume only sequence
   numbers of that window, each call at most n of them, and the indices they return contain
   backend i exactly w_i times (out = [idx1; used1; idx2; used2; ...]). *)
Theorem C36_calls_consume_window : forall ws j fuel ctr,
  (0 < zlen ws < 2 ^ 32 /\ forall i, 0 <= i < zlen ws -> 0 <= nthz ws i <= maxWeight) ->
  (0 <= j < zlen ws /\ nthz ws j = maxWeight) ->
  (Z.to_nat (zlen ws) <= fuel)%nat -> 0 <= ctr -> ctr + maxWeight * zlen ws < 2 ^ 32 ->
  let out := edf_calls fuel (Z.to_nat (sumz ws)) ws ctr in
  (forall i, 0 <= i < zlen ws -> cnt i (evens out) = nthz ws i) /\
  Forall (fun u => 1 <= u <= zlen ws) (odds out) /\
  sumz (odds out) <= maxWeight * zlen ws.
Proof. exact calls_consume_window. Qed.
Print Assumptions C36_calls_consume_window.

(* The sentence is false for a window that crosses the uint32 wrap of picker.idx (clause 6,
   finding F-C36-wrr-u32-wrap): n = 2, weights [65535; 3], window starting 999 sequence
   numbers before 2^32: backend 1 sees generations 2^31-500..2^31-1 then 0..65034 and is
   picked 4 times instead of 3 (reproduced on the real scheduler by the driver, case 1). *)
Theorem C36_window_wrap_refuted :
  exists w c a k1 k2, 0 <= w <= maxWeight /\ 0 <= k1 /\ 0 <= k2 /\ k1 + k2 = maxWeight /\
    a + k1 = 2 ^ 32 / 2 /\
    gen_count w c a (Z.to_nat k1) + gen_count w c 0 (Z.to_nat k2) <> w.
Proof. exact window_wrap_refuted. Qed.
Print Assumptions C36_window_wrap_refuted.

(* if some backend has the maximal scaled weight 65535 (newScheduler scales the largest
   weight to it), every nextIndex call returns within n sequence numbers *)
Theorem C36_terminates_n : forall ws j fuel ctr, let n := zlen ws in
  0 <= j < n -> nthz ws j = maxWeight -> n < 2 ^ 32 ->
  0 <= ctr -> ctr + n < 2 ^ 32 -> (Z.to_nat n <= fuel)%nat ->
  exists t, 1 <= t <= n /\ edf_next fuel ws ctr = (backend n (ctr + t), ctr + t).
Proof. exact edf_next_within_n. Qed.
Print Assumptions C36_terminates_n.

(* fallback: nil scheduler for no endpoints, plain round robin for one endpoint and when
   fewer than two endpoints have a non-zero weight; otherwise (unless all scaled weights are
   equal) EDF with uint16 weights, zero weights replaced by the scaled mean of the others *)
Theorem C36_fallback : forall ws, let n := zlen ws in
  (n = 0 -> new_scheduler ws = [0]) /\
  (n = 1 -> new_scheduler ws = [1; 1]) /\
  (2 <= n -> n - nzero ws < 2 -> new_scheduler ws = [1; n]) /\
  (forall wts, new_scheduler ws = 2 :: wts ->
     2 <= n - nzero ws /\ zlen wts = n /\ Forall (fun w => 0 <= w <= maxWeight) wts).
Proof. exact new_scheduler_fallback. Qed.
Print Assumptions C36_fallback.

(* float64 scaling of newScheduler: for every finite weight max > 0 (real value a, [FR max a])
   such that 65535/max does not overflow, scalingFactor*max = fl(fl(65535/max)*max) is finite
   and within 2^-30 of 65535, so math.Round gives exactly 65535: an EDF scheduler always has a
   backend of weight 65535 (hypothesis of C36_terminates_n).  When 65535/max overflows
   (max < about 2^-1008) every scaled weight is uint16(+Inf) = 0 = mean on amd64 and
   newScheduler falls back to round robin (observed on the real code, driver case 5). *)
Theorem C36_max_scaled_is_M : forall (m : PrimFloat.float) (a : Rdefinitions.R),
  Flt_proofs.FR m a -> (0 < a)%R ->
  (Rbasic_fun.Rabs (Flt_proofs.rnd (65535 / a)) < Raux.bpow Zaux.radix2 1024)%R ->
  exists p, Flt_proofs.FR (PrimFloat.mul (PrimFloat.div (fz maxWeight) m) m) p /\
            (Rbasic_fun.Rabs (p - 65535) <= / 1073741824)%R.
Proof. exact WRRFlt_proofs.max_scaled_is_M. Qed.
Print Assumptions C36_max_scaled_is_M.

(* the round robin scheduler: the j-th call returns (ctr + j) mod n (below the uint32 wrap) *)
Theorem C36_rr : forall n k ctr, 0 <= ctr -> ctr + Z.of_nat k < 2 ^ 32 ->
  rr_calls k n ctr = map (fun j => (ctr + Z.of_nat j) mod n) (seq 1 k).
Proof. exact rr_calls_closed. Qed.
Print Assumptions C36_rr.

(* endpoint weight = qps / (utilization + eps/qps * penalty) from the latest non-empty load
   report (application utilization, else cpu utilization) ... *)
Theorem C36_weight_formula : forall e now qps app cpu eps pen,
  let util := if is0 app then cpu else app in
  (is0 util || is0 qps = true -> on_report e now qps app cpu eps pen = e) /\
  (is0 util || is0 qps = false ->
   e_val (on_report e now qps app cpu eps pen) =
     PrimFloat.div qps (PrimFloat.add util (PrimFloat.mul (PrimFloat.div eps qps) pen)) /\
   e_last (on_report e now qps app cpu eps pen) = now).
Proof. exact report_formula. Qed.
Print Assumptions C36_weight_formula.

(* ... 0 before the first report, after the expiration period, during the blackout period ... *)
Theorem C36_weight_zero : forall e now expir blackout,
  e_last e = 0 \/ now - e_last e >= expir \/
  (blackout <> 0 /\ (e_since e = 0 \/ now - e_since e < blackout)) ->
  fst (weight_at e now expir blackout) = PrimFloat.zero.
Proof. exact weight_zero_cases. Qed.
Print Assumptions C36_weight_zero.

(* ... and the reported value otherwise. *)
Theorem C36_weight_usable : forall e now expir blackout,
  e_last e <> 0 -> now - e_last e < expir ->
  (blackout = 0 \/ (e_since e <> 0 /\ blackout <= now - e_since e)) ->
  fst (weight_at e now expir blackout) = e_val e.
Proof. exact weight_usable. Qed.
Print Assumptions C36_weight_usable.

(* The executable predicate evaluated on implementation traces (all clauses, including the
   whole-call clause 5, except the refuted clause 6) holds on every model trace. *)
Theorem C36_holds_on_every_model_trace : forall ops, forallb op_wf ops = true ->
  exists obs, run ops = Some obs /\ holds_b ops obs = true.
Proof. exact model_trace_holds. Qed.
Print Assumptions C36_holds_on_every_model_trace.

(* non-vacuity: weights 65535 : 21845 (3:1), round robin across the uint32 wrap, scaling of
   1 : 2 : unknown, and a load-report timeline (blackout 10 s, expiration 180 s) *)
Example C36_witness :
  let ops := [[1; 5; 6; 65535; 21845]; [2; 4294967293; 5; 3]; [3; 1; 1; 2; 1; 0; 1]; [3; 0; 1; 7; 2];
              [5; 1000000000; 180000000000; 10000000000];
              [4; 2000000000; 100; 1; 1; 2; 0; 1; 5; 1; 1; 1];
              [5; 3000000000; 180000000000; 10000000000]; [5; 13000000000; 180000000000; 10000000000];
              [5; 190000000000; 180000000000; 0]] in
  forallb op_wf ops = true /\
  run ops = Some [[0; 1; 0; 2; 1; 1; 0; 1; 0; 2; 0; 2]; [2; 0; 0; 1; 2]; [2; 32768; 65535; 49151]; [1; 2];
                  [0; 0]; []; [0; 0]; [6397158561605818; -45]; [0; 0]] /\
  gen_count 21845 32767 7 (Z.to_nat maxWeight) = 21845.
Proof. vm_compute. repeat split. Qed.
