(* C44: management-server fallback follows gRFC A71.
   Theorems only; each is closed by [exact] of a lemma from proof/Fallback_proofs.v.
   Model: model/Fallback.v (authority channel management over N <= 3 servers + the per-channel
   subscription state).  [step nsrv s a = (s', o)]: one driver op run to quiescence;
   open (sv s j) = the authority holds a channel to server j; active s = the active server. *)
From Coq Require Import List ZArith Bool.
From VLib Require Import Codec Machine.
From VModel Require Import XdsWatch Fallback.
From VProof Require Import Fallback_proofs.
Import ListNotations.
Open Scope Z_scope.

(* "The client switches to a lower-priority management server only when the active server's
   stream failed before delivering any response and some watched resource has no cached value":
   from ANY state, a step creates a channel only (i) to server 0 on the first watch, or (ii) to a
   server j below a server f whose NewStream failed or whose stream broke before any response on
   it, while some watched resource is uncached; j becomes the active server ... *)
Theorem C44_fallback_only_on_failure : forall nsrv s a s' o j,
  step nsrv s a = (s', o) -> open (sv s' j) = true -> open (sv s j) = false ->
  (exists n, a = AWatch n /\ j = 0 /\ active s = -1) \/
  (exists f, (a = AFail f \/ a = ABreak f /\ smsg (sv s f) = false) /\ f < j < nsrv /\
             uncached s = true /\ active s' = j).
Proof. exact opened_only_by_failure. Qed.
Print Assumptions C44_fallback_only_on_failure.

(* ... namely the first server below f that has no channel yet (servers in between that already
   have a channel are skipped) *)
Theorem C44_fallback_target : forall nsrv s f s' b, failure nsrv s f = (s', b) ->
  (b = [] /\ s' = s) \/
  (exists j pre post, b = [j] /\ uncached s = true /\ cands nsrv f = pre ++ j :: post /\
     f < j < nsrv /\ open (sv s j) = false /\ (forall x, In x pre -> open (sv s x) = true) /\
     active s' = j /\ open (sv s' j) = true /\ (forall x, x <> j -> sv s' x = sv s x)).
Proof. exact failure_spec. Qed.
Print Assumptions C44_fallback_target.

(* FINDING (clause 2): f need not be the ACTIVE server.  After a fallback to s1, a further failure
   of s0 creates a channel to s2 and makes it active although s1's stream never failed. *)
Theorem C44_fallback_not_active_refuted :
  exists ops obs, run [3] ops = Some obs /\ first_fail (clauses [3] ops obs) = Some (2, 4).
Proof. exact fallback_not_active_refuted. Qed.
Print Assumptions C44_fallback_not_active_refuted.

(* "when a higher-priority server delivers an update the client reverts to it, unsubscribes and
   releases all lower-priority servers": the channels released are exactly the lower-priority
   servers that had one, no resource stays subscribed on them ... *)
Theorem C44_revert : forall nsrv s c v rs s' o,
  open (sv s c) = true -> slive (sv s c) = true -> c < active s ->
  step nsrv s (AResp c v rs) = (s', o) ->
  active s' = c /\ open (sv s' c) = true /\
  (forall j, c < j -> sv s' j = v_closed) /\
  (forall n j, c < j -> mem j (chans (rq s' n)) = false) /\
  nth_error o 2 = Some (201 :: filter (fun j => (c <? j) && open (sv s j)) all_srv).
Proof. exact revert_on_higher_priority_update. Qed.
Print Assumptions C44_revert.

(* ... and an update from the active server releases nothing *)
Theorem C44_active_update_releases_nothing : forall nsrv s v rs s' o,
  open (sv s (active s)) = true -> slive (sv s (active s)) = true ->
  step nsrv s (AResp (active s) v rs) = (s', o) ->
  active s' = active s /\ (forall j, open (sv s' j) = open (sv s j)) /\ nth_error o 2 = Some [201].
Proof. exact update_from_active_releases_nothing. Qed.
Print Assumptions C44_active_update_releases_nothing.

(* NOTE, outside the property's sentences (they say when channels are created, released and
   ignored, not that subscriptions are re-established): the revert does not subscribe, on the new
   active server, a resource that was first watched during the fallback: it stays watched and is
   subscribed nowhere.  Real defect, found incidentally; the behaviour is in the model and compared
   by correspondence. *)
Theorem C44_resource_lost_on_revert_note :
  exists ops obs, run [2] ops = Some obs /\ holds_b [2] ops obs = true /\
    watched (rq (fst (step 2 (fst (step 2 (fst (step 2 (fst (step 2 (fst (step 2 (fst (step 2 init
      (AWatch 0))) (AFail 0))) (AAllow 1))) (AWatch 1))) (AAllow 0))) (AResp 0 1 [(0, 1, 5)]))) 1) = true /\
    chans (rq (fst (step 2 (fst (step 2 (fst (step 2 (fst (step 2 (fst (step 2 (fst (step 2 init
      (AWatch 0))) (AFail 0))) (AAllow 1))) (AWatch 1))) (AAllow 0))) (AResp 0 1 [(0, 1, 5)]))) 1) = [].
Proof. exact resource_lost_on_revert_note. Qed.
Print Assumptions C44_resource_lost_on_revert_note.

(* "and ignores updates from servers below the active one" *)
Theorem C44_ignore_lower : forall nsrv s c v rs s' o,
  active s < c -> step nsrv s (AResp c v rs) = (s', o) -> rq s' = rq s /\ active s' = active s.
Proof. exact update_from_lower_priority_ignored. Qed.
Print Assumptions C44_ignore_lower.

(* History statement.  [clauses] is the monitor evaluated on every implementation trace: from the
   ops and the observed channel events it keeps which servers have a channel, the active server,
   whether a server's current stream has delivered a response, which names are watched and which
   of them no processed update has named, and checks clause 1 (a channel is created only by a
   stream failure before any response of a higher-priority server while some watched resource is
   uncached; channel 0 only by the first watch), clause 2 (that server is the active one) and
   clause 3 (channels are released only by an update from above the active server - exactly the
   lower-priority ones - or all of them on the last cancel).  For every configuration and every
   op list, of any length, every clause except the registered finding clause 2 holds on the
   model's own trace (invariant monitor state = model state, induction over the op list), for
   every configuration [N] without a shared channel. *)
Theorem C44_holds_on_every_model_trace : forall cfg ops, is_shared cfg = false ->
  exists obs, run cfg ops = Some obs /\ holds_core cfg ops obs = true.
Proof. exact model_trace_holds_ns. Qed.
Print Assumptions C44_holds_on_every_model_trace.

(* Shared fallback channel (cfg [2; 1]: the channel to server 1 is also used by a second authority,
   so releasing it does not tear it down).  "reverts to it, UNSUBSCRIBES and releases all
   lower-priority servers": from any state in which the client is active on the shared server 1, an
   update from server 0 releases the reference and leaves in server 1's subscription none of the
   resources that were subscribed there for this authority, and every other name (the second
   authority's) stays.  Clause 6 of the monitor ("after the revert server 1 is no longer asked for
   names 0..2") is evaluated on every implementation trace of the shared configuration; its
   history-level bridge theorem (forall ops, clause 6 holds on run [2;1] ops) is NOT proved - only
   this step theorem is. *)
Theorem C44_shared_revert_unsubscribes : forall s v rs s' o,
  open (sv s 0) = true -> slive (sv s 0) = true -> active s = 1 -> open (sv s 1) = true ->
  step_sh s (AResp 0 v rs) = (s', o) ->
  open (sv s' 1) = false /\ active s' = 0 /\
  (forall n, In n all_names -> mem 1 (chans (rq s n)) = true -> mem n (subs (sv s' 1)) = false) /\
  (forall n, mem n (subs (sv s 1)) = true ->
             (forall k, In k all_names -> mem 1 (chans (rq s k)) = true -> k <> n) ->
             mem n (subs (sv s' 1)) = true).
Proof. exact revert_sh_unsubscribes. Qed.
Print Assumptions C44_shared_revert_unsubscribes.

(* non-vacuity: fallback to s1 after s0 fails before any response, then s0 comes back and its
   first update releases s1 *)
Example C44_witness :
  run [2] [[1; 0]; [4; 0]; [3; 1]; [3; 0]; [5; 0; 1; 0; 1; 5]] =
  Some [[1; 0]; [200; 0]; [201];
        [1; 0]; [200; 1]; [201];
        [1; 1]; [200]; [201]; [100; 1; 0];
        [1; 1]; [200]; [201]; [100; 0; 0];
        [1; 1]; [200]; [201; 1]; [100; 0; 0]] /\
  holds_b [2] [[1; 0]; [4; 0]; [3; 1]; [3; 0]; [5; 0; 1; 0; 1; 5]]
          [[1; 0]; [200; 0]; [201]; [1; 0]; [200; 1]; [201]; [1; 1]; [200]; [201]; [100; 1; 0];
           [1; 1]; [200]; [201]; [100; 0; 0]; [1; 1]; [200]; [201; 1]; [100; 0; 0]] = true.
Proof. vm_compute. split; reflexivity. Qed.
