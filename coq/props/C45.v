(* C45: xDS resource parsing is total and accepted resources satisfy invariants.
   Theorems only; each is closed by [exact] of a lemma from proof/XdsParse_proofs.v.
   parse_eds / parse_rds transcribe unmarshalEndpointsResource+parseEDSRespProto and
   unmarshalRouteConfigResource+routesProtoToSlice, and parse_lds the HTTP filter list
   validation of unmarshalListenerResource (processHTTPFilters), (after proto.Unmarshal) over an
   abstract syntax of the protos (model/XdsParse.v).  An update uses the same records:
   cla = (accepted, drops, localities), route = xdsresource.Route. *)
From Coq Require Import List ZArith Bool.
From VLib Require Import Codec Machine.
From VModel Require Import XdsParse.
From VProof Require Import XdsParse_proofs.
Import ListNotations.
Open Scope Z_scope.

(* "unmarshalling returns either an error or an update ... and gives the same answer
   every time": validation is a total function of the decoded message (None = error).
   (Totality of protobuf wire decoding on arbitrary bytes and absence of Go panics are
   observed by the driver, not proved.) *)
Theorem C45_total_function : forall dual c named rs,
  (parse_eds dual c = None \/ exists u, parse_eds dual c = Some u) /\
  (parse_rds named rs = None \/ exists os, parse_rds named rs = Some os).
Proof. exact parse_total. Qed.
Print Assumptions C45_total_function.

(* "Every accepted [ClusterLoadAssignment] satisfies ...: endpoint priorities are contiguous
   from 0, no address or (locality, priority) pair repeats, per-priority locality weight
   sums and per-locality endpoint weight sums fit in uint32 and endpoint weights are
   non-zero" (and locality weights are non-zero, drop denominators are 100/10^4/10^6),
   for every ClusterLoadAssignment, with and without dual-stack addresses. *)
Theorem C45_eds_invariants : forall dual c u, parse_eds dual c = Some u ->
  (exists k, forall p, In p (map l_prio (c_locs u)) <-> 0 <= p < k) /\
  NoDup (all_addrs (c_locs u)) /\
  NoDup (map (fun l => (l_id l, l_prio l)) (c_locs u)) /\
  (forall p, sum_prio p (c_locs u) <= max_u32) /\
  (forall l, In l (c_locs u) ->
     1 <= l_w l <= max_u32 /\ zsum (map ep_w (l_eps l)) <= max_u32 /\
     forall e, In e (l_eps l) -> 1 <= ep_w e <= max_u32) /\
  (forall nd, In nd (c_drops u) -> snd nd = 100 \/ snd nd = 10000 \/ snd nd = 1000000).
Proof. exact eds_invariants_readable. Qed.
Print Assumptions C45_eds_invariants.

(* localities with weight 0 (or unset) are dropped, all others are kept in order *)
Theorem C45_eds_zero_weight_dropped : forall dual c u, parse_eds dual c = Some u ->
  map l_id (c_locs u) =
  map (fun l => u32 (l_id l)) (filter (fun l => negb (u32 (l_w l) =? 0)) (c_locs c)).
Proof. exact eds_zero_weight_dropped. Qed.
Print Assumptions C45_eds_zero_weight_dropped.

Theorem C45_eds_empty_name_rejected : forall dual c, c_named c = false -> parse_eds dual c = None.
Proof. exact eds_unnamed_rejected. Qed.
Print Assumptions C45_eds_empty_name_rejected.

(* "every accepted route has a path matcher and a supported action, and weighted clusters
   have positive total weight": path matcher (1 prefix / 2 path / 3 regex); the action type
   is Route, NonForwardingAction or -- see the refutation below -- Unsupported; a Route
   action has weighted clusters with every weight >= 1 and total in [1, 2^32-1], or a
   cluster specifier plugin. *)
Theorem C45_rds_invariants : forall named rs os, parse_rds named rs = Some os ->
  forall o, In o os ->
  (r_path o = 1 \/ r_path o = 2 \/ r_path o = 3) /\
  (r_action o = 1 \/ r_action o = 2 \/ r_action o = 0) /\
  (r_action o = 1 ->
     (r_cs o = 2 /\ 1 <= zsum (r_wcs o) <= max_u32 /\ forall w, In w (r_wcs o) -> 1 <= w) \/
     (r_cs o = 6 /\ r_wcs o = [])).
Proof. exact rds_invariants_readable. Qed.
Print Assumptions C45_rds_invariants.

(* "a supported action" is REFUTED as written (finding F-C45-unsupported-action-accepted,
   clause 61): a route whose action is a redirect is accepted and marked
   RouteActionUnsupported (= 0). *)
Theorem C45_supported_action_refuted :
  exists os o, parse_rds true [w_redirect] = Some os /\ In o os /\ r_path o = 1 /\ r_action o = 0.
Proof. exact unsupported_action_refuted. Qed.
Print Assumptions C45_supported_action_refuted.

(* The Fraction of an accepted route is numerator * (10000 | 100 | 1) of the route it came
   from, reduced modulo 2^32; it is the exact per-million value whenever that fits ... *)
Theorem C45_rds_fraction : forall named rs os, parse_rds named rs = Some os ->
  forall o, In o os -> r_hasfrac o = true ->
  exists r, In r rs /\ r_idx o = u32 (r_idx r) /\ r_hasfrac r = true /\
    r_fnum o = u32 (frac_exact (r_fnum r) (r_fden r)) /\
    (frac_exact (r_fnum r) (r_fden r) <= max_u32 -> r_fnum o = frac_exact (r_fnum r) (r_fden r)).
Proof. exact rds_fraction. Qed.
Print Assumptions C45_rds_fraction.

(* ... which is the case for numerators up to 429496 (HUNDRED) / 42949672 (TEN_THOUSAND) ... *)
Theorem C45_fraction_fits : forall n d,
  (u32 d = 0 -> u32 n <= 429496) -> (u32 d = 1 -> u32 n <= 42949672) ->
  frac_exact n d <= max_u32.
Proof. exact frac_fits. Qed.
Print Assumptions C45_fraction_fits.

(* ... and REFUTED beyond (finding F-C45-runtime-fraction-u32-wrap, clause 91):
   numerator 429497 / HUNDRED is accepted with Fraction = 2704 instead of 4294970000. *)
Theorem C45_fraction_exact_refuted :
  exists os o, parse_rds true [w_frac] = Some os /\ In o os /\
    frac_exact (r_fnum w_frac) (r_fden w_frac) = 4294970000 /\ r_fnum o = 2704.
Proof. exact fraction_wrap_refuted. Qed.
Print Assumptions C45_fraction_exact_refuted.

(* Listener / HttpConnectionManager.http_filters (processHTTPFilters), client API listeners
   and server-side listeners: an accepted filter list is non-empty, its last retained filter
   is terminal (kind 1, router) and no other one is, retained names are distinct and
   non-empty, and every retained filter is registered and supported on that side. *)
Theorem C45_lds_filter_invariants : forall named server fs out, parse_lds named server fs = Some out ->
  named = true /\
  (exists init l, out = init ++ [l] /\ fst l = 1 /\ forall f, In f init -> fst f <> 1) /\
  NoDup (map snd out) /\
  (forall f, In f out -> flt_supported server (fst f) = true /\ snd f <> 0 /\
     exists o n0, In (fst f, o, n0) fs /\ snd f = u32 n0).
Proof. exact lds_invariants_readable. Qed.
Print Assumptions C45_lds_filter_invariants.

(* a filter list in which every entry is optional and has no registered implementation is
   rejected with an error (the model never indexes an empty list), whatever its length *)
Theorem C45_lds_all_skipped_rejected : forall server fs,
  Forall (fun f => flt_registered (fst (fst f)) = false /\ z2b (snd (fst f)) = true) fs ->
  forall named, parse_lds named server fs = None.
Proof. exact all_skipped_rejected. Qed.
Print Assumptions C45_lds_all_skipped_rejected.

(* The word stream used for requests and answers decodes back exactly (so the clauses
   below are evaluated on what the model answered). *)
Theorem C45_stream_roundtrip : forall qs, reqs_of (flat_map enc_req qs) = qs.
Proof. exact reqs_of_enc. Qed.
Print Assumptions C45_stream_roundtrip.

(* The executable predicate evaluated on implementation traces (all clauses except the two
   refuted ones, 61 and 91) holds on every model trace, for every configuration and every
   list of words. *)
Theorem C45_holds_on_every_model_trace : forall cfg ops,
  exists obs, run cfg ops = Some obs /\ holds_b cfg ops obs = true.
Proof. exact model_trace_holds. Qed.
Print Assumptions C45_holds_on_every_model_trace.

(* the two refuted clauses are false on the model's own trace of the witnesses *)
Theorem C45_finding_clauses_fail_on_model :
  (forall obs, run [1] (enc_req (RRds true [w_redirect])) = Some obs ->
     In (61, 0, false) (clauses [1] (enc_req (RRds true [w_redirect])) obs)) /\
  (forall obs, run [1] (enc_req (RRds true [w_frac])) = Some obs ->
     In (91, 0, false) (clauses [1] (enc_req (RRds true [w_frac])) obs)).
Proof. exact finding_clauses_fail_on_model. Qed.
Print Assumptions C45_finding_clauses_fail_on_model.

(* non-vacuity: a two-priority assignment with a dropped zero-weight locality and a
   dual-stack endpoint is accepted; a priority gap and a duplicate address are rejected;
   a weighted-cluster route with a zero weight entry is accepted with total 7. *)
Example C45_witness :
  parse_eds true (mk_cla true [(5, 2)]
     [mk_loc true 1 3 0 [mk_ep false 0 10 [11]; mk_ep true 4294967294 12 []];
      mk_loc true 2 0 7 [mk_ep false 0 10 []];
      mk_loc true 1 9 1 []])
  = Some (mk_cla true [(5, 1000000)]
     [mk_loc true 1 3 0 [mk_ep true 1 10 [11]; mk_ep true 4294967294 12 []];
      mk_loc true 1 9 1 []]) /\
  parse_eds true (mk_cla true [] [mk_loc true 1 1 0 []; mk_loc true 2 1 2 []]) = None /\
  parse_eds true (mk_cla true [] [mk_loc true 1 1 0 [mk_ep false 0 10 [10]]]) = None /\
  parse_rds true [mk_route 7 true 0 3 2 true 50 0 1 2 [1; 5] [3; 0; 4]]
  = Some [mk_route 7 true 0 3 2 true 500000 2 1 2 [1; 5] [3; 4]].
Proof. vm_compute. repeat split. Qed.
