(* C21: effective message size limits are the minimum of all configured limits.
   [getMaxSize] transcribes service_config.go; [client_limit sc dial call def] is what
   newClientStreamWithParams computes from the service-config value, the dial-time default
   call option and the per-call option; [exchange c] is one unary request/response between
   a client and a server configured by c (see model/MsgLimits.v); [payload_len cp n pat] is
   the size of the message on the wire (after compression when cp).
   Theorems only; each is closed by [exact] of a lemma from proof/MsgLimits_proofs.v. *)
From Coq Require Import List ZArith Bool.
From VLib Require Import Codec.
From VModel Require Import MsgLimits.
From VProof Require Import MsgLimits_proofs.
Import ListNotations.
Open Scope Z_scope.

(* "the smaller of the service-config limit and the dial/call option limit (or the default when
   neither is set)" *)
Theorem C21_min_rule_both : forall a b def, getMaxSize (Some a) (Some b) def = Z.min a b.
Proof. exact getMaxSize_both. Qed.
Print Assumptions C21_min_rule_both.
Theorem C21_min_rule_only_service_config : forall a def, getMaxSize (Some a) None def = a.
Proof. exact getMaxSize_mc. Qed.
Print Assumptions C21_min_rule_only_service_config.
Theorem C21_min_rule_only_option : forall b def, getMaxSize None (Some b) def = b.
Proof. exact getMaxSize_dopt. Qed.
Print Assumptions C21_min_rule_only_option.
Theorem C21_min_rule_default : forall def, getMaxSize None None def = def.
Proof. exact getMaxSize_none. Qed.
Print Assumptions C21_min_rule_default.

(* the client's limits for an RPC: min rule over the service config and THE option in force
   (the per-call option if given, else the dial-time default option), defaults MaxInt32 / 4 MiB;
   the server's limits are its options (defaults 4 MiB / MaxInt32) *)
Theorem C21_client_send_limit : forall c,
  eff_send c = spec_limit (sc_req c) (spec_opt (dial_send c) (call_send c)) 2147483647.
Proof. exact eff_send_spec. Qed.
Print Assumptions C21_client_send_limit.
Theorem C21_client_recv_limit : forall c,
  eff_recv c = spec_limit (sc_resp c) (spec_opt (dial_recv c) (call_recv c)) 4194304.
Proof. exact eff_recv_spec. Qed.
Print Assumptions C21_client_recv_limit.
Theorem C21_server_limits : forall c,
  eff_srv_recv c = match srv_recv c with Some v => v | None => 4194304 end /\
  eff_srv_send c = match srv_send c with Some v => v | None => 2147483647 end.
Proof. exact eff_srv_spec. Qed.
Print Assumptions C21_server_limits.
(* note: a per-call option replaces the dial-time option, it is not min-ed with it *)
Theorem C21_call_option_overrides_dial_option : forall sc dial c def,
  client_limit sc dial (Some c) def = getMaxSize sc (Some c) def.
Proof. exact call_option_overrides. Qed.
Print Assumptions C21_call_option_overrides_dial_option.

(* what "exceeds" means *)
Theorem C21_send_fails_iff : forall cp n pat lim,
  send_fails cp n pat lim = true <-> payload_len cp n pat > lim.
Proof. exact send_fails_iff. Qed.
Print Assumptions C21_send_fails_iff.
Theorem C21_recv_fails_iff : forall cp n pat lim,
  recv_fails cp n pat lim = true <-> payload_len cp n pat > lim \/ (cp = true /\ 0 < n /\ n > lim).
Proof. exact recv_fails_iff. Qed.
Print Assumptions C21_recv_fails_iff.

(* "A message whose encoded (post-compression) size exceeds the send limit is never transmitted
   and fails the RPC with RESOURCE_EXHAUSTED": client side ... *)
Theorem C21_client_send_guard : forall c, req_send_fails c = true ->
  code (exchange c) = 8 /\ srv_got (exchange c) = false /\ srv_recv_exh (exchange c) = false /\
  cli_got (exchange c) = false.
Proof. exact client_send_guard. Qed.
Print Assumptions C21_client_send_guard.
(* ... and server side *)
Theorem C21_server_send_guard : forall c, req_send_fails c = false -> req_recv_fails c = false ->
  resp_send_fails c = true ->
  code (exchange c) = 8 /\ srv_got (exchange c) = true /\ srv_sent (exchange c) = false /\
  srv_send_exh (exchange c) = true /\ cli_got (exchange c) = false.
Proof. exact server_send_guard. Qed.
Print Assumptions C21_server_send_guard.

(* "a received message whose wire or decompressed size exceeds the receive limit fails with
   RESOURCE_EXHAUSTED": at the server ... *)
Theorem C21_server_recv_guard : forall c, req_send_fails c = false -> req_recv_fails c = true ->
  code (exchange c) = 8 /\ srv_got (exchange c) = false /\ srv_recv_exh (exchange c) = true /\
  cli_got (exchange c) = false.
Proof. exact server_recv_guard. Qed.
Print Assumptions C21_server_recv_guard.
(* ... and at the client *)
Theorem C21_client_recv_guard : forall c, req_send_fails c = false -> req_recv_fails c = false ->
  resp_send_fails c = false -> resp_recv_fails c = true ->
  code (exchange c) = 8 /\ srv_got (exchange c) = true /\ srv_sent (exchange c) = true /\
  cli_got (exchange c) = false.
Proof. exact client_recv_guard. Qed.
Print Assumptions C21_client_recv_guard.

(* "messages within the limits are delivered intact" (and only those are delivered) *)
Theorem C21_within_limits_delivered : forall c, req_send_fails c = false -> req_recv_fails c = false ->
  resp_send_fails c = false -> resp_recv_fails c = false ->
  exchange c = mkout 0 true false true false true.
Proof. exact within_limits_delivered. Qed.
Print Assumptions C21_within_limits_delivered.
Theorem C21_status_ok_iff_within_limits : forall c, code (exchange c) = 0 <->
  req_send_fails c = false /\ req_recv_fails c = false /\ resp_send_fails c = false /\ resp_recv_fails c = false.
Proof. exact code_ok_iff. Qed.
Print Assumptions C21_status_ok_iff_within_limits.
Theorem C21_status_ok_or_resource_exhausted : forall c, code (exchange c) = 0 \/ code (exchange c) = 8.
Proof. exact code_cases. Qed.
Print Assumptions C21_status_ok_or_resource_exhausted.
Theorem C21_delivered_request_within_limits : forall c, srv_got (exchange c) = true ->
  payload_len (comp c) (n_req c) (pat_req c) <= eff_send c /\
  payload_len (comp c) (n_req c) (pat_req c) <= eff_srv_recv c /\
  (comp c = true -> 0 < n_req c -> n_req c <= eff_srv_recv c).
Proof. exact delivered_request_within_limits. Qed.
Print Assumptions C21_delivered_request_within_limits.
Theorem C21_delivered_response_within_limits : forall c, cli_got (exchange c) = true ->
  payload_len (comp c) (n_resp c) (pat_resp c) <= eff_srv_send c /\
  payload_len (comp c) (n_resp c) (pat_resp c) <= eff_recv c /\
  (comp c = true -> 0 < n_resp c -> n_resp c <= eff_recv c).
Proof. exact delivered_response_within_limits. Qed.
Print Assumptions C21_delivered_response_within_limits.

(* The executable predicate evaluated on implementation traces holds on every model trace. *)
Theorem C21_holds_on_every_model_trace : forall cfg ops, forallb op_wf ops = true ->
  exists obs, run cfg ops = Some obs /\ holds_b cfg ops obs = true.
Proof. exact model_trace_holds. Qed.
Print Assumptions C21_holds_on_every_model_trace.

(* non-vacuity: service config 30, dial option 40, call option 25 -> send limit 25; a run of
   1000 equal bytes compresses to 10 bytes and passes a send limit of 10 but not a server
   receive limit of 999 (decompressed size) *)
Example C21_witness :
  client_limit (Some 30) (Some 40) (Some 25) 2147483647 = 25 /\
  client_limit (Some 30) (Some 40) None 2147483647 = 30 /\
  client_limit None None None 4194304 = 4194304 /\
  code (exchange (mkcfg None None None None (Some 10) None (Some 1000) None true 1000 0 1 1)) = 0 /\
  srv_recv_exh (exchange (mkcfg None None None None (Some 10) None (Some 999) None true 1000 0 1 1)) = true /\
  code (exchange (mkcfg None None None None (Some 9) None None None true 1000 0 1 1)) = 8 /\
  forallb op_wf [[1; 1; 5; 1; 7; 9]; [2; 1;30; 0;0; 1;40; 0;0; 1;25; 0;0; 0;0; 0;0; 0; 26; 1; 3; 1; 1; 0]] = true.
Proof. vm_compute. repeat split. Qed.
