(* C56: DNS resolution is paced and targets are parsed correctly.
   Theorems only; each is closed by [exact] of a lemma from proof/DNS_proofs.v.
   The watcher goroutine is the machine [wstep]/[advance] over virtual time; phases:
   Looking td o (lookup in flight until td), WaitRN next (after a success, waiting for a
   ResolveNow), WaitTimer t (timer armed for t), Closed.  [tstep] is one call of
   Build / time passing / ResolveNow / Close followed by everything that is due. *)
From Coq Require Import List ZArith Bool.
From VLib Require Import Codec Machine.
From VModel Require Import DNS.
From VProof Require Import DNS_proofs.
Import ListNotations.
Open Scope Z_scope.

(* "After a successful resolution the DNS resolver performs no new lookup until a
   re-resolution request has arrived ...": a success with no buffered request puts the watcher
   in WaitRN, and from WaitRN no amount of time ever produces a lookup. *)
Theorem C56_success_then_no_lookup_without_request : forall c s td o target,
  s_ph s = Looking td o -> td <= target -> is_fail o = false -> s_rn s = false ->
  wstep c s target = Some (mks (s_now s) (WaitRN (td + c_min c)) false 1 (s_n s), result_ev td o) /\
  forall fuel s' far, s_ph s' = WaitRN (td + c_min c) ->
    advance c (S fuel) s' far = Some (set_now s' far, []).
Proof.
  intros c s td o target Hp Ht Hf Hr. split; [exact (success_waits c s td o target Hp Ht Hf Hr)|].
  intros fuel s' far H. exact (waitrn_never_looks_up c fuel s' _ far H).
Qed.
Print Assumptions C56_success_then_no_lookup_without_request.

(* "... and at least the minimum resolution interval has passed": ResolveNow in WaitRN next
   (next = success time + MinResolutionInterval) arms the timer for max(next, now), and an
   armed timer produces its lookup exactly at its time, nothing earlier. *)
Theorem C56_request_waits_for_min_interval : forall c s next,
  s_ph s = WaitRN next ->
  tstep c s OResolveNow =
    advance c (fuel_of 0) (set_ph s (WaitTimer (Z.max next (s_now s)))) (s_now s).
Proof. exact resolve_now_arms. Qed.
Print Assumptions C56_request_waits_for_min_interval.

Theorem C56_timer_fires_exactly : forall c s t target, s_ph s = WaitTimer t ->
  (t <= target -> exists s', wstep c s target = Some (s', EvLookup t)) /\
  (target < t -> wstep c s target = None).
Proof. exact timer_fires_exactly. Qed.
Print Assumptions C56_timer_fires_exactly.

(* "after failures it retries with exponential backoff": a failed lookup (also: the
   ClientConn rejected the update, or the lookup hit ResolvingTimeout) arms the timer
   Backoff(backoffIndex) later and increments the index; a success resets the index to 1;
   Backoff(k) = min(BaseDelay * 2^k, MaxDelay)  (Multiplier 2, no jitter: see C20). *)
Theorem C56_failure_backs_off : forall c s td o target,
  s_ph s = Looking td o -> td <= target -> is_fail o = true ->
  wstep c s target =
  Some (mks (s_now s) (WaitTimer (Z.max (td + bo c (s_bidx s)) td)) (s_rn s) (s_bidx s + 1) (s_n s),
        result_ev td o).
Proof. exact failure_backs_off. Qed.
Print Assumptions C56_failure_backs_off.

Theorem C56_backoff_is_exponential : forall c k, 0 < c_base c -> c_base c <= c_max c -> 0 <= k ->
  bo c k = Z.min (c_base c * 2 ^ k) (c_max c).
Proof. exact bo_exponential. Qed.
Print Assumptions C56_backoff_is_exponential.

Theorem C56_success_resets_backoff : forall c s td o target s' e,
  s_ph s = Looking td o -> is_fail o = false -> wstep c s target = Some (s', e) -> s_bidx s' = 1.
Proof. exact success_resets_backoff. Qed.
Print Assumptions C56_success_resets_backoff.

(* "it stops all lookups when closed": Close leads to Closed, and in Closed every operation
   (time passing, ResolveNow, Build, Close) produces no event and stays Closed. *)
Theorem C56_close_stops_everything : forall c s, s_ph s <> Idle ->
  (exists s' es, tstep c s OClose = Some (s', es) /\ s_ph s' = Closed) /\
  forall s1 o, s_ph s1 = Closed -> exists s2, tstep c s1 o = Some (s2, []) /\ s_ph s2 = Closed.
Proof. intros c s H. split; [exact (close_closes c s H) | intros s1 o H1; exact (closed_is_final c s1 o H1)]. Qed.
Print Assumptions C56_close_stops_everything.

(* All timelines: for every configuration with BaseDelay > 0, every list of Build / sleep /
   ResolveNow / Close operations of any length and every lookup script, the monitor that is
   evaluated on implementation traces accepts the model's trace (clauses 1-4: minimum
   interval, a request exists, exact back-off, nothing after Close).  Out-of-fuel runs
   ([run] = None) are excluded by the hypothesis; clause 6 is excluded (next theorem). *)
Theorem C56_holds_on_every_model_trace : forall cfg ops obs,
  cfg_wf cfg = true -> forallb op_wf ops = true ->
  run cfg ops = Some obs -> holds_core cfg ops obs = true.
Proof. exact model_trace_holds. Qed.
Print Assumptions C56_holds_on_every_model_trace.

(* REFUTED (strict reading, known finding, clause 6): a ResolveNow that arrived during the
   back-off wait stays buffered in d.rn; the retry at 2000 succeeds, and with no request
   after (or during) that successful lookup there is another lookup at 32000. (ms here) *)
Theorem C56_stale_request_refuted :
  run stale_cfg stale_ops =
    Some [[0; 1; 0; 0; 3; 0; 0]; [500]; [500]; [2000; 1; 2000; 0; 2; 2000; 1]; [32000; 1; 32000; 0; 2; 32000; 1]] /\
  (exists obs, run stale_cfg stale_ops = Some obs /\
     first_fail (clauses stale_cfg stale_ops obs) = Some (6, 32000)).
Proof. exact stale_request_refuted. Qed.
Print Assumptions C56_stale_request_refuted.

(* ---- target parsing; ipk = netip.ParseAddr verdict (external), "443" the default port.
   plain l = no ':' '[' ']' in l; free c l = no c in l. *)

(* IPv4 literals and bare IPv6 literals: kept whole, default port *)
Theorem C56_parse_ip_literal : forall ipk t dflt, t <> [] -> ipk t <> 0 ->
  parse_target ipk t dflt = inr (t, dflt).
Proof. exact parse_ip_literal. Qed.
Print Assumptions C56_parse_ip_literal.

(* host -> (host, default port) *)
Theorem C56_parse_host_only : forall ipk h, plain h -> h <> [] -> ipk h = 0 ->
  parse_target ipk h s_443 = inr (h, s_443).
Proof. exact parse_host_only. Qed.
Print Assumptions C56_parse_host_only.

(* host:port -> (host, port); ":port" -> (localhost, port) *)
Theorem C56_parse_host_port : forall ipk h p, plain h -> plain p -> p <> [] ->
  ipk (h ++ ch_colon :: p) = 0 ->
  parse_target ipk (h ++ ch_colon :: p) s_443 = inr (match h with [] => s_localhost | _ => h end, p).
Proof. exact parse_host_port. Qed.
Print Assumptions C56_parse_host_port.

(* [ipv6]:port -> (ipv6, port) and [ipv6] -> (ipv6, default port): brackets stripped *)
Theorem C56_parse_bracketed : forall ipk h,
  free ch_lbr h -> free ch_rbr h ->
  (forall p, h <> [] -> plain p -> p <> [] -> ipk (ch_lbr :: h ++ ch_rbr :: ch_colon :: p) = 0 ->
     parse_target ipk (ch_lbr :: h ++ ch_rbr :: ch_colon :: p) s_443 = inr (h, p)) /\
  (ipk (ch_lbr :: h ++ [ch_rbr]) = 0 ->
     parse_target ipk (ch_lbr :: h ++ [ch_rbr]) s_443 = inr (h, s_443)).
Proof.
  intros ipk h H2 H3. split.
  - intros p Hne Hp Hpne Hk. exact (parse_bracket_port ipk h p H2 H3 Hne Hp Hpne Hk).
  - exact (parse_bracket_only ipk h H2 H3).
Qed.
Print Assumptions C56_parse_bracketed.

(* "rejects a trailing colon": every target x ++ ":" that is not an IP literal is an error,
   for every x whatsoever; the empty target is an error *)
Theorem C56_trailing_colon_rejected : forall ipk x, ipk (x ++ [ch_colon]) = 0 ->
  exists e, parse_target ipk (x ++ [ch_colon]) s_443 = inl e.
Proof. exact trailing_colon_rejected. Qed.
Print Assumptions C56_trailing_colon_rejected.

Theorem C56_parse_empty : forall ipk dflt, parse_target ipk [] dflt = inl EMissing.
Proof. exact parse_empty. Qed.
Print Assumptions C56_parse_empty.

(* "resolved addresses are emitted as host:port with IPv6 bracketed" *)
Theorem C56_emitted_addresses : forall a p,
  emit_addr 4 a p = Some (a ++ ch_colon :: p) /\
  emit_addr 6 a p = Some (ch_lbr :: a ++ ch_rbr :: ch_colon :: p) /\
  forall k, k <> 4 -> k <> 6 -> emit_addr k a p = None.
Proof.
  intros a p. split; [apply emit_addr_v4|]. split; [apply emit_addr_v6|].
  intros k H4 H6. exact (emit_addr_none k a p H4 H6).
Qed.
Print Assumptions C56_emitted_addresses.

(* non-vacuity: 30 s interval, back-off 1 s .. 120 s; fail, fail, success; request; lookup at
   exactly success + 30 s; Close (times in ms) *)
Example C56_witness :
  cfg_wf [30000; 1000; 120000; 30000; 2; 1; 0; 0; 1; 0; 0] = true /\
  forallb op_wf [[0]; [1; 2000]; [1; 4000]; [2]; [1; 29999]; [1; 1]; [3]; [1; 99999]] = true /\
  run [30000; 1000; 120000; 30000; 2; 1; 0; 0; 1; 0; 0]
      [[0]; [1; 2000]; [1; 4000]; [2]; [1; 29999]; [1; 1]; [3]; [1; 99999]] =
  Some [[0; 1; 0; 0; 3; 0; 0]; [2000; 1; 2000; 0; 3; 2000; 0]; [6000; 1; 6000; 0; 2; 6000; 1]; [6000];
        [35999]; [36000; 1; 36000; 0; 2; 36000; 1]; [36000]; [135999]] /\
  parse_target (fun _ => 0) [91; 58; 58; 49; 93; 58; 56; 48] s_443 = inr ([58; 58; 49], [56; 48]).
Proof. vm_compute. repeat split. Qed.
