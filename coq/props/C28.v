(* C28: the metadata API behaves as a case-insensitive ordered multimap.
   Theorems only; each is closed by [exact] of a lemma from proof/MDApi_proofs.v.
   A Go map is an association list with distinct keys in ranging order; strings are
   byte lists and [lower] is ASCII lowercasing (keys are ASCII). *)
From Coq Require Import List ZArith Bool Permutation.
From VLib Require Import Codec.
From VModel Require Import MDApi.
From VProof Require Import MDApi_proofs.
Import ListNotations.
Open Scope Z_scope.

(* "For any sequence of NewOutgoingContext and AppendToOutgoingContext calls,
   FromOutgoingContext returns the multimap of all pairs with keys lowercased and, per
   key, the base values followed by appended values in call order": after
   NewOutgoingContext(md) and any list [calls] of AppendToOutgoingContext argument
   lists (mixed-case keys), provided no two keys of md differ only in case, the result
   is exactly [spec_md md calls]; looking up any k gives the base values of k followed
   by the appended values of k in call order. *)
Theorem C28_from_outgoing : forall md calls, NoDup (map lower (keys md)) ->
  exists added,
    fold_left append_out calls (Some (md, [])) = Some (md, added) /\
    from_out md added = spec_md md calls /\
    forall k, getd k (from_out md added) = mm_lookup k md calls.
Proof. exact from_outgoing_history. Qed.
Print Assumptions C28_from_outgoing.

(* ... whatever order the Go runtime ranges over md in. *)
Theorem C28_from_outgoing_any_map_order : forall md md' added,
  Permutation md md' -> NoDup (map lower (keys md)) ->
  forall k, get k (from_out md added) = get k (from_out md' added).
Proof. exact from_outgoing_any_order. Qed.
Print Assumptions C28_from_outgoing_any_map_order.

(* "ValueFromOutgoingContext and ValueFromIncomingContext agree with the corresponding
   full lookups" *)
Theorem C28_value_from_outgoing_agrees : forall key md added, NoDup (map lower (keys md)) ->
  value_out key md added = getd (lower key) (from_out md added).
Proof. exact value_from_outgoing_agrees. Qed.
Print Assumptions C28_value_from_outgoing_agrees.

Theorem C28_value_from_incoming_agrees : forall key md, NoDup (map lower (keys md)) ->
  value_in key md = getd (lower key) (from_in md).
Proof. exact value_from_incoming_agrees. Qed.
Print Assumptions C28_value_from_incoming_agrees.

(* "MD's Get/Set/Append/Delete are case-insensitive in the key": they depend on the key
   only through its lowercase form ... *)
Theorem C28_md_ops_case_insensitive : forall k k', lower k = lower k' ->
  (forall m, md_get k m = md_get k' m) /\
  (forall vs m, md_set k vs m = md_set k' vs m) /\
  (forall vs m, md_append k vs m = md_append k' vs m) /\
  (forall m, md_delete k m = md_delete k' m).
Proof. exact md_case_insensitive. Qed.
Print Assumptions C28_md_ops_case_insensitive.

(* ... and behave as a map keyed by it: what Get returns after Set / Append / Delete
   under any case variant of the key, and that other keys are untouched. *)
Theorem C28_md_ops_map_laws : forall k k' vs m,
  (lower k = lower k' -> vs <> [] -> md_get k' (md_set k vs m) = vs) /\
  (lower k <> lower k' -> md_get k' (md_set k vs m) = md_get k' m) /\
  (lower k = lower k' -> md_get k' (md_append k vs m) = md_get k' m ++ vs) /\
  (lower k <> lower k' -> md_get k' (md_append k vs m) = md_get k' m) /\
  (lower k = lower k' -> md_get k' (md_delete k m) = []) /\
  (lower k <> lower k' -> md_get k' (md_delete k m) = md_get k' m).
Proof.
  intros k k' vs m. repeat split.
  - exact (md_get_set_same k k' vs m).
  - exact (md_get_set_other k k' vs m).
  - exact (md_get_append_same k k' vs m).
  - exact (md_get_append_other k k' vs m).
  - exact (md_get_delete_same k k' m).
  - exact (md_get_delete_other k k' m).
Qed.
Print Assumptions C28_md_ops_map_laws.

(* keys stored by Pairs and the methods are lowercase *)
Theorem C28_md_keys_lowercase : forall k vs m kv, all_lower (pairs kv) /\
  (all_lower m -> all_lower (md_set k vs m) /\ all_lower (md_append k vs m) /\ all_lower (md_delete k m)).
Proof. intros k vs m kv. split; [exact (all_lower_pairs kv) | exact (all_lower_methods k vs m)]. Qed.
Print Assumptions C28_md_keys_lowercase.

(* "Join concatenates values in argument order" *)
Theorem C28_join_argument_order : forall mds k, Forall (fun m => NoDup (keys m)) mds ->
  getd k (join mds) = concat (map (getd k) mds).
Proof. exact join_lookup. Qed.
Print Assumptions C28_join_argument_order.

(* "Copy ... return copies": as a value Copy is the identity (independence of the copy
   from the original is a heap property: clause 5, checked on the implementation). *)
Theorem C28_copy_same_content : forall m, NoDup (keys m) -> md_copy m = m.
Proof. exact md_copy_id. Qed.
Print Assumptions C28_copy_same_content.

(* The hypothesis of C28_from_outgoing cannot be dropped: for the Go map
   MD{"K":["1"],"k":["2"]} the two ranging orders give different results, neither is the
   multimap of all pairs, and the ValueFromX functions return a single entry. *)
Theorem C28_colliding_keys_refuted :
  NoDup (keys collK) /\ Permutation collK collK' /\
  get [107] (from_out collK []) = Some [[50]] /\
  get [107] (from_out collK' []) = Some [[49]] /\
  mm_lookup [107] collK [] = [[49]; [50]] /\
  value_out [107] collK [] = [[50]] /\ value_out [75] collK [] = [[50]] /\
  value_in [75] collK = [[49]] /\ value_in [107] collK = [[50]].
Proof. exact colliding_keys_refuted. Qed.
Print Assumptions C28_colliding_keys_refuted.

(* The executable predicate evaluated on implementation traces holds on every trace of
   the model, for every list of well-formed operations (contexts built from MDs without
   case-colliding keys; Join arguments are Go maps). *)
Theorem C28_holds_on_every_model_trace : forall ops, forallb op_wf ops = true ->
  exists obs, run ops = Some obs /\ holds_b ops obs = true.
Proof. exact model_trace_holds. Qed.
Print Assumptions C28_holds_on_every_model_trace.

(* non-vacuity: NewOutgoingContext(MD{"Ab":["1"]}); AppendToOutgoingContext("AB","2","c","3");
   FromOutgoingContext; ValueFromOutgoingContext("aB") *)
Example C28_witness :
  forallb op_wf [[1; 1; 2;65;98; 1; 1;49]; [2; 2; 2;65;66; 1;50; 1;99; 1;51]; [3]; [4; 2;97;66]] = true /\
  run [[1; 1; 2;65;98; 1; 1;49]; [2; 2; 2;65;66; 1;50; 1;99; 1;51]; [3]; [4; 2;97;66]] =
    Some [[]; []; [1;0;1; 2; 2;97;98; 2; 1;49; 1;50; 1;99; 1; 1;51]; [2; 1;49; 1;50]].
Proof. vm_compute. split; reflexivity. Qed.
