(* C14: GOAWAY and graceful drain never lose or double-run accepted work.
   Theorems only; each is closed by [exact] of a lemma from proof/GoAway_proofs.v.
   Client side: the reader machine of model/ClientFrames.v (CF.) plus GracefulClose (cstep);
   server side: the drain machine of model/GoAway.v (with responses that wait for flow-control
   window).  Races between NewStream and GOAWAY inside the Go runtime are sampled by
   the driver; the theorems cover every order of the atomic steps (any op list). *)
From Coq Require Import List ZArith Bool.
From VLib Require Import Codec Machine.
From VModel Require ClientFrames.
From VModel Require Import GoAway.
From VProof Require Import GoAway_proofs.
Import ListNotations.
Open Scope Z_scope.

(* "After a client receives GOAWAY(N) it opens no new stream on that connection": once a GOAWAY
   has been accepted (id 0 or odd, not above a previous GOAWAY's id) the transport never becomes
   reachable again, for any continuation, and every NewStream is refused. *)
Theorem C14_no_new_after_goaway : forall c id code ops,
  ginv c -> CF.k_mode c <> 2 -> accepted_goaway c id = true ->
  let c' := fst (cstep c (CO (CF.OGoAway id code))) in
  CF.k_goaway c' = true /\ CF.k_mode (creach c' ops) <> 0.
Proof. exact no_new_after_goaway. Qed.
Print Assumptions C14_no_new_after_goaway.

Theorem C14_new_stream_refused : forall c dl, ginv c -> CF.k_goaway c = true ->
  forall e, In e (snd (cstep c (CO (CF.ONew dl)))) -> CF.tag e = 0 -> CF.esid e = -1.
Proof. exact no_new_stream_after_goaway. Qed.
Print Assumptions C14_new_stream_refused.

(* the same for every transport that is not reachable, e.g. draining after a local GracefulClose
   (there NewStream waits instead of failing: -2) or closed: no stream is created *)
Theorem C14_no_new_stream_unless_reachable : forall c dl, CF.k_mode c <> 0 ->
  forall e, In e (snd (cstep c (CO (CF.ONew dl)))) -> CF.tag e = 0 -> CF.esid e < 0.
Proof. exact no_new_stream_unless_reachable. Qed.
Print Assumptions C14_no_new_stream_unless_reachable.

Theorem C14_no_new_after_graceful : forall c ops, ginv c ->
  CF.k_mode (creach (fst (cstep c CGraceful)) ops) <> 0.
Proof. exact no_new_after_graceful. Qed.
Print Assumptions C14_no_new_after_graceful.

(* "streams with id <= N are not failed by the GOAWAY": every stream an accepted GOAWAY(N)
   terminates has id > N (and ends Unavailable, unprocessed). *)
Theorem C14_le_N_untouched : forall c id code e, accepted_goaway c id = true ->
  In e (snd (CF.exec_op c (CF.OGoAway id code))) -> CF.tag e = 1 ->
  id < CF.esid e /\ CF.ecode e = 14 /\ snd e = 1.
Proof. exact goaway_le_N_untouched. Qed.
Print Assumptions C14_le_N_untouched.

(* "streams with id > N fail as unprocessed": every active stream with N < id (<= the previous
   GOAWAY's id, if any) is terminated by the handler with Unavailable and Unprocessed = true. *)
Theorem C14_gt_N_unprocessed : forall c id code s,
  accepted_goaway c id = true ->
  In s (CF.k_streams c) -> CF.active s = true -> id < CF.x_id s -> CF.x_id s <= upper c ->
  In (1, CF.x_id s, 14, 1) (snd (CF.exec_op c (CF.OGoAway id code))).
Proof. exact goaway_gt_N_unprocessed. Qed.
Print Assumptions C14_gt_N_unprocessed.

(* "a later GOAWAY with a larger id is a connection error": the transport is closed (mode 2, the
   peer sees the connection close), no stream stays active, and every stream that was active
   ends Unavailable with its Unprocessed flag unchanged. *)
Theorem C14_second_larger_is_error : forall c id code, CF.k_goaway c = true -> CF.k_prev c < id ->
  CF.exec_op c (CF.OGoAway id code) = CF.close_conn c /\
  CF.k_mode (fst (CF.close_conn c)) = 2 /\ CF.any_active (fst (CF.close_conn c)) = false /\
  In (8, 0, 0, 0) (snd (CF.close_conn c)) /\
  forall s, In s (CF.k_streams c) -> CF.active s = true ->
            In (1, CF.x_id s, 14, b2z (CF.x_unproc s)) (snd (CF.close_conn c)).
Proof. exact second_larger_is_error. Qed.
Print Assumptions C14_second_larger_is_error.

(* "later" does not depend on the state in which the first GOAWAY found the transport: every
   accepted GOAWAY is recorded (t.goAway closed, prevGoAwayID = its id), also when the transport
   was already draining because of a local GracefulClose ... *)
Theorem C14_goaway_recorded : forall c id code, CF.k_mode c <> 2 -> accepted_goaway c id = true ->
  let c' := fst (CF.step c (CF.OGoAway id code)) in
  CF.k_goaway c' = true /\ CF.k_prev c' = id.
Proof. exact goaway_recorded. Qed.
Print Assumptions C14_goaway_recorded.

(* GracefulClose with streams in flight: draining, no stream failed, no GOAWAY recorded *)
Theorem C14_graceful_spec : forall c, ginv c -> CF.k_mode c = 0 -> CF.any_active c = true ->
  let r := cstep c CGraceful in
  CF.k_mode (fst r) = 1 /\ CF.k_goaway (fst r) = false /\ CF.k_prev (fst r) = CF.k_prev c /\
  CF.k_streams (fst r) = CF.k_streams c /\ snd r = [].
Proof. exact graceful_spec. Qed.
Print Assumptions C14_graceful_spec.

(* ... so: streams in flight, GracefulClose, GOAWAY(id), GOAWAY(id2 > id) is the connection error *)
Theorem C14_larger_after_graceful_is_error : forall c id code id2 code2,
  ginv c -> CF.k_mode c = 0 -> CF.any_active c = true -> goaway_even id = false -> id < id2 ->
  let c1 := fst (cstep c CGraceful) in
  let c2 := fst (cstep c1 (CO (CF.OGoAway id code))) in
  CF.k_goaway c2 = true /\ CF.k_prev c2 = id /\
  CF.exec_op c2 (CF.OGoAway id2 code2) = CF.close_conn c2.
Proof. exact larger_after_graceful_is_error. Qed.
Print Assumptions C14_larger_after_graceful_is_error.

(* a GOAWAY with a non-zero even last-stream-id is the same connection error *)
Theorem C14_even_goaway_is_error : forall c id code, 0 < id -> Z.even id = true ->
  CF.exec_op c (CF.OGoAway id code) = CF.close_conn c.
Proof. exact even_goaway_is_error. Qed.
Print Assumptions C14_even_goaway_is_error.

(* every GOAWAY is either accepted or that connection error *)
Theorem C14_bogus_goaway_is_conn_error : forall c id code,
  accepted_goaway c id = false -> CF.exec_op c (CF.OGoAway id code) = CF.close_conn c.
Proof. exact bogus_goaway_is_conn_error. Qed.
Print Assumptions C14_bogus_goaway_is_conn_error.

(* Server: the final GOAWAY carries maxStreamID, which bounds every active (accepted) stream;
   the transport is not reachable afterwards. *)
Theorem C14_server_final_id : forall g, sinv g ->
  snd (final_goaway g) = [] \/
  (snd (final_goaway g) = [7; g_max g; 0; 0] /\
   Forall (fun e => fst e <= g_max g) (g_active g) /\ g_reach (fst (final_goaway g)) = false /\
   g_active (fst (final_goaway g)) = g_active g).
Proof. exact server_final_id. Qed.
Print Assumptions C14_server_final_id.

(* "accepts no stream above it": once draining, no step invokes a handler or adds a stream. *)
Theorem C14_server_accepts_none_after_final : forall maxs g o, g_reach g = false ->
  let g' := fst (sstep maxs g o) in
  g_reach g' = false /\ g_handled g' = g_handled g /\
  (forall x, In x (map fst (g_active g')) -> In x (map fst (g_active g))).
Proof. exact no_accept_after_final. Qed.
Print Assumptions C14_server_accepts_none_after_final.

(* "serves every stream up to that id to completion": Drain, PING acks, timers and other streams
   never remove an accepted stream (or change its state); only its own completion or the client's
   RST_STREAM does ... *)
Theorem C14_server_serves_all : forall maxs g o sid s, sinv g ->
  In (sid, s) (g_active g) -> o <> SRst sid -> o <> SFinish sid ->
  (forall n, o <> SWriteFinish sid n) -> (forall inc, o <> SWindow sid inc) ->
  In (sid, s) (g_active (fst (sstep maxs g o))).
Proof. exact server_serves_all. Qed.
Print Assumptions C14_server_serves_all.

(* ... and completion means: the step in which an accepted stream leaves t.activeStreams (other
   than by the client's RST_STREAM) writes its END_STREAM trailers with the grpc-status - also for a
   stream whose handler returned earlier while the response was waiting for window, also while
   draining *)
Theorem C14_server_leaves_only_completed : forall maxs g o sid s, sinv g ->
  In (sid, s) (g_active g) -> o <> SRst sid ->
  let r := sstep maxs g o in
  In sid (map fst (g_active (fst r))) \/ has_trailers (length (snd r)) sid (snd r) = true.
Proof. exact server_leaves_only_completed. Qed.
Print Assumptions C14_server_leaves_only_completed.

(* ... and the connection is closed only when t.activeStreams is empty *)
Theorem C14_server_close_only_when_idle : forall maxs g o, sinv g -> g_closed g = false ->
  g_closed (fst (sstep maxs g o)) = true -> g_active g = [].
Proof. exact server_close_only_when_idle. Qed.
Print Assumptions C14_server_close_only_when_idle.

(* the invariant used above holds in every reachable state of the drain machine *)
Theorem C14_server_invariant : forall maxs g o, sinv g -> legal g o -> sinv (fst (sstep maxs g o)).
Proof. exact sinv_step. Qed.
Print Assumptions C14_server_invariant.

(* "a final GOAWAY whose id is the highest stream id it accepted" is FALSE literally: with
   MaxConcurrentStreams = 1, stream 1 accepted and stream 3 refused (REFUSED_STREAM), the final
   GOAWAY names 3. *)
Theorem C14_final_id_refuted :
  srun 1 g0 [SHeaders 1 false; SHeaders 3 false; SDrain; SAck] =
  [ [1; 1; 1] ++ handler_event 1 false; [1; 1; 3; 3; 3; 7; 0];
    [1; 1; 3; 7; 2147483647; 0; 0; 6; 0; 0; 0]; [1; 1; 3; 7; 3; 0; 0] ].
Proof. exact final_id_refuted. Qed.
Print Assumptions C14_final_id_refuted.

(* The predicate evaluated on implementation traces (all clauses except the literal reading 8
   refuted above) holds on every trace of the model. *)
Theorem C14_holds_on_every_model_trace : forall cfg ops, wf cfg ops = true ->
  exists obs, run cfg ops = Some obs /\ holds_b cfg ops obs = true.
Proof. exact model_trace_holds. Qed.
Print Assumptions C14_holds_on_every_model_trace.

(* non-vacuity: a server drain with one stream: heads-up GOAWAY + PING, ack, final GOAWAY(1),
   completion of the stream, connection closed one second later *)
Example C14_witness :
  run [1; 100] [[1; 1; 0]; [7]; [8]; [1; 3; 0]; [3; 1]; [12; 1000]] =
  Some [[1; 1; 1] ++ handler_event 1 false; [1; 1; 1; 7; 2147483647; 0; 0; 6; 0; 0; 0]; [1; 1; 1; 7; 1; 0; 0];
        [1; 1; 3]; [0; 1; 3; 1; 1; 200; 0; 3; 1; 0; 0]; [0; 1; 3; 8; 0; 0; 0]].
Proof. vm_compute. reflexivity. Qed.

(* zero stream window: the handler of stream 1 writes 15 bytes and returns; Drain, ack, final
   GOAWAY(1); the connection stays (2 s); 14 bytes of window are not enough, one more byte lets the
   response and the status out; the connection is closed one second later *)
Example C14_witness_blocked_response :
  run [1; 100; 1] [[1; 1; 0]; [9; 1; 10]; [7]; [8]; [12; 2000]; [10; 1; 14]; [10; 1; 1]; [12; 999]; [12; 1]] =
  Some [[1; 1; 1] ++ handler_event 1 false; [1; 1; 1; 1; 1; 1200; -1]; [1; 1; 1; 7; 2147483647; 0; 0; 6; 0; 0; 0];
        [1; 1; 1; 7; 1; 0; 0]; [1; 1; 1]; [1; 1; 1]; [0; 1; 1; 1; 1; -1; 0; 3; 1; 0; 0]; [0; 1; 1]; [0; 1; 1; 8; 0; 0; 0]].
Proof. vm_compute. reflexivity. Qed.

(* two streams, GracefulClose, (NewStream waits), GOAWAY(1), GOAWAY(3): connection error *)
Example C14_witness_larger_after_graceful :
  run [0] [[1; 0]; [1; 0]; [30]; [1; 0]; [7; 1; 0]; [7; 3; 0]] =
  Some [[0; 1; 0; 0]; [0; 3; 0; 0]; []; [0; -2; 0; 0]; [1; 3; 14; 1]; [1; 1; 14; 0; 8; 0; 0; 0]; []].
Proof. exact larger_after_graceful_witness. Qed.

(* two streams, GOAWAY(1), GOAWAY(3): the second one closes the connection, stream 1 ends Unavailable *)
Example C14_witness_second_larger :
  CF.run [] [[1; 0]; [1; 0]; [7; 1; 0]; [7; 3; 0]] =
  Some [[0; 1; 0; 0]; [0; 3; 0; 0]; [1; 3; 14; 1]; [1; 1; 14; 0; 8; 0; 0; 0]; []].
Proof. exact second_larger_witness. Qed.
