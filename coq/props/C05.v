(* C05: received stream bytes are delivered in order, once, then the end/error.
   Theorems only; each is closed by [exact] of a lemma from proof/RecvBuf_proofs.v.

   Vocabulary.  [runk c init_state ks = (outs, s)]: the operation list [ks] (puts of arbitrary
   byte strings, a put of an error/EOF, Read(n), ReadMessageHeader(n), and the two halves of a
   read - channel receive / readAdditional - between which puts may be interleaved), executed
   by the model of recvBuffer + recvBufferReader under configuration [c] (compaction on/off,
   threshold, recvMsgSize - all arbitrary), produces the outputs [outs] and the state [s].
   [accepted_of ks] = the bytes put before the first error put; [delivered_of outs] = the bytes
   returned by reads; [pending s] = r.last ++ payloads of (message in flight, channel, backlog). *)
From Coq Require Import List ZArith Bool.
From VLib Require Import Codec Machine.
From VModel Require Import RecvBuf.
From VProof Require Import RecvBuf_proofs.
Import ListNotations.
Open Scope Z_scope.

(* "The bytes an application reads are exactly the DATA payload bytes received, in order, none
   lost or duplicated": at every moment delivered ++ still-queued = accepted, for every
   interleaving of puts with reads of arbitrary sizes and every configuration. *)
Theorem C05_fifo : forall c ks outs s,
  forallb opk_valid ks = true -> runk c init_state ks = (outs, s) ->
  delivered_of outs ++ pending s = accepted_of ks.
Proof. exact fifo_history. Qed.
Print Assumptions C05_fifo.

(* ... and exactly everything once nothing is queued any more. *)
Theorem C05_exact_at_quiescence : forall c ks outs s,
  forallb opk_valid ks = true -> runk c init_state ks = (outs, s) ->
  last s = None -> queue s = [] -> delivered_of outs = accepted_of ks.
Proof. exact quiescent_exact. Qed.
Print Assumptions C05_exact_at_quiescence.

(* A reader blocks (nothing in r.last, channel empty) only when nothing at all is queued and
   no error is outstanding: no byte and no end-of-stream can be stranded in the backlog. *)
Theorem C05_blocks_only_when_empty : forall c s,
  reach c s -> rerr s = 0 -> last s = None -> pend s = None -> ch s = None ->
  pending s = [] /\ berr s = false.
Proof. exact blocks_only_when_empty. Qed.
Print Assumptions C05_blocks_only_when_empty.

(* "including when many small frames are merged by receive-buffer compaction": compaction does
   not change the queued bytes, and the suffix ledger (uncompactedSuffixLen/uncompactedBytes)
   is exact in every reachable state, so that load's conditional decrement is right. *)
Theorem C05_compaction_transparent : forall c bl sfx ub b bl' sfx' ub',
  J4 c bl sfx ub -> compact c (MData b) (bl ++ [MData b]) sfx ub = (bl', sfx', ub') ->
  qbytes bl' = qbytes (bl ++ [MData b]) /\ J4 c bl' sfx' ub'.
Proof. exact compaction_transparent. Qed.
Print Assumptions C05_compaction_transparent.

Theorem C05_suffix_ledger_exact : forall c s, reach c s ->
  (en c = false -> sfx s = 0 /\ ub s = 0) /\
  exists pre suf, bl s = pre ++ suf /\ sfx s = Z.of_nat (length suf) /\
                  forallb is_data suf = true /\ ub s = len (qbytes suf).
Proof. exact ledger_exact. Qed.
Print Assumptions C05_suffix_ledger_exact.

(* "End-of-stream or an error is reported only after all data that arrived before it": when a
   read returns the error, everything accepted has been delivered and nothing is queued ... *)
Theorem C05_error_last : forall c s k n e s',
  reach c s -> is_read k = Some n -> 0 <= n -> stepk c s k = (OErr e, s') ->
  dlv s = acc s /\ pending s = [] /\ rerr s' <> 0.
Proof. exact err_last. Qed.
Print Assumptions C05_error_last.

(* "... and nothing is delivered after it": once the reader has reported an error no
   operation returns data, and the error stays. (Puts after the error put are dropped:
   [accepted_of] stops at the first error put, see C05_fifo.) *)
Theorem C05_nothing_after_error : forall c s k o s',
  reach c s -> rerr s <> 0 -> stepk c s k = (o, s') ->
  (forall x, o <> OData x) /\ rerr s' = rerr s.
Proof. exact after_error. Qed.
Print Assumptions C05_nothing_after_error.

(* The executable predicate that is evaluated on implementation traces holds on every trace
   of the model, for every decodable operation list and configuration. *)
Theorem C05_holds_on_every_model_trace : forall cfg ops, wf cfg ops = true ->
  exists obs, run cfg ops = Some obs /\ holds_b cfg ops obs = true.
Proof. exact model_trace_holds. Qed.
Print Assumptions C05_holds_on_every_model_trace.

(* non-vacuity: 6 one-byte frames with threshold 3*57 (two compactions), a put inside the
   receive window, partial reads, EOF, a dropped put, reads up to and after the EOF *)
Example C05_witness :
  wf [1; 171; 56] [[1;1];[1;1];[1;1];[1;1];[1;1];[1;1];[5];[1;3];[6;0];[3;2];[4;5];[2;1];[1;9];
                   [3;100];[3;100];[3;100];[3;100];[3;1]] = true /\
  option_map (map (firstn 2)) (run [1; 171; 56] [[1;1];[1;1];[1;1];[1;1];[1;1];[5];[1;3];[6;0];[3;9];[3;9];[2;1];[3;9];[3;9]]) =
  Some [[3;0];[3;1];[3;2];[3;3];[3;1];[4;1];[3;2];[1;0];[1;1];[1;4];[3;1];[1;3];[2;1]].
Proof. vm_compute. split; reflexivity. Qed.
