(* C43: xDS watchers see the latest valid resource and correct errors.
   Theorems only; each is closed by [exact] of a lemma from proof/XdsWatch_proofs.v.
   Model: model/XdsWatch.v.  [rstep ign r e] is the transition of ONE resource (cache, status,
   error state, deletionIgnored, ADS watch state) under one event and returns the callbacks
   that EVERY watcher of the resource receives: (1, c) ResourceChanged with content c,
   (2, e) ResourceError, (3, e) AmbientError; e = 1 connection, 2 does not exist, 1000+c NACK. *)
From Coq Require Import List ZArith Bool.
From VLib Require Import Codec Machine.
From VModel Require Import XdsWatch.
From VProof Require Import XdsWatch_proofs.
Import ListNotations.
Open Scope Z_scope.

(* "receives ResourceChanged only with a resource the client accepted": from any resource state,
   a ResourceChanged(c) is caused only by a valid update with content c, and the cache changes
   only to an accepted update or to nothing. *)
Theorem C43_changed_valid : forall ign r e c, In (1, c) (snd (rstep ign r e)) -> e = EValid c.
Proof. exact changed_only_valid. Qed.
Print Assumptions C43_changed_valid.

Theorem C43_cache_only_accepted : forall ign r e, cache (fst (rstep ign r e)) <> cache r ->
  e = EValid (cache (fst (rstep ign r e))) \/ cache (fst (rstep ign r e)) = -1.
Proof. exact cache_only_valid. Qed.
Print Assumptions C43_cache_only_accepted.

(* "never for an update identical to the one it already holds (unless a NACK intervened)" *)
Theorem C43_no_duplicate : forall ign r c, cache r = c -> c <> -1 -> err r = -1 ->
  snd (rstep ign r (EValid c)) = [].
Proof. exact no_duplicate. Qed.
Print Assumptions C43_no_duplicate.

Theorem C43_redelivered_after_nack : forall ign r c, rw r <> [] -> err r <> -1 ->
  snd (rstep ign r (EValid c)) = [(1, c)].
Proof. exact redelivered_after_nack. Qed.
Print Assumptions C43_redelivered_after_nack.

(* "receives AmbientError when an update for a cached resource is rejected or the stream fails,
   and ResourceError when no valid resource exists (rejected, timed out, or removed from a
   state-of-the-world response, unless ignore_resource_deletion is set)": every error callback
   is an AmbientError exactly when something is cached (and the cache is kept), and a
   ResourceError leaves nothing cached; the causes are as listed. *)
Theorem C43_ambient_vs_resource_error : forall ign r e k a,
  In (k, a) (snd (rstep ign r e)) -> k <> 1 ->
  (k = 3 /\ cache r <> -1 /\ cache (fst (rstep ign r e)) = cache r /\
     (a = 1 /\ e = EConn \/ exists c, a = 1000 + c /\ e = EInvalid c)) \/
  (k = 2 /\ cache (fst (rstep ign r e)) = -1 /\
     (cache r = -1 /\ (a = 1 /\ e = EConn \/ exists c, a = 1000 + c /\ e = EInvalid c) \/
      a = 2 /\ (e = EMissing /\ ign = false \/ e = EExpire))).
Proof. exact error_kind. Qed.
Print Assumptions C43_ambient_vs_resource_error.

Theorem C43_removed_sotw : forall r, rw r <> [] -> cache r <> -1 -> stat r <> 4 ->
  rstep false r EMissing = (mkR (rw r) (-1) 4 (-1) (delign r) (ws r), [(2, 2)]) /\
  snd (rstep true r EMissing) = [] /\ cache (fst (rstep true r EMissing)) = cache r.
Proof. exact removed_from_sotw. Qed.
Print Assumptions C43_removed_sotw.

Theorem C43_timed_out : forall r ign, rw r <> [] ->
  rstep ign r EExpire = if ws r =? 1 then (mkR (rw r) (-1) 4 (-1) (delign r) 3, [(2, 2)]) else (r, []).
Proof. exact expiry. Qed.
Print Assumptions C43_timed_out.

(* the stream fails before its first response: every watcher is told ... *)
Theorem C43_stream_failure_notifies : forall ign r, rw r <> [] ->
  snd (rsteps ign r [EDown; EConn]) = [if cache r =? -1 then (2, 1) else (3, 1)].
Proof. exact stream_failure_notifies. Qed.
Print Assumptions C43_stream_failure_notifies.

(* ... but NOT after a response was received on that stream (gRFC A57: such a failure is not an
   error).  Statement deviation: "receives AmbientError when ... the stream fails" is false then. *)
Theorem C43_stream_failure_after_response_silent : forall ign r, snd (rsteps ign r [EDown]) = [].
Proof. exact stream_failure_after_response_silent. Qed.
Print Assumptions C43_stream_failure_after_response_silent.

Theorem C43_stream_failure_literal_refuted :
  exists ops obs, run [0] ops = Some obs /\
    nth_error obs 15 = Some [1; 1] /\ nth_error obs 16 = Some [0; 1; 7] /\
    nth_error obs 23 = Some [1; 0] /\ nth_error obs 24 = Some [0].
Proof. exact stream_failure_literal_refuted. Qed.
Print Assumptions C43_stream_failure_literal_refuted.

(* "A new watcher immediately receives the cached resource and the current error state" *)
Theorem C43_new_watcher_replay : forall ign s w t n,
  wm s w = -1 -> In w all_watchers -> 0 <= 4 * t + n ->
  In (w :: enc (if nonempty (rw (res s (4 * t + n))) then replay (res s (4 * t + n)) else []))
     (snd (step ign s (AWatch w t n))).
Proof. exact new_watcher_replay. Qed.
Print Assumptions C43_new_watcher_replay.

Theorem C43_replay_contents : forall r, RI r ->
  replay r =
    (if cache r =? -1 then [] else [(1, cache r)]) ++
    (if stat r =? 3 then [(if cache r =? -1 then 2 else 3, 1000 + err r)] else []) ++
    (if stat r =? 4 then [(2, 2)] else []).
Proof. exact replay_spec. Qed.
Print Assumptions C43_replay_contents.

(* "after all watchers are removed the resource is unsubscribed" *)
Theorem C43_last_unwatch_unsubscribes : forall ign s w,
  wm s w <> -1 -> rw (res s (wm s w)) = [w] ->
  let k := wm s w in let s' := fst (step ign s (AUnwatch w)) in
  rw (res s' k) = [] /\ wm s' w = -1 /\
  (sender s = 1 -> In ([100; ktype k] ++ names (res s') (ktype k)) (snd (step ign s (AUnwatch w)))).
Proof. exact last_unwatch_unsubscribes. Qed.
Print Assumptions C43_last_unwatch_unsubscribes.

Theorem C43_unsubscribed_name_not_requested : forall rs t n,
  rw (rs (4 * t + n)) = [] -> ~ In n (names rs t).
Proof. exact not_named_without_watchers. Qed.
Print Assumptions C43_unsubscribed_name_not_requested.

(* History statement.  [clauses] is what every check evaluates on the implementation's trace:
   pass A looks at each watcher's own complete callback history (clause 2: no ResourceChanged for
   the update it already holds unless a NACK intervened; clause 3: AmbientError only while it
   holds a valid resource, ResourceError for a rejected update / connection failure only while it
   holds none); pass B tracks watcher -> resource from the ops (clause 1: every callback is
   justified by the op - ResourceChanged only with a valid resource of the response or, on a new
   watch, the resource a peer watcher holds, delivered first; NACK errors only for an invalid
   entry; 'does not exist' only for a resource missing from a SotW response without
   ignore_resource_deletion, or on expiry of the timer of a watcher that holds no valid resource; nothing on cancel or on ops not applied; clause 5:
   every request lists exactly the names that have a watcher; clause 6: a stream failing before
   any response gives every watcher exactly one connection error, after a response none).
   For every configuration and every op list, of any length, ALL these clauses hold on the
   model's own trace (two inductive invariants linking model state and monitor state:
   watcher's view = resource cache / error state; watcher -> resource map = resource's watcher
   set). *)
Theorem C43_holds_on_every_model_trace : forall cfg ops,
  exists obs, run cfg ops = Some obs /\ holds_b cfg ops obs = true.
Proof. exact model_trace_holds. Qed.
Print Assumptions C43_holds_on_every_model_trace.

(* non-vacuity: watcher 0 gets a resource, a second watcher joins and is replayed it, a NACK
   gives both an AmbientError, the SotW removal a ResourceError *)
Example C43_witness :
  run [0] [[3]; [1; 0; 0; 0]; [5; 0; 1; 1; 0; 1; 7]; [1; 1; 0; 0]; [5; 0; 2; 2; 0; 0; 9]; [5; 0; 3; 3]] =
  Some [[1; 0]; [0]; [1]; [2]; [3]; [4]; [5];
        [1; 1]; [0]; [1]; [2]; [3]; [4]; [5]; [100; 0; 0];
        [1; 1]; [0; 1; 7]; [1]; [2]; [3]; [4]; [5]; [100; 0; 0];
        [1; 0]; [0]; [1; 1; 7]; [2]; [3]; [4]; [5];
        [1; 1]; [0; 3; 1009]; [1; 3; 1009]; [2]; [3]; [4]; [5]; [100; 0; 0];
        [1; 1]; [0; 2; 2]; [1; 2; 2]; [2]; [3]; [4]; [5]; [100; 0; 0]].
Proof. vm_compute. reflexivity. Qed.
