(* C40: outlier detection ejects by the A50 rules and counts ejections correctly.
   Theorems only; each is closed by [exact] of a lemma from proof/Outlier_proofs.v.
   The interval algorithm of the model is  fire = swap buckets; success-rate [pass];
   failure-percentage [pass]; [sweep]  (model/Outlier.v), so the statements about [pass] and
   [sweep] are statements about every interval of every history. *)
From Coq Require Import List ZArith Bool Floats.
From VLib Require Import Codec Machine.
From VModel Require Import Outlier.
From VProof Require Import Outlier_proofs.
Import ListNotations.
Open Scope Z_scope.

(* ===== the property's sentences for every history =====
   st = the state after any op list, op = any next op, st' = step K st op.
   [fired K st op = Some (c, sm)] says that op runs the interval algorithm (the timer fires,
   or a config update whose interval has already elapsed): it runs with config c on sm =
   st with the clock at the deadline (resp. after the config's endpoint update), and
   [swapped sm] are the endpoints after the bucket swap.  now st' is the interval's time. *)

(* ejections only happen at intervals: any other op leaves every ejection time as it was *)
Theorem C40_no_ejection_outside_interval : forall K ops op id e' x,
  let st := final K init ops in let st' := step K st op in
  fired K st op = None -> find id (eps st') = Some e' -> ej e' = Some x ->
  exists e, find id (eps st) = Some e /\ ej e = Some x.
Proof. exact hist_no_ejection_outside_interval. Qed.
Print Assumptions C40_no_ejection_outside_interval.

(* "at each interval, an endpoint is ejected only if it has at least the configured request
   volume and fails the success-rate or failure-percentage criterion" (on the swapped bucket) *)
Theorem C40_eject_only_if : forall K ops op c sm id e',
  let st := final K init ops in let st' := step K st op in
  fired K st op = Some (c, sm) ->
  find id (eps st') = Some e' -> ej e' = Some (now st') ->
  exists e0, find id (swapped sm) = Some e0 /\
    let L := considered (sr_vol c) (swapped sm) in
    ((sr_on c = true /\ sr_min c <= len L /\ sr_vol c <= rv e0 /\ sr_fail (sr_stdev c) L e0 = true) \/
     (fp_on c = true /\ fp_vol c <= rv e0 /\ fp_fail (fp_thr c) e0 = true)).
Proof. exact hist_eject_only_if. Qed.
Print Assumptions C40_eject_only_if.

(* "no ejection happens while the currently ejected share of current endpoints is at or
   above max_ejection_percent": if any endpoint is ejected at an interval, the code's test
   (doubles) on the counter the interval started with was negative, and that counter is the
   number of ejected endpoints plus gD (ejections of already ejected endpoints). *)
Theorem C40_no_ejection_at_or_above_max : forall K ops op c sm id e',
  let st := final K init ops in let st' := step K st op in
  fired K st op = Some (c, sm) ->
  find id (eps st') = Some e' -> ej e' = Some (now st') ->
  share_ge (numej sm) (len (eps sm)) (maxpct c) = false /\
  numej sm = count_ej (eps sm) + gD st.
Proof. exact hist_no_ejection_at_or_above_max. Qed.
Print Assumptions C40_no_ejection_at_or_above_max.

(* the count form: the number of endpoints that carry the interval's time as ejection time
   after an interval is at most [room], the number of ejections max_ejection_percent admits
   from the counter value the interval started with ([room] = length of the run of negative
   tests share_ge k, share_ge (k+1), ...; see C40_room_meaning) *)
Theorem C40_ejections_within_cap : forall K ops op c sm,
  let st := final K init ops in let st' := step K st op in
  fired K st op = Some (c, sm) ->
  count_at (now st') (eps st') <=
  room (2 * length (eps sm)) (numej sm) (len (eps sm)) (maxpct c).
Proof. exact hist_ejections_within_cap. Qed.
Print Assumptions C40_ejections_within_cap.

Theorem C40_room_meaning : forall n mx f k i,
  0 <= i < room f k n mx -> share_ge (k + i) n mx = false.
Proof. exact room_spec. Qed.
Print Assumptions C40_room_meaning.

(* one pass: the counter grows by the number of ejections, at most what the cap admits at
   the start of the pass, and the endpoints ejected at t grow by at most that number *)
Theorem C40_pass_ejections_within_cap : forall crit enf n mx t l k gd k' gd' l',
  pass crit enf n mx t k gd l = (k', gd', l') ->
  k <= k' /\ k' - k <= room (length l) k n mx /\ count_at t l' <= count_at t l + (k' - k).
Proof. exact pass_count. Qed.
Print Assumptions C40_pass_ejections_within_cap.

(* "an ejected endpoint is un-ejected once min(base x multiplier, max(base, max)) has
   elapsed": an endpoint ejected at t0 is, after the interval at time now st', either
   re-ejected now, or un-ejected and then t0 + span < now, or still ejected at t0 with the
   same multiplier and then now <= t0 + span. *)
Theorem C40_uneject_time : forall K ops op c sm id e t0,
  let st := final K init ops in let st' := step K st op in
  fired K st op = Some (c, sm) ->
  find id (eps sm) = Some e -> ej e = Some t0 ->
  exists e', find id (eps st') = Some e' /\
    match ej e' with
    | None => t0 + Z.min (base c * mult e') (Z.max (base c) (maxej c)) < now st'
    | Some x => x = now st' \/
                (x = t0 /\ mult e' = mult e /\
                 now st' <= t0 + Z.min (base c * mult e) (Z.max (base c) (maxej c)))
    end.
Proof. exact hist_uneject_time. Qed.
Print Assumptions C40_uneject_time.

(* ===== the same, for one pass of the loops (all lists, counters, configs) ===== *)

(* "an endpoint is ejected only if it has at least the configured request volume and fails
   the criterion, and not while the ejected share is at or above max_ejection_percent":
   a pass of either algorithm changes an endpoint only by ejecting it at the interval's time,
   and then the algorithm's test [crit] held for it, the enforcement percentage is 100 and
   the max_ejection_percent test (share_ge, as the code computes it from its counter) was
   negative at a counter value kk reached during the pass. *)
Theorem C40_eject_only_if_pass : forall crit enf n mx t l k gd k' gd' l',
  pass crit enf n mx t k gd l = (k', gd', l') ->
  Forall2 (fun p p' =>
    fst p' = fst p /\
    (snd p' = snd p \/
     (snd p' = eject_ep t (snd p) /\ crit (snd p) = true /\ 100 <= enf /\
      exists kk, k <= kk < k' /\ share_ge kk n mx = false))) l l'.
Proof. exact pass_spec. Qed.
Print Assumptions C40_eject_only_if_pass.

(* if a pass ejected anything, the test was negative for the counter the pass started with *)
Theorem C40_no_ejection_at_or_above_max_pass : forall crit enf n mx t l k gd k' gd' l',
  pass crit enf n mx t k gd l = (k', gd', l') -> k' <> k -> share_ge k n mx = false.
Proof. exact pass_first. Qed.
Print Assumptions C40_no_ejection_at_or_above_max_pass.

(* what the two tests are: request volume reached and ... *)
Theorem C40_success_rate_criterion : forall c L e, sr_crit c L e = true ->
  sr_vol c <= rv e /\
  let D := prod_rv L in let n := len L in let tot := sum_scaled D L in
  (* below the mean, by more than (stdev_factor/1000) standard deviations (squared, exact) *)
  0 < dev D n tot e /\
  sr_stdev c * sr_stdev c * sum_sq D n tot L < dev D n tot e * dev D n tot e * n * 1000000.
Proof.
  intros c L e H. destruct (sr_crit_spec c L e H) as [H1 H2]. split; [exact H1|].
  exact (sr_fail_spec _ _ _ H2).
Qed.
Print Assumptions C40_success_rate_criterion.

Theorem C40_failure_percentage_criterion : forall c e, fp_crit c e = true ->
  fp_vol c <= rv e /\ fp_fail (fp_thr c) e = true.
Proof. exact fp_crit_spec. Qed.
Print Assumptions C40_failure_percentage_criterion.

(* "un-ejected once min(base x multiplier, max(base, max_ejection_time)) has elapsed":
   the last loop of the interval algorithm at time t un-ejects an endpoint ejected at t0
   exactly when t0 + eject_span < t, and never ejects. *)
Theorem C40_uneject_time_sweep : forall c t l u l', sweep c t l = (u, l') ->
  Forall2 (fun p p' =>
    fst p' = fst p /\
    match ej (snd p) with
    | Some t0 => if t0 + Z.min (base c * mult (snd p)) (Z.max (base c) (maxej c)) <? t
                 then snd p' = uneject_ep (snd p) else snd p' = snd p
    | None => ej (snd p') = None /\ health (snd p') = health (snd p) /\
              mult (snd p') = (if 0 <? mult (snd p) then mult (snd p) - 1 else mult (snd p))
    end) l l'.
Proof. exact sweep_spec. Qed.
Print Assumptions C40_uneject_time_sweep.

(* "a no-op config un-ejects everything" (and zeroes the multipliers, stops the timer) *)
Theorem C40_noop_unejects_all : forall c ids st, noop c = true ->
  let st' := config c ids st in
  Forall (fun p => ej (snd p) = None /\ mult (snd p) = 0) (eps st') /\
  tstart st' = None /\ deadline st' = None /\ map fst (eps st') = ids.
Proof. exact noop_config_spec. Qed.
Print Assumptions C40_noop_unejects_all.

(* "its subchannels appear TRANSIENT_FAILURE to the child while ejected": after every
   history, the last state delivered to the health listener of an ejected endpoint's
   sub-channel is TRANSIENT_FAILURE (3). *)
Theorem C40_tf_while_ejected : forall K ops id e, let st := final K init ops in
  find id (eps st) = Some e -> ej e <> None -> health e = 3.
Proof. exact tf_while_ejected. Qed.
Print Assumptions C40_tf_while_ejected.

(* "counts ejections correctly": after every history (including resolver updates that
   remove ejected endpoints and add them again) the counter equals the number of ejected
   endpoints plus one error term gD = ejections of an endpoint that was already ejected. *)
Theorem C40_counter_accounting : forall K ops, let st := final K init ops in
  numej st = count_ej (eps st) + gD st.
Proof. exact counter_accounting. Qed.
Print Assumptions C40_counter_accounting.

(* so as long as no endpoint was ejected twice the counter is exact *)
Theorem C40_counter_exact_without_double_ejection : forall K ops, let st := final K init ops in
  gD st = 0 -> numej st = count_ej (eps st).
Proof. exact counter_exact_without_double. Qed.
Print Assumptions C40_counter_exact_without_double_ejection.

(* the former witness of F-C40-removed-while-ejected (repaired by 18235fc): endpoint 0 is
   ejected, removed and re-added; the counter goes 1 -> 0 with the endpoint *)
Theorem C40_counter_removed_while_ejected :
  let ops := [cfg_fp 100 [0;1;2]; [2;0;0;5]; [2;1;1;5]; [2;2;1;5]; [3]] in
  let st1 := final 3 init ops in
  let st := final 3 init (ops ++ [cfg_fp 100 [1;2]; cfg_fp 100 [0;1;2]]) in
  numej st1 = 1 /\ count_ej (eps st1) = 1 /\
  numej st = 0 /\ count_ej (eps st) = 0 /\ gD st = 0.
Proof. exact counter_removed_ok. Qed.
Print Assumptions C40_counter_removed_while_ejected.

(* ... but the error term gD can be non-zero, so numEndpointsEjected <> #ejected: refuted. *)
Theorem C40_counter_double_ejection_refuted :
  let ops := [[1; 10; 30; 300; 100; 1; 1900; 100; 5; 10; 1; 50; 100; 5; 10; 0; 1; 2; 3; 4];
              [2;0;0;20]; [2;1;1;20]; [2;2;1;20]; [2;3;1;20]; [2;4;1;20]; [3]] in
  let st := final 5 init ops in
  numej st = 2 /\ count_ej (eps st) = 1 /\ gD st = 1 /\
  (exists e, find 0 (eps st) = Some e /\ mult e = 2).
Proof. exact counter_double_refuted. Qed.
Print Assumptions C40_counter_double_ejection_refuted.

(* the two float tests deviate from the exact percentages: refuted at exact strength *)
Theorem C40_max_ejection_percent_exact_refuted :
  share_ge 29 50 58 = false /\ exact_share_ge 29 50 58 = true /\
  (let st := final 50 init ops50 in
   count_ej (eps st) = 29 /\ len (eps st) = 50 /\ count_ej (eps (step 50 st [3])) = 30).
Proof.
  destruct share_float_refuted as [A B]. destruct share_float_trace_refuted as [C [D [_ E]]].
  repeat split; assumption.
Qed.
Print Assumptions C40_max_ejection_percent_exact_refuted.

Theorem C40_failure_percentage_exact_refuted :
  let e := mkep 0 0 93 7 None 0 (-1) in
  fp_fail 7 e = true /\ exact_fp_fail 7 e = false.
Proof. exact fp_float_refuted. Qed.
Print Assumptions C40_failure_percentage_exact_refuted.

(* The executable predicate that is evaluated on implementation traces (all clauses except
   those of the three open findings 8-10; clause 11 included) holds on every trace of the model, for every op list. *)
Theorem C40_holds_on_every_model_trace : forall c ops, cfg_wf c = true ->
  exists obs, run c ops = Some obs /\ holds_b c ops obs = true.
Proof. exact model_trace_holds. Qed.
Print Assumptions C40_holds_on_every_model_trace.

(* non-vacuity: an ejection, then un-ejection after base*1 = 30 s has elapsed (4th interval) *)
Example C40_witness :
  cfg_wf [3] = true /\
  (let st := final 3 init [cfg_fp 100 [0;1;2]; [2;0;0;5]; [2;1;1;5]; [3]] in
   numej st = 1 /\ (exists e, find 0 (eps st) = Some e /\ ej e = Some 10 /\ mult e = 1 /\ health e = 3)) /\
  (let st := final 3 init [cfg_fp 100 [0;1;2]; [2;0;0;5]; [2;1;1;5]; [3]; [3]; [3]; [3]] in
   now st = 40 /\ numej st = 1 /\ count_ej (eps st) = 1) /\
  (let st := final 3 init [cfg_fp 100 [0;1;2]; [2;0;0;5]; [2;1;1;5]; [3]; [3]; [3]; [3]; [3]] in
   now st = 50 /\ numej st = 0 /\ count_ej (eps st) = 0).
Proof. vm_compute. repeat split; eexists; repeat split. Qed.
