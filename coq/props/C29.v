(* C29: a channel never goes idle under an active RPC (internal/idle.Manager).
   Model: Idle.v - every sync/atomic call, idleMu.Lock/Unlock and ClientConn callback of
   OnCallBegin / OnCallEnd / handleIdleTimeout / tryEnterIdleMode / ExitIdleMode / Close is
   one instruction; [reachable] = all interleavings of any number of threads, each of which
   may call any of these functions (the timer callback may run at any time).
   [ccidle s] = the ClientConn is in idle mode (last callback was EnterIdleMode, or none yet);
   a thread at [InCall c] is an RPC between OnCallBegin's return and its OnCallEnd call.
   The only hypothesis is that there are fewer than MaxInt32 threads (int32 counter).
   Theorems only; each is closed by [exact] of a lemma from proof/Idle_proofs.v. *)
From Coq Require Import List ZArith Bool.
From VLib Require Import Codec Machine.
From VModel Require Import Idle.
From VProof Require Import Idle_proofs.
Import ListNotations.
Open Scope Z_scope.

(* "the channel never enters idle mode while an RPC is between its start and end": an RPC
   whose OnCallBegin returned with the channel not idle (Prot) keeps the channel out of
   idle mode in every reachable state, for every schedule - also after Close. *)
Theorem C29_no_idle_under_rpc : forall s ts,
  reachable (s, ts) -> Z.of_nat (length ts) < maxI32 ->
  In (InCall Prot) ts -> ccidle s = false.
Proof. exact no_idle_under_rpc. Qed.
Print Assumptions C29_no_idle_under_rpc.

(* "every RPC start that finds the channel idle (or entering idle) returns only after the
   channel has left idle mode": whenever some RPC is in progress and Close has not been
   called, the channel is not idle; an RPC can only be unprotected (c <> Prot) when Close
   was called before its OnCallBegin returned. *)
Theorem C29_begin_returns_nonidle : forall s ts c,
  reachable (s, ts) -> Z.of_nat (length ts) < maxI32 ->
  In (InCall c) ts -> closed s = false -> ccidle s = false.
Proof. exact rpc_in_progress_not_idle. Qed.
Print Assumptions C29_begin_returns_nonidle.

Theorem C29_unprotected_only_after_close : forall s ts c,
  reachable (s, ts) -> Z.of_nat (length ts) < maxI32 ->
  In (InCall c) ts -> c <> Prot -> closed s = true.
Proof. exact unprotected_only_after_close. Qed.
Print Assumptions C29_unprotected_only_after_close.

(* "enter-idle and exit-idle transitions strictly alternate": the callback log of every
   reachable state is alternating and ends in the current mode ... *)
Theorem C29_alternate : forall s ts,
  reachable (s, ts) -> Z.of_nat (length ts) < maxI32 ->
  alt_state (log s) = Some (ccidle s).
Proof. exact log_alternates. Qed.
Print Assumptions C29_alternate.

(* ... where alternating means: two callbacks with no callback between them differ, and
   the oldest callback is ExitIdleMode (logs are newest first). *)
Theorem C29_alternate_adjacent : forall l pre a mid b rest, alt_state l <> None ->
  l = pre ++ a :: mid ++ b :: rest -> is_cb a = true -> is_cb b = true ->
  (forall e, In e mid -> is_cb e = false) -> a <> b.
Proof. exact alt_adjacent. Qed.
Print Assumptions C29_alternate_adjacent.

Theorem C29_alternate_oldest : forall l pre a rest, alt_state l <> None ->
  l = pre ++ a :: rest -> is_cb a = true -> (forall e, In e rest -> is_cb e = false) ->
  a = EvExit.
Proof. exact alt_oldest. Qed.
Print Assumptions C29_alternate_oldest.

(* the sentinel protocol: activeCallsCount = number of counted RPCs, minus MaxInt32 exactly
   while the channel is idle or one tryEnterIdleMode is between its CAS and its undo/commit;
   it never leaves the int32 range *)
Theorem C29_counter_meaning : forall s ts,
  reachable (s, ts) -> Z.of_nat (length ts) < maxI32 ->
  exists k, (k = 0 \/ k = 1) /\ count s = cnt c_counted ts - maxI32 * k /\
            k = cnt c_off ts + b2z (aidle s) - cnt c_xclear ts /\
            - maxI32 <= count s < maxI32.
Proof. exact count_meaning. Qed.
Print Assumptions C29_counter_meaning.

(* the event log (callbacks, OnCallBegin returns, OnCallEnd calls, Close) of every schedule
   is accepted by the property automaton [spec_step]: EnterIdleMode only when not idle and
   no RPC in progress, ExitIdleMode only when idle, OnCallBegin returns only when not idle
   (until Close).  This is the acceptor run on the real Manager's logs. *)
Theorem C29_every_log_accepted : forall s ts,
  reachable (s, ts) -> Z.of_nat (length ts) < maxI32 ->
  spec_run sst0 (rev (log s)) <> None.
Proof. intros s ts Hr Hl. rewrite <- spec_state_run. exact (log_accepted s ts Hr Hl). Qed.
Print Assumptions C29_every_log_accepted.

(* The executable predicate evaluated on implementation traces holds on every trace of the
   model: sequential scripts (each is one interleaving of the same instruction semantics;
   [run] is partial only through its fuel, so this is stated for every trace it returns) and
   logs of arbitrary schedules. *)
Theorem C29_holds_on_every_model_trace : forall cfg ops obs,
  Z.of_nat (length ops) < maxI32 -> run cfg ops = Some obs -> holds_b cfg ops obs = true.
Proof. exact model_trace_holds. Qed.
Print Assumptions C29_holds_on_every_model_trace.

Theorem C29_holds_on_every_model_log : forall s ts,
  reachable (s, ts) -> Z.of_nat (length ts) < maxI32 ->
  holds_b [1] [] [map ev_code (rev (log s))] = true.
Proof. exact model_log_clauses. Qed.
Print Assumptions C29_holds_on_every_model_log.

(* non-vacuity: a script in which an RPC exits idle, the idle timer fires twice (activity
   bit with a zero re-arm, then idle), a second RPC exits idle again and blocks a forced
   enter-idle; the Close exception is real: after Close an OnCallBegin returns (event 2)
   while the channel is still idle; and the acceptor rejects EnterIdleMode under an RPC *)
Example C29_witness :
  run [0; 5] [[1]; [2]; [3; 5]; [3; 5]; [1]; [6]; [2]; [6]]
    = Some [[1; 1; 2]; [2; 3]; [3; 0]; [3]; [1; 1; 2]; [6]; [2; 3]; [6; 0]] /\
  run [0; 2] [[5]; [1]] = Some [[5; 4]; [1; 2]] /\
  holds_b [1] [] [[1; 2; 0; 3]] = false.
Proof. vm_compute. repeat split. Qed.
