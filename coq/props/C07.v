(* C07: grpc-timeout encoding never shortens a deadline and always decodes.
   Theorems only; each is closed by [exact] of a lemma from proof/Timeout_proofs.v. *)
From Coq Require Import List ZArith Bool.
From VLib Require Import Codec Machine.
From VModel Require Import Timeout.
From VProof Require Import Timeout_proofs.
Import ListNotations.
Open Scope Z_scope.

(* Every positive int64 duration encodes to 1-8 digits plus a valid unit, and the
   encoded value decodes to d' with d <= d' < d + one unit of the chosen resolution. *)
Theorem C07_encode_shape_and_no_shorten : forall d, 0 < d <= max_i64 ->
  exists ds u udur d',
    encode d = ds ++ [u] /\ (1 <= length ds <= 8)%nat /\ forallb is_digit ds = true /\
    unit_dur u = Some udur /\ decode (encode d) = Some d' /\ d <= d' < d + udur.
Proof. exact encode_positive. Qed.
Print Assumptions C07_encode_shape_and_no_shorten.

Theorem C07_nonpositive : forall d, d <= 0 -> encode d = [48; c_n].
Proof. exact encode_nonpositive. Qed.
Print Assumptions C07_nonpositive.

(* decode is total (an option-valued function of every byte list) and accepts exactly
   1-8 ASCII digits followed by one of H M S m u n ... *)
Theorem C07_decode_accepts_exactly : forall s,
  (exists v, decode s = Some v) <->
  (exists ds u, s = ds ++ [u] /\ (1 <= length ds <= 8)%nat /\ forallb is_digit ds = true /\ is_unit u).
Proof. intro s. rewrite decode_accepts. exact (wellformed_spec s). Qed.
Print Assumptions C07_decode_accepts_exactly.

(* ... and never returns a negative (or out-of-range) duration. *)
Theorem C07_decode_never_negative : forall s v, decode s = Some v -> 0 <= v <= max_i64.
Proof. exact decode_range. Qed.
Print Assumptions C07_decode_never_negative.

(* The executable predicate that is evaluated on implementation traces holds on
   every trace of the model, for every list of well-formed operations. *)
Theorem C07_holds_on_every_model_trace : forall ops, forallb op_wf ops = true ->
  exists obs, run ops = Some obs /\ holds_b ops obs = true.
Proof. exact model_trace_holds. Qed.
Print Assumptions C07_holds_on_every_model_trace.

(* non-vacuity: concrete values at unit boundaries and the hour clamp *)
Example C07_witness :
  encode 100000000 = [49;48;48;48;48;48;117] /\ decode (encode max_i64) = Some max_i64 /\
  forallb op_wf [[1; 100000000]; [1; max_i64]; [2; 2; 49; 72]] = true.
Proof. vm_compute. repeat split. Qed.
