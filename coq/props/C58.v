(* C58: security-requiring per-RPC credentials never go over weak connections.
   Theorems only; each is closed by [exact] of a lemma from proof/Creds_proofs.v.
   t : the transport credentials (is Info().SecurityProtocol "insecure"; what ClientHandshake
   returned), reqs : RequireTransportSecurity() of the dial-level credentials, bundle : the last
   of them travels in a credentials.Bundle, ck : 0 no / 1 non-requiring / 2 requiring call
   credentials.  rpc = validateTransportCredentials ; NewHTTP2Client ; getCallAuthData.
   Credential metadata exists only in the outcome [Sent]. *)
From Coq Require Import List ZArith Bool.
From VLib Require Import Codec Machine.
From VModel Require Import Creds.
From VProof Require Import Creds_proofs.
Import ListNotations.
Open Scope Z_scope.

(* "never sent on a connection whose negotiated security level is below privacy-and-integrity
   ... connections, for dial-level credentials, fail with an error before any credential
   metadata is written": a defined level l (NoSecurity, IntegrityOnly, any l <> Invalid below
   PrivacyAndIntegrity) and some dial-level credential requiring security => grpc.NewClient
   fails or every connection attempt fails; no header is ever built. *)
Theorem C58_never_on_weak_dial_level : forall t l bundle reqs ck,
  tc_hs t = Some (AICommon l) -> l <> InvalidSecurityLevel -> l < PrivacyAndIntegrity ->
  any_true reqs = true ->
  rpc (Some t) bundle reqs ck = DialErr \/ rpc (Some t) bundle reqs ck = ConnErr.
Proof. exact rpc_weak_dial. Qed.
Print Assumptions C58_never_on_weak_dial_level.

(* "such RPCs fail with an error": only the call credentials require security =>
   UNAUTHENTICATED from NewStream, before createHeaderFields appends anything. *)
Theorem C58_never_on_weak_call_level : forall t l bundle reqs,
  tc_hs t = Some (AICommon l) -> l <> InvalidSecurityLevel -> l < PrivacyAndIntegrity ->
  any_true reqs = false ->
  rpc (Some t) bundle reqs 2 = Unauth.
Proof. exact rpc_weak_call. Qed.
Print Assumptions C58_never_on_weak_call_level.

(* no transport credentials, or a failing handshake (local credentials to a non-local
   address): there is no connection, nothing is sent *)
Theorem C58_no_connection_no_metadata : forall bundle reqs ck,
  rpc None bundle reqs ck = DialErr /\
  forall t, tc_hs t = None ->
    rpc (Some t) bundle reqs ck = DialErr \/ rpc (Some t) bundle reqs ck = ConnErr.
Proof. intros. split; [apply rpc_no_creds | intros t H; apply rpc_handshake_fails, H]. Qed.
Print Assumptions C58_no_connection_no_metadata.

(* "On connections that do satisfy the requirement the credential metadata is delivered
   unchanged": level >= PrivacyAndIntegrity (credentials not named "insecure") => the headers
   carry the metadata of every dial credential and of the call credential if there is one. *)
Theorem C58_delivered_on_strong : forall t l bundle reqs ck,
  tc_hs t = Some (AICommon l) -> PrivacyAndIntegrity <= l -> tc_insecure_name t = false ->
  rpc (Some t) bundle reqs ck = Sent (all_md reqs) (negb (ck =? 0)).
Proof. exact rpc_strong. Qed.
Print Assumptions C58_delivered_on_strong.

(* all or nothing: whenever anything is sent, every configured credential is in it *)
Theorem C58_sent_is_complete : forall tc bundle reqs ck d c,
  rpc tc bundle reqs ck = Sent d c -> d = all_md reqs /\ c = negb (ck =? 0).
Proof. exact rpc_sent_all. Qed.
Print Assumptions C58_sent_is_complete.

(* credentials that do not require security are delivered on every connection *)
Theorem C58_not_requiring_delivered : forall t ai bundle reqs ck,
  tc_hs t = Some ai -> any_true reqs = false -> ck <> 2 ->
  rpc (Some t) bundle reqs ck = Sent (all_md reqs) (negb (ck =? 0)).
Proof. exact rpc_nothing_required. Qed.
Print Assumptions C58_not_requiring_delivered.

(* the credentials of the QUANT line: insecure and local-over-TCP are weak, local-over-UDS and
   TLS are strong, none configured = no connection; local credentials only ever report
   NoSecurity or (unix sockets) PrivacyAndIntegrity *)
Theorem C58_shipped_credentials : forall level,
  conn_class (tcreds_of 0 level) = 1 /\ conn_class (tcreds_of 1 level) = 1 /\
  conn_class (tcreds_of 2 level) = 3 /\ conn_class (tcreds_of 3 level) = 3 /\
  conn_class (tcreds_of 8 level) = 0.
Proof. exact standard_creds_classes. Qed.
Print Assumptions C58_shipped_credentials.

Theorem C58_local_levels : forall network addrclass l, local_level network addrclass = Some l ->
  l = NoSecurity \/ (l = PrivacyAndIntegrity /\ network = 1).
Proof. exact local_level_cases. Qed.
Print Assumptions C58_local_levels.

(* REFUTED for connections of unknown level (known finding, clause 5): an AuthInfo whose
   CommonAuthInfo carries InvalidSecurityLevel (numerically below PrivacyAndIntegrity), or that
   has no GetCommonAuthInfo, passes all three checks although dial and call credentials
   require security; a nil AuthInfo passes the handshake-time check (dial-level credentials
   are sent) and is only rejected for call credentials. Documented legacy behaviour. *)
Theorem C58_unknown_level_refuted :
  rpc (Some (mktc false (Some (AICommon InvalidSecurityLevel)))) false [true] 2 = Sent [true] true /\
  rpc (Some (mktc false (Some AINoCommon))) false [true] 2 = Sent [true] true /\
  rpc (Some (mktc false (Some AINil))) false [true] 0 = Sent [true] false /\
  exists cfg ops obs, run cfg ops = Some obs /\ first_fail (clauses cfg ops obs) = Some (5, 2) /\
                      InvalidSecurityLevel < PrivacyAndIntegrity.
Proof.
  split; [exact legacy_invalid_level_accepted|]. split; [exact legacy_no_common_accepted|].
  split; [exact (proj1 legacy_nil_authinfo_dial_accepted) | exact unknown_level_refuted].
Qed.
Print Assumptions C58_unknown_level_refuted.

(* The executable predicate that is evaluated on implementation traces holds on every trace
   of the model whose connection has a known level (cfg_wf excludes only class 2). *)
Theorem C58_holds_on_every_model_trace : forall cfg ops,
  cfg_wf cfg = true -> forallb op_wf ops = true ->
  exists obs, run cfg ops = Some obs /\ holds_b cfg ops obs = true.
Proof. exact model_trace_holds. Qed.
Print Assumptions C58_holds_on_every_model_trace.

(* non-vacuity: IntegrityOnly custom credentials in a bundle, dial credentials [no; yes] *)
Example C58_witness :
  cfg_wf [4; 2; 1; 2; 0; 1] = true /\ forallb op_wf [[1; 0]; [1; 2]] = true /\
  run [4; 2; 1; 2; 0; 1] [[1; 0]] = Some [[2; 0; 0; 0; 0; 0]] /\
  run [4; 2; 0; 0] [[1; 2]; [1; 1]] = Some [[3; 0; 0; 0]; [0; 1; 0; 1]] /\
  run [3; 0; 1; 2; 0; 1] [[1; 2]] = Some [[0; 1; 0; 1; 1; 1]].
Proof. vm_compute. repeat split. Qed.
