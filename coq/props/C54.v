(* C54: health Watch streams converge to the latest status.
   Theorems only; each is closed by [exact] of a lemma from proof/Health_proofs.v.
   reach h = h is reachable from NewServer() by ANY list of atomic steps: SetServingStatus,
   Shutdown, Resume, Check, starting a Watch stream, a stream receiving from its update channel
   (HTake), a stream's Send returning (HSent; a slow sender delays it arbitrarily), cancellation. *)
From Coq Require Import List ZArith Bool.
From VLib Require Import Codec.
From VModel Require Import Health.
From VProof Require Import Health_proofs.
Import ListNotations.
Open Scope Z_scope.

(* A Watch stream first reports the service's current status (SERVICE_UNKNOWN if unregistered):
   registration puts cur(service) into the stream's channel ... *)
Theorem C54_first : forall h w svc hold, has_wid w (hws h) = false ->
  exists x, hws (fst (fst (hstep h (HWatch w svc hold)))) = hws h ++ [x] /\
            wid x = w /\ wsvc x = svc /\ wslot x = Some (cur (hmap h) svc) /\
            wlast x = -1 /\ whist x = [] /\ walive x = true.
Proof. exact health_first. Qed.
Print Assumptions C54_first.

(* ... and whatever a stream starts to send (the first message included) is the service's
   current status at the moment it is received from the channel: only statuses the service
   actually had; it differs from the previous one and is recorded in the history whist *)
Theorem C54_only_real : forall h x s, reach h -> In x (hws h) ->
  In (EStart (wid x) s) (snd (take1 x)) ->
  s = cur (hmap h) (wsvc x) /\ s <> wlast x /\ whist (fst (take1 x)) = s :: whist x.
Proof. exact health_only_real. Qed.
Print Assumptions C54_only_real.

(* never sends the same status twice in a row *)
Theorem C54_no_dup : forall h x, reach h -> In x (hws h) -> nodup_adj (whist x).
Proof. exact health_no_dup. Qed.
Print Assumptions C54_no_dup.

(* after the last status change eventually reports that status: a live stream that has nothing
   to receive and is not inside Send has reported the current status ... *)
Theorem C54_converges : forall h x, reach h -> In x (hws h) ->
  walive x = true -> wslot x = None -> wsend x = None -> wrep x = cur (hmap h) (wsvc x).
Proof. exact health_converges. Qed.
Print Assumptions C54_converges.

(* ... and it gets there by its own next three steps from any state *)
Theorem C54_progress : forall x, walive x = true ->
  let x3 := fst (sent1 (fst (take1 (fst (sent1 x))))) in
  walive x3 = true /\ wslot x3 = None /\ wsend x3 = None.
Proof. exact health_progress. Qed.
Print Assumptions C54_progress.

(* Check always returns the latest status: it reads the table, which changes only as follows *)
Theorem C54_check_latest : forall h svc,
  hstep h (HCheck svc) = (h, [], match lookup svc (hmap h) with Some st => (1, st) | None => (0, 0) end).
Proof. exact health_check_latest. Qed.
Print Assumptions C54_check_latest.

Theorem C54_set_effect : forall h svc st k, hshut h = false ->
  lookup k (hmap (fst (fst (hstep h (HSet svc st))))) = if k =? svc then Some st else lookup k (hmap h).
Proof. exact health_set_effect. Qed.
Print Assumptions C54_set_effect.

Theorem C54_other_ops_keep_table : forall h o,
  match o with HSet _ _ | HShutdown | HResume => True
  | _ => hmap (fst (fst (hstep h o))) = hmap h /\ hshut (fst (fst (hstep h o))) = hshut h end.
Proof. exact health_other_ops_keep_table. Qed.
Print Assumptions C54_other_ops_keep_table.

(* between Shutdown and Resume every (registered) service reports NOT_SERVING and status
   changes are ignored *)
Theorem C54_shutdown_resume_effect : forall h k,
  lookup k (hmap (fst (fst (hstep h HShutdown)))) = match lookup k (hmap h) with Some _ => Some NOT_SERVING | None => None end /\
  lookup k (hmap (fst (fst (hstep h HResume)))) = match lookup k (hmap h) with Some _ => Some SERVING | None => None end /\
  hshut (fst (fst (hstep h HShutdown))) = true /\ hshut (fst (fst (hstep h HResume))) = false.
Proof. exact health_shutdown_resume_effect. Qed.
Print Assumptions C54_shutdown_resume_effect.

Theorem C54_shutdown : forall h, reach h -> hshut h = true ->
  forall k v, lookup k (hmap h) = Some v -> v = NOT_SERVING.
Proof. exact health_shutdown. Qed.
Print Assumptions C54_shutdown.

Theorem C54_set_ignored_when_shut : forall h svc st, hshut h = true -> hstep h (HSet svc st) = (h, [], (0, 0)).
Proof. exact health_set_ignored_when_shut. Qed.
Print Assumptions C54_set_ignored_when_shut.

(* bridge: the monitor that is evaluated on implementation traces accepts every model trace, for
   every op list the driver can produce (Watch streams, slow senders, cancellation included) *)
Theorem C54_holds_on_every_model_trace : forall cfg ops, wf cfg ops = true ->
  exists obs, run cfg ops = Some obs /\ holds_b cfg ops obs = true.
Proof. exact model_trace_holds. Qed.
Print Assumptions C54_holds_on_every_model_trace.

Example C54_witness :
  let ops := [[5; 1; 1; 0]; [5; 2; 0; 1]; [1; 1; 1]; [1; 0; 2]; [1; 0; 1]; [6; 2]; [2]; [4; 1]; [1; 1; 1]; [3]; [6; 2]; [6; 2]] in
  wf [] ops = true /\
  run [] ops = Some [[1; 1; 3; 2; 1; 3]; [1; 2; 1]; [1; 1; 1; 2; 1; 1]; []; []; [2; 2; 1]; [1; 1; 2; 2; 1; 2; 1; 2; 2];
                     [1; 2]; []; [1; 1; 1; 2; 1; 1]; [2; 2; 2; 1; 2; 1]; [2; 2; 1]] /\
  holds_b [] ops [[1; 1; 3; 2; 1; 3]; [1; 2; 1]; [1; 1; 1; 2; 1; 1]; []; []; [2; 2; 1]; [1; 1; 2; 2; 1; 2; 1; 2; 2];
                     [1; 2]; []; [1; 1; 1; 2; 1; 1]; [2; 2; 2; 1; 2; 1]; [2; 2; 1]] = true.
Proof. vm_compute. repeat split. Qed.
