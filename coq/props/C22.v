(* C22: deadlines and cancellation propagate to both ends.
   Theorems only; each is closed by [exact] of a lemma from proof/Deadline_proofs.v.
   Model: coq/model/Deadline.v (a table of the seven client blocking points, each a select
   that includes the RPC context, and the server's deadline = arrival + decodeTimeout(
   EncodeDuration(remaining)) using the C07 model Timeout.v).  PARTIAL by design: "within a
   bounded time" is a latency statement about goroutine scheduling that a model cannot give;
   it is observed in virtual time by the correspondence run (clause 2). *)
From Coq Require Import List ZArith Bool.
From VLib Require Import Codec Machine.
From VModel Require Import Timeout Deadline.
From VProof Require Import Deadline_proofs.
Import ListNotations.
Open Scope Z_scope.

(* "terminates on the client with DEADLINE_EXCEEDED or CANCELLED ... regardless of where it is
   blocked (picking, waiting for stream quota, flow control, receive)": for every blocking
   point 1..7 (6 = a unary RPC stalled in the middle of a response message, 7 = the back-off sleep before a retry) and both ways a context becomes done, the blocked call returns (latency 0 in the
   model) with CANCELLED (1) after a cancellation and DEADLINE_EXCEEDED (4) after the deadline *)
Theorem C22_every_block_has_ctx_partial : forall point kind t d, op_ok [point; kind; t; d] = true ->
  exists o, run_op [point; kind; t; d] = Some o /\
    nth 0 o 0 = status_of kind /\ (kind = 1 -> status_of kind = 1) /\ (kind = 2 -> status_of kind = 4) /\
    nth 1 o 0 = 0.
Proof. exact every_block_has_ctx. Qed.
Print Assumptions C22_every_block_has_ctx_partial.

(* the sixth blocking point spelled out: the unary RPC waiting for the rest of a message payload
   ends with the context's status at latency 0, and the peer is told (RST_STREAM, last field) *)
Theorem C22_mid_message_block_partial : forall kind t d, op_ok [6; kind; t; d] = true ->
  run_op [6; kind; t; d] = Some [status_of kind; 0; 0; 0; 1].
Proof. exact mid_message_block. Qed.
Print Assumptions C22_mid_message_block_partial.

(* the seventh blocking point spelled out: an RPC sleeping in the retry back-off (its first
   attempt was answered trailers-only with a retryable status) ends with the status of its
   context - CANCELLED / DEADLINE_EXCEEDED, not the failed attempt's status - at latency 0 *)
Theorem C22_retry_backoff_block_partial : forall kind t d, op_ok [7; kind; t; d] = true ->
  run_op [7; kind; t; d] = Some [status_of kind; 0; 1; server_timeout d - d; 1].
Proof. exact retry_backoff_block. Qed.
Print Assumptions C22_retry_backoff_block_partial.

(* "The server handler's context carries a deadline no earlier than the client's remaining
   time at send": for every remaining time d (ns) that fits an int64 the handler's timeout
   decodeTimeout(EncodeDuration(d)) is at least d, and exceeds it by less than one hour
   (less than one unit of the header's resolution, by C07) *)
Theorem C22_server_deadline_not_earlier : forall d, 0 < d <= max_i64 ->
  d <= server_timeout d < d + ns_hour.
Proof. exact server_deadline_not_earlier. Qed.
Print Assumptions C22_server_deadline_not_earlier.

(* The executable predicate evaluated on implementation traces holds on every model trace. *)
Theorem C22_holds_on_every_model_trace : forall cfg ops, forallb op_ok ops = true ->
  exists obs, run cfg ops = Some obs /\ holds_b cfg ops obs = true.
Proof. exact model_trace_holds. Qed.
Print Assumptions C22_holds_on_every_model_trace.

(* non-vacuity: a 100000001 ns timeout is sent as "100001u": the handler's deadline is 999 ns
   later than the client's; an RPC blocked in pick never reaches the server; a timeout of exactly
   10^8 ns does not fit 8 digits and is sent as "100000u", exactly (delta 0) *)
Example C22_witness :
  run [] [[5; 2; 1000000; 100000001]; [1; 1; 1000000; 1234567]; [4; 2; 1000000; 100000000]; [6; 1; 5; 100000000000]]
    = Some [[4; 0; 1; 999; 1]; [1; 0; 0; 0; 0]; [4; 0; 1; 0; 1]; [1; 0; 0; 0; 1]] /\
  forallb op_ok [[5; 2; 1000000; 100000001]; [1; 1; 1000000; 1234567]; [4; 2; 1000000; 100000000]; [6; 1; 5; 100000000000]] = true.
Proof. vm_compute. split; reflexivity. Qed.
