(* C42: ADS requests carry correct versions, nonces and subscriptions.
   Theorems only; each is closed by [exact] of a lemma from proof/ADS_proofs.v.
   Model: model/ADS.v (adsStreamImpl driven through XDSClient, one server; one step = one
   driver op run to quiescence).  [step slow s a = (s', o)]: o = header word :: request words;
   a request word is [stream; type; version; nonce; error-detail flag] ++ names. *)
From Coq Require Import List ZArith Bool.
From VLib Require Import Codec Machine.
From VModel Require Import ADS.
From VProof Require Import ADS_proofs.
Import ListNotations.
Open Scope Z_scope.

(* "Every discovery request for a resource type carries the version of the last accepted
   response of that type and the nonce of the latest response of that type on the current
   stream (empty on a new stream)": from ANY state and for ANY op, each request sent carries
   the version and nonce held in the type state after the step and goes on the latest stream ... *)
Theorem C42_request_carries_state_version_and_nonce : forall slow s a s' o,
  step slow s a = (s', o) ->
  forall r, In r (reqs_of o) -> exists t e names,
    r = [sid s'; t; tver (ts s' t); tnonce (ts s' t); e] ++ names.
Proof. exact request_version_nonce. Qed.
Print Assumptions C42_request_carries_state_version_and_nonce.

(* ... the held version changes only when a response of that type in which every resource is
   valid is read, and then to that response's version (so: never by a stream break, a failed or
   a new stream, a subscription change, or a rejected response) ... *)
Theorem C42_version : forall slow s a s' o t,
  step slow s a = (s', o) -> tver (ts s' t) <> tver (ts s t) ->
  exists v n rs, a = AResp t v n rs /\ all_valid rs = true /\ tver (ts s' t) = v /\ recvw s = 1.
Proof. exact version_changes_only_on_accept. Qed.
Print Assumptions C42_version.

(* ... and the held nonce changes only when a response of that type is read (to its nonce,
   accepted or not) or when a new stream is created (to empty). *)
Theorem C42_nonce : forall slow s a s' o t,
  step slow s a = (s', o) -> tnonce (ts s' t) <> tnonce (ts s t) ->
  (a = AAllow /\ tnonce (ts s' t) = 0 /\ live s = false) \/
  (exists v n rs, a = AResp t v n rs /\ tnonce (ts s' t) = n /\ recvw s = 1).
Proof. exact nonce_changes_only_on_response_or_new_stream. Qed.
Print Assumptions C42_nonce.

Theorem C42_new_stream_empties_nonces_keeps_versions : forall slow s s' o, live s = false ->
  step slow s AAllow = (s', o) ->
  forall t, tver (ts s' t) = tver (ts s t) /\
            (thas (ts s t) = true -> In t all_types -> tnonce (ts s' t) = 0).
Proof. exact new_stream_resets_nonces_keeps_versions. Qed.
Print Assumptions C42_new_stream_empties_nonces_keeps_versions.

(* "A NACK carries the previously accepted version, the rejected response's nonce and an error
   detail" (and an ACK the accepted version, its nonce and no error detail). *)
Theorem C42_nack : forall slow s t v n rs s' o,
  recvw s = 1 -> t < 4 -> thas (ts s t) = true -> step slow s (AResp t v n rs) = (s', o) ->
  if all_valid rs
  then reqs_of o = [[sid s; t; v; n; 0] ++ tnames (ts s t)] /\ tver (ts s' t) = v
  else reqs_of o = [[sid s; t; tver (ts s t); n; 1] ++ tnames (ts s t)] /\
       tver (ts s' t) = tver (ts s t).
Proof. exact ack_nack_request. Qed.
Print Assumptions C42_nack.

(* "... and lists exactly the currently subscribed names": a queued request carries the names
   as of the moment it was queued, and the sender sends the queued snapshots unchanged ... *)
Theorem C42_names_snapshot_queued : forall s t n,
  pend (subscribe s t n) = pend s ++ [(t, tnames (ts (subscribe s t n) t))] /\
  pend (unsubscribe s t n) = pend s ++ [(t, tnames (ts (unsubscribe s t n) t))].
Proof. exact queued_request_is_current. Qed.
Print Assumptions C42_names_snapshot_queued.

Theorem C42_names_snapshot_sent : forall s s' o, flush s = (s', o) ->
  forall r, In r (fst o) -> exists t ns, In (t, ns) (pend s) /\
    r = [sid s; t; tver (ts s t); tnonce (ts s t); 0] ++ ns.
Proof. exact sender_sends_snapshots. Qed.
Print Assumptions C42_names_snapshot_sent.

(* ... hence the literal sentence is false for an intermediate request when the send goroutine
   runs only after two subscriptions (ops 11/13: a schedule the sequential driver cannot force):
   a request lists [r1] while [r1; r2] are subscribed.  (DESIGN section 6, statement deviation.)
   Whenever the sender runs after each change - every trace the driver produces - each request
   lists exactly the current set: clause 3 of the theorem at the end. *)
Theorem C42_names_literal_refuted :
  exists ops r, In r (run_from false init ops) /\ r = [1; 0; 0; 0; 0; 1] /\
    tnames (ts (fst (step false (fst (step false (fst (step false init AAllow)) (AQSub 0 1)))
                          (AQSub 0 2))) 0) = [1; 2].
Proof. exact names_literal_refuted. Qed.
Print Assumptions C42_names_literal_refuted.

(* "no response is read until all watchers have finished processing the previous one":
   while the flow control is pending neither a response nor a stream error is read; a response
   with at least one watcher callback makes it pending; only 'all watchers done' clears it. *)
Theorem C42_flow_control_nothing_read_while_pending : forall slow s a,
  blocked s <> 0 -> reads a = true -> step slow s a = (s, hdr false s 0 ([], [])).
Proof. exact blocked_reads_nothing. Qed.
Print Assumptions C42_flow_control_nothing_read_while_pending.

Theorem C42_flow_control_response_pends : forall s t v n rs s' o,
  recvw s = 1 -> t < 4 -> 0 < count_in (named rs) (tnames (ts s t)) ->
  step true s (AResp t v n rs) = (s', o) -> blocked s' = 1 /\ recvw s' = 0.
Proof. exact response_blocks_while_callbacks_outstanding. Qed.
Print Assumptions C42_flow_control_response_pends.

Theorem C42_flow_control_only_done_clears : forall slow s a s' o,
  blocked s = 1 -> step slow s a = (s', o) -> a <> ADone -> blocked s' = 1.
Proof. exact only_done_unblocks. Qed.
Print Assumptions C42_flow_control_only_done_clears.

(* NOTE, outside the property's sentences (they promise nothing about progress after an unknown
   type): a response whose type url is unknown to the client makes the flow control pending with
   nobody left to clear it, so nothing is read on this channel ever again.  Real defect, found
   incidentally; the behaviour is in the model and compared by correspondence. *)
Theorem C42_unknown_type_stalls : forall slow s t v n rs s' o, recvw s = 1 -> 4 <= t ->
  step slow s (AResp t v n rs) = (s', o) -> blocked s' = 2 /\ live s' = true.
Proof. exact unknown_type_stalls. Qed.
Print Assumptions C42_unknown_type_stalls.

Theorem C42_stalled_forever : forall slow s a s' o, blocked s = 2 -> step slow s a = (s', o) ->
  blocked s' = 2 /\ recvw s' = 0.
Proof. exact stalled_forever. Qed.
Print Assumptions C42_stalled_forever.

Theorem C42_unknown_type_stalls_note :
  exists ops obs, run [0] ops = Some obs /\ nth_error obs 2 = Some [1; 0; 0] /\ holds_b [0] ops obs = true.
Proof. exact unknown_type_stalls_note. Qed.
Print Assumptions C42_unknown_type_stalls_note.

(* The history statement.  [clauses] is a monitor that keeps, from the ops alone, the
   subscribed names per type, the version of the last accepted response per type, the nonce of
   the latest response per type on the current stream and whether a request was already sent
   on the current stream, and checks every observed request against them (clauses 1-5, 9:
   version, nonce, names, error detail exactly on NACKs, node identity on the first request of
   every stream and only there) and the flow control (6, 7).  It is evaluated on the
   implementation's trace by every check; here: it holds on every trace of the model, for
   every op list the driver can produce (any length), unknown-type responses excepted. *)
Theorem C42_holds_on_every_model_trace : forall cfg ops, forallb op_wf ops = true ->
  exists obs, run cfg ops = Some obs /\ holds_b cfg ops obs = true.
Proof. exact model_trace_holds. Qed.
Print Assumptions C42_holds_on_every_model_trace.

(* non-vacuity: a history with subscribe, ACK, NACK, stream break and restart is well-formed,
   and the NACK carries version 1 (accepted before), nonce 2 and an error detail; the first
   request of the second stream carries version 1 and an empty nonce *)
Example C42_witness :
  forallb op_wf [[3]; [1; 0; 1]; [5; 0; 1; 1; 1; 1; 0]; [5; 0; 2; 2; 1; 0; 0]; [6]; [3]] = true /\
  run [0] [[3]; [1; 0; 1]; [5; 0; 1; 1; 1; 1; 0]; [5; 0; 2; 2; 1; 0; 0]; [6]; [3]] =
    Some [[1; 1; 0; 1]; [1; 3; 0; 0; 0; 0];
          [1; 1; 0; 0]; [1; 0; 0; 0; 0; 1];
          [1; 1; 0; 0]; [1; 0; 1; 1; 0; 1];
          [1; 1; 0; 0]; [1; 0; 1; 2; 1; 1];
          [1; 0; 0];
          [1; 1; 0; 1; 0]; [2; 0; 1; 0; 0; 1]; [2; 3; 0; 0; 0; 0]].
Proof. vm_compute. split; reflexivity. Qed.
