(* C26: requests are dispatched only to the registered method.
   [dispatch unk reg p] transcribes Server.handleStream for the :path value p, the
   registry reg (service i = (name, descriptor names in registration order)) and
   unk = "an UnknownServiceHandler is installed".  [registered reg i j s m] says that
   handler (i, j) is the one the server's maps hold for service name s / method name m
   (first registration of the service name, last descriptor of the method name).
   Theorems only; each is closed by [exact] of a lemma from proof/Dispatch_proofs.v. *)
From Coq Require Import List ZArith Bool.
From VLib Require Import Codec.
From VModel Require Import Dispatch.
From VProof Require Import Dispatch_proofs.
Import ListNotations.
Open Scope Z_scope.

(* "An RPC whose path names a registered service and method reaches exactly that handler":
   for a method name without '/', the path "/" ++ s ++ "/" ++ m runs handler (i, j) ... *)
Theorem C26_registered_path_reaches_its_handler : forall unk reg i j s m,
  registered reg i j s m -> ~ In slash m ->
  dispatch unk reg (full_path s m) = Handler (Z.of_nat i) (Z.of_nat j).
Proof. exact dispatch_registered. Qed.
Print Assumptions C26_registered_path_reaches_its_handler.

(* ... and a handler runs ONLY for such a path (for every byte string p whatsoever): *)
Theorem C26_handler_iff_path_names_it : forall unk reg p i j,
  dispatch unk reg p = Handler (Z.of_nat i) (Z.of_nat j) <->
  exists s m, registered reg i j s m /\ ~ In slash m /\ p = full_path s m.
Proof. exact dispatch_handler_iff. Qed.
Print Assumptions C26_handler_iff_path_names_it.

Theorem C26_handler_indices_are_registry_positions : forall unk reg p i j,
  dispatch unk reg p = Handler i j -> exists i' j', i = Z.of_nat i' /\ j = Z.of_nat j'.
Proof. exact dispatch_handler_index_nonneg. Qed.
Print Assumptions C26_handler_indices_are_registry_positions.

(* "exactly that handler": a path names at most one registered pair *)
Theorem C26_named_handler_unique : forall reg p i j s m i' j' s' m',
  registered reg i j s m -> ~ In slash m -> p = full_path s m ->
  registered reg i' j' s' m' -> ~ In slash m' -> p = full_path s' m' ->
  i = i' /\ j = j'.
Proof. exact named_handler_unique. Qed.
Print Assumptions C26_named_handler_unique.

(* "any other well-formed path yields UNIMPLEMENTED (or the unknown-service handler if one
   is installed)": well-formed = leading '/' and a second '/'; Unimpl k is the status
   UNIMPLEMENTED written without running a handler (k = 2 unknown service, 3 unknown method) *)
Theorem C26_other_wellformed_path : forall unk reg p,
  well_formed p = true ->
  (forall i j s m, registered reg i j s m -> ~ In slash m -> p <> full_path s m) ->
  exists k, (k = 2 \/ k = 3) /\ dispatch unk reg p = if unk then UnknownH else Unimpl k.
Proof. exact dispatch_other. Qed.
Print Assumptions C26_other_wellformed_path.

(* "a malformed path never reaches any handler": no leading '/' or no second '/' gives
   UNIMPLEMENTED ("malformed method name") even when an unknown-service handler is installed,
   and that answer is given for no other path *)
Theorem C26_malformed_path_no_handler : forall unk reg p,
  dispatch unk reg p = Unimpl 1 <-> well_formed p = false.
Proof. exact dispatch_malformed_iff. Qed.
Print Assumptions C26_malformed_path_no_handler.

Theorem C26_well_formed_means : forall p,
  well_formed p = true <-> exists sm, p = slash :: sm /\ In slash sm.
Proof. exact well_formed_spec. Qed.
Print Assumptions C26_well_formed_means.

(* what the client observes: paths that are not legal HTTP/2 header values are refused by
   the transport (no handler), every other path is dispatched as above *)
Theorem C26_serve : forall unk reg p,
  serve unk reg p = if wire_ok p then dispatch unk reg p else Rejected.
Proof. exact serve_spec. Qed.
Print Assumptions C26_serve.
(* the same server driven through Server.ServeHTTP: net/http additionally refuses a path that is
   empty or has no leading '/'; every other path is dispatched exactly as above *)
Theorem C26_serve_http_no_leading_slash : forall unk reg p,
  starts_slash p = false -> serve_t true unk reg p = Rejected.
Proof. exact serve_t_http_no_slash. Qed.
Print Assumptions C26_serve_http_no_leading_slash.
Theorem C26_serve_native : forall unk reg p, serve_t false unk reg p = serve unk reg p.
Proof. exact serve_t_native. Qed.
Print Assumptions C26_serve_native.

(* Statement deviation (finding F-C26-slash-in-method-name, clause 4): the split is at the
   LAST '/', so a registered method whose name contains '/' is unreachable by ANY path ... *)
Theorem C26_slash_method_unreachable : forall unk reg i j s m p,
  registered reg i j s m -> In slash m ->
  dispatch unk reg p <> Handler (Z.of_nat i) (Z.of_nat j).
Proof. exact slash_method_unreachable. Qed.
Print Assumptions C26_slash_method_unreachable.

(* ... witness: service "s" with method "a/b"; /s/a/b is UNIMPLEMENTED (unknown service
   "s/a"), and runs the handler of ("s/a", "b") when that is registered too *)
Theorem C26_literal_statement_refuted :
  let reg := [([115], [[97; 47; 98]])] in
  registered reg 0 0 [115] [97; 47; 98] /\
  dispatch false reg (full_path [115] [97; 47; 98]) = Unimpl 2 /\
  dispatch false (reg ++ [([115; 47; 97], [[98]])]) (full_path [115] [97; 47; 98]) = Handler 1 0.
Proof. exact slash_method_refuted. Qed.
Print Assumptions C26_literal_statement_refuted.

(* The executable predicate that is evaluated on implementation traces (every clause but the
   refuted clause 4) holds on every trace of the model, for every registry and op list. *)
Theorem C26_holds_on_every_model_trace : forall cfg ops, wf cfg ops = true ->
  exists obs, run cfg ops = Some obs /\ holds_b cfg ops obs = true.
Proof. exact model_trace_holds. Qed.
Print Assumptions C26_holds_on_every_model_trace.

(* clause 4 is vacuous when no method name contains '/' *)
Theorem C26_clause4_vacuous_without_slash_methods : forall reg p,
  no_slash_methods reg = true -> slash_targets reg p = [].
Proof. exact no_slash_targets. Qed.
Print Assumptions C26_clause4_vacuous_without_slash_methods.

(* non-vacuity: a registry with a nested service name, a shadowed descriptor and an
   empty service name; well-formed hypotheses are satisfiable *)
Example C26_witness :
  let reg := [([97], [[98]; [99]; [98]]); ([97; 47; 98], [[99]]); ([], [[109]])] in
  dispatch false reg [47; 97; 47; 98] = Handler 0 2 /\
  dispatch false reg [47; 97; 47; 98; 47; 99] = Handler 1 0 /\
  dispatch false reg [47; 47; 109] = Handler 2 0 /\
  dispatch false reg [47; 97; 47; 120] = Unimpl 3 /\
  dispatch true reg [47; 120; 47; 98] = UnknownH /\
  dispatch true reg [97; 47; 98] = Unimpl 1 /\
  serve true reg [47; 97; 47; 98; 0] = Rejected /\
  wf [0; 1; 1; 97; 0; 1; 1; 98] [[1; 4; 47; 97; 47; 98]] = true.
Proof. vm_compute. repeat split. Qed.
