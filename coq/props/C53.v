(* C53: pooled buffers are released exactly once and never leak old data.
   Theorems only; each is closed by [exact] of a lemma from proof/MemBuf_proofs.v.

   A pooled allocation is the root buffer returned by NewBuffer/Copy together with every
   buffer object derived from it by Slice / split ([fam]).  [urefs f m] is the number of
   references held from outside on member m (0 = root): for the root, its counter minus the
   references its live derived objects hold on it; [WF] is the invariant of the counters. *)
From Coq Require Import List ZArith Bool.
From VLib Require Import Codec Machine.
From VModel Require Import MemBuf.
From VProof Require Import MemBuf_proofs MemBufHeap_proofs.
Import ListNotations.
Open Scope Z_scope.

(* ---- "returned to its pool exactly once, and only after every reference to it (copies
        from Ref, slices, splits, readers, materialized buffers) has been freed" ----
   In every state satisfying the invariant the number of Puts is 0 or 1, and it is 1 exactly
   when no member has an outside reference left. *)
Theorem C53_put_once : forall f, WF f ->
  (f_puts f = 0 \/ f_puts f = 1) /\ (f_puts f = 1 <-> forall m, urefs f m = 0).
Proof. exact put_once. Qed.
Print Assumptions C53_put_once.

(* ---- "while any reference is live it reads the original bytes" ----  A member with a
   reference is live (ReadOnlyData does not panic), the allocation has not been put, and its
   data is its window of the pooled array, which no operation changes (C53_operations). *)
Theorem C53_live_not_returned : forall f m, WF f -> 1 <= urefs f m ->
  m_live f m = true /\ f_live f = true /\ f_puts f = 0.
Proof. exact live_not_returned. Qed.
Print Assumptions C53_live_not_returned.

(* The invariant holds initially and after every sequence of Ref / Free / Slice / split /
   read operations in which each operation is applied to an object the caller holds a
   reference on; no such operation panics and the pooled bytes never change. *)
Theorem C53_new : forall bytes, WF (fam_new bytes) /\ urefs (fam_new bytes) O = 1.
Proof. intro bytes. split; [apply WF_new | reflexivity]. Qed.
Print Assumptions C53_new.

Theorem C53_operations : forall evs f, WF f -> owned f evs = true ->
  exists f', fam_run f evs = Some f' /\ WF f' /\ f_bytes f' = f_bytes f.
Proof. exact run_ok. Qed.
Print Assumptions C53_operations.

(* What each operation does to the outside reference counts. *)
Theorem C53_ref : forall f m, WF f -> 1 <= urefs f m ->
  exists f', fam_ref f m = Some f' /\ WF f' /\ f_puts f' = f_puts f /\ f_bytes f' = f_bytes f /\
             forall m', urefs f' m' = bump m 1 (urefs f) m'.
Proof. exact ref_spec. Qed.
Print Assumptions C53_ref.

Theorem C53_free : forall f m, WF f -> 1 <= urefs f m ->
  exists f', fam_free f m = Some f' /\ WF f' /\ f_bytes f' = f_bytes f /\
             forall m', urefs f' m' = bump m (-1) (urefs f) m'.
Proof. exact free_spec. Qed.
Print Assumptions C53_free.

Theorem C53_slice : forall f m s e, WF f -> 1 <= urefs f m ->
  exists f' r, fam_slice f m s e = Some (f', r) /\ WF f' /\ f_puts f' = f_puts f /\ f_bytes f' = f_bytes f /\
    match r with
    | SEmpty => forall m', urefs f' m' = urefs f m'
    | SSame => forall m', urefs f' m' = bump m 1 (urefs f) m'
    | SNew j => j = length (f_der f) /\ (forall m', urefs f' m' = bump (S j) 1 (urefs f) m') /\
                m_off f' (S j) = m_off f m + s /\ m_len f' (S j) = e - s
    end.
Proof. exact slice_spec. Qed.
Print Assumptions C53_slice.

Theorem C53_split : forall f m n, WF f -> 1 <= urefs f m ->
  exists f', fam_split f m n = Some (f', length (f_der f)) /\ WF f' /\ f_puts f' = f_puts f /\
    f_bytes f' = f_bytes f /\ (forall m', urefs f' m' = bump (S (length (f_der f))) 1 (urefs f) m').
Proof. exact split_spec. Qed.
Print Assumptions C53_split.

(* read returns exactly the first min(n, len) referenced bytes; consuming everything releases
   the reference *)
Theorem C53_read : forall f m n, WF f -> 1 <= urefs f m ->
  exists out f' c, fam_read f m n = Some (out, f', c) /\ WF f' /\ f_bytes f' = f_bytes f /\
    out = firstn (Z.to_nat (Z.min n (m_len f m))) (m_data f m) /\
    (forall m', urefs f' m' = if c then bump m (-1) (urefs f) m' else urefs f m').
Proof. exact read_spec. Qed.
Print Assumptions C53_read.

(* ---- "Buffers handed out by zeroing pools contain only zeros, Get(n) returns length n with
        capacity at least n" ----  for whatever buffer sync.Pool hands back *)
Theorem C53_sized_get : forall rec size dsize zero,
  0 <= size <= dsize -> (forall c, rec = Some c -> dsize <= zlen c) ->
  fst (sized_get rec size dsize zero) = size /\ size <= zlen (snd (sized_get rec size dsize zero)) /\
  (zero = true -> forallb (Z.eqb 0) (snd (sized_get rec size dsize zero)) = true).
Proof. exact sized_get_spec. Qed.
Print Assumptions C53_sized_get.

Theorem C53_simple_get : forall rec size zero, 0 <= size ->
  fst (simple_get rec size zero) = size /\ size <= zlen (snd (simple_get rec size zero)) /\
  (zero = true -> forallb (Z.eqb 0) (snd (simple_get rec size zero)) = true).
Proof. exact simple_get_spec. Qed.
Print Assumptions C53_simple_get.

(* the tier chosen for Get(n) is large enough *)
Theorem C53_tier : forall tiers n t, tier_for tiers n = Some t -> n <= t /\ In t tiers.
Proof. exact tier_for_spec. Qed.
Print Assumptions C53_tier.

(* ---- the whole heap: many allocations, a handle table (one handle = one owned reference), a
   reader table.  [cnt st i m] = number of live handles plus reader entries that reference
   member m of allocation i; [HI st] = every allocation satisfies WF and its outside
   reference counts are exactly these numbers.  Every operation is guarded as in the driver:
   it is executed only on a live handle (the caller owns that reference), otherwise skipped. *)
Theorem C53_heap_invariant : forall thr ops, HI (heap_exec (init thr) ops).
Proof. intros thr ops. apply heap_inv, HI_init. Qed.
Print Assumptions C53_heap_invariant.

(* "returned to its pool exactly once, and only after every reference to it has been freed":
   after every operation sequence each allocation has been put 0 or 1 times, and 1 exactly when
   no live handle and no reader references any of its buffer objects *)
Theorem C53_heap_put_once : forall thr ops i, let st := heap_exec (init thr) ops in
  (i < length (s_fams st))%nat ->
  (f_puts (get_fam st i) = 0 \/ f_puts (get_fam st i) = 1) /\
  (f_puts (get_fam st i) = 1 <-> forall m, cnt st i m = 0).
Proof. intros thr ops i st Hi. apply heap_put_once; [apply heap_inv, HI_init | exact Hi]. Qed.
Print Assumptions C53_heap_put_once.

(* the Put happens at the step that removes the last reference from the tables *)
Theorem C53_heap_put_step : forall st o i, HI st -> (i < length (s_fams st))%nat ->
  (In (Z.of_nat i) (puts_between st (fst (apply_op st o))) <->
   (~ (forall m, cnt st i m = 0)) /\ (forall m, cnt (fst (apply_op st o)) i m = 0)).
Proof. exact heap_put_step. Qed.
Print Assumptions C53_heap_put_step.

(* "while any reference is live it reads the original bytes" *)
Theorem C53_heap_live_reads : forall st f m, HI st -> 1 <= cnt st f m ->
  m_live (get_fam st f) m = true /\ f_puts (get_fam st f) = 0 /\
  h_data st (HBuf f m) = window (m_off (get_fam st f) m) (m_len (get_fam st f) m) (f_bytes (get_fam st f)).
Proof. exact heap_live_reads. Qed.
Print Assumptions C53_heap_live_reads.

(* the pooled array of an allocation is never modified by any operation sequence: together
   with C53_heap_live_reads, a live reference reads its window of the ORIGINAL bytes *)
Theorem C53_heap_bytes_unchanged : forall st ops i, (i < length (s_fams st))%nat ->
  f_bytes (get_fam (heap_exec st ops) i) = f_bytes (get_fam st i).
Proof. exact heap_bytes_unchanged. Qed.
Print Assumptions C53_heap_bytes_unchanged.

(* The executable predicate that is evaluated on implementation traces holds on every trace
   of the model (whole heap: many allocations, handles, readers), for every operation list. *)
Theorem C53_holds_on_every_model_trace : forall cfg ops, wf cfg ops = true ->
  exists obs, run cfg ops = Some obs /\ holds_b cfg ops obs = true.
Proof. exact model_trace_holds. Qed.
Print Assumptions C53_holds_on_every_model_trace.

(* non-vacuity: NewBuffer(9 bytes), split at 4, Ref the right part, free root handle (no
   put: the derived object is live), read it, free both references: put exactly then *)
Example C53_witness :
  wf [1; 4] [[1;9;10]; [6;0;4]; [3;1]; [4;0]; [8;1]; [4;1]; [4;2]] = true /\
  run [1; 4] [[1;9;10]; [6;0;4]; [3;1]; [4;0]; [8;1]; [4;1]; [4;2]]
  = Some [[0;0;2;0;9;0]; [0;0;2;0;5;0]; [0;0;2;0;5;0]; [0;0;0;0];
          [0;0;0;5;14;15;16;17;18]; [0;0;0;0]; [0;1;0;0;0]] /\
  owned (fam_new [1;2;3;4;5;6;7;8;9]) [ESplit 0 4; ERef 1; EFree 0; ERead 1 2; EFree 1; EFree 1] = true /\
  option_map f_puts (fam_run (fam_new [1;2;3;4;5;6;7;8;9]) [ESplit 0 4; ERef 1; EFree 0; ERead 1 2; EFree 1; EFree 1]) = Some 1 /\
  option_map f_puts (fam_run (fam_new [1;2;3;4;5;6;7;8;9]) [ESplit 0 4; ERef 1; EFree 0; ERead 1 2; EFree 1]) = Some 0 /\
  run [2; 0; 64; 8] [[1;5]; [1;9]; [2;0]; [1;100]] = Some [[5;8;1]; [9;64;1]; []; [100;-1;1]].
Proof. vm_compute. repeat split. Qed.
