(* C38: weighted random choice, drops and circuit breaking are exact.
   Theorems only; each is closed by [exact] of a lemma from proof/WRand_proofs.v. *)
From Coq Require Import List ZArith Bool.
From VLib Require Import Codec Machine.
From VModel Require Import WRand.
From VProof Require Import WRand_proofs.
From VProof Require WRandQ_proofs.
Import ListNotations.
Open Scope Z_scope.

(* [adj_eq] (the equalWeights flag maintained by Add) means: all weights are equal. *)
Theorem C38_equal_weights_flag : forall ws,
  adj_eq ws = true <-> (forall x, In x ws -> x = hd 0 ws).
Proof. exact adj_eq_all. Qed.
Print Assumptions C38_equal_weights_flag.

(* Weighted random selector, weights not all equal: for every value r of the random source
   (reduced into [0, total)), Next (sort.Search over the accumulated weights) returns the
   item whose cumulative interval contains r ... *)
Theorem C38_random_interval : forall ws r, nonneg ws -> adj_eq ws = false ->
  let rr := rsrc r (sumz ws) in
  let i := Z.to_nat (rw_next ws r) in
  0 <= rw_next ws r < zlen ws /\
  sumz (firstn i ws) <= rr < sumz (firstn i ws) + nth i ws 0.
Proof. exact rw_next_interval. Qed.
Print Assumptions C38_random_interval.

(* ... hence item i is returned for exactly w_i of the total = sum(ws) values of the random
   source: probability exactly weight / total weight, for every weight list ... *)
Theorem C38_random_exact : forall ws i, nonneg ws -> adj_eq ws = false -> (i < length ws)%nat ->
  cnt (Z.of_nat i) (map (rw_next ws) (zrange (sumz ws))) = nth i ws 0.
Proof. exact rw_exact. Qed.
Print Assumptions C38_random_exact.

(* ... a zero-weight item is never returned unless all weights are equal ... *)
Theorem C38_random_never_zero_weight : forall ws r, nonneg ws -> adj_eq ws = false ->
  0 < nthz ws (rw_next ws r).
Proof. exact rw_never_zero. Qed.
Print Assumptions C38_random_never_zero_weight.

(* ... and when all weights are equal every item is returned for exactly 1 of the n values. *)
Theorem C38_random_uniform_when_equal : forall ws i, adj_eq ws = true -> (i < length ws)%nat ->
  cnt (Z.of_nat i) (map (rw_next ws) (zrange (zlen ws))) = 1.
Proof. exact rw_uniform. Qed.
Print Assumptions C38_random_uniform_when_equal.

(* Drops: requests-per-million of a category = floor(num*10^6/den) capped at 10^6 (100%),
   for all uint32 numerators and non-zero denominators (numerator > denominator included). *)
Theorem C38_drop_rpm : forall num den, 0 <= num < 2 ^ 32 -> 0 < den < 2 ^ 32 ->
  rpm_of num den = Z.min (num * million / den) million.
Proof. exact rpm_of_spec. Qed.
Print Assumptions C38_drop_rpm.

(* The gcd loop of newDropper terminates within the model's fuel and is the gcd. *)
Theorem C38_gcd : forall a, 0 <= a -> gcd_go a million = Z.gcd a million.
Proof. exact gcd_go_spec. Qed.
Print Assumptions C38_gcd.

(* The dropper built by newDropper (gcd reduction, two-item random WRR) is, for every value of
   its random source, the threshold rule [drop_spec]: b = 10^6/gcd values, true below rpm/gcd. *)
Theorem C38_drop_is_threshold : forall rpm r, 0 <= rpm <= million -> drop rpm r = drop_spec rpm r.
Proof. exact drop_eq_spec. Qed.
Print Assumptions C38_drop_is_threshold.

(* It returns true for exactly rpm/gcd of the b = 10^6/gcd values: exactly the fraction rpm/10^6. *)
Theorem C38_drop_exact : forall rpm, 0 <= rpm <= million ->
  let b := million / Z.gcd rpm million in
  cntf (drop rpm) (zrange b) = rpm / Z.gcd rpm million /\
  cntf (drop rpm) (zrange b) * million = rpm * b.
Proof. exact drop_exact. Qed.
Print Assumptions C38_drop_exact.

(* picker.Pick: a category drop happens only while the child is READY (st = 2); a
   circuit-breaker drop (2) iff in-flight >= max; admission (0) only below max. *)
Theorem C38_pick : forall rpms c st mx fail rs, cb_inv c -> 0 <= mx < 2 ^ 32 ->
  let c' := fst (pick rpms c st mx fail rs) in
  let res := snd (pick rpms c st mx fail rs) in
  cb_inv c' /\
  (res = 0 -> cb_out c < mx /\ cb_out c' = cb_out c + 1) /\
  (res = 2 -> mx <= cb_out c /\ c' = c) /\
  (res <> 0 -> cb_out c' = cb_out c) /\
  (res = 0 \/ res = 2 \/ res = 3 \/
   exists j, res = 10 + j /\ st = 2 /\ first_drop 0 rpms rs = Some j).
Proof. exact pick_inv. Qed.
Print Assumptions C38_pick.

(* Circuit breaking over all sequences of picks and RPC completions: the uint32 counter
   always equals the number of admitted RPCs whose Done has not run (so it is zero when
   all admitted RPCs have finished) and, with limits <= M, never exceeds M. *)
Theorem C38_circuit : forall rpms ops c c', cb_inv c -> forallb op_wf ops = true ->
  final rpms c ops = Some c' ->
  cb_num c' = cb_out c' /\ 0 <= cb_out c' /\
  (forall M, 0 <= M -> cb_out c <= M -> picks_max M ops = true -> cb_out c' <= M).
Proof. exact circuit_breaking. Qed.
Print Assumptions C38_circuit.

(* EDF selector, exact-arithmetic model (deadlines (c_i+1)/w_i as exact rationals, ties to the
   item added first): Next returns an item with the least deadline ... *)
Theorem C38_edf_q_next_is_earliest_deadline : forall cs ws,
  length cs = length ws -> cs <> [] -> Forall (fun w => 0 < w) ws -> Forall (fun c => 0 <= c) cs ->
  let m := Z.to_nat (q_next cs ws) in
  0 <= q_next cs ws /\ (m < length cs)%nat /\
  forall k, (k < length cs)%nat ->
    (nth m cs 0 + 1) * nth k ws 0 <= (nth k cs 0 + 1) * nth m ws 0.
Proof. exact WRandQ_proofs.q_next_spec. Qed.
Print Assumptions C38_edf_q_next_is_earliest_deadline.

(* ... and for all positive weights the first k*W picks (W = sum of the weights) contain item i
   exactly k*w_i times: items are returned in exact proportion to their weights.
   The float64 implementation (edfWrr: deadline += 1.0/float64(w)) is modelled bit-exactly
   ([edf_run], PrimFloat) and compared with the real code on every run; rounding of 1/w and of
   the running sums can move a pick across the k*W boundary, so for it the statement is
   evaluated on traces with a slack of one pick (clause 4: |count_i - k*w_i| <= 1). *)
Theorem C38_edf_q : forall ws k, Forall (fun w => 0 < w) ws -> ws <> [] -> 0 <= k ->
  q_run (Z.to_nat (k * sumz ws)) (map (fun _ => 0) ws) ws = map (Z.mul k) ws.
Proof. exact WRandQ_proofs.edf_q_exact. Qed.
Print Assumptions C38_edf_q.

(* The executable predicate evaluated on implementation traces (all clauses except the
   float64 EDF clause 4, which is checked on traces only) holds on every model trace. *)
Theorem C38_holds_on_every_model_trace : forall cfg ops,
  cfg_wf cfg = true -> forallb op_wf ops = true ->
  exists obs, run cfg ops = Some obs /\ holds_b cfg ops obs = true.
Proof. exact model_trace_holds. Qed.
Print Assumptions C38_holds_on_every_model_trace.

(* non-vacuity: weights [2;0;3] (item 1 never returned), a 25% dropper (1 of 4 values), a
   150% overload capped at 100%, and a circuit breaker with max 1 / 2 *)
Example C38_witness :
  let cfg := [30; 100; 0; 100] in
  let ops := [[1; 2; 0; 3]; [2; 4; 2; 0; 3]; [3; 25; 100]; [4; 150; 100; 7]; [5; 2; 1; 0; 5; 0];
              [5; 2; 1; 0; 5; 0]; [5; 2; 1; 0; 1; 0]; [5; 1; 2; 0]; [6]; [6]; [5; 2; 1; 1; 5; 0];
              [7; 8; 3; 1]] in
  cfg_wf cfg = true /\ forallb op_wf ops = true /\
  run cfg ops = Some [[5; 0; 0; 2; 2; 2]; [5; 2]; [250000; 4; 1; 0; 0; 0]; [1000000; 1; 1]; [0; 1; 0; 2];
                      [2; 1; 1; 2]; [10; 1; 1; 1]; [0; 2; 0; 0]; [1]; [0]; [3; 0; 0; 2]; [0; 0; 0; 1; 0; 0; 0; 1]] /\
  final [300000; 0] cb0 ops = Some cb0.
Proof. vm_compute. repeat split. Qed.
