(* C18: retries are bounded, policy-driven and replay the exact request.
   Theorems only; each is closed by [exact] of a lemma from proof/Retry_proofs.v.
   Model: coq/model/Retry.v.  [should_retry f] is csAttempt.shouldRetry as a function of the
   facts it reads (record [facts]); [rpc_attempts p sizes scs] is the list of attempts of one
   RPC (application: send the messages [sizes], half-close, receive) against per-attempt
   server scripts [scs] under policy [p] (maxAttempts, channel limit, retryable codes, replay
   buffer limit). *)
From Coq Require Import List ZArith Bool.
From VLib Require Import Codec.
From VModel Require Import Retry.
From VProof Require Import Retry_proofs.
Import ListNotations.
Open Scope Z_scope.

(* "An RPC is retried only while uncommitted" (nor finished, nor dropped by the picker) *)
Theorem C18_only_uncommitted : forall f, should_retry f <> NoRetry ->
  f_finished f = false /\ f_committed f = false /\ f_drop f = false.
Proof. exact retry_only_uncommitted. Qed.
Print Assumptions C18_only_uncommitted.

(* "only if the failed attempt received no response headers and ended with a code in the
   retry policy, and only if throttling allows it" (+ retries enabled, no aborting
   pushback), and below the attempt limit *)
Theorem C18_retry_requirements : forall f, should_retry f = Retry ->
  f_disable_retry f = false /\
  (f_has_stream f = true -> f_trailers_only f = true /\ f_pushback f <> 2 /\ f_pushback f <> 3) /\
  f_has_policy f = true /\ f_code_in_policy f = true /\ f_throttled f = false /\
  f_num_retries f + 1 < f_max_attempts f.
Proof. exact retry_requirements. Qed.
Print Assumptions C18_retry_requirements.

(* "Transparent retries happen only for attempts the server never processed (refused, above
   a GOAWAY id, or never sent)": no stream was created and the transport allows it, or the
   first attempt's stream is reported unprocessed *)
Theorem C18_transparent_only_unprocessed : forall f, should_retry f = Transparent ->
  (f_has_stream f = false /\ f_allow_transparent f = true) \/
  (f_first_attempt f = true /\ f_has_stream f = true /\ f_unprocessed f = true).
Proof. exact transparent_only_unprocessed. Qed.
Print Assumptions C18_transparent_only_unprocessed.

(* "the number of non-transparent attempts never exceeds the effective maximum (policy
   value capped by the channel limit)", for all scripts and message lists *)
Theorem C18_attempt_bound : forall p sizes scs, 2 <= eff_max p ->
  Z.of_nat (length (rpc_attempts p sizes scs)) <= Z.min (p_max p) (p_chan_max p).
Proof. exact attempt_bound. Qed.
Print Assumptions C18_attempt_bound.

(* "Every retry attempt sends the server exactly the same sequence of messages and
   half-close as the application produced so far": attempt i is numbered i and what its
   handler reads is a prefix of the application's messages, in order (min(r, m) of them),
   followed by the half-close exactly when it reads past the last message *)
Theorem C18_replay_exact : forall p sizes scs i a, nth_error (rpc_attempts p sizes scs) i = Some a ->
  a_prev a = Z.of_nat i /\
  (exists rest, sizes = firstn (Z.to_nat (a_recv a)) sizes ++ rest) /\
  a_recv a = Z.min (s_r (a_sc a)) (Z.of_nat (length sizes)) /\
  (a_eof a = true <-> Z.of_nat (length sizes) < s_r (a_sc a)).
Proof. exact replay_exact. Qed.
Print Assumptions C18_replay_exact.

(* every attempt that was followed by another one: replay buffer not exceeded, no response
   headers (trailers-only), code in the policy, no aborting pushback, below the limit *)
Theorem C18_retried_attempts_were_retryable : forall p sizes scs i a,
  Forall (fun s => script_ok s = true) scs ->
  nth_error (rpc_attempts p sizes scs) i = Some a -> (S i < length (rpc_attempts p sizes scs))%nat ->
  first_overflows p sizes = false /\ s_act (a_sc a) = 0 /\ in_codes p (s_code (a_sc a)) = true /\
  (s_pb (a_sc a) = 0 \/ s_pb (a_sc a) = 1) /\ Z.of_nat i + 1 < eff_max p.
Proof. exact retried_attempts_were_retryable. Qed.
Print Assumptions C18_retried_attempts_were_retryable.

(* "no retry happens once ... the replay buffer limit was exceeded" *)
Theorem C18_no_retry_after_buffer_overflow : forall p sizes scs, first_overflows p sizes = true ->
  length (rpc_attempts p sizes scs) = 1%nat.
Proof. exact committed_rpc_not_retried. Qed.
Print Assumptions C18_no_retry_after_buffer_overflow.

(* concurrent use (SendMsg running while RecvMsg retries): when the SendMsg of message j is
   overtaken by a retry performed by a concurrent RecvMsg, every attempt must still receive
   exactly what it receives in the sequential schedule (withRetry re-issues the message on the
   new attempt) - the model gives both schedules the same trace, and the driver replays the
   overtaken-send schedule on the real code (op form [0; j; ...]) *)
Theorem C18_held_send_same_as_sequential : forall p j op o,
  run_op p (0 :: j :: op) = Some o -> run_op p op = Some o.
Proof. exact held_send_same. Qed.
Print Assumptions C18_held_send_same_as_sequential.

(* The executable predicate evaluated on implementation traces holds on every model trace. *)
Theorem C18_holds_on_every_model_trace : forall cfg ops p, dec_cfg cfg = Some p -> forallb (op_wf p) ops = true ->
  exists obs, run cfg ops = Some obs /\ holds_b cfg ops obs = true.
Proof. exact model_trace_holds. Qed.
Print Assumptions C18_holds_on_every_model_trace.

(* non-vacuity: policy maxAttempts 4 (channel 5), codes {14, 8}: three retryable failures then
   success = 4 attempts; five failures are cut at 4 attempts *)
Example C18_witness :
  run [4; 5; 64; 2; 14; 8] [[1; 3; 3; 1;0;14;0; 1;0;8;1; 1;0;14;0];
                             [1; 3; 5; 1;0;14;0; 1;0;14;0; 1;0;14;0; 1;0;14;0; 1;0;14;0]] =
    Some [[4; 0;1;1;0; 1;1;1;0; 2;1;1;0; 3;1;1;0; 0; 1]; [4; 0;1;1;0; 1;1;1;0; 2;1;1;0; 3;1;1;0; 14; 0]] /\
  (exists p, dec_cfg [4; 5; 64; 2; 14; 8] = Some p /\ op_wf p [1; 3; 3; 1;0;14;0; 1;0;8;1; 1;0;14;0] = true /\
     run_op p [0; 2; 2; 1; 1; 2; 2;0;14;0; 3;2;1;0] = Some [2; 0;2;1;0; 1;2;1;1; 0; 1]).
Proof. vm_compute. split; [reflexivity|]. eexists. split; [reflexivity|split; reflexivity]. Qed.
