(* C18: retries are bounded, policy-driven and replay the exact request.
   Theorems only; each is closed by [exact] of a lemma from proof/Retry_proofs.v.
   Model: coq/model/Retry.v.  [should_retry f] is csAttempt.shouldRetry as a function of the
   facts it reads (record [facts]); [rpc_attempts p sizes scs] is the list of attempts of one
   RPC (application: send the messages [sizes], half-close, receive; every transport write
   followed by quiescence) against per-attempt server scripts [scs] under policy [p]
   (maxAttempts, channel limit, retryable codes, replay buffer limit).  A script reads r
   messages and then fails before headers (act 0), fails after headers (1) or replies (2), or
   never processes the stream: RST_STREAM(REFUSED_STREAM) (act 3) / GOAWAY with a
   last-stream-id below the stream (act 4).  For an attempt [a]: [a_prev] = its
   grpc-previous-rpc-attempts, [a_recv]/[a_eof] = what its handler received, [a_sent] = how many
   messages the application had produced when it started, [sent_after m (a_sent a) (a_sc a)] =
   how many when its failure was noticed, [over p sizes n] = the replay buffer limit is exceeded
   by the first n messages (cs.committed by bufferForRetryLocked); [scs_ok scs] = every script is
   well-formed ([script_ok]: r >= 1, act 0..4, code 1..16, pushback kind 0..3). *)
From Coq Require Import List ZArith Bool.
From VLib Require Import Codec.
From VModel Require Import Retry.
From VProof Require Import Retry_proofs.
Import ListNotations.
Open Scope Z_scope.

(* "An RPC is retried only while uncommitted" (nor finished, nor dropped by the picker) *)
Theorem C18_only_uncommitted : forall f, should_retry f <> NoRetry ->
  f_finished f = false /\ f_committed f = false /\ f_drop f = false.
Proof. exact retry_only_uncommitted. Qed.
Print Assumptions C18_only_uncommitted.

(* "only if the failed attempt received no response headers and ended with a code in the
   retry policy, and only if throttling allows it" (+ retries enabled, no aborting
   pushback), and below the attempt limit *)
Theorem C18_retry_requirements : forall f, should_retry f = Retry ->
  f_disable_retry f = false /\
  (f_has_stream f = true -> f_trailers_only f = true /\ f_pushback f <> 2 /\ f_pushback f <> 3) /\
  f_has_policy f = true /\ f_code_in_policy f = true /\ f_throttled f = false /\
  f_num_retries f + 1 < f_max_attempts f.
Proof. exact retry_requirements. Qed.
Print Assumptions C18_retry_requirements.

(* "Transparent retries happen only for attempts the server never processed (refused, above
   a GOAWAY id, or never sent)": no stream was created and the transport allows it, or the
   first attempt's stream is reported unprocessed *)
Theorem C18_transparent_only_unprocessed : forall f, should_retry f = Transparent ->
  (f_has_stream f = false /\ f_allow_transparent f = true) \/
  (f_first_attempt f = true /\ f_has_stream f = true /\ f_unprocessed f = true).
Proof. exact transparent_only_unprocessed. Qed.
Print Assumptions C18_transparent_only_unprocessed.

(* ---- one RPC, all scripts (including REFUSED_STREAM / GOAWAY entries) and message lists ---- *)

(* "the number of non-transparent attempts never exceeds the effective maximum (policy
   value capped by the channel limit)": at most that many attempts, plus the one uncounted
   transparent retry when the first attempt's stream was unprocessed ... *)
Theorem C18_attempt_bound : forall p sizes scs, scs_ok scs -> 2 <= eff_max p ->
  Z.of_nat (length (rpc_attempts p sizes scs)) <=
    Z.min (p_max p) (p_chan_max p) + (if unproc (hd_script scs) then 1 else 0).
Proof. exact attempt_bound. Qed.
Print Assumptions C18_attempt_bound.

(* ... and the count of non-transparent attempts made so far, which every attempt carries as
   grpc-previous-rpc-attempts, stays below the maximum: it starts at 0 and grows by exactly one
   per retry, except for a transparent retry, which can only follow attempt number 0 *)
Theorem C18_counted_attempts_bound : forall p sizes scs a, scs_ok scs -> 2 <= eff_max p ->
  In a (rpc_attempts p sizes scs) -> 0 <= a_prev a /\ a_prev a + 1 <= eff_max p.
Proof. exact counted_attempts_bound. Qed.
Print Assumptions C18_counted_attempts_bound.

Theorem C18_first_attempt_number : forall p sizes scs a,
  nth_error (rpc_attempts p sizes scs) 0 = Some a -> a_prev a = 0.
Proof. exact first_attempt_number. Qed.
Print Assumptions C18_first_attempt_number.

Theorem C18_attempt_numbering : forall p sizes scs i a b, scs_ok scs ->
  nth_error (rpc_attempts p sizes scs) i = Some a -> nth_error (rpc_attempts p sizes scs) (S i) = Some b ->
  a_prev b = a_prev a + 1 \/
  (a_prev b = a_prev a /\ i = 0%nat /\ unproc (a_sc a) = true /\ over p sizes (a_sent a) = false).
Proof. exact attempt_numbering. Qed.
Print Assumptions C18_attempt_numbering.

(* "Transparent retries happen only for attempts the server never processed (refused, above a
   GOAWAY id ...)": a retry that is not counted follows only the RPC's first attempt, whose
   stream was answered by REFUSED_STREAM or lies above the GOAWAY id - its handler received
   nothing - and nothing was committed *)
Theorem C18_transparent_retry_only_unprocessed : forall p sizes scs i a b, scs_ok scs ->
  nth_error (rpc_attempts p sizes scs) i = Some a -> nth_error (rpc_attempts p sizes scs) (S i) = Some b ->
  a_prev b = a_prev a ->
  i = 0%nat /\ (s_act (a_sc a) = 3 \/ s_act (a_sc a) = 4) /\ a_recv a = 0 /\ a_eof a = false /\
  over p sizes (a_sent a) = false.
Proof. exact transparent_retry_only_unprocessed. Qed.
Print Assumptions C18_transparent_retry_only_unprocessed.

(* and it is not counted against maxAttempts: an unprocessed first attempt is always followed
   by an attempt that again carries grpc-previous-rpc-attempts = 0 (later unprocessed streams
   are ordinary UNAVAILABLE failures, see C18_retried_attempts_were_retryable) *)
Theorem C18_unprocessed_first_attempt_retried_uncounted : forall p sizes scs, scs_ok scs ->
  0 <= p_buf_limit p -> unproc (hd_script scs) = true ->
  exists a b, nth_error (rpc_attempts p sizes scs) 0 = Some a /\ nth_error (rpc_attempts p sizes scs) 1 = Some b /\
              a_prev a = 0 /\ a_prev b = 0 /\ a_first b = false.
Proof. exact unprocessed_first_attempt_retried_uncounted. Qed.
Print Assumptions C18_unprocessed_first_attempt_retried_uncounted.

(* "Every retry attempt sends the server exactly the same sequence of messages and
   half-close as the application produced so far": attempt i is served by script i and what its
   handler reads is a prefix of the application's messages, in order (min(r, m) of them),
   followed by the half-close exactly when it reads past the last message; an unprocessed
   stream's handler reads nothing *)
Theorem C18_replay_exact : forall p sizes scs i a, scs_ok scs -> nth_error (rpc_attempts p sizes scs) i = Some a ->
  a_sc a = hd_script (skipn i scs) /\
  (exists rest, sizes = firstn (Z.to_nat (a_recv a)) sizes ++ rest) /\
  (unproc (a_sc a) = false ->
     a_recv a = Z.min (s_r (a_sc a)) (Z.of_nat (length sizes)) /\
     (a_eof a = true <-> Z.of_nat (length sizes) < s_r (a_sc a))) /\
  (unproc (a_sc a) = true -> a_recv a = 0 /\ a_eof a = false) /\
  a_sent a = sent_upto (Z.of_nat (length sizes)) scs i 0.
Proof. exact replay_exact. Qed.
Print Assumptions C18_replay_exact.

(* every attempt that was followed by another one: replay buffer limit not exceeded by any
   message produced until its failure was noticed, and either it was attempt 0 with an
   unprocessed stream (transparent), or: no response headers (unprocessed = UNAVAILABLE, or
   trailers-only), code in the policy, no aborting pushback, below the limit *)
Theorem C18_retried_attempts_were_retryable : forall p sizes scs i a, scs_ok scs ->
  nth_error (rpc_attempts p sizes scs) i = Some a -> (S i < length (rpc_attempts p sizes scs))%nat ->
  over p sizes (sent_after (Z.of_nat (length sizes)) (a_sent a) (a_sc a)) = false /\
  ((i = 0%nat /\ unproc (a_sc a) = true) \/
   (unproc (a_sc a) = true /\ in_codes p 14 = true /\ a_prev a + 1 < eff_max p) \/
   (s_act (a_sc a) = 0 /\ in_codes p (s_code (a_sc a)) = true /\
    (s_pb (a_sc a) = 0 \/ s_pb (a_sc a) = 1) /\ a_prev a + 1 < eff_max p)).
Proof. exact retried_attempts_were_retryable. Qed.
Print Assumptions C18_retried_attempts_were_retryable.

(* "no retry happens once ... the replay buffer limit was exceeded" - at any message *)
Theorem C18_no_retry_after_buffer_overflow : forall p sizes scs i a, scs_ok scs ->
  nth_error (rpc_attempts p sizes scs) i = Some a ->
  over p sizes (sent_after (Z.of_nat (length sizes)) (a_sent a) (a_sc a)) = true ->
  length (rpc_attempts p sizes scs) = S i.
Proof. exact committed_rpc_not_retried. Qed.
Print Assumptions C18_no_retry_after_buffer_overflow.

(* "An RPC is retried only while uncommitted": an RPC the application committed before sending
   anything (ClientStream.Context(); op form [-1; ...], modelled as buffer limit -1 = exceeded
   from the start) makes exactly one attempt, whatever the server does - also when its stream
   was unprocessed *)
Theorem C18_application_commit_never_retried : forall p sizes scs, scs_ok scs ->
  Forall (fun s => 0 <= s) sizes -> p_buf_limit p < 0 -> length (rpc_attempts p sizes scs) = 1%nat.
Proof. exact precommitted_never_retried. Qed.
Print Assumptions C18_application_commit_never_retried.

(* "no retry happens once a response header or message was delivered" *)
Theorem C18_no_retry_after_response : forall p sizes scs i a, scs_ok scs ->
  nth_error (rpc_attempts p sizes scs) i = Some a -> s_act (a_sc a) = 1 \/ s_act (a_sc a) = 2 ->
  length (rpc_attempts p sizes scs) = S i.
Proof. exact response_commits. Qed.
Print Assumptions C18_no_retry_after_response.

(* concurrent use (SendMsg running while RecvMsg retries): when the SendMsg of message j is
   overtaken by a retry performed by a concurrent RecvMsg, every attempt must still receive
   exactly what it receives in the sequential schedule (withRetry re-issues the message on the
   new attempt) - the model gives both schedules the same attempts (count, numbers, messages,
   half-close), and the driver replays the overtaken-send schedule on the real code (op form
   [0; j; ...]) *)
Theorem C18_held_send_same_as_sequential : forall p j op sizes scs,
  dec_op (0 :: j :: op) = Some (sizes, scs) ->
  dec_op op = Some (sizes, scs) /\
  forall o, run_op p (0 :: j :: op) = Some o ->
    exists o', run_op p op = Some o' /\
      firstn (S (4 * length (rpc_attempts p sizes scs))) o = firstn (S (4 * length (rpc_attempts p sizes scs))) o'.
Proof. exact held_send_same. Qed.
Print Assumptions C18_held_send_same_as_sequential.

(* The executable predicate evaluated on implementation traces holds on every model trace. *)
Theorem C18_holds_on_every_model_trace : forall cfg ops p, dec_cfg cfg = Some p -> forallb (op_wf p) ops = true ->
  exists obs, run cfg ops = Some obs /\ holds_b cfg ops obs = true.
Proof. exact model_trace_holds. Qed.
Print Assumptions C18_holds_on_every_model_trace.

(* NOTE, not part of C18's text (it does not speak about the status the application sees): a
   retry attempt created by RecvMsg that fails while its replay is still writing makes RecvMsg
   return the replayed SendMsg's io.EOF - a clean end of stream without reply although the last
   attempt ended with UNAVAILABLE after response headers (reproduced by the driver on the real
   code, case 0; the model follows the code, see [final_of]) *)
Theorem C18_note_replay_eof_masks_status :
  exists p, dec_cfg [4; 5; 64; 2; 14; 8] = Some p /\
    run_op p [2; 3; 4; 2; 3;0;14;0; 1;1;14;0] = Some [2; 0;2;1;1; 1;1;1;0; 0; 0] /\
    final_of p true 2 false 1 2 (mksc 1 1 14 0) = (0, 0) /\ std_code (mksc 1 1 14 0) = 14.
Proof. exact note_replay_eof_masks_status. Qed.
Print Assumptions C18_note_replay_eof_masks_status.

(* non-vacuity: policy maxAttempts 4 (channel 5), codes {14, 8}, buffer limit 64:
   three retryable failures then success = 4 attempts; five failures are cut at 4 attempts;
   REFUSED_STREAM then one counted failure then success = 3 attempts numbered 0, 0, 1;
   REFUSED_STREAM + five failures = 5 attempts numbered 0, 0, 1, 2, 3;
   three 25-byte messages: the third exceeds the limit, so the second failure is final;
   the held-send schedule *)
Example C18_witness :
  run [4; 5; 64; 2; 14; 8] [[1; 3; 3; 1;0;14;0; 1;0;8;1; 1;0;14;0];
                             [1; 3; 5; 1;0;14;0; 1;0;14;0; 1;0;14;0; 1;0;14;0; 1;0;14;0];
                             [1; 3; 2; 1;3;14;0; 1;0;14;0];
                             [1; 3; 5; 1;3;14;0; 1;0;14;0; 1;0;14;0; 1;0;14;0; 1;0;14;0];
                             [3; 20;20;20; 3; 2;0;14;0; 3;0;14;0; 1;0;14;0]] =
    Some [[4; 0;1;1;0; 1;1;1;0; 2;1;1;0; 3;1;1;0; 0; 1]; [4; 0;1;1;0; 1;1;1;0; 2;1;1;0; 3;1;1;0; 14; 0];
          [3; 0;0;1;0; 0;1;1;0; 1;1;1;0; 0; 1]; [5; 0;0;1;0; 0;1;1;0; 1;1;1;0; 2;1;1;0; 3;1;1;0; 14; 0];
          [2; 0;2;1;0; 1;3;1;0; 14; 0]] /\
  (exists p, dec_cfg [4; 5; 64; 2; 14; 8] = Some p /\ op_wf p [1; 3; 3; 1;0;14;0; 1;0;8;1; 1;0;14;0] = true /\
     op_wf p [1; 3; 2; 1;4;14;0; 1;3;14;0] = true /\
     run_op p [-1; 1; 3; 2; 1;3;14;0; 1;0;14;0] = Some [1; 0;0;1;0; 14; 0] /\
     run_op p [0; 2; 2; 1; 1; 2; 2;0;14;0; 3;2;1;0] = Some [2; 0;2;1;0; 1;2;1;1; 0; 1]).
Proof. vm_compute. split; [reflexivity|]. eexists. split; [reflexivity|repeat split; reflexivity]. Qed.
