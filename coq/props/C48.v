(* C48: RBAC and authz policies are enforced exactly as written.
   Theorems only; each is closed by [exact] of a lemma from proof/RBAC_proofs.v.
   [matches d r] is "the matcher built from permission/principal r matches request d"
   (mmatch d r = true, the transcription of matcher.match). *)
From Coq Require Import List ZArith Bool Permutation.
From VLib Require Import Codec Machine.
From VModel Require Import RBAC.
From VProof Require Import RBAC_proofs.
Import ListNotations.
Open Scope Z_scope.

(* ---- "a policy matches ... under and/or/not/any": policy trees of ANY depth ---- *)
Theorem C48_and : forall d l, matches d (RAnd l) <-> Forall (matches d) l.
Proof. exact match_and. Qed.
Print Assumptions C48_and.

Theorem C48_or : forall d l, matches d (ROr l) <-> Exists (matches d) l.
Proof. exact match_or. Qed.
Print Assumptions C48_or.

Theorem C48_not : forall d r, matches d (RNot r) <-> ~ matches d r.
Proof. exact match_not. Qed.
Print Assumptions C48_not.

Theorem C48_any : forall d, matches d RAny.
Proof. exact match_any. Qed.
Print Assumptions C48_any.

(* ---- "... header, path, CIDR, port and authenticated-principal rules" ---- *)
(* an absent header matches nothing but (the inverted form of) present_match *)
Theorem C48_header_absent : forall md n h inv, value_from_md md n = None ->
  header_match md n h inv = match h with HPresent b => negb (xorb b inv) | _ => false end.
Proof. exact header_absent. Qed.
Print Assumptions C48_header_absent.

(* a present header is tested on its comma-joined value; invert flips the result *)
Theorem C48_header_present : forall md n h inv vs, md_get n md = Some vs ->
  header_match md n h inv =
  match h with
  | HPresent b => Bool.eqb (nonempty (join vs)) (xorb b inv)
  | _ => xorb (hs_value h (join vs)) inv
  end.
Proof. intros md n h inv vs H. exact (header_present md n h inv (join vs) (header_value_joined md n vs H)). Qed.
Print Assumptions C48_header_present.

Theorem C48_path : forall d m, matches d (RPath m) <-> sm_match m (r_path d) = true.
Proof. exact match_path. Qed.
Print Assumptions C48_path.

Theorem C48_port : forall d p, matches d (RDestPort p) <-> r_dport d = p.
Proof. exact match_port. Qed.
Print Assumptions C48_port.

(* CIDR membership: same address family and inside the aligned block of
   2^(bits - prefix_len) addresses that contains the configured address *)
Theorem C48_cidr : forall c a, cidr_valid c = true ->
  let size := 2 ^ (bits_of (c_fam c) - c_len c) in
  let base := c_val c - c_val c mod size in
  cidr_contains c a = true <-> (fst a = c_fam c /\ base <= snd a < base + size).
Proof. exact cidr_range. Qed.
Print Assumptions C48_cidr.

(* authenticated principal: TLS, and some identity matches, where the identities
   are the URI SANs if any, else the DNS SANs if any, else the subject
   (and the empty string when no certificate was presented) *)
Theorem C48_authenticated : forall d sm,
  matches d (RAuth (Some sm)) <->
  r_tls d = true /\ Exists (fun id => sm_match sm id = true) (identities d).
Proof. exact match_authenticated. Qed.
Print Assumptions C48_authenticated.

Theorem C48_authenticated_unset : forall d, matches d (RAuth None) <-> r_tls d = true.
Proof. exact match_authenticated_any. Qed.
Print Assumptions C48_authenticated_unset.

Theorem C48_identity_precedence : forall d c, r_cert d = Some c ->
  (ct_uris c <> [] -> identities d = ct_uris c) /\
  (ct_uris c = [] -> ct_dns c <> [] -> identities d = ct_dns c) /\
  (ct_uris c = [] -> ct_dns c = [] -> identities d = [ct_subject c]).
Proof.
  intros d c H. split; [|split].
  - exact (identities_uri d c H).
  - exact (identities_dns d c H).
  - exact (identities_subject d c H).
Qed.
Print Assumptions C48_identity_precedence.

(* ---- "a policy matches when one of its permissions and one of its principals match" ---- *)
Theorem C48_policy : forall d p,
  policy_match d p = true <-> Exists (matches d) (p_perms p) /\ Exists (matches d) (p_princs p).
Proof. exact policy_match_spec. Qed.
Print Assumptions C48_policy.

(* ---- "a DENY engine rejects if some policy matches, an ALLOW engine rejects if none
        matches": IsAuthorized returns nil exactly when every engine of the chain passes ---- *)
Theorem C48_engine : forall d es,
  is_authorized d es = true <->
  Forall (fun e => (e_action e = 1 -> ~ Exists (policy_matches d) (e_policies e)) /\
                   (e_action e = 0 -> Exists (policy_matches d) (e_policies e))) es.
Proof. exact is_authorized_spec. Qed.
Print Assumptions C48_engine.

(* the policies of an engine live in a Go map ranged over in random order:
   the decision does not depend on the order *)
Theorem C48_map_order_irrelevant : forall d e e' es,
  e_action e = e_action e' -> Permutation (e_policies e) (e_policies e') ->
  is_authorized d (e :: es) = is_authorized d (e' :: es).
Proof. exact is_authorized_perm. Qed.
Print Assumptions C48_map_order_irrelevant.

(* ---- "For every authorization policy the authz translator accepts, a request is denied
        if it matches any deny rule and otherwise allowed exactly when it matches some
        allow rule" (no side condition: duplicate rule names are rejected) ---- *)
Theorem C48_translator : forall p es d, new_static p = Some es ->
  (is_authorized d es = false <->
   Exists (srule_matches d) (s_deny p) \/ ~ Exists (srule_matches d) (s_allow p)).
Proof. exact sdk_decision. Qed.
Print Assumptions C48_translator.

(* what "matches a rule" means: principals (any of them, on the peer's identities; none
   listed = anyone), paths (any of them; none listed = any path), headers (all of them,
   each by any of its values, on the comma-joined value of the lower-cased key) *)
Theorem C48_sdk_rule_matches : forall d r,
  srule_matches d r <->
  (sr_principals r = [] \/
   (r_tls d = true /\ exists p, In p (sr_principals r) /\
                      exists id, In id (identities d) /\ wild_match p id = true)) /\
  (sr_paths r = [] \/ exists p, In p (sr_paths r) /\ wild_match p (r_path d) = true) /\
  (forall k vs, In (k, vs) (sr_headers r) ->
     exists v, In v vs /\ exists hv, value_from_md (r_md d) (lower k) = Some hv /\ wild_match v hv = true).
Proof. exact srule_matches_spec. Qed.
Print Assumptions C48_sdk_rule_matches.

(* wildcards: "*" = any non-empty value (one line), "p*" = prefix p, "*s" = suffix s, else exact *)
Theorem C48_sdk_wildcards : forall pat s,
  wild_match pat s = true <->
  if is_star pat then s <> [] /\ ~ In 10 s
  else if ends_star pat then exists t, s = removelast pat ++ t
  else if starts_star pat then exists t, s = t ++ tl pat
  else s = pat.
Proof. exact wild_match_spec. Qed.
Print Assumptions C48_sdk_wildcards.

(* the interceptors (authz/grpc_authz_server_interceptors.go): an RPC reaches the service
   handler only if its context was complete, so that the policy was evaluated (defect = 0),
   it matches no deny rule and it matches some allow rule; in particular an RPC whose request
   view cannot be built (no metadata / peer / method / connection, local address without a
   port) is rejected, never passed on *)
Theorem C48_handler_only_if_allowed : forall p es defect d, new_static p = Some es ->
  snd (intercept es defect d) = true ->
  defect = 0 /\ ~ Exists (srule_matches d) (s_deny p) /\ Exists (srule_matches d) (s_allow p).
Proof. exact handler_only_if_allowed. Qed.
Print Assumptions C48_handler_only_if_allowed.

Theorem C48_handler_iff_complete_and_authorized : forall es defect d,
  snd (intercept es defect d) = true <-> defect = 0 /\ is_authorized d es = true.
Proof. exact handler_iff. Qed.
Print Assumptions C48_handler_iff_complete_and_authorized.

Theorem C48_translator_rejects_duplicate_names : forall p es, translate p = Some es ->
  NoDup (map sr_name (s_deny p)) /\ NoDup (map sr_name (s_allow p)).
Proof. exact translate_nodup. Qed.
Print Assumptions C48_translator_rejects_duplicate_names.

(* The executable predicate evaluated on implementation traces holds on every
   trace of the model, for every list of decodable operations. *)
Theorem C48_holds_on_every_model_trace : forall ops, ops_wf ops = true ->
  exists obs, run ops = Some obs /\ holds_b ops obs = true.
Proof. exact model_trace_holds. Qed.
Print Assumptions C48_holds_on_every_model_trace.

(* non-vacuity: the policy of the original finding (two deny rules named "r") is rejected;
   with distinct names it is accepted and denies /a while allowing /c *)
Example C48_witness :
  let r1 := mksrule [114] [] [[47;97]] [] in
  let r1' := mksrule [115] [] [[47;98]] [] in
  let r2 := mksrule [114] [] [[47;98]] [] in
  let al := mksrule [97] [] [] [] in
  let rq path := mkrpc path (rpc_md [] path) false None (4, 1) (4, 2) 80 in
  translate (mksdk [112] [r1; r2] [al]) = None /\
  match new_static (mksdk [112] [r1; r1'] [al]) with
  | Some es => is_authorized (rq [47;97]) es = false /\ is_authorized (rq [47;99]) es = true
  | None => False
  end /\
  ops_wf [[1; 1; 0; 1; 1; 4; 1; 4]; [3; 1; 47; 0; 0; 0; 0; 0; 0; 4; 1; 4; 2; 80]] = true.
Proof. vm_compute. repeat split. Qed.
