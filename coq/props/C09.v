(* C09: user metadata crosses the wire unchanged and reserved headers never leak.
   Theorems only; each is closed by [exact] of a lemma from proof/MDWire_proofs.v.
   Strings are byte lists; a Go map is an association list in ranging order; [rpc auth mode]
   is one RPC (mode 0 unary with grpc.SetHeader/SetTrailer, 1 server-streaming with
   ServerStream.SetHeader, 2 server-streaming with SendHeader, 3 client-streaming): NewOutgoingContext(md), AppendToOutgoingContext(calls...), the client's
   validation and header assembly, the server's operateHeaders, the handler's
   SetHeader(h)/SetTrailer(t), the server's header and trailer frames, the client's
   operateHeaders.  HPACK/framing is an order-preserving list transport. *)
From Coq Require Import List ZArith Bool.
From VLib Require Import Codec.
From VModel Require Import MDApi MDWire.
From VProof Require Import MDWire_proofs.
Import ListNotations.
Open Scope Z_scope.

(* "-bin" values of any bytes survive encodeBinHeader / decodeBinHeader ... *)
Theorem C09_b64_roundtrip : forall v, bytes v -> decode_bin (enc64 v) = Some v.
Proof. exact b64_roundtrip. Qed.
Print Assumptions C09_b64_roundtrip.

(* ... also when the peer pads its base64 ("values padded or unpadded in base64 from a peer") *)
Theorem C09_b64_padded_roundtrip : forall v, bytes v -> decode_bin (pad64 (enc64 v)) = Some v.
Proof. exact b64_padded_roundtrip. Qed.
Print Assumptions C09_b64_padded_roundtrip.

(* "For any valid user metadata ... the server handler observes exactly the client's metadata
   with per-key value order preserved, and the client observes exactly the headers and
   trailers the server set": for valid user metadata that does not use the names host /
   connection, the RPC succeeds (code 0, handler invoked); the handler's FromIncomingContext
   is the transport's :authority, content-type, user-agent followed by [group] of the
   user's non-reserved pairs (appended keys lowercased); Header() is content-type followed
   by the group of the handler's non-reserved header pairs; Trailer() is the group of its
   non-reserved trailer pairs.  The same on every RPC shape ([mode] is arbitrary); the
   handler's metadata is valid metadata too. *)
Theorem C09_faithful : forall auth mode md calls h t,
  valid_user md calls = true -> has_hop md calls = false ->
  validate_md h = true -> validate_md t = true ->
  all_bytes (user_pairs md calls) -> all_bytes (pairs_of h) -> all_bytes (pairs_of t) ->
  rpc auth mode md calls h t =
    [0; 1; 1; 0] ++ dump (transport_md auth ++ group (visible (user_pairs md calls)))
                 ++ dump ((n_content_type, [ct_grpc]) :: group (visible (pairs_of h)))
                 ++ dump (group (visible (pairs_of t))).
Proof. exact rpc_faithful. Qed.
Print Assumptions C09_faithful.

(* [group]: looking a key up gives exactly the values of the pairs with that key, in order *)
Theorem C09_group_is_ordered_multimap : forall k ps,
  getd k (group ps) = map snd (filter (fun p => str_eqb (fst p) k) ps).
Proof. exact group_lookup. Qed.
Print Assumptions C09_group_is_ordered_multimap.

(* "Transport-reserved names ... are neither sent from user metadata ..." : no header field
   built from user metadata (base MD or appended pairs) has a reserved name *)
Theorem C09_reserved_not_sent : forall md added f,
  In f (md_fields md ++ added_fields added) -> is_reserved (fst f) = false.
Proof. exact reserved_not_sent. Qed.
Print Assumptions C09_reserved_not_sent.

(* "... nor surfaced as user metadata except :authority and user-agent": whatever header
   fields a peer sends, the only reserved names in the metadata given to the handler are
   :authority, user-agent and content-type (which operateHeaders stores) *)
Theorem C09_reserved_not_surfaced : forall fs m k, srv_collect fs = SOk m -> In k (keys m) ->
  is_reserved k = true -> k = n_authority \/ k = n_user_agent \/ k = n_content_type.
Proof. exact reserved_not_surfaced. Qed.
Print Assumptions C09_reserved_not_surfaced.

(* "invalid user metadata fails the RPC with INTERNAL before anything is sent": code 13,
   handler not invoked, no header field written to the wire (third component 0), no
   header, no trailer *)
Theorem C09_invalid_rejected : forall auth mode md calls h t, valid_user md calls = false ->
  rpc auth mode md calls h t = [13; 0; 0; 0] ++ dump [] ++ dump [] ++ dump [].
Proof. exact rpc_invalid_rejected. Qed.
Print Assumptions C09_invalid_rejected.

(* The side condition of C09_faithful is needed: "host" and "connection" are valid keys in
   the statement's sense, but one host value is dropped (RPC otherwise as without it), two
   fail the RPC with INTERNAL (early abort), and connection resets the stream. *)
Theorem C09_hop_names_refuted :
  valid_user md_host1 [] = true /\ valid_user md_host2 [] = true /\ valid_user md_conn [] = true /\
  rpc [97] 0 md_host1 [] [] [] = expect_ok [97] [] [] [] [] /\
  rpc [97] 0 md_host1 [] [] [] <> expect_ok [97] md_host1 [] [] [] /\
  rpc [97] 0 md_host2 [] [] [] = fail_obs 13 1 [(n_content_type, [ct_grpc])] /\
  rpc [97] 0 md_conn [] [] [] = fail_obs 13 1 [].
Proof. exact hop_names_refuted. Qed.
Print Assumptions C09_hop_names_refuted.

(* Server side of "invalid user metadata fails the RPC with INTERNAL before anything is sent":
   ServerStream.SetHeader / SendHeader refuse invalid header metadata with INTERNAL, nothing
   of it is sent and the RPC fails with INTERNAL ... *)
Theorem C09_stream_header_refused : forall auth mode md calls h t,
  valid_user md calls = true -> has_hop md calls = false -> all_bytes (user_pairs md calls) ->
  mode <> 0 -> validate_md h = false ->
  rpc auth mode md calls h t =
    [13; 1; 1; 13] ++ dump (transport_md auth ++ group (visible (user_pairs md calls)))
                   ++ dump [] ++ dump [(n_content_type, [ct_grpc])].
Proof. exact stream_header_refused. Qed.
Print Assumptions C09_stream_header_refused.

(* ... but the unary helpers grpc.SetHeader/SetTrailer(ctx, md) and ServerStream.SetTrailer do
   not: a value with byte 0x80 is accepted, sent and delivered (the RPC succeeds); a value
   with DEL is accepted and sent, and it is the client's HTTP/2 framer that fails the RPC. *)
Theorem C09_server_md_unvalidated_refuted :
  validate_md h_hi = false /\ validate_md h_del = false /\
  rpc [97] 0 [] [] h_hi [] = [0; 1; 1; 0] ++ dump (transport_md [97]) ++
                             dump [(n_content_type, [ct_grpc]); ([104], [[97; 128]])] ++ dump [] /\
  rpc [97] 0 [] [] h_del [] = [13; 1; 1; 0] ++ dump (transport_md [97]) ++ dump [] ++ dump [] /\
  rpc [97] 1 [] [] [] h_hi = [0; 1; 1; 0] ++ dump (transport_md [97]) ++
                             dump [(n_content_type, [ct_grpc])] ++ dump [([104], [[97; 128]])] /\
  rpc [97] 1 [] [] h_hi [] = [13; 1; 1; 13] ++ dump (transport_md [97]) ++ dump [] ++
                             dump [(n_content_type, [ct_grpc])].
Proof. exact server_md_unvalidated_refuted. Qed.
Print Assumptions C09_server_md_unvalidated_refuted.

(* "values padded or unpadded in base64 from a peer" / "nor surfaced": a raw HTTP/2 peer sends
   the transport's fields followed by arbitrary plain extra fields (any names other than
   content-type / user-agent / connection / host and pseudo-headers; -bin values any base64,
   padded or not): the handler is invoked and sees the transport's three entries plus the
   non-reserved extra fields, -bin values decoded, grouped per key in order; reserved names
   (te, grpc-status, grpc-message, grpc-timeout, ...) are dropped. *)
Theorem C09_peer_fields : forall auth extra, raw_plain extra = true ->
  raw_rpc auth extra = [1; 0] ++ dump (transport_md auth ++ group (raw_decoded extra)).
Proof. exact raw_faithful. Qed.
Print Assumptions C09_peer_fields.

Theorem C09_peer_padded_example :
  raw_rpc [97] [([107;45;98;105;110], pad64 (enc64 [0; 255; 97; 98]))] =
    [1; 0] ++ dump (transport_md [97] ++ [([107;45;98;105;110], [[0; 255; 97; 98]])]) /\
  raw_rpc [97] [([107;45;98;105;110], enc64 [0; 255; 97; 98])] =
    [1; 0] ++ dump (transport_md [97] ++ [([107;45;98;105;110], [[0; 255; 97; 98]])]).
Proof. exact raw_padded_example. Qed.
Print Assumptions C09_peer_padded_example.

(* LB pick metadata (PickResult.Metadata = p, non-nil): when the application's metadata and p
   are valid, the RPC is exactly the RPC whose outgoing metadata is
   Join(FromOutgoingContext(ctx), p) - C28's reference multimap of the base MD and all
   appended pairs, then p's values per key - with the :authority override taken from p; so by
   C09_faithful the handler sees base values, appended values, pick values per key in that
   order.  (Validity of the merged map is a hypothesis here, checked per case, not derived.)
   Invalid application or pick metadata: INTERNAL before anything is sent. *)
Theorem C09_pick_metadata_merged : forall auth mode md calls h t p,
  NoDup (map lower (keys md)) -> valid_user md calls = true -> validate_md p = true ->
  valid_user (pick_merged md calls p) [] = true ->
  rpc_pick auth mode md calls h t p = rpc (pick_auth auth p) mode (join [spec_md md calls; p]) [] h t.
Proof. exact rpc_pick_merged. Qed.
Print Assumptions C09_pick_metadata_merged.

Theorem C09_pick_metadata_invalid : forall auth mode md calls h t p,
  valid_user md calls && validate_md p = false ->
  rpc_pick auth mode md calls h t p = [13; 0; 0; 0] ++ dump [] ++ dump [] ++ dump [].
Proof. exact rpc_pick_invalid. Qed.
Print Assumptions C09_pick_metadata_invalid.

(* The executable predicate evaluated on implementation traces holds on every model trace *)
Theorem C09_holds_on_every_model_trace : forall cfg ops,
  (exists a, get_auth cfg = Some a) -> forallb op_wf ops = true ->
  exists obs, run cfg ops = Some obs /\ holds_b cfg ops obs = true.
Proof. exact model_trace_holds. Qed.
Print Assumptions C09_holds_on_every_model_trace.

(* non-vacuity: client-streaming RPC, md {"a-bin": ["\xff"]}, AppendToOutgoingContext("A-Bin", "\x00", "TE", "x"),
   header {"h": ["1"]}, trailer {"grpc-status": ["5"]} *)
Example C09_witness :
  forallb op_wf [[1; 3; 1; 5;97;45;98;105;110; 1; 1;255; 1; 2; 5;65;45;66;105;110; 1;0; 2;84;69; 1;120;
                  1; 1;104; 1; 1;49; 1; 11;103;114;112;99;45;115;116;97;116;117;115; 1; 1;53]] = true /\
  run [1; 97] [[1; 3; 1; 5;97;45;98;105;110; 1; 1;255; 1; 2; 5;65;45;66;105;110; 1;0; 2;84;69; 1;120;
                1; 1;104; 1; 1;49; 1; 11;103;114;112;99;45;115;116;97;116;117;115; 1; 1;53]] =
  Some [[0; 1; 1; 0; 4; 10;58;97;117;116;104;111;114;105;116;121; 1; 1;97; 5;97;45;98;105;110; 2; 1;255; 1;0;
         12;99;111;110;116;101;110;116;45;116;121;112;101; 1; 2;67;84;
         10;117;115;101;114;45;97;103;101;110;116; 1; 2;85;65;
         2; 12;99;111;110;116;101;110;116;45;116;121;112;101; 1; 2;67;84; 1;104; 1; 1;49; 0]].
Proof. vm_compute. split; reflexivity. Qed.
