(* C09: user metadata crosses the wire unchanged and reserved headers never leak.
   Theorems only; each is closed by [exact] of a lemma from proof/MDWire_proofs.v.
   Strings are byte lists; a Go map is an association list in ranging order; [rpc] is one
   unary RPC: NewOutgoingContext(md), AppendToOutgoingContext(calls...), the client's
   validation and header assembly, the server's operateHeaders, the handler's
   SetHeader(h)/SetTrailer(t), the server's header and trailer frames, the client's
   operateHeaders.  HPACK/framing is an order-preserving list transport. *)
From Coq Require Import List ZArith Bool.
From VLib Require Import Codec.
From VModel Require Import MDApi MDWire.
From VProof Require Import MDWire_proofs.
Import ListNotations.
Open Scope Z_scope.

(* "-bin" values of any bytes survive encodeBinHeader / decodeBinHeader ... *)
Theorem C09_b64_roundtrip : forall v, bytes v -> decode_bin (enc64 v) = Some v.
Proof. exact b64_roundtrip. Qed.
Print Assumptions C09_b64_roundtrip.

(* ... also when the peer pads its base64 ("values padded or unpadded in base64 from a peer") *)
Theorem C09_b64_padded_roundtrip : forall v, bytes v -> decode_bin (pad64 (enc64 v)) = Some v.
Proof. exact b64_padded_roundtrip. Qed.
Print Assumptions C09_b64_padded_roundtrip.

(* "For any valid user metadata ... the server handler observes exactly the client's metadata
   with per-key value order preserved, and the client observes exactly the headers and
   trailers the server set": for valid user metadata that does not use the names host /
   connection, the RPC succeeds (code 0, handler invoked); the handler's FromIncomingContext
   is the transport's :authority, content-type, user-agent followed by [group] of the
   user's non-reserved pairs (appended keys lowercased); Header() is content-type followed
   by the group of the handler's non-reserved header pairs; Trailer() is the group of its
   non-reserved trailer pairs. *)
Theorem C09_faithful : forall auth md calls h t,
  valid_user md calls = true -> has_hop md calls = false ->
  all_bytes (user_pairs md calls) -> all_bytes (pairs_of h) -> all_bytes (pairs_of t) ->
  rpc auth md calls h t =
    [0; 1; 1] ++ dump (transport_md auth ++ group (visible (user_pairs md calls)))
           ++ dump ((n_content_type, [ct_grpc]) :: group (visible (pairs_of h)))
           ++ dump (group (visible (pairs_of t))).
Proof. exact rpc_faithful. Qed.
Print Assumptions C09_faithful.

(* [group]: looking a key up gives exactly the values of the pairs with that key, in order *)
Theorem C09_group_is_ordered_multimap : forall k ps,
  getd k (group ps) = map snd (filter (fun p => str_eqb (fst p) k) ps).
Proof. exact group_lookup. Qed.
Print Assumptions C09_group_is_ordered_multimap.

(* "Transport-reserved names ... are neither sent from user metadata ..." : no header field
   built from user metadata (base MD or appended pairs) has a reserved name *)
Theorem C09_reserved_not_sent : forall md added f,
  In f (md_fields md ++ added_fields added) -> is_reserved (fst f) = false.
Proof. exact reserved_not_sent. Qed.
Print Assumptions C09_reserved_not_sent.

(* "... nor surfaced as user metadata except :authority and user-agent": whatever header
   fields a peer sends, the only reserved names in the metadata given to the handler are
   :authority, user-agent and content-type (which operateHeaders stores) *)
Theorem C09_reserved_not_surfaced : forall fs m k, srv_collect fs = SOk m -> In k (keys m) ->
  is_reserved k = true -> k = n_authority \/ k = n_user_agent \/ k = n_content_type.
Proof. exact reserved_not_surfaced. Qed.
Print Assumptions C09_reserved_not_surfaced.

(* "invalid user metadata fails the RPC with INTERNAL before anything is sent": code 13,
   handler not invoked, no header field written to the wire (third component 0), no
   header, no trailer *)
Theorem C09_invalid_rejected : forall auth md calls h t, valid_user md calls = false ->
  rpc auth md calls h t = [13; 0; 0] ++ dump [] ++ dump [] ++ dump [].
Proof. exact rpc_invalid_rejected. Qed.
Print Assumptions C09_invalid_rejected.

(* The side condition of C09_faithful is needed: "host" and "connection" are valid keys in
   the statement's sense, but one host value is dropped (RPC otherwise as without it), two
   fail the RPC with INTERNAL (early abort), and connection resets the stream. *)
Theorem C09_hop_names_refuted :
  valid_user md_host1 [] = true /\ valid_user md_host2 [] = true /\ valid_user md_conn [] = true /\
  rpc [97] md_host1 [] [] [] = expect_ok [97] [] [] [] [] /\
  rpc [97] md_host1 [] [] [] <> expect_ok [97] md_host1 [] [] [] /\
  rpc [97] md_host2 [] [] [] = fail_obs 13 1 [(n_content_type, [ct_grpc])] /\
  rpc [97] md_conn [] [] [] = fail_obs 13 1 [].
Proof. exact hop_names_refuted. Qed.
Print Assumptions C09_hop_names_refuted.

(* The executable predicate evaluated on implementation traces holds on every model trace *)
Theorem C09_holds_on_every_model_trace : forall cfg ops,
  (exists a, get_auth cfg = Some a) -> forallb op_wf ops = true ->
  exists obs, run cfg ops = Some obs /\ holds_b cfg ops obs = true.
Proof. exact model_trace_holds. Qed.
Print Assumptions C09_holds_on_every_model_trace.

(* non-vacuity: md {"a-bin": ["\xff"]}, AppendToOutgoingContext("A-Bin", "\x00", "TE", "x"),
   header {"h": ["1"]}, trailer {"grpc-status": ["5"]} *)
Example C09_witness :
  forallb op_wf [[1; 1; 5;97;45;98;105;110; 1; 1;255; 1; 2; 5;65;45;66;105;110; 1;0; 2;84;69; 1;120;
                  1; 1;104; 1; 1;49; 1; 11;103;114;112;99;45;115;116;97;116;117;115; 1; 1;53]] = true /\
  run [1; 97] [[1; 1; 5;97;45;98;105;110; 1; 1;255; 1; 2; 5;65;45;66;105;110; 1;0; 2;84;69; 1;120;
                1; 1;104; 1; 1;49; 1; 11;103;114;112;99;45;115;116;97;116;117;115; 1; 1;53]] =
  Some [[0; 1; 1; 4; 10;58;97;117;116;104;111;114;105;116;121; 1; 1;97; 5;97;45;98;105;110; 2; 1;255; 1;0;
         12;99;111;110;116;101;110;116;45;116;121;112;101; 1; 2;67;84;
         10;117;115;101;114;45;97;103;101;110;116; 1; 2;85;65;
         2; 12;99;111;110;116;101;110;116;45;116;121;112;101; 1; 2;67;84; 1;104; 1; 1;49; 0]].
Proof. vm_compute. split; reflexivity. Qed.
