(* C39: priority failover uses the best available priority.
   Theorems only; each is closed by [exact] of a lemma from proof/Priority_proofs.v.
   [final K init ops] is the model state after ANY list of operations (config updates that
   add / remove / reorder priorities or change a child's policy type, child state reports,
   passage of time with init-timer expirations, Close, and malformed operations). *)
From Coq Require Import List ZArith Bool.
From VLib Require Import Codec Machine.
From VModel Require Import Priority.
From VProof Require Import Priority_proofs.
Import ListNotations.
Open Scope Z_scope.

(* After every history the priority list splits as  pre ++ childInUse :: post  where
   - the child in use is started and is READY, or IDLE, or CONNECTING with its init timer
     still running (deadline strictly in the future), or it is the lowest priority;
   - every higher priority (pre) is started and has failed or timed out
     (TRANSIENT_FAILURE, or CONNECTING with no init timer);
   - every lower priority (post) is not started (its policy is closed);
   - the state/picker last given to the parent is the state/picker of the child in use;
   - childInUse is [best]: the first READY / IDLE / within-timeout child, else the last. *)
Theorem C39_in_use_is_best_and_picker : forall K ops, let st := final K init ops in
  closed st = false -> prios st <> [] ->
  exists pre post c,
    prios st = pre ++ inuse st :: post /\ NoDup (prios st) /\
    children st (inuse st) = Some c /\ started c = true /\
    (cstate c = READY \/ cstate c = IDLE \/
     (cstate c = CONNECTING /\ exists d, timer c = Some d /\ now st < d) \/ post = []) /\
    (forall n, In n pre -> exists c', children st n = Some c' /\ started c' = true /\
                 timer c' = None /\ (cstate c' = TF \/ cstate c' = CONNECTING)) /\
    (forall n, In n post -> exists c', children st n = Some c' /\ started c' = false) /\
    parent st = (cstate c, picker c) /\
    best (children st) (prios st) = Some (inuse st).
Proof. exact selection_reading. Qed.
Print Assumptions C39_in_use_is_best_and_picker.

(* Lower priorities are only started after all higher ones failed or timed out: whenever a
   child is started, every priority above it is started, has no running init timer and is
   in TRANSIENT_FAILURE or (timed-out) CONNECTING. *)
Theorem C39_lower_started_only_after_failure : forall K ops m, let st := final K init ops in
  closed st = false -> is_started st m = true ->
  forall h, In h (before m (prios st)) ->
  exists c, children st h = Some c /\ started c = true /\ timer c = None /\
            (cstate c = TF \/ cstate c = CONNECTING).
Proof. exact started_implies_higher_failed. Qed.
Print Assumptions C39_lower_started_only_after_failure.

(* ... and are closed once a higher priority becomes READY: right after a started child n
   reports READY, no priority below n is started. *)
Theorem C39_ready_closes_lower : forall K ops n pk, let st := final K init ops in
  closed st = false -> is_started st n = true ->
  let st' := step K st [2; n; READY; pk] in
  forall m, In m (after n (prios st')) -> is_started st' m = false.
Proof. exact ready_closes_lower. Qed.
Print Assumptions C39_ready_closes_lower.

(* After Close no child policy is left started (which also stops every init timer). *)
Theorem C39_close_stops_all : forall K ops n, let st := final K init ops in
  closed st = true -> is_started st n = false.
Proof. exact closed_nothing_built. Qed.
Print Assumptions C39_close_stops_all.

(* The executable predicate that is evaluated on implementation traces holds on every
   trace of the model, for every op list. *)
Theorem C39_holds_on_every_model_trace : forall cfg ops, cfg_wf cfg = true ->
  exists obs, run cfg ops = Some obs /\ holds_b cfg ops obs = true.
Proof. exact model_trace_holds. Qed.
Print Assumptions C39_holds_on_every_model_trace.

(* non-vacuity: p0 fails -> p1 in use and READY; p0 READY again -> p0 in use, p1 closed;
   p0 CONNECTING for 10 s -> failover by timer *)
Example C39_witness :
  cfg_wf [2] = true /\
  (let st := final 2 init [[1;0;0;1;0]; [2;0;3;101]; [2;1;2;102]] in
   inuse st = 1 /\ is_started st 0 = true /\ parent st = (2, 102) /\ closed st = false) /\
  (let st := final 2 init [[1;0;0;1;0]; [2;0;3;101]; [2;1;2;102]; [2;0;2;103]] in
   inuse st = 0 /\ is_started st 1 = false /\ parent st = (2, 103)) /\
  (let st := final 2 init [[1;0;0;1;0]; [3;9]] in inuse st = 0 /\ is_started st 1 = false) /\
  (let st := final 2 init [[1;0;0;1;0]; [3;10]] in inuse st = 1 /\ is_started st 1 = true).
Proof. vm_compute. repeat split. Qed.
