(* C39: priority failover uses the best available priority.
   Theorems only; each is closed by [exact] of a lemma from proof/Priority_proofs.v.
   [final K init ops] is the model state after ANY list of operations (config updates that
   add / remove / reorder priorities or change a child's policy type, child state reports,
   passage of time with init-timer expirations, Close, and malformed operations). *)
(* SCOPE: the theorems hold for histories WITHOUT rejecting child policies
   (no_failing_types ops = true: no config update uses policy type 2 or 3, the stub policies
   that reject their first UpdateClientConnState).  On that sub-domain the machine of
   model/Priority.v coincides with its *_nf copy (proof/Priority_proofs.v, final_eq /
   run_from_eq / clauses_from_eq), on which the invariants are proved.  Histories WITH rejecting
   child policies (failover from inside start(), error picker -4) are checked by the
   correspondence run and the clauses on implementation traces only. *)
From Coq Require Import List ZArith Bool.
From VLib Require Import Codec Machine.
From VModel Require Import Priority.
From VProof Require Import Priority_proofs.
Import ListNotations.
Open Scope Z_scope.

(* After every history the priority list splits as  pre ++ childInUse :: post  where
   - the child in use is started and is READY, or IDLE, or CONNECTING with its init timer
     still running (deadline strictly in the future), or it is the lowest priority;
   - every higher priority (pre) is started and has failed or timed out
     (TRANSIENT_FAILURE, or CONNECTING with no init timer);
   - every lower priority (post) is not started (its policy is closed);
   - the state/picker last given to the parent is the state/picker of the child in use;
   - childInUse is [best]: the first READY / IDLE / within-timeout child, else the last. *)
Theorem C39_in_use_is_best_and_picker : forall K ops, no_failing_types ops = true ->
  let st := final K init ops in
  closed st = false -> prios st <> [] ->
  exists pre post c,
    prios st = pre ++ inuse st :: post /\ NoDup (prios st) /\
    children st (inuse st) = Some c /\ started c = true /\
    (cstate c = READY \/ cstate c = IDLE \/
     (cstate c = CONNECTING /\ exists d, timer c = Some d /\ now st < d) \/ post = []) /\
    (forall n, In n pre -> exists c', children st n = Some c' /\ started c' = true /\
                 timer c' = None /\ (cstate c' = TF \/ cstate c' = CONNECTING)) /\
    (forall n, In n post -> exists c', children st n = Some c' /\ started c' = false) /\
    parent st = (cstate c, picker c) /\
    best (children st) (prios st) = Some (inuse st).
Proof. exact selection_reading_h. Qed.
Print Assumptions C39_in_use_is_best_and_picker.

(* Lower priorities are only started after all higher ones failed or timed out: whenever a
   child is started, every priority above it is started, has no running init timer and is
   in TRANSIENT_FAILURE or (timed-out) CONNECTING. *)
Theorem C39_lower_started_only_after_failure : forall K ops m, no_failing_types ops = true ->
  let st := final K init ops in
  closed st = false -> is_started st m = true ->
  forall h, In h (before m (prios st)) ->
  exists c, children st h = Some c /\ started c = true /\ timer c = None /\
            (cstate c = TF \/ cstate c = CONNECTING).
Proof. exact started_implies_higher_failed_h. Qed.
Print Assumptions C39_lower_started_only_after_failure.

(* ... and are closed once a higher priority becomes READY: right after a started child n
   reports READY, no priority below n is started. *)
Theorem C39_ready_closes_lower : forall K ops n pk, no_failing_types ops = true ->
  let st := final K init ops in
  closed st = false -> is_started st n = true ->
  let st' := step K st [2; n; READY; pk] in
  forall m, In m (after n (prios st')) -> is_started st' m = false.
Proof. exact ready_closes_lower_h. Qed.
Print Assumptions C39_ready_closes_lower.

(* After Close no child policy is left started (which also stops every init timer). *)
Theorem C39_close_stops_all : forall K ops n, no_failing_types ops = true ->
  let st := final K init ops in
  closed st = true -> is_started st n = false.
Proof. exact closed_nothing_built_h. Qed.
Print Assumptions C39_close_stops_all.

(* The executable predicate that is evaluated on implementation traces holds on every
   trace of the model, for every op list. *)
Theorem C39_holds_on_every_model_trace : forall cfg ops, cfg_wf cfg = true ->
  no_failing_types ops = true ->
  exists obs, run cfg ops = Some obs /\ holds_b cfg ops obs = true.
Proof. exact model_trace_holds_h. Qed.
Print Assumptions C39_holds_on_every_model_trace.

(* non-vacuity: p0 fails -> p1 in use and READY; p0 READY again -> p0 in use, p1 closed;
   p0 CONNECTING for 10 s -> failover by timer *)
Example C39_witness :
  cfg_wf [2] = true /\
  no_failing_types [[1;0;0;1;0]; [2;0;3;101]; [2;1;2;102]; [2;0;2;103]; [3;9]; [3;10]] = true /\
  (let st := final 2 init [[1;0;0;1;0]; [2;0;3;101]; [2;1;2;102]] in
   inuse st = 1 /\ is_started st 0 = true /\ parent st = (2, 102) /\ closed st = false) /\
  (let st := final 2 init [[1;0;0;1;0]; [2;0;3;101]; [2;1;2;102]; [2;0;2;103]] in
   inuse st = 0 /\ is_started st 1 = false /\ parent st = (2, 103)) /\
  (let st := final 2 init [[1;0;0;1;0]; [3;9]] in inuse st = 0 /\ is_started st 1 = false) /\
  (let st := final 2 init [[1;0;0;1;0]; [3;10]] in inuse st = 1 /\ is_started st 1 = true).
Proof. vm_compute. repeat split. Qed.

(* outside the hypothesis (illustration only): p0's policy (type 2) rejects its first update,
   so p0 fails inside start() and p1 is started and in use at once *)
Example C39_rejecting_policy_illustration :
  no_failing_types [[1;0;2;1;0]] = false /\
  (let st := final 2 init [[1;0;2;1;0]] in
   inuse st = 1 /\ is_started st 0 = true /\ is_started st 1 = true /\ parent st = (1, 0)).
Proof. vm_compute. repeat split. Qed.
