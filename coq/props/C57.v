(* C57: expiring cache and one-shot primitives fire exactly once.
   Theorems only; each is closed by [exact] of a lemma from proof/OneShot_proofs.v.
   "All interleavings" = all lists of atomic steps (xop / vop / rop): a cache method body under
   the mutex, the runtime firing a timer, the timer function's locked part, a callback run
   outside the lock, and each sync/atomic call of Event / RefCounted are separate list elements. *)
From Coq Require Import List ZArith Bool.
From VLib Require Import Codec Machine.
From VModel Require Import OneShot.
From VProof Require Import OneShot_proofs.
Import ListNotations.
Open Scope Z_scope.

(* ---- expiring cache: e ranges over every entry ever created, l over every interleaving ---- *)
(* the expiry callback runs at most once (epend = handed over to run outside the lock) *)
Theorem C57_cache_callback_at_most_once : forall l e, In e (xsteps [] l) ->
  0 <= ecb e /\ ecb e + b2z (epend e) <= 1.
Proof. exact cache_callback_at_most_once. Qed.
Print Assumptions C57_cache_callback_at_most_once.

(* never if the entry was removed before it expired -- including the window in which the timer
   has fired but its function has not yet taken the lock (the deleted flag) ... *)
Theorem C57_cache_removed_never_called : forall l e, In e (xsteps [] l) -> 1 <= eret e ->
  eret e = 1 /\ eclr e = 0 /\ ecb e = 0 /\ epend e = false /\ ein e = false /\ is_expired e = false.
Proof. exact cache_removed_never_called. Qed.
Print Assumptions C57_cache_removed_never_called.

(* ... and this stays so whatever happens afterwards *)
Theorem C57_cache_removed_stays_uncalled : forall l2 es e, cache_inv es -> In e es -> 1 <= eret e ->
  exists e', In e' (xsteps es l2) /\ eid e' = eid e /\ eret e' = 1 /\ ecb e' = 0 /\ epend e' = false.
Proof. exact cache_removed_stays_uncalled. Qed.
Print Assumptions C57_cache_removed_stays_uncalled.

(* exactly once if it expired or the cache was cleared with callbacks: the callback has run
   once, or has been handed over and runs at the next XCb step; never after a Remove *)
Theorem C57_cache_expired_or_cleared_called_once : forall l e, In e (xsteps [] l) ->
  is_expired e = true \/ ewant e = true -> ein e = false /\ ecb e + b2z (epend e) = 1 /\ eret e = 0.
Proof. exact cache_expired_or_cleared_called_once. Qed.
Print Assumptions C57_cache_expired_or_cleared_called_once.

(* an entry leaves the cache in exactly one way: Remove (to one caller), Clear, or expiry *)
Theorem C57_cache_one_owner : forall l e, In e (xsteps [] l) ->
  0 <= eret e /\ 0 <= eclr e /\
  eret e + eclr e + b2z (negb (ein e) && is_expired e) = b2z (negb (ein e)).
Proof. exact cache_one_owner. Qed.
Print Assumptions C57_cache_one_owner.

Theorem C57_cache_remove_returns_the_entry : forall l k es' it,
  xstep (xsteps [] l) (XRemove k) = (es', (it, true)) ->
  exists e, In e (xsteps [] l) /\ ein e = true /\ ekey e = k /\ eitem e = it /\
            (forall e', In e' (xsteps [] l) -> ein e' = true -> ekey e' = k -> e' = e).
Proof. exact cache_remove_returns_the_entry. Qed.
Print Assumptions C57_cache_remove_returns_the_entry.

(* ---- one-shot event: of any number of concurrent Fire calls exactly one returns true;
   close(e.c) is executed at most once and only after the flag is set ---- *)
Theorem C57_event_fire_once : forall l s xs, vsteps evs0 l = (s, xs) ->
  zsum (fire_rets l xs) = b2z (existsb is_cas l) /\
  Forall (fun x => x = 0 \/ x = 1) (fire_rets l xs) /\
  0 <= vclosed s <= 1 /\ (0 < vclosed s -> vfired s = true).
Proof. exact event_fire_once. Qed.
Print Assumptions C57_event_fire_once.

(* ---- reference count (usage contract rwf: Decrement/Increment only by a holder, count below
   MaxInt32): cleanup has run exactly once iff the count is zero ... ---- *)
Theorem C57_refcount_cleanup_exactly_once : forall l, rwf rcs0 l = true ->
  let s := fst (rsteps rcs0 l) in
  (0 < rcnt s /\ rzeros s = 0) \/ (rcnt s = 0 /\ rzeros s = 1).
Proof. exact rc_cleanup_exactly_once. Qed.
Print Assumptions C57_refcount_cleanup_exactly_once.

(* ... and it cannot be re-acquired afterwards: no TryIncrement (Load/CAS loop, any
   interleaving, stale loaded values included) ever succeeds again *)
Theorem C57_refcount_dead_forever : forall l s, rc_inv s -> rcnt s = 0 -> rwf s l = true ->
  rcnt (fst (rsteps s l)) = 0 /\ rzeros (fst (rsteps s l)) = 1 /\ ~ In 1 (snd (rsteps s l)).
Proof. exact rc_dead_forever. Qed.
Print Assumptions C57_refcount_dead_forever.

(* ---- bridge: the monitors evaluated on implementation traces accept every model trace, for every
   kind (timed TimeoutCache [1;tmo], Event [2], RefCounted [3], forced timer window [4]) and every
   well-formed op list of any length ---- *)
Theorem C57_holds_on_every_model_trace : forall cfg ops, wf cfg ops = true ->
  exists obs, run cfg ops = Some obs /\ holds_b cfg ops obs = true.
Proof. exact model_trace_holds. Qed.
Print Assumptions C57_holds_on_every_model_trace.

(* ---- the timed driver semantics (cstep: all due timers complete inside the op; crun = the states
   behind cexec) is a special interleaving: every state it reaches from the empty cache is reached by
   a list of fine-grained atomic steps, so the C57_cache_* theorems above apply to the traces the
   driver produces ... ---- *)
Theorem C57_timed_step_is_fine_steps : forall c op c' o, cache_inv (cents c) -> cstep c op = Some (c', o) ->
  exists l, cents c' = xsteps (cents c) l.
Proof. exact cstep_fine. Qed.
Print Assumptions C57_timed_step_is_fine_steps.

Theorem C57_timed_trace_is_interleaving : forall tmo ops c', crun (mkcst [] 0 tmo) ops = Some c' ->
  exists l, cents c' = xsteps [] l.
Proof. exact timed_reaches_fine. Qed.
Print Assumptions C57_timed_trace_is_interleaving.

Theorem C57_model_trace_has_states : forall ops c obs, cexec c ops = Some obs -> exists c', crun c ops = Some c'.
Proof. exact cexec_crun. Qed.
Print Assumptions C57_model_trace_has_states.

(* ... in particular, at the quiescent points the driver observes: every callback has run at most once
   and none is outstanding; never for an entry handed out by Remove; exactly once for an entry that
   expired or was cleared with callbacks; every entry left the cache in exactly one way *)
Theorem C57_timed_entries : forall tmo ops c' e, crun (mkcst [] 0 tmo) ops = Some c' -> In e (cents c') ->
  0 <= ecb e <= 1 /\ epend e = false /\
  (1 <= eret e -> eret e = 1 /\ ecb e = 0) /\
  (is_expired e = true \/ ewant e = true -> ecb e = 1 /\ eret e = 0) /\
  eret e + eclr e + b2z (negb (ein e) && is_expired e) = b2z (negb (ein e)).
Proof. exact timed_entries. Qed.
Print Assumptions C57_timed_entries.

Example C57_witness :
  (* remove inside the fired-but-not-yet-locked window: the callback never runs *)
  map (fun e => (ecb e, eret e, edel e)) (xsteps [] [XAdd 1 7 10; XFire 0; XRemove 1; XRun 0; XCb 0]) = [(0, 1, true)] /\
  (* plain expiry: exactly once *)
  map (fun e => (ecb e, eret e, ein e)) (xsteps [] [XAdd 1 7 10; XFire 0; XRun 0; XCb 0; XCb 0; XRemove 1]) = [(1, 0, false)] /\
  wf [1; 10] [[1; 1; 101]; [4; 9]; [2; 1]; [1; 1; 102]; [4; 10]; [5]] = true /\
  run [1; 10] [[1; 1; 101]; [4; 9]; [2; 1]; [1; 1; 102]; [4; 10]; [5]] =
    Some [[101; 1]; []; [101; 1]; [102; 1]; [102]; [0]] /\
  holds_b [1; 10] [[1; 1; 101]; [4; 9]; [2; 1]; [1; 1; 102]; [4; 10]; [5]]
          [[101; 1]; []; [101; 1]; [102; 1]; [102]; [0]] = true /\
  rwf rcs0 [RLoad 1; RDec; RCas 1; RLoad 1; RCas 1] = true /\
  snd (rsteps rcs0 [RLoad 1; RDec; RCas 1; RLoad 1; RCas 1]) = [0; 0; 2; 0; 0].
Proof. vm_compute. repeat split. Qed.
