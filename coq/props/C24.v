(* C24: every RPC error is a status with a legal code.
   Error values are the ADT [err] of model/StatusErr.v; [status_of e = Some c] is
   "status.FromError(e) says ok, with code c"; [toRPCErr] transcribes rpc_util.go;
   [rpc src ff e] is what Invoke / NewStream+SendMsg+RecvMsg return when control-plane
   source src (1 picker, 2 config selector, 3 call credentials, 4 dial credentials) returns
   the error e (ff = fail-fast; the RPC's context has a deadline).
   Theorems only; each is closed by [exact] of a lemma from proof/StatusErr_proofs.v. *)
From Coq Require Import List ZArith Bool.
From VLib Require Import Codec.
From VModel Require Import StatusErr.
From VProof Require Import StatusErr_proofs.
Import ListNotations.
Open Scope Z_scope.

(* Sentence 1, conversion: whatever error value toRPCErr is given (any nesting of
   NewStreamError), the result is nil, io.EOF, or a status error ... *)
Theorem C24_toRPCErr_total : forall e,
  toRPCErr e = ENil \/ toRPCErr e = EEOF \/ exists c, status_of (toRPCErr e) = Some c.
Proof. exact toRPCErr_total. Qed.
Print Assumptions C24_toRPCErr_total.

(* ... nil / io.EOF exactly for nil / io.EOF inputs ... *)
Theorem C24_toRPCErr_nil_iff : forall e, toRPCErr e = ENil <-> inner e = ENil.
Proof. exact toRPCErr_nil_iff. Qed.
Print Assumptions C24_toRPCErr_nil_iff.
Theorem C24_toRPCErr_eof_iff : forall e, toRPCErr e = EEOF <-> inner e = EEOF.
Proof. exact toRPCErr_eof_iff. Qed.
Print Assumptions C24_toRPCErr_eof_iff.

(* ... a status error keeps its code, any other error gets CANCELED, UNKNOWN,
   DEADLINE_EXCEEDED, INTERNAL or UNAVAILABLE; toRPCErr is idempotent *)
Theorem C24_toRPCErr_code : forall e c, status_of (toRPCErr e) = Some c ->
  status_of (inner e) = Some c \/
  (status_of (inner e) = None /\ (c = 1 \/ c = 2 \/ c = 4 \/ c = 13 \/ c = 14)).
Proof. exact toRPCErr_code. Qed.
Print Assumptions C24_toRPCErr_code.
Theorem C24_toRPCErr_idempotent : forall e, toRPCErr (toRPCErr e) = toRPCErr e.
Proof. exact toRPCErr_idem. Qed.
Print Assumptions C24_toRPCErr_idempotent.

(* Sentence 1, control-plane sources: the RPC fails iff the source returned an error, and the
   error is a status error -- except that a config selector returning io.EOF yields bare
   io.EOF (finding F-C24-config-selector-eof, clause 6) *)
Theorem C24_rpc_error_form : forall src ff e,
  control_plane src -> nse_free e = true ->
  (rpc src ff e = ENil /\ e = ENil) \/
  (rpc src ff e = EEOF /\ src = 2 /\ e = EEOF) \/
  (exists c, status_of (rpc src ff e) = Some c /\ e <> ENil).
Proof. exact rpc_form. Qed.
Print Assumptions C24_rpc_error_form.

(* note: a non-nil error carries code OK exactly when the source's error value was itself a
   status value of code OK (such an error still "carries a gRPC status code") *)
Theorem C24_ok_code_only_from_ok_status : forall src ff e,
  control_plane src -> nse_free e = true ->
  (status_of (rpc src ff e) = Some 0 <-> status_of e = Some 0).
Proof. exact rpc_ok_code_iff. Qed.
Print Assumptions C24_ok_code_only_from_ok_status.

(* Sentence 2: a status error with an A54-restricted code from a picker, a config selector or
   per-RPC credentials is surfaced as INTERNAL ... *)
Theorem C24_restricted_means : forall c,
  restricted c = true <-> In c [3; 5; 6; 9; 10; 11; 15].
Proof. exact restricted_spec. Qed.
Print Assumptions C24_restricted_means.
Theorem C24_restricted_to_internal : forall src ff e c,
  control_plane src -> status_of e = Some c -> restricted c = true ->
  rpc src ff e = EStatus 13.
Proof. exact rpc_restricted_internal. Qed.
Print Assumptions C24_restricted_to_internal.

(* ... so no restricted code is ever surfaced from these sources; other status errors pass
   through unchanged, non-status errors get the site's own code *)
Theorem C24_never_restricted : forall src ff e c,
  control_plane src -> nse_free e = true ->
  status_of (rpc src ff e) = Some c -> restricted c = false.
Proof. exact rpc_never_restricted. Qed.
Print Assumptions C24_never_restricted.
Theorem C24_status_passthrough : forall src ff e c,
  control_plane src -> status_of e = Some c -> restricted c = false -> rpc src ff e = e.
Proof. exact rpc_status_passthrough. Qed.
Print Assumptions C24_status_passthrough.
Theorem C24_nonstatus : forall src ff e,
  control_plane src -> e <> ENil -> nse_free e = true -> status_of e = None ->
  rpc src ff e =
    if src =? 1 then (match e with ENoSub => EStatus 4 | _ => if ff then EStatus 14 else EStatus 4 end)
    else if src =? 2 then toRPCErr e
    else if src =? 3 then EStatus 13 else EStatus 16.
Proof. exact rpc_nonstatus. Qed.
Print Assumptions C24_nonstatus.

(* documentation of that corner: a status value of code OK (a user error type whose
   GRPCStatus() is a non-nil Status of code OK) is surfaced unchanged by every source and by
   toRPCErr; not a property clause, compared by the correspondence run *)
Theorem C24_ok_code_passthrough_note :
  rpc 1 true (EGS 0) = EGS 0 /\ rpc 2 true (EGS 0) = EGS 0 /\ rpc 3 true (EGS 0) = EGS 0 /\
  rpc 4 true (EGS 0) = EGS 0 /\ toRPCErr (EGS 0) = EGS 0 /\ status_of (EGS 0) = Some 0 /\ EGS 0 <> ENil.
Proof. exact ok_code_passthrough_note. Qed.
Print Assumptions C24_ok_code_passthrough_note.

(* the literal-statement failure, with its witness *)
Theorem C24_config_selector_eof_refuted : rpc 2 true EEOF = EEOF /\ status_of EEOF = None.
Proof. exact config_eof_refuted. Qed.
Print Assumptions C24_config_selector_eof_refuted.

(* The executable predicate evaluated on implementation traces (every clause but the refuted
   clause 6) holds on every trace of the model, for every list of well-formed ops. *)
Theorem C24_holds_on_every_model_trace : forall cfg ops, forallb op_wf ops = true ->
  exists obs, run cfg ops = Some obs /\ holds_b cfg ops obs = true.
Proof. exact model_trace_holds. Qed.
Print Assumptions C24_holds_on_every_model_trace.

Example C24_witness :
  toRPCErr (ENSE (ENSE ECanceled)) = EStatus 1 /\ toRPCErr (EWrap 5) = EWrap 5 /\
  rpc 1 true (EStatus 5) = EStatus 13 /\ rpc 1 false EOther = EStatus 4 /\
  rpc 2 true EConn = EStatus 14 /\ rpc 4 true EOther = EStatus 16 /\ rpc 3 true (EWrapGS 7) = EWrapGS 7 /\
  forallb op_wf [[1; 2; 9; 5]; [2; 1; 1; 0; 6; 11]; [2; 6; 1; 1; 0; 3]] = true.
Proof. vm_compute. repeat split. Qed.
