(* C04: inbound flow-control accounting is exact and never wedges a stream.
   Theorems only; each is closed by [exact] of a lemma from proof/InFlow_proofs.v.

   Vocabulary (model/InFlow.v).  [fin cfg ops = Some (s, L)]: after the well-formed operation
   list [ops] (DATA frames of any size/padding, read requests, reads, BDP window increases, BDP
   pings, in any order and number) the receiver is in state [s] (the fields of inFlow/trInFlow)
   and the peer ledger is [L].  [win L] = adv - rcvd is the peer's view of the stream window
   (everything it was ever given by the initial window, WINDOW_UPDATEs and SETTINGS, minus what
   it has sent); [cwin L] the same for the connection; [lim L]/[clim L] the configured windows;
   [deliv L]/[readb L] payload bytes delivered to / read by the application.
   2147483647 = 2^31-1, 16777216 = 16 MiB (bdpLimit). *)
From Coq Require Import List ZArith Bool.
From VLib Require Import Codec Machine.
From VModel Require Import InFlow.
From VProof Require Import InFlow_proofs.
Import ListNotations.
Open Scope Z_scope.

(* "A receiver accepts every peer that stays within the windows it advertised, and rejects
   (RST_STREAM FLOW_CONTROL) only data that exceeds them": in every reachable state a DATA
   frame of [size] bytes (padding included) is accepted iff size <= win L, and is answered by
   the stream error iff size > win L.  (The connection level never rejects: the model, like
   trInFlow.onData, has no error output.) *)
Theorem C04_accepts_iff_within_advertised_window :
  forall cfg ops s L size pad o s',
  fin cfg ops = Some (s, L) -> ldead L = false ->
  opk_ok L (OData size pad) = true -> 0 < size ->
  stepk s (OData size pad) = (o, s') ->
  exists cwu err swu rest, o = cwu :: err :: swu :: rest /\
    ((err = 0 /\ dead s' = false /\ size <= win L) \/
     (err = 1 /\ dead s' = true /\ win L < size /\ swu = 0)).
Proof. exact data_verdict. Qed.
Print Assumptions C04_accepts_iff_within_advertised_window.

(* The peer ledger equals the receiver's own bookkeeping (this is what makes the above exact). *)
Theorem C04_ledger_exact : forall cfg ops s L, fin cfg ops = Some (s, L) ->
  cwin L = climit s - unacked s /\
  (ldead L = false -> win L = limit s + delta s - (pd s + pu s) /\ pd s = deliv L - readb L /\ limit s = lim L).
Proof. exact ledger_exact. Qed.
Print Assumptions C04_ledger_exact.

(* "The total window it advertises never exceeds 2^31-1": PARTIAL.  True in every state in
   which no BDP increase happened while an extra grant for a large read was outstanding
   ([bumped L = false]); in general only 2^31-1 + 16 MiB holds ...
   Full statement (false): forall ..., fin cfg ops = Some (s, L) -> ldead L = false -> win L <= 2^31-1. *)
Theorem C04_window_bound_partial : forall cfg ops s L,
  fin cfg ops = Some (s, L) -> ldead L = false ->
  win L <= 2147483647 + 16777216 /\ (bumped L = false -> win L <= 2147483647).
Proof. exact adv_bound. Qed.
Print Assumptions C04_window_bound_partial.

(* ... and the bound is really exceeded (finding C04-window-over-max-after-bdp, clause 5). *)
Theorem C04_window_bound_refuted :
  exists cfg ops s L, fin cfg ops = Some (s, L) /\ ldead L = false /\ win L = 2147483647 + 65535.
Proof. exact adv_bound_refuted. Qed.
Print Assumptions C04_window_bound_refuted.

(* "Once the application has read all delivered data the peer's view of the window is
   restored": to limit + delta - pendingUpdate with pendingUpdate < limit/4, which is positive
   and more than 3/4 of the configured window ... *)
Theorem C04_restored_three_quarters : forall cfg ops s L,
  fin cfg ops = Some (s, L) -> ldead L = false -> deliv L = readb L ->
  0 < win L /\ 3 * lim L < 4 * win L /\ win L = lim L + delta s - pu s /\
  (pu s = 0 \/ pu s < lim L / 4).
Proof. exact restored. Qed.
Print Assumptions C04_restored_three_quarters.

(* ... but not "at least the configured window" (statement deviation, clause 6). *)
Theorem C04_restored_literal_refuted :
  exists cfg ops s L, fin cfg ops = Some (s, L) /\ ldead L = false /\ deliv L = readb L /\
                      win L = lim L - 100.
Proof. exact restored_literal_refuted. Qed.
Print Assumptions C04_restored_literal_refuted.

(* "so a reading application can never be stalled forever": whenever the application has
   nothing left to read, the peer is allowed to send (the window is positive) ... *)
Theorem C04_never_stalled : forall cfg ops s L,
  fin cfg ops = Some (s, L) -> ldead L = false -> deliv L = readb L -> 0 < win L.
Proof. intros cfg ops s L H1 H2 H3. exact (proj1 (restored cfg ops s L H1 H2 H3)). Qed.
Print Assumptions C04_never_stalled.

(* ... and a read request for a message larger than the window is granted at once: right
   after requestRead(n) the window covers the part of the message that has not arrived yet
   (or is at the protocol maximum 2^31-1 less the batched < limit/4). *)
Theorem C04_large_read_granted : forall cfg ops s L n o s' L',
  fin cfg ops = Some (s, L) -> ldead L = false -> opk_ok L (OReq n) = true ->
  stepk s (OReq n) = (o, s') -> lstepk L (OReq n) o = Some L' ->
  Z.min (Z.min n 2147483647) (2147483647 - lim L' / 4) - (deliv L' - readb L') <= win L'.
Proof. exact large_read_granted. Qed.
Print Assumptions C04_large_read_granted.

(* Connection window: never above the configured value (<= 2^31-1) and always more than 3/4
   of it, whatever the application does (it is decoupled from application reads). *)
Theorem C04_connection_window : forall cfg ops s L, fin cfg ops = Some (s, L) ->
  cwin L <= clim L /\ clim L <= 2147483647 /\ 3 * clim L < 4 * cwin L.
Proof. exact conn_window. Qed.
Print Assumptions C04_connection_window.

(* BDP updates (updateFlowControl(n), any 1 <= n <= 16 MiB, in any state, whatever windows were
   configured - no hypothesis relating n to the configured windows): a connection-level
   WINDOW_UPDATE is emitted only with an increment in [1, 2^31-1] (clause 9), and no window is ever
   lowered - SETTINGS_INITIAL_WINDOW_SIZE is sent only to raise the stream windows (so the states
   of clause 10 do not exist).  Before fix 7a3f54f both failed (increment uint32(n - limit) =
   4294049790 for limit 1 MiB, n 131070; stream stall after a SETTINGS decrease). *)
Theorem C04_bdp_update_legal : forall cfg ops s L n o s',
  fin cfg ops = Some (s, L) -> opk_ok L (ONew n) = true -> stepk s (ONew n) = (o, s') ->
  exists cwu items sv rest, o = cwu :: items :: sv :: rest /\
    ((items = 0 /\ cwu = 0 /\ climit s' = climit s) \/
     (items = 1 /\ 1 <= cwu <= 2147483647 /\ climit s' = climit s + cwu)) /\
    ((sv = 0 /\ limit s' = limit s /\ iws s' = iws s) \/
     (sv = n /\ iws s < n /\ iws s' = n /\ limit s <= limit s')).
Proof. exact new_limit_legal. Qed.
Print Assumptions C04_bdp_update_legal.

(* New streams ([ORelease]: the HEADERS are queued, possibly long after NewStream was called and
   after BDP updates in between): the stream enforces exactly the SETTINGS_INITIAL_WINDOW_SIZE
   the peer knows at that moment, so the theorems above hold for it from a fresh ledger. *)
Theorem C04_new_stream_window : forall cfg ops s L o s',
  fin cfg ops = Some (s, L) -> stepk s ORelease = (o, s') ->
  siw L = iws s /\ limit s' = siw L /\ pd s' = 0 /\ pu s' = 0 /\ delta s' = 0 /\ dead s' = false.
Proof. exact new_stream_window. Qed.
Print Assumptions C04_new_stream_window.

(* The executable predicate that is evaluated on implementation traces (clauses 1-4, 7-10;
   5 and 6 are the refuted sentences above) holds on every trace of the model, for every
   well-formed operation list; and well-formed lists are exactly those [fin] is defined on. *)
Theorem C04_holds_on_every_model_trace : forall cfg ops, wf cfg ops = true ->
  exists obs, run cfg ops = Some obs /\ holds_b cfg ops obs = true.
Proof. exact model_trace_holds. Qed.
Print Assumptions C04_holds_on_every_model_trace.

Theorem C04_wf_reaches : forall cfg ops, wf cfg ops = true -> exists s L, fin cfg ops = Some (s, L).
Proof. exact wf_fin. Qed.
Print Assumptions C04_wf_reaches.

(* non-vacuity: a message larger than the window, padded frames, a BDP increase, a ping, an
   over-window frame that is rejected *)
Example C04_witness :
  wf [65535; 65535]
     [[2; 100000]; [1; 16384; 0]; [1; 16384; 255]; [3; 16384]; [4; 131070]; [5];
      [3; 16129]; [1; 16777215; 0]; [5]] = true /\
  run [100; 100] [[1; 100; 10]; [1; 1; 0]] =
    Some [[100; 0; 0; 100; 90; 10; 0; 100; 0; 100]; [0; 1; 0; 100; 91; 10; 0; 100; 1; 100]] /\
  (* the former defect witnesses: no connection update for 131070 <= 1 MiB; no SETTINGS decrease *)
  run [65535; 1048576] [[4; 131070]] = Some [[0; 0; 131070; 131070; 0; 0; 0; 1048576; 0; 131070]] /\
  run [1048576; 65535] [[4; 131070]] = Some [[65535; 1; 0; 1048576; 0; 0; 0; 131070; 0; 1048576]].
Proof. vm_compute. repeat split; reflexivity. Qed.
