(* C52: ALTS records round-trip exactly and tampering is always detected.
   Theorems only; each is closed by [exact] of a lemma from proof/ALTS_proofs.v.
   seal/open : the record crypto with the record counter as nonce (universally quantified;
   their laws are hypotheses of each theorem: correctness, ciphertext length, and for the
   tamper theorems the ideal-AEAD laws). *)
From Coq Require Import List ZArith Bool.
From VLib Require Import Codec Machine.
From VModel Require Import ALTS.
From VProof Require Import ALTS_proofs.
Import ListNotations.
Open Scope Z_scope.

(* "For any sequence of writes ... the peer reads exactly the written bytes in order": Write
   cuts the bytes into pieces of at most payloadLengthLimit losing nothing ... *)
Theorem C52_write_chunks_lose_nothing : forall fuel limit p, 0 < limit -> (length p < fuel)%nat ->
  concat (chunks fuel limit p) = p /\ Forall (fun c => zlen c <= limit) (chunks fuel limit p).
Proof. exact chunks_concat. Qed.
Print Assumptions C52_write_chunks_lose_nothing.

(* ... and the records sealed with consecutive counters n, n+1, ... are read back exactly,
   in order, whatever else is in the buffer behind them, for any list of record bodies. *)
Theorem C52_roundtrip : forall seal open,
  (forall n p, open n (seal n p) = Some p) ->
  (forall n p, zlen (seal n p) = zlen p + GcmTagSize) ->
  forall bodies n rest, Forall fits bodies ->
  read_records open (length bodies) n (frames seal n bodies ++ rest) = Some (bodies, rest).
Proof. exact read_records_roundtrip. Qed.
Print Assumptions C52_roundtrip.

(* "any segmentation or coalescing of the ciphertext by the network": with any strict prefix
   of a record the parser reports "incomplete" (the reader keeps reading); with the whole
   record and anything after it (coalescing) it returns the record and the rest. *)
Theorem C52_segmentation : forall seal open,
  (forall n p, open n (seal n p) = Some p) ->
  (forall n p, zlen (seal n p) = zlen p + GcmTagSize) ->
  forall n p, fits p ->
  (forall k, (k < length (frame seal n p))%nat ->
     parse_framed (firstn k (frame seal n p)) altsRecordLengthLimit = PIncomplete) /\
  (forall rest, read_frame open n (frame seal n p ++ rest) = ROk p rest).
Proof.
  intros seal open H1 H2 n p Hf. split.
  - intros k Hk. exact (incomplete_frame_waits seal H2 n p k Hf Hk).
  - intros rest. exact (read_frame_roundtrip seal open H1 H2 n p rest Hf).
Qed.
Print Assumptions C52_segmentation.

(* "every record on the wire respects the frame size limit": every record Write produces for
   n bytes under negotiated frame size fs has 0 < payload and total size <= max(4 KiB, fs);
   and the payload sizes add up to n. *)
Theorem C52_frame_limit : forall fs n l,
  In l (record_lens (fuel_for n (payload_limit fs)) (payload_limit fs) n) ->
  0 < l /\ l + overhead <= max_record fs.
Proof. exact record_size_limit. Qed.
Print Assumptions C52_frame_limit.

Theorem C52_records_cover_the_write : forall fs n, 0 <= n ->
  zsum (record_lens (fuel_for n (payload_limit fs)) (payload_limit fs) n) = n.
Proof.
  intros fs n Hn. apply record_lens_sum; [apply payload_limit_pos | exact Hn |].
  apply fuel_for_enough; [apply payload_limit_pos | exact Hn].
Qed.
Print Assumptions C52_records_cover_the_write.

(* "Changing ... any ciphertext byte makes a read fail rather than return wrong plaintext"
   (ideal AEAD): whatever bytes b the network supplies, if the reader at position n accepts
   a record and returns p, then b is an 8-byte header followed by exactly seal n p. *)
Theorem C52_accepted_record_is_authentic : forall seal open,
  (forall n c p, open n c = Some p -> c = seal n p) ->
  forall n b p rest, read_frame open n b = ROk p rest ->
  exists hdr, b = hdr ++ seal n p ++ rest /\ length hdr = 8%nat.
Proof. exact accepted_record_is_authentic. Qed.
Print Assumptions C52_accepted_record_is_authentic.

(* "dropping or reordering": a record sealed as number m is rejected at any position n <> m
   (nonce binding of the AEAD) *)
Theorem C52_reordered_record_fails : forall seal open,
  (forall n p, zlen (seal n p) = zlen p + GcmTagSize) ->
  (forall n m p, n <> m -> open n (seal m p) = None) ->
  forall n m p rest, fits p -> n <> m -> read_frame open n (frame seal m p ++ rest) = RError.
Proof. exact record_at_wrong_position_fails. Qed.
Print Assumptions C52_reordered_record_fails.

(* "the record counter never repeats a nonce (sealing fails once it would wrap)": Inc of a
   valid counter gives the next integer on the first overflowLen bytes, or - exactly at the
   last value - an invalid counter; invalid is permanent. *)
Theorem C52_counter : forall c, Forall is_byte (ct_value c) ->
  0 <= ct_overflow c <= Z.of_nat (length (ct_value c)) -> ct_invalid c = false ->
  let c' := counter_inc c in
  (ct_invalid c' = false /\ ctr_val c' = ctr_val c + 1 /\ ctr_val c' < 256 ^ ct_overflow c) \/
  (ct_invalid c' = true /\ ctr_val c = 256 ^ ct_overflow c - 1).
Proof. exact counter_inc_spec. Qed.
Print Assumptions C52_counter.

Theorem C52_counter_invalid_is_final : forall c, ct_invalid c = true -> counter_inc c = c.
Proof. exact counter_invalid_sticky. Qed.
Print Assumptions C52_counter_invalid_is_final.

(* NOTE (not a violation: the statement asks for "fail rather than return wrong plaintext"):
   bytes 5..7 of a record - upper bytes of the message type, a header field outside the AEAD -
   are not checked; a record with such a byte flipped is accepted and the plaintext returned
   is still the written one; all property clauses hold on that trace. *)
Theorem C52_type_upper_bytes_note :
  run [4096] [[1; 100]; [4; 1; 0; 6]; [5]; [2; 4096]] =
    Some [[100; 0; 1; 124; 1; 100; 100; 1; 124]; [1]; [124]; [0; 100; 1]] /\
  holds_b [4096] [[1; 100]; [4; 1; 0; 6]; [5]; [2; 4096]]
          [[100; 0; 1; 124; 1; 100; 100; 1; 124]; [1]; [124]; [0; 100; 1]] = true.
Proof. exact type_upper_bytes_note. Qed.
Print Assumptions C52_type_upper_bytes_note.

(* The predicate evaluated on implementation traces (clauses 1-5) holds on every trace of
   the length-level model, for all frame sizes and op lists. *)
Theorem C52_holds_on_every_model_trace : forall cfg ops obs, forallb op_wf ops = true ->
  run cfg ops = Some obs -> holds_core cfg ops obs = true.
Proof. exact model_trace_holds. Qed.
Print Assumptions C52_holds_on_every_model_trace.

(* non-vacuity: 5000 bytes at frame size 4096 = records of 4072 and 928 payload bytes in one
   Conn.Write; swap them; the first Read fails *)
Example C52_witness :
  forallb op_wf [[1; 5000]; [4; 4; 0; 0]; [5]; [2; 65536]; [7; 2; 255; 255; 0; 0; 0; 0; 0; 0; 0; 0; 0; 0]] = true /\
  run [4096] [[1; 5000]; [4; 4; 0; 0]; [5]; [2; 65536]; [7; 2; 255; 255; 0; 0; 0; 0; 0; 0; 0; 0; 0; 0]] =
  Some [[5000; 0; 1; 5048; 2; 4072; 928; 1; 4096]; [1]; [5048]; [1; 0; 0];
        [1; 0; 0; 0; 0; 0; 0; 0; 0; 0; 0; 0; 0]] /\
  run [4096] [[1; 100]; [3; 123]; [2; 40]; [2; 4096]; [3; 1]; [2; 10]] =
  Some [[100; 0; 1; 124; 1; 100; 100; 1; 124]; [123]; [2; 0; 0]; [2; 0; 0]; [124]; [0; 10; 1]].
Proof. vm_compute. repeat split. Qed.
