(* C11: a misbehaving server can never crash or hang the client transport.
   Theorems only; each is closed by [exact] of a lemma from proof/ClientFrames_proofs.v.
   The model (model/ClientFrames.v) is the client reader's dispatch as a machine over a frame
   grammar (HEADERS with field classes, DATA, RST_STREAM, GOAWAY, WINDOW_UPDATE, PING, malformed
   frames = connection errors) plus NewStream, application cancel, virtual time and the final
   Close.  "Never panics", "no later than its deadline" and "no goroutine outlives the
   connection" are runtime facts monitored by the driver, not proved. *)
From Coq Require Import List ZArith Bool.
From VLib Require Import Codec Machine.
From VModel Require Import ClientFrames.
From VProof Require Import ClientFrames_proofs.
Import ListNotations.
Open Scope Z_scope.

(* "every RPC on that connection terminates with exactly one status": for EVERY sequence of
   operations (any frames in any order and number), in the events of the whole run including the
   final Close, no stream id has two terminal-status events, every stream that was created has
   exactly one, and a status is only ever reported for a stream that was created. *)
Theorem C11_one_status : forall ops,
  let es := concat (run_ops conn0 ops) in
  (forall sid, term_count sid es <= 1) /\
  (forall sid, In sid (created es) -> term_count sid es = 1) /\
  (forall e, In e es -> tag e = 1 -> In (esid e) (created es)).
Proof. exact one_status. Qed.
Print Assumptions C11_one_status.

(* the first closeStream wins and nothing is delivered afterwards: once a stream is done its
   whole record (status code, unprocessed flag, header/flow-control state) is unchanged by any
   later operations whatsoever. *)
Theorem C11_no_delivery_after_done : forall ops1 ops2 s,
  In s (k_streams (reach conn0 ops1)) -> x_done s = true ->
  In s (k_streams (reach (reach conn0 ops1) ops2)).
Proof. exact done_is_final_forever. Qed.
Print Assumptions C11_no_delivery_after_done.

(* status code map, RST_STREAM: the status of a stream terminated by RST_STREAM(code) is
   http2ErrConvTab[code] (Unknown when unmapped), Canceled becoming DeadlineExceeded when the
   stream's deadline has passed; REFUSED_STREAM marks the stream unprocessed. *)
Theorem C11_status_of_rst : forall c sid code e,
  In e (snd (exec_op c (ORst sid code))) -> tag e = 1 ->
  esid e = sid /\ (snd e = 1 \/ code <> 7) /\
  exists s, find_active sid (k_streams c) = Some s /\ ecode e = rst_status code (x_dl s) (k_now c).
Proof. exact status_of_rst. Qed.
Print Assumptions C11_status_of_rst.

(* status code map, connection errors / close: every stream still active ends Unavailable *)
Theorem C11_status_of_connection_error : forall c e,
  In e (snd (close_conn c)) -> tag e = 1 -> ecode e = C_UNAVAILABLE.
Proof. exact status_of_connection_error. Qed.
Print Assumptions C11_status_of_connection_error.

(* status code map, non-gRPC response ending the stream: HTTPStatusConvTab of :status *)
Theorem C11_status_of_http_response : forall s fs hs h,
  x_hdr s = false -> x_ng s = -1 ->
  let a := fold_left hstep fs (mkacc false C_UNKNOWN None false false) in
  a_bad_gs a = false -> a_grpc a = false -> a_hs a = Some hs -> hs <> [] ->
  parse_int 64 hs = Some h -> (h < 100 \/ 200 <= h) ->
  headers_result s true fs = HClose (http_code h) E_PROTOCOL.
Proof. exact status_of_http_response. Qed.
Print Assumptions C11_status_of_http_response.

(* status code map, trailers after valid headers: the (last) grpc-status value, as uint32 *)
Theorem C11_status_of_trailers : forall s fs,
  x_hdr s = true -> x_ng s = -1 ->
  let a := fold_left hstep fs (mkacc true C_UNKNOWN None false false) in
  a_bad_gs a = false -> a_herr a = false ->
  headers_result s true fs = HClose (a_gs a) E_NO.
Proof. exact status_of_trailers. Qed.
Print Assumptions C11_status_of_trailers.

(* PADDED DATA frames: the whole frame (pad-length byte + data + padding) counts against the
   stream's receive window - one that does not fit terminates the stream with Internal and
   RST_STREAM(FLOW_CONTROL_ERROR) - and on a gRPC stream the padding part is given back at once. *)
Theorem C11_padded_data_flow_control : forall c sid dlen plen ended s,
  find_active sid (k_streams c) = Some s -> 0 <= dlen -> 0 <= plen ->
  stream_limit < x_pd s + (1 + dlen + plen) + x_pu s ->
  exec_op c (OPadData sid dlen plen ended) = close_one c sid C_INTERNAL false (Some E_FLOW).
Proof. exact padded_data_flow_control. Qed.
Print Assumptions C11_padded_data_flow_control.
Theorem C11_padded_data_accepted : forall c sid dlen plen s,
  find_active sid (k_streams c) = Some s -> x_ng s = -1 -> 0 <= dlen -> 0 <= plen -> 0 <= x_pd s ->
  x_pd s + (1 + dlen + plen) + x_pu s <= stream_limit ->
  exec_op c (OPadData sid dlen plen false) =
  (with_streams c (update sid (set_fc (x_nb s) (x_pd s + dlen)
                                 (if stream_limit / 4 <=? x_pu s + (1 + plen) then 0 else x_pu s + (1 + plen)))
                          (k_streams c)), []).
Proof. exact padded_data_accepted. Qed.
Print Assumptions C11_padded_data_accepted.

(* The predicate evaluated on implementation traces holds on every trace of the model. *)
Theorem C11_holds_on_every_model_trace : forall cfg ops, wf cfg ops = true ->
  exists obs, run cfg ops = Some obs /\ holds_b cfg ops obs = true.
Proof. exact model_trace_holds. Qed.
Print Assumptions C11_holds_on_every_model_trace.

(* non-vacuity: two streams; trailers-only OK on 1; GOAWAY(1) fails 3 as unprocessed and the
   drained connection closes; NewStream afterwards fails *)
Example C11_witness :
  run [] [[1; 0]; [1; 0]; [2; 1; 0; 2; 1; 3; 50; 48; 48; 2; 16; 97;112;112;108;105;99;97;116;105;111;110;47;103;114;112;99];
          [7; 1; 0]; [2; 1; 1; 1; 3; 1; 48]; [1; 0]] =
  Some [[0; 1; 0; 0]; [0; 3; 0; 0]; []; [1; 3; 14; 1]; [1; 1; 0; 0; 3; 1; 0; 0; 8; 0; 0; 0]; [0; -1; 0; 0]; []].
Proof. vm_compute. reflexivity. Qed.
