(* C50: load reports neither lose nor double count load (lrsclient.LoadStore).
   Part A - model LoadStore.v: CallStarted / CallFinished / CallServerLoad / CallDropped as
   programs of atomic instructions (each sync/atomic call, the mutex-protected
   rpcLoadData.add / loadAndClear); a stats() call is a thread that swaps counters to 0, loads
   in-progress counters and finally publishes its report; [reachable] = all interleavings of
   any number of such threads.  [added s k x] = total recorded into counter k of key x,
   [cell] = its current value, [inflight] = what running stats() calls hold, [pub s] = all
   reports returned so far.  Counters are unbounded Z (assumption: no uint64 overflow of a
   counter between two reports); in-progress wraps as uint64.
   Theorems only; each is closed by [exact] of a lemma from proof/LoadStore_proofs.v. *)
From Coq Require Import List ZArith Bool.
From VLib Require Import Codec Machine.
From VModel Require Import LoadStore.
From VProof Require Import LoadStore_proofs.
Import ListNotations.
Open Scope Z_scope.

(* conservation, for every schedule and every counter (issued, succeeded, errored, drops,
   server-load count, server-load sum): recorded = still in the counter + held by running
   snapshots + sum over all reports; nothing is lost or counted twice *)
Theorem C50_conservation : forall s ts, reachable (s, ts) -> forall k x,
  added s k x = cell s k x + inflight ts k x + reps_sum (pub s) k x.
Proof. exact conservation. Qed.
Print Assumptions C50_conservation.

(* what "recorded" means in events: issued lags started calls exactly by the calls between
   their two increments; succeeded + errored lags finished calls likewise *)
Theorem C50_events_issued : forall s ts, reachable (s, ts) -> forall x,
  nst s x = added s KIss x + count_pc (at_siss x) ts.
Proof. exact events_issued. Qed.
Print Assumptions C50_events_issued.

Theorem C50_events_finished : forall s ts, reachable (s, ts) -> forall x,
  nfin s x = added s KSucc x + added s KErr x + count_pc (at_fres x) ts.
Proof. exact events_finished. Qed.
Print Assumptions C50_events_finished.

(* when no call is running: the totals across all reports plus the residual counters equal
   the recorded events, issued = started calls, succeeded + errored = finished calls *)
Theorem C50_quiescent_totals : forall s ts, reachable (s, ts) -> all_rest ts = true ->
  (forall k x, added s k x = cell s k x + reps_sum (pub s) k x) /\
  (forall x, added s KIss x = nst s x) /\
  (forall x, added s KSucc x + added s KErr x = nfin s x) /\
  (forall x, inp s x = u64 (added s KIss x - added s KSucc x - added s KErr x)).
Proof. exact quiescent_totals. Qed.
Print Assumptions C50_quiescent_totals.

(* in-progress: the counter is always started - finished (mod 2^64), and every in-progress
   value in every report is started - finished at the instant of its load, an instruction of
   that stats() call (ip_ns / ip_nf are the ghost counts copied at that instant) *)
Theorem C50_in_progress_now : forall s ts, reachable (s, ts) -> forall x,
  inp s x = u64 (nst s x - nfin s x).
Proof. exact in_progress_now. Qed.
Print Assumptions C50_in_progress_now.

Theorem C50_in_progress_reported : forall s ts, reachable (s, ts) -> forall r e,
  In r (pub s) -> In e (r_ip r) ->
  ip_val e = u64 (ip_ns e - ip_nf e) /\ ip_ns e <= nst s (ip_key e) /\ ip_nf e <= nfin s (ip_key e).
Proof. exact in_progress_reported. Qed.
Print Assumptions C50_in_progress_reported.

(* Part B: the accounting automaton run on the implementation's reports (every reported
   number equals what was recorded since the previous report of that counter; in-progress =
   started - finished) accepts every trace of the sequential model of LoadStore.stats, for
   every script.  holds_b leaves out clause 6, which is refuted below. *)
Theorem C50_holds_on_every_model_trace : forall cfg ops obs,
  run cfg ops = Some obs -> holds_b cfg ops obs = true.
Proof. exact model_trace_holds. Qed.
Print Assumptions C50_holds_on_every_model_trace.

(* FINDING (clause 6).  "server-load counts and sums across all reports equal the recorded
   events" fails without the residual: stats() skips a locality whose four request counters
   are zero BEFORE looking at its server loads, so a load recorded after the report that took
   the locality's last request counters (clusterimpl's Done calls CallFinished before
   CallServerLoad) is withheld by every later report until new requests arrive.
   Script: CallStarted, CallFinished, stats, CallServerLoad(5), stats, stats - no report
   ever contains the load (no word with code 13). *)
Theorem C50_withheld_load_refuted :
  run [0; 1] [[1;0;0]; [2;0;0;1]; [5;0]; [3;0;0;0;5]; [5;0]; [5;0]] =
    Some [[1;0;0]; [2;0;0;1]; [5;0]; [12;0;0]; [11;0;0;1;0;0;1]; [12;1;0]; [6];
          [3;0;0;0;5]; [5;0]; [12;0;0]; [12;1;0]; [6]; [5;0]; [12;0;0]; [12;1;0]; [6]] /\
  existsb (fun c => is6 c && negb (snd c))
    (clauses [0; 1] [] [[1;0;0]; [2;0;0;1]; [5;0]; [12;0;0]; [11;0;0;1;0;0;1]; [12;1;0]; [6];
          [3;0;0;0;5]; [5;0]; [12;0;0]; [12;1;0]; [6]; [5;0]; [12;0;0]; [12;1;0]; [6]]) = true.
Proof. vm_compute. split; reflexivity. Qed.
Print Assumptions C50_withheld_load_refuted.

(* non-vacuity: a script with all four kinds of events, a report, a finish on a locality
   that was never started (ignored) and a finish before start on an existing one (uint64 wrap) *)
Example C50_witness :
  run [0] [[1;0;1]; [3;0;1;1;7]; [2;0;1;1]; [4;0;0]; [4;0;2]; [2;1;0;1]; [5;0]; [2;0;1;0]; [5;1]] =
    Some [[1;0;1]; [3;0;1;1;7]; [2;0;1;1]; [4;0;0]; [4;0;2]; [2;1;0;1]; [5;0]; [12;0;2]; [10;0;2;1];
          [11;0;1;1;0;0;1]; [13;0;1;1;1;7]; [12;1;0]; [6]; [2;0;1;0]; [5;1]; [12;0;0];
          [11;0;1;0;1;-1;0]; [6]] /\
  holds_b [0] [] [[1;0;1]; [5;0]; [12;0;0]; [11;0;1;0;0;1;2]; [12;1;0]; [6]] = false.
Proof. vm_compute. split; reflexivity. Qed.
