(* C37: ring hash builds bounded deterministic rings and walks them per A61.
   Model: VModel.RingHash (normalizeWeights / newRing in binary64 primitive floats,
   ring.pick, picker.Pick for both hash sources; xxhash values supplied as tables).
   Theorems only; each is closed by [exact] of a lemma of proof/RingHash_proofs.v. *)
From Coq Require Import List ZArith Bool Floats Permutation Reals.
From Flocq Require Import Core.Core.
From VLib Require Import Codec Machine.
From VModel Require Import RingHash.
From VProof Require Import Flt_proofs RingHash_proofs RingHashFlt_proofs RingHashIdeal_proofs.
Import ListNotations.
Open Scope Z_scope.

(* "The ring built for a set of endpoints and weights depends only on that set (not on
   update order)": [l] and [l'] are two orders in which the endpoint map may deliver the
   same endpoints (distinct hash keys); weights are uint32 >= 1 whose sum does not wrap
   ([weights_ok]).  Any minRingSize / maxRingSize. *)
Theorem C37_deterministic : forall mn mx l l', Permutation l l' -> NoDup (map key l) ->
  weights_ok l = true -> new_ring mn mx l' = new_ring mn mx l.
Proof. exact new_ring_perm_weights. Qed.
Print Assumptions C37_deterministic.

(* Structure of every ring newRing builds: it is sorted by hash, and it consists, for
   every endpoint (taken in hash-key order), of the hashes of key_0 .. key_(n-1) for some
   n (a prefix of that endpoint's hash table), and of nothing else. *)
Theorem C37_ring_structure : forall mn mx eps ring, new_ring mn mx eps = Some ring ->
  exists es, segs_of (sort_eps eps) es /\ Permutation ring es /\ sorted_ix ring.
Proof. exact ring_structure. Qed.
Print Assumptions C37_ring_structure.

(* "a number of entries proportional to its normalized weight up to rounding": the number
   of entries one endpoint gets is the number of float64 steps cur, cur+1, cur+2, ...
   that are below the cumulative target (tgt = previous target + scale * normalized
   weight); the loop stops at the first step that is not below it. *)
Theorem C37_entries_per_endpoint : forall k tbl cur tgt c es,
  inner k tbl cur tgt = Some (c, es) ->
  c = fiter (length es) cur /\ PrimFloat.ltb c tgt = false /\
  forall j, (j < length es)%nat -> PrimFloat.ltb (fiter j cur) tgt = true.
Proof. exact inner_count. Qed.
Print Assumptions C37_entries_per_endpoint.

(* The size sentence on the real-arithmetic idealisation of newRing (exact reals instead
   of float64: normalized weight w/S with S the sum, scale =
   min(ceil(minWeight*minSize)/minWeight, maxSize), exact cumulative targets, integer
   counter): for all weight vectors ws (all >= 1, not empty; wmin the least weight - only
   its positivity matters) and 1 <= minR <= maxR,
     minR <= size <= maxR,  size = ceil(scale),  and for every endpoint
     0 <= count and |count - scale * w/S| < 1. *)
Theorem C37_size_ideal : forall ws wmin minR maxR,
  Forall (fun w => 1 <= w) ws -> ws <> [] -> 1 <= wmin -> 1 <= minR <= maxR ->
  (minR <= sizeI ws wmin minR maxR <= maxR) /\
  sizeI ws wmin minR maxR = Zceil (scaleI ws wmin minR maxR) /\
  Forall2 (fun w c => 0 <= c /\ (Rabs (IZR c - scaleI ws wmin minR maxR * nwI ws w) < 1)%R)
          ws (countsI ws wmin minR maxR).
Proof. exact ideal_size_and_proportion. Qed.
Print Assumptions C37_size_ideal.

(* the counter loop "for cur < tgt { cur++ }" exits at max(cur, ceil(tgt)) - the closed
   form used by the idealisation (countsR) and proved of the float64 loop below *)
Theorem C37_loop_exit : forall (cur c' : Z) (t : R), cur <= c' -> ~ (IZR c' < t)%R ->
  (forall j, cur <= j < c' -> (IZR j < t)%R) -> c' = Z.max cur (Zceil t).
Proof. exact loop_exit. Qed.
Print Assumptions C37_loop_exit.

(* float64 model, inner loop in closed form: from an exactly represented integer counter
   c <= 2^52 and a finite target of real value t <= 2^52, the loop leaves the counter
   max(c, ceil t) (still exact) and emits max(c, ceil t) - c entries. *)
Theorem C37_entries_float_closed_form : forall k tgt t, FR tgt t -> (t <= IZR (2^52))%R ->
  forall tbl cur c cur' es, FR cur (IZR c) -> 0 <= c <= 2^52 ->
  inner k tbl cur tgt = Some (cur', es) ->
  FR cur' (IZR (Z.max c (Zceil t))) /\ zlen es = Z.max c (Zceil t) - c.
Proof. exact inner_closed. Qed.
Print Assumptions C37_entries_float_closed_form.

(* float64 model, the deviation from the idealisation characterised exactly: within the
   model's domain ([tgts_ok]: cumulative float targets finite, non-decreasing, <= 2^52)
   the ring has exactly ceil(T) entries, T the real value of the accumulated float64
   target; so it differs from the ideal size ceil(scale) exactly as far as T's rounding
   error moves it across an integer, and
     size <= max_ring_size  <->  T <= max_ring_size  (overshoot = false).
   Clause 5 (the finding) is raised exactly in the class overshoot = true. *)
Theorem C37_size_float_exact : forall mn mx eps ring, 0 <= mx < 2^52 ->
  tgts_ok mn mx eps = true -> new_ring mn mx eps = Some ring ->
  exists tn, FR (spec_final_target mn mx eps) tn /\ zlen ring = Zceil tn /\
             (overshoot mn mx eps = false <-> zlen ring <= mx).
Proof. exact size_float. Qed.
Print Assumptions C37_size_float_exact.

(* ... and that class is not empty: "has between min_ring_size and max_ring_size entries"
   is REFUTED for the upper bound (finding, clause 5): 5 endpoints of weight 1,
   min_ring_size = max_ring_size = 6 give a ring of 7 entries. *)
Theorem C37_size_max_refuted : exists eps ring,
  weights_ok eps = true /\ distinct (map key eps) = true /\ nw_good eps = true /\
  zlen eps <= 6 /\ new_ring 6 6 eps = Some ring /\ zlen ring = 7 /\ overshoot 6 6 eps = true.
Proof. exact size_max_refuted. Qed.
Print Assumptions C37_size_max_refuted.

(* where the request hash comes from (head of picker.Pick): no header configured -> the
   xDS hash of the context, absent = error; header configured -> xxhash of the
   comma-joined header values (hj; request-hash walk), or without metadata / values the
   random number r (random-hash walk) *)
Theorem C37_hash_source : forall hdr xdsp xh mdp n hj r,
  (hdr = 0 -> xdsp = 0 -> hash_source hdr xdsp xh mdp n hj r = SrcErr) /\
  (hdr = 0 -> xdsp <> 0 -> hash_source hdr xdsp xh mdp n hj r = SrcReq (u64 xh)) /\
  (hdr <> 0 -> mdp = 0 \/ n = 0%nat -> hash_source hdr xdsp xh mdp n hj r = SrcRnd (u64 r)) /\
  (hdr <> 0 -> mdp <> 0 -> n <> 0%nat -> hash_source hdr xdsp xh mdp n hj r = SrcReq (u64 hj)).
Proof. exact hash_source_cases. Qed.
Print Assumptions C37_hash_source.

(* "returns the first ring entry clockwise whose hash is at least the request hash":
   ring.pick (binary search) on a ring sorted by hash returns index i with
   hash(i) >= h and every earlier hash < h; when h is above every hash, entry 0. *)
Theorem C37_pick_first_ge : forall ring h, sorted_ix ring -> ring <> [] ->
  let i := pick_idx ring h in
  0 <= i < zlen ring /\
  ((h <= hz ring i /\ forall k, 0 <= k < i -> hz ring k < h) \/
   (i = 0 /\ forall k, 0 <= k < zlen ring -> hz ring k < h)).
Proof. exact pick_idx_spec. Qed.
Print Assumptions C37_pick_first_ge.

(* "... skipping endpoints in TRANSIENT_FAILURE": reading the ring clockwise from the
   picked entry ([rotate ring start] = l1 ++ e :: l2), if every entry before e belongs to
   an endpoint in TRANSIENT_FAILURE (3) and e's endpoint is IDLE/CONNECTING/READY (0/1/2),
   the pick is delegated to e's endpoint and no connection attempt is triggered. *)
Theorem C37_walk_request_hash : forall ring sts start l1 e l2,
  0 <= start < zlen ring ->
  rotate ring start = l1 ++ e :: l2 ->
  (forall x, In x l1 -> st_of sts (ekey x) = 3) ->
  In (st_of sts (ekey e)) [0; 1; 2] ->
  walk_req (length ring) ring sts start 0 = (0, ekey e, []).
Proof. exact walk_req_first_non_tf. Qed.
Print Assumptions C37_walk_request_hash.

(* all endpoints in TRANSIENT_FAILURE: the entry picked by the hash gets the pick *)
Theorem C37_walk_request_hash_all_tf : forall ring sts start,
  0 <= start < zlen ring ->
  (forall x, In x ring -> st_of sts (ekey x) = 3) ->
  walk_req (length ring) ring sts start 0 = (0, ekey (znth ring start), []).
Proof. exact walk_req_all_tf. Qed.
Print Assumptions C37_walk_request_hash_all_tf.

(* "a pick with a random hash returns the first READY endpoint": e is the first entry
   clockwise whose endpoint is READY (2) *)
Theorem C37_walk_random_first_ready : forall ring sts start l1 e l2,
  0 <= start < zlen ring ->
  rotate ring start = l1 ++ e :: l2 ->
  (forall x, In x l1 -> st_of sts (ekey x) <> 2) ->
  st_of sts (ekey e) = 2 ->
  exists ex, walk_rnd (length ring) ring sts start 0 (has_connecting sts) [] = (0, ekey e, ex).
Proof. exact walk_rnd_first_ready. Qed.
Print Assumptions C37_walk_random_first_ready.

(* "... and triggers at most one connection attempt": whatever the result, exitIdle is
   called on at most one endpoint, on none when some endpoint is CONNECTING, and only on
   an IDLE endpoint of the ring *)
Theorem C37_walk_random_at_most_one_attempt : forall ring sts start code k ex,
  0 <= start < zlen ring ->
  walk_rnd (length ring) ring sts start 0 (has_connecting sts) [] = (code, k, ex) ->
  (length ex <= 1)%nat /\
  (has_connecting sts = true -> ex = []) /\
  (forall x, In x ex -> exists e, In e ring /\ ekey e = x /\ st_of sts x = 0).
Proof. exact walk_rnd_exits. Qed.
Print Assumptions C37_walk_random_at_most_one_attempt.

(* The loops of picker.Pick compute exactly the declarative specifications that the
   clauses evaluate on observed traces (first non-TF / first READY entry of the rotated
   ring; first IDLE entry before the first READY one). *)
Theorem C37_walk_request_is_spec : forall ring sts start, 0 <= start < zlen ring ->
  walk_req (length ring) ring sts start 0 = spec_req ring sts start.
Proof. exact pick_req_is_spec. Qed.
Print Assumptions C37_walk_request_is_spec.
Theorem C37_walk_random_is_spec : forall ring sts start, 0 <= start < zlen ring ->
  let '(code, k, ex) := walk_rnd (length ring) ring sts start 0 (has_connecting sts) [] in
  (code, k) = spec_rnd ring sts start /\ ex = spec_rnd_exits ring sts start.
Proof. exact pick_rnd_is_spec. Qed.
Print Assumptions C37_walk_random_is_spec.

(* The clauses 0 (decoding), 4 (size <= max outside the overshoot class) and 8-12 (pick,
   Pick with every hash source) of the predicate evaluated on implementation traces hold
   on every trace of the model, for every configuration and op list of any length. *)
Theorem C37_holds_on_every_model_trace : forall cfg ops obs,
  run cfg ops = Some obs -> holds_b cfg ops obs = true.
Proof. exact model_trace_holds. Qed.
Print Assumptions C37_holds_on_every_model_trace.

(* non-vacuity: ring_test.go's weights {3,3,4} with min 10 / max 20 (hash tables made
   up): 10 entries split 3/3/4, the same ring for the reversed endpoint order; pick and
   the two walks on it. *)
Example C37_witness :
  nw_good wit3 = true /\
  new_ring 10 20 wit3 =
    Some [(3, 5); (2, 10); (1, 20); (2, 30); (3, 40); (1, 50); (3, 60); (3, 70); (2, 80); (1, 90)] /\
  new_ring 10 20 (rev wit3) = new_ring 10 20 wit3 /\
  match new_ring 10 20 wit3 with
  | Some r =>
    pick_idx r 55 = 6 /\ pick_idx r 91 = 0 /\
    pick_req r [(1, 3); (2, 3); (3, 0)] 55 = (0, 3, []) /\
    pick_rnd r [(1, 3); (2, 0); (3, 0)] 75 = (1, -1, [2]) /\
    pick_rnd r [(1, 2); (2, 0); (3, 1)] 75 = (0, 1, [])
  | None => False
  end /\
  (exists obs, run [1; 2; 1; 7; 1; 2; 5; 6] [[1; 0]; [2; 6]; [3; 0; 3]; [4; 0; 0]; [5; 1; 0; 0; 1; 2; 7; 8; 6; 0; 0]] = Some obs).
Proof. vm_compute. repeat split; eexists; reflexivity. Qed.
