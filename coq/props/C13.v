(* C13: the client never exceeds the server's MAX_CONCURRENT_STREAMS.
   Theorems only; each is closed by [exact] of a lemma from proof/StreamQuota_proofs.v.
   [exec (init m) acts] ranges over every interleaving, of any length, of the atomic
   steps of any number of NewStream calls (first attempt, blocking receive, retry,
   leaving on the context), stream closes, SETTINGS frames with any value (including 0)
   and GOAWAY/Close, from any initial limit m.  The case runner's operations (among them
   calls rejected for their header list size, SETTINGS frames carrying the parameter twice,
   and a close that coincides with context cancellations) are sequences of these steps. *)
From Coq Require Import List ZArith Bool Sorted.
From VLib Require Import Codec Machine.
From VModel Require Import StreamQuota.
From VProof Require Import StreamQuota_proofs.
Import ListNotations.
Open Scope Z_scope.

(* The admission ledger: streamQuota + #open = the most recently advertised limit. *)
Theorem C13_ledger : forall m acts, let s := exec (init m) acts in
  dead s = false -> quota s + Z.of_nat (length (open s)) = maxc s.
Proof. exact ledger. Qed.
Print Assumptions C13_ledger.

(* A stream opens only while #open < the current limit (so #open <= limit right after),
   it gets the next id, and only on a live transport. *)
Theorem C13_admit_bound : forall m acts a, let s := exec (init m) acts in let s' := fst (astep s a) in
  adm s' <> adm s ->
  dead s = false /\ Z.of_nat (length (open s)) < maxc s /\
  Z.of_nat (length (open s')) <= maxc s' /\ adm s' = adm s ++ [nextid s] /\
  open s' = open s ++ [nextid s].
Proof. exact admit_bound. Qed.
Print Assumptions C13_admit_bound.

(* ... and the open set grows by nothing else: #open can exceed the limit only because a
   SETTINGS frame lowered the limit. *)
Theorem C13_open_grows_only_by_admission : forall s a,
  (length (open s) < length (open (fst (astep s a))))%nat -> adm (fst (astep s a)) <> adm s.
Proof. exact open_grows_only_by_admission. Qed.
Print Assumptions C13_open_grows_only_by_admission.

(* "When the limit is lowered below the open count no new stream opens until enough close". *)
Theorem C13_no_admission_at_or_over_limit : forall m acts a, let s := exec (init m) acts in
  maxc s <= Z.of_nat (length (open s)) -> adm (fst (astep s a)) = adm s.
Proof. exact no_admission_at_or_over_limit. Qed.
Print Assumptions C13_no_admission_at_or_over_limit.

(* "stream ids are odd and strictly increasing" (in the order they are assigned, which is
   the order HEADERS enter the FIFO control buffer). *)
Theorem C13_ids : forall m acts, let s := exec (init m) acts in
  Forall (fun x => Z.odd x = true) (adm s) /\ Sorted Z.lt (adm s) /\
  (forall x, In x (open s) -> In x (adm s)).
Proof. exact ids_odd_increasing. Qed.
Print Assumptions C13_ids.

(* "a waiting RPC is admitted once quota frees": whenever quota is free on a live transport,
   every blocked NewStream call can complete its receive (closed channel or token present),
   or it waits on the current channel while an already woken call is about to retry (which
   will pass the token on if quota remains).  Blocked calls never exceed waitingStreams. *)
Theorem C13_waiter_enabled : forall m acts, let s := exec (init m) acts in
  dead s = false -> 0 < quota s -> forall t g, In (t, Blocked g) (thr s) ->
  can_recv s g = true \/ (g = cur s /\ exists t', In (t', Retry) (thr s)).
Proof. exact waiter_enabled. Qed.
Print Assumptions C13_waiter_enabled.

Theorem C13_blocked_le_waiting : forall m acts, let s := exec (init m) acts in
  Z.of_nat (length (thr s)) <= waiting s.
Proof. exact blocked_le_waiting. Qed.
Print Assumptions C13_blocked_le_waiting.

(* Hence at every quiescent point (no call that the scheduler lets run can move; [held] are
   calls it keeps between "registered as a waiter" and "parked in the select") no call is
   parked while quota is free, and after GOAWAY / Close no call is parked at all ... *)
Theorem C13_quiescent : forall s held, Inv s -> quiescent s held -> held_blocked s held ->
  (dead s = true -> parked s held = []) /\ (dead s = false -> parked s held <> [] -> quota s <= 0).
Proof. exact quiescent_blocked_only_without_quota. Qed.
Print Assumptions C13_quiescent.

(* ... "(or fails on deadline, GOAWAY or close)": GOAWAY/Close release every waiter, and a call
   leaves the waiting set only by admission, by its context, or by GOAWAY/Close. *)
Theorem C13_dead_releases : forall s t p, dead s = true -> lookup t (thr s) = Some p ->
  snd (astep s (ARecv t)) = [2] /\ snd (astep s (ALeave t)) = [2] /\ snd (astep s (ARetry t)) = [2].
Proof. exact dead_releases. Qed.
Print Assumptions C13_dead_releases.

Theorem C13_leaves_only_by : forall s a, (length (thr (fst (astep s a))) < length (thr s))%nat ->
  dead s = true \/ (exists t, a = ALeave t) \/ (exists t, a = ARetry t /\ adm (fst (astep s a)) <> adm s).
Proof. exact leaves_only_by. Qed.
Print Assumptions C13_leaves_only_by.

Theorem C13_invariant_reachable : forall m acts, Inv (exec (init m) acts).
Proof. exact reach_inv. Qed.
Print Assumptions C13_invariant_reachable.

(* The executable predicate evaluated on implementation traces holds on every model trace;
   the runner's macro steps (operation, then run to quiescence within the fuel) are atomic
   steps only. *)
Theorem C13_holds_on_every_model_trace : forall m0 ops, forallb op_wf ops = true ->
  exists obs, run [m0] ops = Some obs /\ holds_b [m0] ops obs = true.
Proof. exact model_trace_holds. Qed.
Print Assumptions C13_holds_on_every_model_trace.

Theorem C13_runner_steps_are_atomic_steps : forall s held e tid op s' held' e' o, Inv s ->
  op_step s held e tid op = Some (s', held', e', o) -> exists acts, s' = exec s acts.
Proof. exact op_step_reach. Qed.
Print Assumptions C13_runner_steps_are_atomic_steps.

(* A call whose header list exceeds the server's MAX_HEADER_LIST_SIZE is rejected before the
   stream-quota check: it performs no step of the admission protocol (quota, ids and the
   waiter count stay as they were; the ledger clause is evaluated on the implementation). *)
Theorem C13_rejected_call_no_step : forall held e tid big hold, rej (hl e) big = true ->
  new_call held e tid big hold = Some ([], held, e, 1).
Proof. exact rejected_call_no_step. Qed.
Print Assumptions C13_rejected_call_no_step.

(* "the most recent MAX_CONCURRENT_STREAMS the server advertised": a SETTINGS frame that carries
   the parameter twice acts exactly as one that carries its last value (RFC 7540 6.5.3). *)
Theorem C13_duplicate_setting_last_wins : forall s held e tid u v,
  op_step s held e tid [2; u; v] = op_step s held e tid [2; v].
Proof. exact duplicate_setting_last_wins. Qed.
Print Assumptions C13_duplicate_setting_last_wins.

(* non-vacuity: limit 1; second and third call wait; limit lowered to 0, the open stream
   closes (quota back to 0: nobody admitted); a SETTINGS frame without the parameter changes
   nothing; a frame carrying [5; 2] raises the limit to 2: both admitted with ids 3, 5.
   Second trace: limit 2, two streams open, two further callers are held between registering
   and parking; both streams end (one token, the second send finds the slot full); the first
   released caller takes the token and a slot and hands the token on, so the second released
   caller is admitted too.
   Third trace: limit 1, MAX_HEADER_LIST_SIZE 2048: a big call is rejected and changes nothing;
   a sender blocks on stream 1; one call parks, one is held; the client closes stream 1 while
   the parked call's context is cancelled: the call was handed the token and opens stream 3,
   the sender is released; the held call parks, a MAX_HEADER_LIST_SIZE change is not sent while
   it waits; stream 3 ends: stream 5; MAX_HEADER_LIST_SIZE 16 rejects every further call. *)
Example C13_witness :
  run [1] [[1]; [1]; [1]; [2; 0]; [3; 0; 0]; [6; 7]; [2; 5; 2]] =
  Some [[0;0;1;0;0;0;0;0;1;0;0;1;1;1]; [0;1;1;1;0;0;0;0;1;0;0;0]; [0;2;1;2;0;0;0;0;1;0;0;0];
        [-1;2;1;2;0;0;0;0;1;0;0;0]; [0;2;0;2;0;0;0;0;0;0;0;0]; [0;2;0;2;0;0;0;0;0;0;0;0];
        [0;0;2;0;0;0;0;0;2;0;0;2;3;5;3;5]] /\
  forallb op_wf [[1]; [1]; [1]; [2; 0]; [3; 0; 0]; [6; 7]; [2; 5; 2]] = true /\
  run [2] [[1]; [1]; [7]; [7]; [3; 0; 1]; [3; 0; 1]; [8; 0]; [8; 0]] =
  Some [[1;0;1;0;0;0;0;0;1;0;0;1;1;1]; [0;0;2;0;0;0;0;0;2;0;0;1;3;3]; [0;1;2;1;1;0;0;0;2;0;0;0];
        [0;2;2;2;2;0;0;0;2;0;0;0]; [1;2;1;2;2;0;0;0;1;0;0;0]; [2;2;0;2;2;0;0;0;0;0;0;0];
        [1;1;1;1;1;0;0;0;1;0;0;1;5;5]; [0;0;2;0;0;0;0;0;2;0;0;1;7;7]] /\
  run [1] [[9; 2048]; [10]; [1]; [12; 0]; [1]; [7]; [11; 0]; [8; 0]; [9; 16]; [3; 0; 0]; [9; 16]; [1]] =
  Some [[1;0;0;0;0;0;0;0;0;0;0;0]; [1;0;0;0;0;0;0;1;0;0;0;0]; [0;0;1;0;0;0;0;0;1;0;0;1;1;1];
        [0;0;1;0;0;0;0;0;1;1;0;0]; [0;1;1;1;0;0;0;0;1;1;0;0]; [0;2;1;2;1;0;0;0;1;1;0;0];
        [0;1;1;1;1;0;0;0;1;0;0;1;3;3]; [0;1;1;1;0;0;0;0;1;0;0;0]; [0;1;1;1;0;0;0;0;1;0;0;0];
        [0;0;1;0;0;0;0;0;1;0;0;1;5;5]; [0;0;1;0;0;0;0;0;1;0;0;0]; [0;0;1;0;0;0;0;1;1;0;0;0]] /\
  forallb op_wf [[9; 2048]; [10]; [1]; [12; 0]; [1]; [7]; [11; 0]; [8; 0]; [9; 16]; [3; 0; 0]; [9; 16]; [1]] = true.
Proof. vm_compute. repeat split; reflexivity. Qed.
