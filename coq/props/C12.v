(* C12: a misbehaving client cannot crash the server or reach a handler illegally.
   Theorems only; each is closed by [exact] of a lemma from proof/ServerHeaders_proofs.v.
   The model (model/ServerHeaders.v) is the server's treatment of a client's frames:
   x/net's readMetaFrame/checkPseudos, http2Server.operateHeaders, the StreamError and
   ConnectionError paths of HandleStreams, RST_STREAM / empty DATA / Write + WriteStatus, and
   loopy's stream-level flow control as far as it delays the END_STREAM of a finished stream. "Never
   panics" is monitored by the driver (every panic is event 66, clauses 11 / 12), not proved. *)
From Coq Require Import List ZArith Bool.
From VLib Require Import Codec Machine.
From VModel Require Timeout MDWire.
From VModel Require Import ServerHeaders.
From VProof Require Import ServerHeaders_proofs.
Import ListNotations.
Open Scope Z_scope.

(* "never invokes a handler for a request with illegal stream id, non-POST method, invalid
   content-type, malformed grpc-timeout, duplicate :authority or undecodable binary metadata":
   for every connection state, stream id, END_STREAM flag and field list, if the HEADERS frame
   makes the handler counter move then the id is odd and above every id seen, the connection is
   reachable and below MaxConcurrentStreams, there is exactly one :method and it is POST, a valid
   content-type is present, every grpc-timeout is well-formed (C07's grammar), :authority and
   host occur at most once, every -bin value decodes, there is no connection header and all
   names/values are valid on the wire; the handler runs once and the stream becomes active. *)
Theorem C12_accept_implies_legal : forall cfg st sid ended fs st' ev,
  headers_step cfg st sid ended fs = (st', ev) -> s_handled st' <> s_handled st ->
  (Z.odd sid = true /\ s_max st < sid) /\
  (s_mode st = 0 /\ lenZ (s_active st) < c_maxs cfg) /\
  has_post fs = true /\ some_ct_valid fs = true /\ timeouts_ok fs = true /\
  (count_kind K_AUTH fs <= 1 /\ count_kind K_HOST fs <= 1) /\ bins_ok fs = true /\
  has_conn fs = false /\ forallb field_wire_ok fs = true /\
  s_handled st' = s_handled st + 1 /\ s_active st' = s_active st ++ [(sid, b2z ended)].
Proof. exact accept_implies_legal_explicit. Qed.
Print Assumptions C12_accept_implies_legal.

(* "never has more active streams on the connection than MaxConcurrentStreams":
   after ANY list of operations (HEADERS with any fields, RST_STREAM, empty DATA, application
   finishing a stream with or without a message, WINDOW_UPDATEs (zero: stream error; positive:
   flow-control credit), framer connection errors). *)
Theorem C12_active_bound : forall cfg ops, 0 <= c_maxs cfg ->
  lenZ (s_active (reach cfg st0 ops)) <= c_maxs cfg.
Proof. exact active_bound. Qed.
Print Assumptions C12_active_bound.

(* "(excess streams get RST_STREAM REFUSED_STREAM)": a request with a legal id that passes the
   header checks preceding admission, on a live connection whose limit is reached, is answered
   with exactly RST_STREAM(REFUSED_STREAM); no handler, no new active stream. *)
Theorem C12_refused : forall cfg st sid ended fs,
  s_mode st = 0 -> legal_id (s_max st) sid = true -> admissible (c_limit cfg) fs = true ->
  c_maxs cfg <= lenZ (s_active st) ->
  headers_step cfg st sid ended fs =
  (mkst sid (s_active st) (s_handled st) (s_mode st) (s_post st) (s_win st), ev_rst sid E_REFUSED).
Proof. exact refused_over_limit. Qed.
Print Assumptions C12_refused.

(* What "active" means for that limit: a stream handed to a handler stays active until its end is
   on the wire.  A handler that writes a message which does not fit the stream's send window and
   returns (WriteStatus) leaves the stream in the active set: only the response HEADERS go out,
   the count is unchanged - so C12_refused applies to the resulting state ... *)
Theorem C12_finished_stream_counts_until_flushed : forall cfg st sid n s,
  s_mode st = 0 -> c_tiny cfg = false -> find_stream sid (s_active st) = Some s -> is_done s = false ->
  detached s = false -> window cfg st sid < 5 + n ->
  let r := exec_op cfg st (OWriteFinish sid n) in
  snd r = ev_hdr sid 1200 (-1) /\ s_active (fst r) = set_stream sid (fin_blocked s) (s_active st) /\
  lenZ (s_active (fst r)) = lenZ (s_active st) /\ s_handled (fst r) = s_handled st /\
  s_mode (fst r) = 0 /\ s_max (fst r) = s_max st /\ window cfg (fst r) sid = window cfg st sid - (5 + n).
Proof. exact blocked_finish_keeps_stream. Qed.
Print Assumptions C12_finished_stream_counts_until_flushed.

(* ... until a WINDOW_UPDATE lets the queued DATA out: then the END_STREAM trailers (and
   RST_STREAM(NO_ERROR) if the client had not half-closed) are written and the stream leaves the
   active set; a smaller WINDOW_UPDATE changes nothing but the credit. *)
Theorem C12_window_flushes_blocked : forall cfg st sid inc s,
  s_mode st = 0 -> find_stream sid (s_active st) = Some s -> is_blocked s = true -> 0 <= window cfg st sid + inc ->
  exec_op cfg st (OWindow sid inc) =
  (with_active st (del_stream sid (s_active st)), ev_hdr sid (-1) 0 ++ (if rst_after s then ev_rst sid E_NO else [])).
Proof. exact window_flushes_blocked. Qed.
Print Assumptions C12_window_flushes_blocked.
Theorem C12_window_too_small : forall cfg st sid inc s,
  s_mode st = 0 -> find_stream sid (s_active st) = Some s -> window cfg st sid + inc < 0 ->
  let r := exec_op cfg st (OWindow sid inc) in
  snd r = [] /\ s_active (fst r) = s_active st /\ window cfg (fst r) sid = window cfg st sid + inc.
Proof. exact window_too_small. Qed.
Print Assumptions C12_window_too_small.

(* witness: MaxConcurrentStreams = 1, SETTINGS_INITIAL_WINDOW_SIZE = 0.  Stream 1 is accepted, its
   handler writes 15 bytes and returns; stream 3 is refused; 14 bytes of window are not enough and
   stream 5 is refused; one more byte flushes stream 1 and stream 7 is accepted. *)
Theorem C12_blocked_stream_witness :
  run [1; 4096; 0; 1] [good_req 1; [9; 1; 10]; good_req 3; [10; 1; 14]; good_req 5; [10; 1; 1]; good_req 7] =
  Some [[1; 1; 1; 9; 1; 0; 0; 1; 1; 2; 47; 115; -1]; [1; 1; 1; 1; 1; 1200; -1]; [1; 1; 3; 3; 3; 7; 0]; [1; 1; 3];
        [1; 1; 5; 3; 5; 7; 0]; [0; 1; 5; 1; 1; -1; 0; 3; 1; 0; 0]; [1; 2; 7; 9; 7; 0; 0; 1; 1; 2; 47; 115; -1]].
Proof. exact blocked_stream_witness. Qed.
Print Assumptions C12_blocked_stream_witness.

(* an even or non-increasing stream id on a well-formed header block is a connection error:
   GOAWAY(maxStreamID, PROTOCOL_ERROR), the transport stops being reachable ... *)
Theorem C12_illegal_id_is_conn_error : forall cfg st sid ended fs l,
  read_meta (c_limit cfg) fs = MFrame l false -> (Z.even sid = true \/ sid <= s_max st) ->
  headers_step cfg st sid ended fs =
  (mkst (s_max st) (s_active st) (s_handled st) 1 (s_post st) (s_win st), out st [7; s_max st; E_PROTOCOL; 0]).
Proof. exact illegal_id_is_conn_error. Qed.
Print Assumptions C12_illegal_id_is_conn_error.

(* ... and from a transport that is not reachable no handler is ever invoked again, whatever
   the client sends. *)
Theorem C12_no_handler_after_conn_error : forall cfg ops st, s_mode st <> 0 ->
  s_handled (reach cfg st ops) = s_handled st.
Proof. exact no_handler_after_conn_error. Qed.
Print Assumptions C12_no_handler_after_conn_error.

(* a duplicated pseudo-header (:authority, :method, ...) never gets past the framer *)
Theorem C12_no_duplicate_pseudo_header : forall limit fs l k,
  read_meta limit fs = MFrame l false -> is_pseudo k = true -> count_kind k fs <= 1.
Proof.
  exact (fun limit fs l k H Hk =>
           check_pseudos_count k fs (proj1 (proj2 (read_meta_full limit fs l H))) Hk).
Qed.
Print Assumptions C12_no_duplicate_pseudo_header.

(* "the server never panics": monitored on the real transport (every panic is event 66 of the op
   during which it happened; clause 12: none ever, clause 11: none for the frame class below),
   and the model never produces that event, whatever the state and the op. *)
Theorem C12_model_never_panics : forall cfg st o, has_event 66 (snd (step cfg st o)) 8 = false.
Proof. exact model_never_panics. Qed.
Print Assumptions C12_model_never_panics.

(* The frame class of the defect repaired by 1b83f43 (found by this engine: recvBuffer.put freed
   the nil buffer of an error-only message, a nil-pointer panic of the reader goroutine that a
   client could trigger at will): a DATA frame with END_STREAM for a stream that has finished
   (streamDone) but is still in t.activeStreams and has already been sent END_STREAM (stream
   states 6-8: its response waits for flow-control window, or loopy was made to forget it by a
   truncated HEADERS frame).  handleData guards only streamReadDone; the second io.EOF is dropped
   by recvBuffer.put: no state change, nothing written, no panic. *)
Theorem C12_second_end_stream_dropped : forall st sid s,
  find_stream sid (s_active st) = Some s -> 6 <= s <= 8 -> data_op st sid true = (st, []).
Proof. exact second_end_stream_dropped. Qed.
Print Assumptions C12_second_end_stream_dropped.
(* witness, replayed on the real server by driver cases 18 / 19: INITIAL_WINDOW_SIZE = 0, HEADERS(1),
   DATA(1, END_STREAM), the handler writes 15 bytes and returns, DATA(1, END_STREAM) again: dropped;
   stream 3 is refused because stream 1 still counts *)
Theorem C12_double_end_stream_witness :
  run [1; 4096; 0; 1] [good_req 1; [4; 1; 1]; [9; 1; 10]; [4; 1; 1]; good_req 3] =
  Some [[1; 1; 1; 9; 1; 0; 0; 1; 1; 2; 47; 115; -1]; [1; 1; 1]; [1; 1; 1; 1; 1; 1200; -1]; [1; 1; 1]; [1; 1; 3; 3; 3; 7; 0]].
Proof. exact double_end_stream_witness. Qed.
Print Assumptions C12_double_end_stream_witness.

(* The predicate evaluated on implementation traces (clauses 1-8 and 10-12) holds on every trace of
   the model, for every decodable configuration and operation list. *)
Theorem C12_holds_on_every_model_trace : forall cfg ops, wf cfg ops = true ->
  exists obs, run cfg ops = Some obs /\ holds_b cfg ops obs = true.
Proof. exact model_trace_holds. Qed.
Print Assumptions C12_holds_on_every_model_trace.

(* Literal reading of "no handler for a request with invalid content-type" (no invalid
   content-type FIELD at all, clause 9) is false: isGRPC is set by any valid content-type field
   and never reset, so [content-type: application/grpc; content-type: text] is served. *)
Theorem C12_mixed_content_type_refuted :
  all_ct_valid mixed_ct_request = false /\
  s_handled (fst (headers_step (mkcfg 1 4096 false false) st0 1 false mixed_ct_request)) = 1.
Proof. exact mixed_content_type_refuted. Qed.
Print Assumptions C12_mixed_content_type_refuted.

(* non-vacuity: accept, 415 early abort, client RST, illegal id -> GOAWAY, then dropped *)
Example C12_witness :
  wf [2; 4096; 0] [[1; 1; 0; 3; 4; 4; 80; 79; 83; 84; 5; 2; 47; 115; 1; 16; 97;112;112;108;105;99;97;116;105;111;110;47;103;114;112;99];
                   [1; 3; 0; 1; 4; 3; 71; 69; 84]; [2; 1]; [1; 2; 0; 0]; [1; 5; 0; 0]] = true /\
  run [2; 4096; 0] [[1; 1; 0; 3; 4; 4; 80; 79; 83; 84; 5; 2; 47; 115; 1; 16; 97;112;112;108;105;99;97;116;105;111;110;47;103;114;112;99];
                    [1; 3; 0; 1; 4; 3; 71; 69; 84]; [2; 1]; [1; 2; 0; 0]; [1; 5; 0; 0]] =
  Some [[1; 1; 1; 9; 1; 0; 0; 1; 1; 2; 47; 115; -1]; [1; 1; 3; 1; 3; 415; 3; 3; 3; 0; 0]; [0; 1; 3];
        [0; 1; 3; 7; 3; 1; 0]; [0; 1; 5]].
Proof. exact witness. Qed.
