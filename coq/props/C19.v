(* C19: retry backoff and retry throttling follow gRFC A6 arithmetic.
   Model: VModel.RetryThrottle (retryThrottler, csAttempt.shouldRetry incl. math.Pow,
   builtin min, jitter and the int64 conversion, in binary64 primitive floats).
   Theorems only; each is closed by [exact] of a lemma of proof/RetryThrottle_proofs.v. *)
From Coq Require Import List ZArith Bool Reals Floats.
From VLib Require Import Codec Machine.
From VModel Require Import Backoff RetryThrottle.
From VProof Require Import Flt_proofs Backoff_proofs RetryThrottle_proofs.
Import ListNotations.
Open Scope Z_scope.

(* "The delay before retry n is the server pushback when one was given": the timer is
   pushback ms (exactly, whenever pushback x 10^6 fits int64), and the count k of retries
   since the last pushback restarts at 0 *)
Theorem C19_pushback_wins : forall t p st a r s pb d ex st', a_pb a = PBone s -> atoi s = Some pb ->
  should_retry t p st a r = (st', Some (d, ex)) ->
  d = i64 (1000000 * pb) /\ ex = true /\ sincePB st' = 0 /\ 0 <= pb /\
  (1000000 * pb <= max_i64 -> d = 1000000 * pb).
Proof. exact pushback_wins. Qed.
Print Assumptions C19_pushback_wins.

(* "... and otherwise" the delay is the backoff expression at k = retries since the last
   pushback (k then advances) ... *)
Theorem C19_no_pushback_delay : forall t p st a r d ex st', a_pb a = PBnone ->
  should_retry t p st a r = (st', Some (d, ex)) ->
  d = delay_of p (sincePB st) r /\ ex = false /\ sincePB st' = sincePB st + 1.
Proof. exact no_pushback_delay. Qed.
Print Assumptions C19_no_pushback_delay.

(* "... lies in [0.8, 1.2] x min(initialBackoff x multiplier^k, maxBackoff)": for every
   policy the service-config parser accepts (policy_ok_b: InitialBackoff > 0, MaxBackoff > 0,
   BackoffMultiplier > 0 finite), every k and every draw r in [0, 1-2^-53], provided the
   upper end cur x (0.8+0.4) stays below 2^63 (ovf_delay = false; the complement is the
   registered overflow finding):  int64(cur x 0.8) <= delay <= int64(cur x (0.8+0.4)) with
   cur = float64 min(init x Pow(mult,k), max), every operation in float64 as the code
   performs it, and the delay is not negative. *)
Theorem C19_backoff_interval : forall p k r, policy_ok_b p = true -> ovf_delay p k = false -> draw_ok r = true ->
  int_lo p k <= delay_of p k r <= int_hi p k /\ 0 <= int_lo p k.
Proof. exact backoff_interval. Qed.
Print Assumptions C19_backoff_interval.
(* ... because cur is a finite float in [0, 2^63] for every validated policy: the
   transcribed math.Pow (integer-exponent path: Frexp, square-and-multiply, Ldexp) returns a
   non-negative finite value or +Inf, never NaN, for every finite x > 0 and every k *)
Theorem C19_pow_nonneg : forall x v k, FR x v -> (0 < v)%R -> NNF (pow_int x k) \/ PINF (pow_int x k).
Proof. exact pow_int_nn. Qed.
Print Assumptions C19_pow_nonneg.
Theorem C19_cur_finite : forall p k, policy_ok_b p = true -> exists v, FR (cur_of p k) v /\ (0 <= v <= R63)%R.
Proof. exact cur_FR. Qed.
Print Assumptions C19_cur_finite.
(* the interval for an arbitrary finite cur (used above) *)
Theorem C19_backoff_interval_any_cur : forall cur v r, FR cur v -> (0 <= v <= R63)%R ->
  PrimFloat.leb two63 (cur * (c08 + c04))%float = false -> draw_ok r = true ->
  to_i64 (cur * c08)%float <= to_i64 (jit_of cur r) <= to_i64 (cur * (c08 + c04))%float /\
  0 <= to_i64 (cur * c08)%float.
Proof. exact delay_interval. Qed.
Print Assumptions C19_backoff_interval_any_cur.
Theorem C19_cur_le_max : forall p k, PrimFloat.ltb (of_i64 (maxB p)) (cur_of p k) = false.
Proof. exact cur_le_max. Qed.
Print Assumptions C19_cur_le_max.

(* ... refuted at the top of the parser's range (findings, clauses 5 and 6): the int64
   conversion of cur x jitter overflows to MinInt64, and pushback ms x 10^6 wraps *)
Theorem C19_backoff_interval_refuted : exists p k r, draw_ok r = true /\
  0 < initB p <= max_i64 /\ 0 < maxB p <= max_i64 /\ delay_of p k r = min_i64.
Proof. exact delay_overflow_refuted. Qed.
Print Assumptions C19_backoff_interval_refuted.
Theorem C19_pushback_wins_refuted : exists s pb, atoi s = Some pb /\ 0 <= pb /\ pushback_delay pb < 0.
Proof. exact pushback_overflow_refuted. Qed.
Print Assumptions C19_pushback_wins_refuted.

(* "The retry token bucket always stays within [0, maxTokens]": both updates preserve the
   range for every valid throttling policy (0 < maxTokens <= 1000, 0 < tokenRatio finite,
   including a sum that overflows to +Inf), hence every RPC does *)
Theorem C19_bucket_range_fail : forall t tok vmax vr, tcfg_ok t vmax vr -> in_bucket t tok -> in_bucket t (tok_fail tok).
Proof. exact tok_fail_range. Qed.
Print Assumptions C19_bucket_range_fail.
Theorem C19_bucket_range_success : forall t tok vmax vr, tcfg_ok t vmax vr -> in_bucket t tok -> in_bucket t (tok_success t tok).
Proof. exact tok_success_range. Qed.
Print Assumptions C19_bucket_range_success.
Theorem C19_bucket_range_rpc : forall t p vmax vr, tcfg_ok t vmax vr -> forall script st budget r,
  in_bucket t (tokens st) -> in_bucket t (fst (fst (rpc_go t p st budget script r))).
Proof. exact rpc_go_bucket. Qed.
Print Assumptions C19_bucket_range_rpc.

(* ... also across service-config updates: a new retryThrottling policy starts a fresh, full
   bucket (tokens = new maxTokens), whatever the old bucket held - so the count is inside the
   NEW [0, maxTokens] (clause 3 is evaluated against the new policy right after the update) *)
Theorem C19_update_fresh_bucket : forall p t tok t' op rest, parse_op op = None -> parse_upd op = Some t' ->
  run_from t p tok (op :: rest) =
  match run_from t' p (tmax t') rest with Some os => Some ([to_bits (tmax t')] :: os) | None => None end.
Proof. exact update_fresh_bucket. Qed.
Print Assumptions C19_update_fresh_bucket.
Theorem C19_full_bucket_in_range : forall t vmax vr, tcfg_ok t vmax vr -> in_bucket t (tmax t).
Proof. exact max_in_bucket. Qed.
Print Assumptions C19_full_bucket_in_range.

(* "an attempt that fails with a retryable code (or with malformed pushback) removes one
   token": value max(0, fl(tokens - 1)) *)
Theorem C19_failure_removes_one : forall tok v, FR tok v -> (0 <= v <= 1000)%R ->
  FR (tok_fail tok) (Rmax 0 (rnd (v - 1))) /\ (0 <= Rmax 0 (rnd (v - 1)) <= v)%R.
Proof. exact tok_fail_spec. Qed.
Print Assumptions C19_failure_removes_one.
Theorem C19_retryable_failure_removes_token : forall t p st a r, a_pb a = PBnone -> retryable (a_code a) = true ->
  tokens (fst (should_retry t p st a r)) = tok_fail (tokens st).
Proof. exact retryable_failure_removes_token. Qed.
Print Assumptions C19_retryable_failure_removes_token.
Theorem C19_bad_pushback_removes_token_no_retry : forall t p st a r, bad_pushback (a_pb a) ->
  should_retry t p st a r = (mkrs (tok_fail (tokens st)) (numRetries st) (sincePB st), None).
Proof. exact bad_pushback_no_retry. Qed.
Print Assumptions C19_bad_pushback_removes_token_no_retry.
Theorem C19_not_retryable_keeps_bucket : forall t p st a r, a_pb a = PBnone -> retryable (a_code a) = false ->
  should_retry t p st a r = (st, None).
Proof. exact not_retryable_no_token. Qed.
Print Assumptions C19_not_retryable_keeps_bucket.

(* "a successful RPC adds tokenRatio": tok_success is by definition
   min(maxTokens, tokens (+) tokenRatio) and it is what rpc_go applies on success *)
Theorem C19_success_adds_ratio : forall t p st budget r,
  rpc_go t p st budget [] r = (tok_success t (tokens st), 0, []).
Proof. exact success_step. Qed.
Print Assumptions C19_success_adds_ratio.

(* "a retry is refused exactly when the bucket is at or below half of maxTokens after that
   removal" (or the attempts are used up) *)
Theorem C19_throttle_rule : forall t p st a r, a_pb a = PBnone -> retryable (a_code a) = true ->
  (snd (should_retry t p st a r) = None <->
   throttled t (tok_fail (tokens st)) = true \/ maxAttempts p <= numRetries st + 1).
Proof. exact retry_iff. Qed.
Print Assumptions C19_throttle_rule.
Theorem C19_throttled_is_half : forall t tok, throttled t tok = PrimFloat.leb tok (tmax t / 2)%float.
Proof. exact throttle_rule. Qed.
Print Assumptions C19_throttled_is_half.

(* The executable predicate evaluated on implementation traces (clauses 1-4; 5 and 6 never
   raised) holds on the model's trace, which exists, for every valid throttling policy,
   every validated retry policy that does not reach the int64 overflow (no_ovf), and every
   sequence of RPCs and service-config updates (new valid throttling policies), with any
   scripts of failures (codes, pushback strings whose value fits,
   op_wf): pushback delays are exact, computed delays are inside the float interval, the
   bucket stays in range and the outcome follows gRFC A6. *)
Theorem C19_holds_on_every_model_trace : forall cfg t p vmax vr ops,
  decode_cfg cfg = Some (t, p) -> tcfg_ok t vmax vr ->
  policy_ok_b p = true -> no_ovf p -> forallb op_wf ops = true ->
  exists obs, run cfg ops = Some obs /\ holds_b cfg ops obs = true.
Proof. exact model_trace_holds. Qed.
Print Assumptions C19_holds_on_every_model_trace.
Theorem C19_tcfg_ok_decidable : forall t, tcfg_ok_b t = true -> exists vmax vr, tcfg_ok t vmax vr.
Proof. exact tcfg_ok_b_sound. Qed.
Print Assumptions C19_tcfg_ok_decidable.

(* non-vacuity: policy (4 attempts, 0.1s, 1s, x2; 10 tokens, ratio 0.1): a failing RPC with
   three UNAVAILABLE attempts retries after 80ms, 160ms, 320ms (draw 0) and then fails; the
   bucket goes 10 -> 6 and the next RPC is not retried (6 - 1 <= 5); all clauses hold *)
Definition C19_cfg : word := [4; 100000000; 1000000000; 4611686018427387904; 4621819117588971520; 4591870180066957722].
Definition C19_ops : list word := [[1; 4; 14; 0; 14; 0; 14; 0; 14; 0]; [1; 1; 14; 0]; [1; 1; 14; 1; 2; 50; 53];
  [2; 4616189618054758400; 4602678819172646912]; [1; 3; 14; 0; 14; 0; 14; 0]].
Example C19_witness :
  match decode_cfg C19_cfg with
  | Some (t, p) => tcfg_ok_b t && policy_ok_b p && negb (ovf_delay p 0) && negb (ovf_delay p 1) &&
                   negb (ovf_delay p 2) && negb (ovf_delay p 3) && (maxAttempts p =? 4)
  | None => false end = true /\
  forallb op_wf C19_ops = true /\
  run C19_cfg C19_ops =
    Some [[14; 3; 80000000; 160000000; 320000000; 4618441417868443648];
          [14; 0; 4617315517961601024]; [14; 0; 4616189618054758400];
          [4616189618054758400]; [14; 1; 80000000; 4611686018427387904]] /\
  holds_b C19_cfg C19_ops
    [[14; 3; 80000000; 160000000; 320000000; 4618441417868443648];
     [14; 0; 4617315517961601024]; [14; 0; 4616189618054758400];
     [4616189618054758400]; [14; 1; 80000000; 4611686018427387904]] = true.
Proof. vm_compute. repeat split. Qed.
