(* C20: connection backoff stays within the documented bounds.
   Model: VModel.Backoff (Exponential.Backoff in binary64 primitive floats, as of the
   saturation fix b524c04; addrConn backoff-index pacing machine).
   Theorems only; each is closed by [exact] of a lemma of proof/Backoff_proofs.v. *)
From Coq Require Import List ZArith Bool Reals Floats.
From VLib Require Import Codec Machine.
From VModel Require Import Backoff.
From VProof Require Import Flt_proofs Backoff_proofs.
Import ListNotations.
Open Scope Z_scope.

(* "for retry count 0 it is the base delay" *)
Theorem C20_base : forall c r, backoff c 0 r = base c.
Proof. exact backoff_base. Qed.
Print Assumptions C20_base.

(* "never negative": for every configuration, every retry count n <> 0 and every draw,
   provided the jittered float64 product is not NaN, the result is in [0, MaxInt64] *)
Theorem C20_nonneg : forall c n r, n <> 0 ->
  is_nan_b (capped c (Z.to_nat n) * factor (jit c) r)%float = false ->
  0 <= backoff c n r <= max_i64.
Proof. exact backoff_nonneg. Qed.
Print Assumptions C20_nonneg.

(* ... the two residual exceptions (reported as findings; clauses 5 and 6): a NaN product
   is converted to MinInt64, and Backoff(0) hands back a negative BaseDelay unchanged *)
Theorem C20_nonneg_nan_refuted : exists c n r, n <> 0 /\ draw_ok r = true /\ backoff c n r = min_i64.
Proof. exact nan_refuted. Qed.
Print Assumptions C20_nonneg_nan_refuted.
Theorem C20_nonneg_base_refuted : exists c r, backoff c 0 r < 0.
Proof. exact negative_base_refuted. Qed.
Print Assumptions C20_nonneg_base_refuted.

(* "saturating rather than wrapping": the result always fits int64; a finite product of
   at least 2^63, and +Inf, give exactly MaxInt64 *)
Theorem C20_no_wrap : forall c n r, in_i64 (base c) = true -> min_i64 <= backoff c n r <= max_i64.
Proof. exact backoff_in_i64. Qed.
Print Assumptions C20_no_wrap.
Theorem C20_saturates : forall x v, FR x v -> (R63 <= v)%R -> conv x = max_i64.
Proof. exact conv_saturates. Qed.
Print Assumptions C20_saturates.
Theorem C20_saturates_inf : conv infinity = max_i64.
Proof. exact conv_pinf. Qed.
Print Assumptions C20_saturates_inf.

(* "min(base x multiplier^n, maxDelay)": the value before jitter is base times the
   multiplier k <= n times (float64 products), the loop stopping early only once the
   running value is no longer below float64(MaxDelay); and it is never above that *)
Theorem C20_loop_is_product : forall n b mx m, exists k, (k <= n)%nat /\ loop n b mx m = pw k b m /\
  (k = n \/ PrimFloat.ltb (pw k b m) mx = false).
Proof. exact loop_pw. Qed.
Print Assumptions C20_loop_is_product.
Theorem C20_capped_le_max : forall c n, PrimFloat.ltb (of_i64 (maxd c)) (capped c n) = false.
Proof. exact capped_le_max. Qed.
Print Assumptions C20_capped_le_max.

(* "for n >= 1 with multiplier >= 1 and jitter in [0,1] it lies within
   [(1-jitter),(1+jitter)] x min(base x multiplier^n, maxDelay)": with C = capped c n,
   every operation in float64 as the code performs it, for every draw r in [0, 1-2^-53]
   (rand.Float64 returns k/2^53): conv(C x (1-j)) <= Backoff(n) <= conv(C x (1+j)); the
   result also lies between the results of the extreme draws, and the lower end is >= 0.
   [dom] = n >= 1, 1 <= Multiplier < +Inf, 0 <= Jitter <= 1, 0 <= BaseDelay, MaxDelay. *)
Theorem C20_interval : forall c n r, dom c n = true -> base c <= max_i64 -> maxd c <= max_i64 ->
  draw_ok r = true ->
  int_lo c n <= backoff c n r <= int_hi c n /\
  env_lo c n <= backoff c n r <= env_hi c n /\
  0 <= int_lo c n.
Proof. exact interval. Qed.
Print Assumptions C20_interval.

(* "a subchannel whose connection attempt failed waits at least that backoff before
   trying again": an attempt that fails at once at time t with index i arms the timer
   t + Backoff(i); an attempt that fails slowly (after fail_after = min(h, connect
   deadline)) fixes backoffFor = Backoff(i) at its start and arms the timer
   (failure time) + backoffFor - the wait is counted from the failure, not from the start
   of the attempt; while virtual time stays below the timer no dial happens *)
Theorem C20_failed_attempt_arms_backoff : forall c s, okmode s = false -> fdelay s <= 0 ->
  dial c s = mkp (now s) false (idx s) (PBackoff (now s + bo c (idx s))) (fdelay s) true.
Proof. exact dial_fail. Qed.
Print Assumptions C20_failed_attempt_arms_backoff.
Theorem C20_slow_attempt_in_flight : forall c s, okmode s = false -> 0 < fdelay s ->
  ph (dial c s) = PConnecting (now s + fail_after c (idx s) (fdelay s)) (bo c (idx s)).
Proof. exact dial_fail_slow. Qed.
Print Assumptions C20_slow_attempt_in_flight.
Theorem C20_wait_counts_from_failure : forall fuel c target s t b, ph s = PConnecting t b -> t <= target ->
  advance (S fuel) c target s =
  advance fuel c target (mkp t (okmode s) (idx s) (PBackoff (t + b)) (fdelay s) true).
Proof. exact advance_slow_failure. Qed.
Print Assumptions C20_wait_counts_from_failure.
Theorem C20_wait_at_least : forall fuel c target s t, ph s = PBackoff t -> target < t ->
  advance fuel c target s = Some (mkp target (okmode s) (idx s) (PBackoff t) (fdelay s) (sticky s), []).
Proof. exact advance_waits. Qed.
Print Assumptions C20_wait_at_least.

(* "unless the backoff is explicitly reset": a ResetConnectBackoff made DURING the wait
   dials at once and zeroes the index ... *)
Theorem C20_reset_cuts_wait : forall c s t, ph s = PBackoff t -> okmode s = false -> fdelay s <= 0 ->
  pstep c s [4] = Some (mkp (now s) false 0 (PBackoff (now s + bo c 0)) (fdelay s) true, [1; now s; 3]).
Proof. exact reset_dials_now. Qed.
Print Assumptions C20_reset_cuts_wait.
Theorem C20_reset_zeroes_index : forall c s s' o, pstep c s [4] = Some (s', o) -> idx s' = 0.
Proof. exact reset_idx. Qed.
Print Assumptions C20_reset_zeroes_index.
(* ... whereas a reset made while the attempt is still in flight (before its failure) only
   zeroes the index: the failure time and the backoffFor of that attempt stay armed (the
   code reads the resetBackoff channel after the failure), nothing is dialled; by
   C20_wait_counts_from_failure and C20_wait_at_least the sub-channel then still waits the
   full backoff after the failure *)
Theorem C20_reset_in_flight_keeps_wait : forall c s t b, ph s = PConnecting t b ->
  pstep c s [4] = Some (mkp (now s) (okmode s) 0 (PConnecting t b) (fdelay s) (sticky s),
                        [0; if sticky s then 3 else 1]).
Proof. exact reset_in_flight. Qed.
Print Assumptions C20_reset_in_flight_keeps_wait.

(* "the backoff index resets after a successful connection" *)
Theorem C20_reset_on_success : forall c s, okmode s = true -> idx (dial c s) = 0 /\ ph (dial c s) = PReady.
Proof. exact dial_success. Qed.
Print Assumptions C20_reset_on_success.

(* The executable predicate evaluated on implementation traces (clauses 1-4, 7, 8; with
   5/6 never raised) holds on the model's trace, which exists, for all op lists of any
   length: configurations of the documented interval, draws in [0, 1-2^-53], n >= 0, and
   any sequence of pacing ops (dial outcome, time passing, reset, drop, connect, slowly
   failing dials).  The
   pacing clauses are decided by a monitor that sees only the observed dial times. *)
Theorem C20_holds_on_every_model_trace : forall cfg c ops,
  decode_cfg cfg = Some c -> cfg_wf c = true -> forallb (op_wf_total c) ops = true ->
  exists obs, run cfg ops = Some obs /\ holds_b cfg ops obs = true.
Proof. exact model_trace_exists_holds. Qed.
Print Assumptions C20_holds_on_every_model_trace.
(* ... the trace exists because the fuel of the time advance always suffices: under a
   pacing configuration every backoff is at least the base delay (float64 argument: the
   loop never goes below base when Multiplier >= 1), so at most 61 timers expire in a step
   of at most 60 base delays *)
Theorem C20_backoff_at_least_base : forall c i, pacing_ok c = true -> base c <= bo c i.
Proof. exact bo_ge_base. Qed.
Print Assumptions C20_backoff_at_least_base.
Theorem C20_time_advance_total : forall c, pacing_ok c = true -> forall fuel target s,
  phase_ok c s -> need c target s <= Z.of_nat fuel ->
  exists s' ds, advance fuel c target s = Some (s', ds) /\ good c s' /\ now s' = target.
Proof. exact advance_total. Qed.
Print Assumptions C20_time_advance_total.

(* The implementation's draw cannot be observed or seeded; the comparison accepts an
   observed Backoff(n) only inside the model's envelope (or equal to the model's value) *)
Theorem C20_resolve_sound : forall c ops model impl, resolve c ops model impl = impl ->
  forall i op n rb d, nth_error ops i = Some op -> pure_op op = Some (n, rb) -> n <> 0 ->
  nth_error impl i = Some [d] ->
  (env_lo c n <= d <= env_hi c n) \/ nth_error model i = Some [d].
Proof. exact resolve_sound. Qed.
Print Assumptions C20_resolve_sound.

(* non-vacuity: the default configuration (1s, 1.6, 0.2, 120s) is well-formed, a trace
   with pure and pacing ops exists, and concrete values: Backoff(1) with r = 0 is
   1.6s x 0.8, Backoff(200) with the largest draw is 120s x 1.2 *)
Definition C20_defcfg : word := [1000000000; 4609884578576439706; 4596373779694328218; 120000000000].
Definition C20_paccfg : word := [1000000; 4611686018427387904; 0; 3000000].
Example C20_witness :
  match decode_cfg C20_defcfg with
  | Some c => cfg_wf c && (backoff c 1 0%float =? 1280000000) && (backoff c 200 rmax =? 144000000000)
  | None => false
  end = true /\
  match decode_cfg C20_paccfg with Some c => forallb (op_wf_total c) [[1; 3; 0]; [6]; [3; 3500000]; [2; 1]; [3; 10000000]; [5]; [2; 0]; [6]; [4]; [7; 400000]; [3; 1000000]; [3; 2000000]; [3; 500000]; [4]; [3; 5000000]] | None => false end = true /\
  forallb op_wf [[1; 3; 0]; [6]; [3; 3500000]; [2; 1]; [3; 10000000]; [5]; [2; 0]; [6]; [4]; [7; 400000]; [3; 1000000]; [3; 2000000]; [3; 500000]; [4]; [3; 5000000]] = true /\
  run C20_paccfg [[1; 3; 0]; [6]; [3; 3500000]; [2; 1]; [3; 10000000]; [5]; [2; 0]; [6]; [4]; [7; 400000]; [3; 1000000]; [3; 2000000]; [3; 500000]; [4]; [3; 5000000]] =
    Some [[3000000]; [1; 0; 3]; [2; 1000000; 3000000; 3]; [0; 3]; [1; 6000000; 2]; [0; 0]; [0; 0];
          [1; 13500000; 3]; [1; 13500000; 3]; [0; 3]; [1; 14500000; 3]; [0; 3]; [1; 16900000; 3]; [0; 3]; [1; 20300000; 3]].
Proof. vm_compute. repeat split. Qed.
