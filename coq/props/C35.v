(* C35: aggregated state and endpoint round robin follow the precedence rule.
   Theorems only; each is closed by [exact] of a lemma from proof/Aggregate_proofs.v.
   States: Idle=0 Connecting=1 Ready=2 TransientFailure=3 Shutdown=4. *)
From Coq Require Import List ZArith Bool.
From VLib Require Import Codec Machine.
From VModel Require Import Aggregate.
From VProof Require Import Aggregate_proofs.
Import ListNotations.
Open Scope Z_scope.

(* [precedence] is the rule of the statement: READY if any child is READY, else CONNECTING
   if any is CONNECTING, else IDLE if any is IDLE, else TRANSIENT_FAILURE (also for no children). *)
Theorem C35_precedence_is_the_rule : forall l,
  (In 2 l -> precedence l = 2) /\
  (~ In 2 l -> In 1 l -> precedence l = 1) /\
  (~ In 2 l -> ~ In 1 l -> In 0 l -> precedence l = 0) /\
  (~ In 2 l -> ~ In 1 l -> ~ In 0 l -> precedence l = 3).
Proof. exact precedence_spec. Qed.
Print Assumptions C35_precedence_is_the_rule.

(* ConnectivityStateEvaluator: after every history of transitions that is consistent with
   a multiset of children (old state = state of some child, SHUTDOWN/untracked = the child
   appears or disappears), of any length, the uint64 counters are the multiset counts and
   CurrentState is the precedence rule over the multiset [m] of current child states. *)
Theorem C35_evaluator : forall h m, ms_hist [] h = Some m -> zlen m < 2 ^ 64 ->
  cse_current (cse_hist cse0 h) = precedence m.
Proof. exact evaluator_precedence. Qed.
Print Assumptions C35_evaluator.

Theorem C35_evaluator_counts : forall h m, ms_hist [] h = Some m ->
  let c := cse_hist cse0 h in
  nReady c = u64 (cnt 2 m) /\ nConnecting c = u64 (cnt 1 m) /\
  nTF c = u64 (cnt 3 m) /\ nIdle c = u64 (cnt 0 m).
Proof. exact evaluator_counts. Qed.
Print Assumptions C35_evaluator_counts.

(* endpointsharding.updateStateLocked on any set of children: state by precedence; the
   picker holds exactly the children in that state (else the single error picker), and
   its start index is inside the picker list. *)
Theorem C35_update_state : forall ch nx,
  let p := build ch nx in
  let sts := map snd ch in
  pk_agg p = precedence sts /\
  (if has (pk_agg p) sts && tracked (pk_agg p)
   then pk_err p = false /\ pk_ids p = ids_in (pk_agg p) ch /\ pk_n p = zlen (pk_ids p)
   else pk_err p = true /\ pk_n p = 1 /\ pk_ids p = []) /\
  0 < pk_n p /\ 0 <= pk_next p < pk_n p.
Proof. exact build_spec. Qed.
Print Assumptions C35_update_state.

(* After any sequence of resolver updates (adding/removing endpoints, duplicates, any
   rotation), child state reports, resolver errors and picks, the picker last pushed to
   the channel has the precedence state of the *current* children and holds exactly the
   children that are in that state. *)
Theorem C35_sharding_rule : forall ops σ p, exec st0 ops = Some σ -> s_pk σ = Some p ->
  let sts := map snd (s_ch σ) in
  pk_agg p = precedence sts /\
  (if has (pk_agg p) sts && tracked (pk_agg p)
   then pk_err p = false /\ (forall id, In id (pk_ids p) <-> In (id, pk_agg p) (s_ch σ)) /\
        pk_n p = zlen (pk_ids p)
   else pk_err p = true /\ pk_n p = 1 /\ pk_ids p = []).
Proof. exact sharding_rule. Qed.
Print Assumptions C35_sharding_rule.

(* every pick is delegated to one of the n pickers the picker holds ... *)
Theorem C35_picks_delegate_inside : forall n next k, 0 < n ->
  Forall (fun pos => 0 <= pos < n) (picks n next k).
Proof. exact picks_range. Qed.
Print Assumptions C35_picks_delegate_inside.

(* ... and over k consecutive picks each of the n children is used floor(k/n) or
   ceil(k/n) times, for every start value of the uint32 counter, provided the window does
   not reach the uint32 wrap of next, or n divides 2^32. *)
Theorem C35_rr_fair : forall n next k i, 0 < n -> 0 <= next < 2 ^ 32 ->
  (next + Z.of_nat k < 2 ^ 32 \/ 2 ^ 32 mod n = 0) -> 0 <= i < n ->
  Z.of_nat k / n <= cnt i (picks n next k) <= (Z.of_nat k + n - 1) / n.
Proof. exact rr_fair. Qed.
Print Assumptions C35_rr_fair.

(* The sentence is false across the wrap when n does not divide 2^32 (clause 5,
   finding F-C35-rr-u32-wrap): 3 children, next = 2^32-2, 3 picks -> 0,0,1. *)
Theorem C35_rr_fair_wrap_refuted :
  exists n next k i, 0 < n /\ 0 <= next < 2 ^ 32 /\ 0 <= i < n /\
    ~ (Z.of_nat k / n <= cnt i (picks n next k) <= (Z.of_nat k + n - 1) / n).
Proof. exact rr_fair_wrap_refuted. Qed.
Print Assumptions C35_rr_fair_wrap_refuted.

(* weighted_target's aggregator (Add/Remove/UpdateState in any order): the state it
   reports is the precedence rule over the states it aggregates. *)
Theorem C35_weighted_aggregator : forall ops σ, exec st0 ops = Some σ ->
  zlen (s_ag σ) < 2 ^ 64 ->
  ag_build (s_ag σ) (s_agcse σ) = precedence (ag_states (s_ag σ)).
Proof. exact weighted_aggregator_rule. Qed.
Print Assumptions C35_weighted_aggregator.

(* The executable predicate evaluated on implementation traces (all clauses except the
   refuted clause 5) holds on every trace of the model, for every list of operations. *)
Theorem C35_holds_on_every_model_trace : forall ops, forallb op_wf ops = true ->
  exists obs, run ops = Some obs /\ holds_b ops obs = true.
Proof. exact model_trace_holds. Qed.
Print Assumptions C35_holds_on_every_model_trace.

(* non-vacuity: a resolver update with a duplicate, a child report, the wrap witness *)
Example C35_witness :
  let ops := [[1; 4; 2]; [1; 2; 3]; [2; 0; 5; 7; 2; 8; 1; 7; 0; 9; 2]; [3; 8; 2; 7];
              [5; 4294967294]; [7; 3]; [10; 1; 5]; [12; 1; 3]; [12; 1; 1]] in
  forallb op_wf ops = true /\
  run ops = Some [[2]; [3]; [1; 2; 2; 0; 0; 2; 7; 9; 6; 7; 2; 8; 1; 9; 2]; [1; 2; 3; 0; 0; 3; 7; 8; 9; 6; 7; 2; 8; 2; 9; 2];
                  [1]; [3; 2; 2; 18]; [1; 1]; [1; 3]; [1; 3]] /\
  ms_hist [] [(4, 2); (2, 3)] = Some [3] /\
  picks 3 4294967294 3 = [0; 0; 1].
Proof. vm_compute. repeat split. Qed.
