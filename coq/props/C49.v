(* C49: server filter chain selection is the most specific match.
   Theorems only; each is closed by [exact] of a lemma from proof/FilterChain_proofs.v.
   [validate hd cs] is the listener validation (buildFilterChainMap: a nested map
   destination prefix -> source type -> source prefix -> source port -> chain);
   [lookup m hd wildcard dst src port] is filterChainManager.lookup.
   score a p = -2 (p does not contain a), -1 (p unspecified), else the prefix length. *)
From Coq Require Import List ZArith Bool.
From VLib Require Import Codec Machine.
From VModel Require Import FilterChain.
From VProof Require Import FilterChain_proofs.
Import ListNotations.
Open Scope Z_scope.

(* what validation guarantees about the map it builds: prefixes are masked and within
   their family's width, and no prefix occurs twice on a level *)
Theorem C49_validated_map_is_well_formed : forall hd cs m, validate hd cs = Some m -> inv_dmap m.
Proof. exact validate_inv. Qed.
Print Assumptions C49_validated_map_is_well_formed.

(* "most specific ... destination prefix": on a wildcard listener stage 1 keeps exactly the
   entries whose destination prefix matches the local address (or is unspecified) and is
   the longest among the matching ones *)
Theorem C49_destination_prefix_most_specific : forall m dst e, Forall wf_k (map fst m) ->
  (In e (stage1 m true dst) <->
   In e m /\ score dst (fst e) <> -2 /\ forall e', In e' m -> score dst (fst e') <= score dst (fst e)).
Proof. exact stage1_spec. Qed.
Print Assumptions C49_destination_prefix_most_specific.

(* ... and there is at most one such entry *)
Theorem C49_destination_prefix_unique : forall V (a : addr) (l : list (pfx * V)),
  NoDup (map fst l) -> Forall wf_k (map fst l) ->
  (length (best_by (fun e => score a (fst e)) l) <= 1)%nat.
Proof. exact best_single_keys. Qed.
Print Assumptions C49_destination_prefix_unique.

(* "then source type": the group for the connection's source type (1 same-ip-or-loopback,
   2 external) if the entry has one, else the ANY group *)
Theorem C49_source_type_specific_over_any : forall st k tm,
  stage2 st [(k, tm)] =
  match get Z.eqb st tm with
  | Some sm => if st <? 0 then [] else [sm]
  | None => match get Z.eqb 0 tm with Some sm => [sm] | None => [] end
  end.
Proof. exact stage2_one. Qed.
Print Assumptions C49_source_type_specific_over_any.

(* "then source prefix": longest matching source prefix of the selected group(s) *)
Theorem C49_source_prefix_most_specific : forall src sps e, Forall wf_k (map fst (concat sps)) ->
  (In e (stage3 src sps) <->
   In e (concat sps) /\ score src (fst e) <> -2 /\
   forall e', In e' (concat sps) -> score src (fst e') <= score src (fst e)).
Proof. exact stage3_spec. Qed.
Print Assumptions C49_source_prefix_most_specific.

(* "then source port": the exact port if registered, else the no-ports (0) chain *)
Theorem C49_source_port_exact_over_wildcard : forall pm port,
  stage4 pm port =
  match get Z.eqb port pm with
  | Some id => if id =? 0 then match get Z.eqb 0 pm with Some i => i | None => 0 end else id
  | None => match get Z.eqb 0 pm with Some i => i | None => 0 end
  end.
Proof. exact stage4_spec. Qed.
Print Assumptions C49_source_port_exact_over_wildcard.

(* "falls back to the default filter chain only when no chain matches", in the staged
   sense of the algorithm: exactly when some stage comes up empty *)
Theorem C49_default_iff_a_stage_is_empty : forall m hd wc dst src port,
  lookup m hd wc dst src port = fallback hd <->
  let st := if addr_eqb src dst || is_loopback src then 1 else 2 in
  let s3 := stage3 src (stage2 st (stage1 m wc dst)) in
  stage1 m wc dst = [] \/ stage2 st (stage1 m wc dst) = [] \/ s3 = [] \/
  exists e, s3 = [e] /\ stage4 (snd e) port = 0.
Proof. exact lookup_fallback. Qed.
Print Assumptions C49_default_iff_a_stage_is_empty.

(* ... but not in the literal sense (clause 4): the default chain is used although the
   chain {0.0.0.0/0} matches, because {10.0.0.0/8, ports [80]} wins stage 1 first *)
Theorem C49_default_despite_matching_chain_refuted :
  exists cs m ts dst src port,
    validate true cs = Some m /\ expand 1 cs = Some ts /\
    lookup m true true dst src port = RDefault /\
    existsb (tuple_matches true dst src port) ts = true.
Proof. exact default_despite_match_refuted. Qed.
Print Assumptions C49_default_despite_matching_chain_refuted.

(* "configurations in which two chains would tie are rejected during validation": a
   validated listener bound to the wildcard address never ties at lookup ... *)
Theorem C49_ties_rejected_wildcard_listener : forall hd cs m dst src port,
  validate hd cs = Some m -> lookup m hd true dst src port <> RMultiple.
Proof. exact validated_no_tie. Qed.
Print Assumptions C49_ties_rejected_wildcard_listener.

(* ... but a listener bound to a specific address does (clause 5): destination prefixes
   are ignored at lookup, validation does not take that into account *)
Theorem C49_ties_rejected_specific_listener_refuted :
  exists cs m dst src port,
    validate true cs = Some m /\ lookup m true false dst src port = RMultiple.
Proof. exact nonwildcard_tie_refuted. Qed.
Print Assumptions C49_ties_rejected_specific_listener_refuted.

(* The executable predicate evaluated on implementation traces (all clauses except the
   refuted literal readings 4 and 5) holds on every trace of the model. *)
Theorem C49_holds_on_every_model_trace : forall ops, ops_wf ops = true ->
  exists obs, run ops = Some obs /\ holds_b ops obs = true.
Proof. exact model_trace_holds. Qed.
Print Assumptions C49_holds_on_every_model_trace.

(* non-vacuity: /16 beats /8, port 80 beats the wildcard port, a duplicate slot is rejected *)
Example C49_witness :
  let c d l ports := mkchain 0 [(4, d, l)] 0 [] ports in
  let cs := [c 167772160 8 []; c 167837696 16 []; c 167837696 16 [80]] in
  match validate true cs with
  | Some m => lookup m true true (4, 167838211) (4, 134744072) 80 = RChain 3 /\
              lookup m true true (4, 167838211) (4, 134744072) 81 = RChain 2 /\
              lookup m true true (4, 168364297) (4, 134744072) 80 = RChain 1 /\
              lookup m true true (4, 3232235777) (4, 134744072) 80 = RDefault
  | None => False
  end /\
  validate true [c 167772160 8 []; c 167838211 8 []] = None /\
  ops_wf [[1; 1; 1; 0; 1; 4; 167772160; 8; 0; 0; 0]; [2; 1; 4; 167838211; 4; 134744072; 80]] = true.
Proof. vm_compute. repeat split. Qed.
