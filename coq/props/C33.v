(* C33: switching LB policies is graceful and isolates the old policy.
   Theorems only; each is closed by [exact] of a lemma from proof/GSwitch_proofs.v.
   Model: model/GSwitch.v (gracefulswitch.Balancer + balancerWrapper, stub policies,
   recording channel).  [reachable cfg s]: s is the state after some list of operations
   (any length: SwitchTo, UpdateClientConnState with a switch config, reports, NewSubConn,
   sub-channel states, RemoveSubConn, ResolverError, ExitIdle, ResolveNow, UpdateAddresses,
   Close, and NewSubConn with a report of another/the same policy arriving - and the swap
   it causes completing - while the call is inside the channel; two reports racing on gsb.mu
   are the two reports in lock order, see expand) from the initial state, with stub behaviours cfg. *)
From Coq Require Import List ZArith Bool Arith.
From VLib Require Import Codec.
From VModel Require Import GSwitch.
From VProof Require Import GSwitch_proofs.
Import ListNotations.
Open Scope Z_scope.

(* "RPCs keep using the old policy's picker while the old policy is READY and the new one
   is CONNECTING": whenever a pending policy exists next to a READY current one, the
   pending one's last report is CONNECTING and the last state the channel received
   (ghost field chan, assigned at every UpdateState event) is the current policy's READY
   with the current policy's picker. *)
Theorem C33_old_picker_kept : forall cfg s c p, reachable cfg s ->
  cur s = Some c -> pend s = Some p -> k_last (getkid s c) = READY ->
  k_last (getkid s p) = CONNECTING /\ chan s = Some (READY, zn c).
Proof. exact old_picker_kept. Qed.
Print Assumptions C33_old_picker_kept.

(* a pending policy only ever exists next to a different current one, and has not yet
   reported anything but CONNECTING *)
Theorem C33_pending_is_connecting : forall cfg s p, reachable cfg s -> pend s = Some p ->
  k_last (getkid s p) = CONNECTING /\ exists c, cur s = Some c /\ c <> p.
Proof. exact pending_is_connecting. Qed.
Print Assumptions C33_pending_is_connecting.

(* "as soon as the new policy reports any other state, or the old one leaves READY, the new
   policy becomes current and the old one is closed": for a report v of the current (c) or
   pending (p) policy, with lc/lp the latest reports after it: if old READY and new
   CONNECTING still holds nobody is closed and only the current policy's report is
   forwarded; otherwise exactly the old policy is closed, the channel receives exactly the
   new policy's latest state, and every sub-channel of the old policy gets Shutdown in the
   same operation.  (The code's two asymmetric tests coincide with this symmetric rule.) *)
Theorem C33_swap_condition : forall cfg s c p id v, reachable cfg s ->
  cur s = Some c -> pend s = Some p -> (id = c \/ id = p) -> 0 <= v <= 3 ->
  let lc := if Nat.eqb c id then v else k_last (getkid s c) in
  let lp := if Nat.eqb p id then v else k_last (getkid s p) in
  let ch := chunk cfg s [2; zn id; v] in
  ((lc = READY /\ lp = CONNECTING) ->
     c_events ch = [] /\ u_events ch = if Nat.eqb c id then [(v, zn c)] else []) /\
  (~ (lc = READY /\ lp = CONNECTING) ->
     c_events ch = [zn c] /\
     u_events ch = [(lp, if Nat.eqb p id then zn p else pick_of p (getkid s p))] /\
     forall sc, In sc (k_subs (getkid s c)) -> has_shutdown ch sc = true).
Proof. exact swap_condition. Qed.
Print Assumptions C33_swap_condition.

(* "No state update from a closed or superseded policy ever reaches the channel": a closed
   policy is neither current nor pending, and no operation of a policy that is neither
   (report, NewSubConn, ResolveNow, UpdateAddresses) produces any channel event. *)
Theorem C33_closed_policy_is_superseded : forall cfg s id, reachable cfg s ->
  k_closed (getkid s id) = true -> live s id = false.
Proof. exact closed_policy_dead. Qed.
Print Assumptions C33_closed_policy_is_superseded.

Theorem C33_isolation : forall cfg s op id, reachable cfg s ->
  actor s op = Some id -> live s id = false ->
  existsb chan_event (chunk cfg s op) = false /\ u_events (chunk cfg s op) = [].
Proof. exact isolation. Qed.
Print Assumptions C33_isolation.

(* "subchannels created by the old policy are shut down when it is closed" *)
Theorem C33_subconns_shut : forall cfg s id sc, reachable cfg s ->
  k_closed (getkid s id) = true -> (sc < nsc s)%nat -> sc_owner s sc = id -> sc_shut s sc = true.
Proof. exact subconns_shut. Qed.
Print Assumptions C33_subconns_shut.

(* ... also the sub-channel whose creation is in flight when the policy is swapped out: if
   the report v of policy j closes policy id (id is in the set the property prescribes to
   close) while id's NewSubConn is inside the channel, NewSubConn shuts the new sub-channel
   down itself and returns an error; it is not registered with the closed policy. *)
Theorem C33_inflight_subconn_shut : forall cfg s id j v, reachable cfg s -> live s id = true ->
  In id (snd (spec_report s j v)) ->
  let r := newsc_during s id j v in
  exists sc, In (evN sc) (snd r) /\ In (evS sc) (snd r) /\ In [11; 0; -1] (snd r) /\
             sc_shut (fst r) sc = true /\ sc_owner (fst r) sc = id /\
             k_subs (getkid (fst r) id) = k_subs (getkid s id).
Proof. exact inflight_shutdown. Qed.
Print Assumptions C33_inflight_subconn_shut.

(* close: afterwards there is no policy (so, by C33_isolation, nothing is forwarded) and
   SwitchTo fails without effect *)
Theorem C33_close : forall cfg s, closed (fst (step cfg s [5])) = true.
Proof. exact close_sets_closed. Qed.
Print Assumptions C33_close.
Theorem C33_after_close : forall cfg s b, reachable cfg s -> closed s = true ->
  cur s = None /\ pend s = None /\ switch_to cfg s b = (s, [], None).
Proof. exact after_close. Qed.
Print Assumptions C33_after_close.

(* The executable predicate evaluated on implementation traces (clauses 1-4: forwarded
   states exactly as prescribed, closes exactly as prescribed, isolation, sub-channel
   shutdown) holds on every trace of the model, for every configuration and op list. *)
Theorem C33_holds_on_every_model_trace : forall cfg ops,
  exists obs, run cfg ops = Some obs /\ holds_b cfg ops obs = true.
Proof. exact model_trace_holds. Qed.
Print Assumptions C33_holds_on_every_model_trace.

(* non-vacuity: a graceful period is reachable, the old picker is kept in it, and both
   swap rules fire *)
Example C33_witness :
  let s := fst (run_from [] init [[1; 0]; [2; 0; 2]; [3; 0]; [1; 1]; [2; 1; 1]]) in
  cur s = Some 0%nat /\ pend s = Some 1%nat /\ chan s = Some (READY, 0) /\
  snd (step [] s [2; 1; 2]) = [[1; 2; 1]; [3; 0]; [14; 0]; [0]] /\
  snd (step [] s [2; 0; 3]) = [[1; 1; 1]; [3; 0]; [14; 0]; [0]] /\
  snd (step [] (fst (step [] s [2; 1; 2])) [2; 0; 2]) = [[0]] /\
  snd (step [] s [12; 0; 1; 2]) = [[2; 1]; [1; 2; 1]; [3; 0]; [14; 0]; [14; 1]; [11; 0; -1]; [0]].
Proof. vm_compute. repeat split. Qed.
