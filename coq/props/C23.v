(* C23: every successful pick's Done callback runs exactly once.
   Theorems only; each is closed by [exact] of a lemma from proof/Picker_proofs.v.
   Model: coq/model/Picker.v (pickerWrapper.pick loop, csAttempt.getTransport/finish,
   clientStream.withRetry/retryLocked/finish as atomic steps between parking points; an op
   list is a schedule together with the picker's behaviour).  Events of an execution:
     EIssue k own t  a picker returned a result carrying a Done callback (token k) to RPC t,
                     own = its SubConn has the channel's own type (pointer to acBalancerWrapper)
     EDone k e       that callback was invoked (DoneInfo.Err != nil iff e = 1)
   cnt_done k evs = number of EDone k _ in evs. *)
From Coq Require Import List ZArith Bool.
From VLib Require Import Codec.
From VModel Require Import Picker.
From VProof Require Import Picker_proofs.
Import ListNotations.
Open Scope Z_scope.

(* "Done is invoked exactly once" - never twice: for every configuration, every op list
   (schedule, picker results, NewStream outcomes, cancellations, retries) and every token *)
Theorem C23_done_at_most_once : forall cfg ops s0 obs evs sf,
  init cfg = Some s0 -> exec s0 ops = (obs, evs, sf) -> forall k, cnt_done k evs <= 1.
Proof. exact done_at_most_once. Qed.
Print Assumptions C23_done_at_most_once.

(* ... and not zero times: a Done callback obtained with the channel's own SubConn type has
   been invoked exactly once, unless the attempt that holds it is still running: its stream
   was created (st = 3), the RPC has not been finished (csfin = false) and the attempt is not
   finished (afin = false).  This covers: sub-channel not READY (invoked inside pick),
   NewStream failure, transparent retry, failed stream operation, cs.finish (success, error,
   cancellation). *)
Theorem C23_done_exactly_once_unless_in_flight : forall cfg ops s0 obs evs sf k t,
  init cfg = Some s0 -> exec s0 ops = (obs, evs, sf) -> In (EIssue k true t) evs ->
  cnt_done k evs = 1 \/
  (cnt_done k evs = 0 /\
   exists x, In x (ths sf) /\ st x = 3 /\ csfin x = false /\ afin x = false /\ tok x = k).
Proof. exact done_exactly_once. Qed.
Print Assumptions C23_done_exactly_once_unless_in_flight.

(* hence, once every created stream has been finished (cs.finish ran: RecvMsg returned an
   error / EOF, or the context was cancelled), every such callback ran exactly once *)
Theorem C23_done_once_when_rpcs_finished : forall cfg ops s0 obs evs sf k t,
  init cfg = Some s0 -> exec s0 ops = (obs, evs, sf) -> In (EIssue k true t) evs ->
  (forall x, In x (ths sf) -> st x = 3 -> csfin x = true) -> cnt_done k evs = 1.
Proof. exact done_once_when_finished. Qed.
Print Assumptions C23_done_once_when_rpcs_finished.

(* "... is retried": a stream operation of a created, not yet committed stream fails with a status
   the retry policy retries (op [10;t]).  The abandoned attempt's Done runs right then with an
   error (unless it already ran or there is none) and the RPC picks again (st 1 / 2) or fails
   (st 4); the next attempt's pick result is then subject to the same rules as any other (the
   three theorems above quantify over op lists that contain this op). *)
Theorem C23_retried_attempt_done : forall s t x s' e, reachable s -> getth s t = Some x ->
  st x = 3 -> committed x = false -> csfin x = false -> dstep s (DRetryFail t) = (s', e) ->
  dones e = (if afin x || (tok x =? 0) then [] else [tok x; 1]) /\
  exists x', nth_error (ths s') (Z.to_nat t) = Some x' /\ (st x' = 1 \/ st x' = 2 \/ st x' = 4).
Proof. exact retried_attempt_done. Qed.
Print Assumptions C23_retried_attempt_done.

(* "A pick blocked waiting for a picker is woken by every picker update and by context
   cancellation": in every reachable state a thread parked in pick's select (st = 1) has a
   live context on an open channel, and updatePicker makes it call Pick on the new picker,
   close makes it fail with CANCELED (ErrClientConnClosing), and cancelling / expiring its
   context makes it fail with CANCELED / DEADLINE_EXCEEDED. *)
Theorem C23_blocked_pick_woken : forall s n x, reachable s -> nth_error (ths s) n = Some x -> st x = 1 ->
  closed (p s) = false /\ ctxs x = 0 /\
  (forall s' e, dstep s DUpdate = (s', e) -> exists x', nth_error (ths s') n = Some x' /\
       st x' = 2 /\ pgen x' = gen (p s) + 1 /\ npick x' = npick x + 1 /\ gen (p s') = gen (p s) + 1) /\
  (forall s' e, dstep s DClose = (s', e) -> exists x', nth_error (ths s') n = Some x' /\ st x' = 4 /\ code x' = 1) /\
  (forall how s' e, how = 1 \/ how = 2 -> dstep s (DCancel (Z.of_nat n) how) = (s', e) ->
       exists x', nth_error (ths s') n = Some x' /\ st x' = 4 /\ code x' = ctx_code how).
Proof. exact blocked_pick_woken. Qed.
Print Assumptions C23_blocked_pick_woken.

(* REFUTED for results whose SubConn is not the channel's own type (known finding
   F-C23-foreign-subconn-done-dropped, clause 5): pick logs an error and loops; the Done
   callback of such a result is never invoked, in any execution ... *)
Theorem C23_foreign_subconn_done_dropped : forall cfg ops s0 obs evs sf k t,
  init cfg = Some s0 -> exec s0 ops = (obs, evs, sf) -> In (EIssue k false t) evs -> cnt_done k evs = 0.
Proof. exact foreign_done_dropped. Qed.
Print Assumptions C23_foreign_subconn_done_dropped.

(* ... witness: updatePicker; start RPC 0; its Pick returns {foreign SubConn, Done}; the
   RPC's deadline expires: the RPC has failed (st = 4) and the callback never ran. *)
Theorem C23_every_result_done_refuted :
  exists cfg ops s0 obs evs sf k x, init cfg = Some s0 /\ exec s0 ops = (obs, evs, sf) /\
    In (EIssue k false 0) evs /\ cnt_done k evs = 0 /\ nth_error (ths sf) 0 = Some x /\ st x = 4.
Proof. exact every_result_done_refuted. Qed.
Print Assumptions C23_every_result_done_refuted.

(* The executable predicate evaluated on implementation traces (clauses 1-3) holds on every
   trace of the model, for every op list without a foreign SubConn carrying a Done. *)
Theorem C23_holds_on_every_model_trace : forall cfg ops s0, init cfg = Some s0 -> forallb nofo ops = true ->
  exists obs, run cfg ops = Some obs /\ holds_C23 cfg ops obs = true.
Proof. exact model_trace_holds_C23. Qed.
Print Assumptions C23_holds_on_every_model_trace.

(* non-vacuity: a schedule with a not-READY pick (Done at once, nil error), a created stream
   finished after a failed stream op (Done once although finish runs twice), a transparent
   retry and a NewStream failure; then a created stream whose operation fails retryably, the
   retry attempt's pick succeeds with a Done but its NewStream fails (transparent retry) and
   the third attempt is created and finished: eight callbacks, each invoked exactly once; the
   finding clause is false on the model's own trace of its witness. *)
Example C23_witness :
  let ops := [[1;0;1]; [1;1;0]; [2]; [5;0;3;0;1;0]; [6;0;1]; [2]; [5;0;3;0;1;0]; [9;0]; [8;0;1]; [8;0;0];
              [5;1;3;0;1;2]; [5;1;3;1;1;0]; [6;1;1]; [2]; [5;1;3;1;1;1];
              [1;2;0]; [5;2;3;0;1;0]; [10;2]; [5;2;3;1;1;2]; [5;2;3;0;1;0]; [8;2;0]] in
  forallb nofo ops = true /\
  (exists s0 obs sf, init [3;2] = Some s0 /\ exec s0 ops =
     (obs, [EPick 0 1; EPick 1 1; EIssue 1 true 0; EDone 1 0; EPick 0 2; EIssue 2 true 0; EDone 2 1;
            EIssue 3 true 1; EDone 3 1; EPick 1 2; EIssue 4 true 1; EDone 4 0; EPick 1 3; EIssue 5 true 1;
            EDone 5 1; EPick 2 3; EIssue 6 true 2; EDone 6 1; EPick 2 3; EIssue 7 true 2; EDone 7 1; EPick 2 3;
            EIssue 8 true 2; EDone 8 0], sf)) /\
  In (5, 1, false) (clauses_C23 [2;1] [[2]; [1;0;0]; [5;0;4;0;1;0]]
                      (match run [2;1] [[2]; [1;0;0]; [5;0;4;0;1;0]] with Some o => o | None => [] end)).
Proof. vm_compute. split; [reflexivity|]. split; [do 3 eexists; split; reflexivity|]. repeat (first [left; reflexivity | right]). Qed.
