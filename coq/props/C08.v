(* C08: grpc-message percent-encoding is a lossless printable-ASCII round trip.
   Theorems only; each is closed by [exact] of a lemma from proof/PctEnc_proofs.v.
   A message / header value is any list of bytes (forallb is_byte). *)
From Coq Require Import List ZArith Bool.
From VLib Require Import Codec Machine.
From VModel Require Import PctEnc.
From VProof Require Import PctEnc_proofs.
Import ListNotations.
Open Scope Z_scope.

(* "the encoded grpc-message value consists only of printable ASCII" (0x20..0x7E),
   for every byte string, valid UTF-8 or not *)
Theorem C08_printable : forall m, forallb is_byte m = true ->
  forallb printable (encode m) = true.
Proof. exact encode_printable. Qed.
Print Assumptions C08_printable.

(* "for every valid UTF-8 status message m ... decodes back to m" *)
Theorem C08_roundtrip_valid : forall m, forallb is_byte m = true -> valid_utf8 m = true ->
  decode (encode m) = m.
Proof. exact roundtrip_valid. Qed.
Print Assumptions C08_roundtrip_valid.

(* valid_utf8 (utf8.ValidString as computed with DecodeRune) is the textbook notion:
   a concatenation of encodings of Unicode scalar values (0..10FFFF without
   surrogates; overlong forms are not encodings) *)
Theorem C08_valid_utf8_meaning : forall m, forallb is_byte m = true ->
  (valid_utf8 m = true <-> exists rs, Forall is_scalar rs /\ m = flat_map encode_rune rs).
Proof. exact valid_utf8_iff. Qed.
Print Assumptions C08_valid_utf8_meaning.

(* "invalid UTF-8 sequences decode to U+FFFD replacement characters and nothing else
   changes": for every byte string the round trip yields sanitize m ... *)
Theorem C08_roundtrip_any : forall m, forallb is_byte m = true ->
  decode (encode m) = sanitize m.
Proof. exact roundtrip_any. Qed.
Print Assumptions C08_roundtrip_any.

(* ... where sanitize copies the encoding of every scalar value ... *)
Theorem C08_sanitize_copies_valid : forall r rest, is_scalar r ->
  sanitize (encode_rune r ++ rest) = encode_rune r ++ sanitize rest.
Proof. exact sanitize_valid_rune. Qed.
Print Assumptions C08_sanitize_copies_valid.

(* ... replaces a byte at which DecodeRune reports (RuneError, width 1) by EF BF BD and
   continues with the next byte ... *)
Theorem C08_sanitize_replaces_invalid : forall b rest,
  decode_rune (b :: rest) = (rune_error, 1) -> sanitize (b :: rest) = [239; 191; 189] ++ sanitize rest.
Proof. exact sanitize_invalid_byte. Qed.
Print Assumptions C08_sanitize_replaces_invalid.

(* ... and is the identity on valid UTF-8. *)
Theorem C08_sanitize_id_on_valid : forall m, forallb is_byte m = true -> valid_utf8 m = true ->
  sanitize m = m.
Proof. exact sanitize_valid_id. Qed.
Print Assumptions C08_sanitize_id_on_valid.

(* DecodeRune on a non-empty byte string: ASCII, or (RuneError, 1), or 2-4 bytes that
   are exactly the (shortest-form) encoding of a non-surrogate scalar <= U+10FFFF; the
   re-encoding is derived from the bit-level definitions. *)
Theorem C08_decode_rune_faithful : forall s0 t r size,
  forallb is_byte (s0 :: t) = true -> decode_rune (s0 :: t) = (r, size) ->
  (size = 1 /\ 0 <= r < 128 /\ exists t', s0 :: t = r :: t')
  \/ (size = 1 /\ r = rune_error)
  \/ (2 <= size <= 4 /\ is_scalar r /\
      (size = 2 -> 128 <= r <= 2047) /\ (size = 3 -> 2048 <= r <= 65535) /\
      (size = 4 -> 65536 <= r) /\
      encode_rune r = firstn (Z.to_nat size) (s0 :: t) /\ (Z.to_nat size <= length (s0 :: t))%nat).
Proof. exact decode_rune_cases. Qed.
Print Assumptions C08_decode_rune_faithful.

(* "Decoding arbitrary header values never panics": decode is a total function on byte
   lists (no index is ever out of range in the list model); it only interprets "%XY"
   when two hex digits follow, everything else is copied ... *)
Theorem C08_decode_is_decodeU : forall s, decode s = decodeU s.
Proof. exact decode_eq. Qed.
Print Assumptions C08_decode_is_decodeU.

Theorem C08_decode_escape : forall x y a b r, hexval x = Some a -> hexval y = Some b ->
  decodeU (37 :: x :: y :: r) = (16 * a + b) :: decodeU r.
Proof. exact decodeU_escape. Qed.
Print Assumptions C08_decode_escape.

Theorem C08_decode_literal_percent : forall r,
  (length r < 2)%nat \/ (exists x y r', r = x :: y :: r' /\ (hexval x = None \/ hexval y = None)) ->
  decodeU (37 :: r) = 37 :: decodeU r.
Proof. exact decodeU_literal_pct. Qed.
Print Assumptions C08_decode_literal_percent.

Theorem C08_decode_other : forall b r, b <> 37 -> decodeU (b :: r) = b :: decodeU r.
Proof. exact decodeU_other. Qed.
Print Assumptions C08_decode_other.

(* ... so the result is a byte string shorter by exactly 2 per interpreted escape. *)
Theorem C08_decode_total : forall s, forallb is_byte s = true ->
  exists k, 0 <= k <= count_pct s /\
    Z.of_nat (length s) = Z.of_nat (length (decodeU s)) + 2 * k /\
    forallb is_byte (decodeU s) = true /\ (count_pct s = 0 -> decodeU s = s).
Proof. intros s H. exact (decodeU_facts (length s) s (le_n _) H). Qed.
Print Assumptions C08_decode_total.

(* The executable predicate evaluated on implementation traces holds on every model trace. *)
Theorem C08_holds_on_every_model_trace : forall ops, forallb op_wf ops = true ->
  exists obs, run ops = Some obs /\ holds_b ops obs = true.
Proof. exact model_trace_holds. Qed.
Print Assumptions C08_holds_on_every_model_trace.

(* non-vacuity: "a%é€😀" is valid and round-trips; an overlong form, a surrogate, a
   truncated rune and a lone continuation byte are each replaced byte by byte *)
Example C08_witness :
  valid_utf8 [97; 37; 195; 169; 226; 130; 172; 240; 159; 152; 128] = true /\
  encode [97; 37; 195; 169] = [97; 37;50;53; 37;67;51; 37;65;57] /\
  decode (encode [97; 37; 195; 169; 226; 130; 172; 240; 159; 152; 128]) =
    [97; 37; 195; 169; 226; 130; 172; 240; 159; 152; 128] /\
  decode (encode [192; 128; 237; 160; 128; 226; 130; 65; 128]) =
    [239;191;189; 239;191;189; 239;191;189; 239;191;189; 239;191;189; 239;191;189; 239;191;189; 65; 239;191;189] /\
  decode [37; 52; 49; 37; 52; 37] = [65; 37; 52; 37] /\
  forallb op_wf [[1; 3; 97; 37; 255]; [2; 4; 37; 52; 49; 37]] = true.
Proof. vm_compute. repeat split. Qed.
