(* C55: binary logs are correctly truncated and never include omitted headers.
   Theorems only; each is closed by [exact] of a lemma from proof/BinLog_proofs.v.
   An entry is (key bytes, value length, value tag); h, m are the uint64 limits. *)
From Coq Require Import String Ascii List ZArith Bool.
From VLib Require Import Codec Machine.
From VModel Require Import BinLog.
From VProof Require Import BinLog_proofs.
Import ListNotations.
Open Scope Z_scope.

(* "A binary-log metadata entry contains, in order, the longest prefix of the loggable
   entries whose key+value sizes fit in the header limit (grpc-trace-bin ... not counted)
   ... and the truncated flag is set exactly when something was dropped":
   the output is a prefix [out] of the input [out ++ rest]; the counted (non-trace)
   sizes of [out] fit; the flag is set iff [rest] is non-empty; and [rest] starts with a
   counted entry that does not fit any more. *)
Theorem C55_md_prefix : forall h es out t, 0 <= h -> h <> max_uint ->
  truncate_md h es = (out, t) ->
  exists rest, es = out ++ rest /\
    counted_size out <= h /\
    (t = true <-> rest <> []) /\
    match rest with
    | [] => True
    | e :: _ => is_trace e = false /\ h < counted_size out + e_size e
    end.
Proof. exact truncate_md_spec. Qed.
Print Assumptions C55_md_prefix.

(* "longest": every longer prefix of the input exceeds the limit *)
Theorem C55_md_longest : forall h es out t, 0 <= h -> h <> max_uint ->
  Forall (fun e => 0 <= e_vlen e) es -> truncate_md h es = (out, t) ->
  forall p more, es = p ++ more -> (length out < length p)%nat -> h < counted_size p.
Proof. exact truncate_md_longest. Qed.
Print Assumptions C55_md_longest.

(* limit maxUInt = unlimited *)
Theorem C55_md_unlimited : forall es, truncate_md max_uint es = (es, false).
Proof. exact truncate_md_unlimited. Qed.
Print Assumptions C55_md_unlimited.

(* "grpc-trace-bin ... not counted": a trace entry never consumes budget or stops the loop *)
Theorem C55_trace_not_counted : forall e r limit, is_trace e = true ->
  cut_index limit (e :: r) = S (cut_index limit r) /\ counted_size (e :: r) = counted_size r.
Proof. exact trace_not_counted. Qed.
Print Assumptions C55_trace_not_counted.

(* "grpc-trace-bin always kept" - PARTIAL: true (and the result is exactly the
   statement's spec_md) when no trace entry lies behind the first entry that does not
   fit ... *)
Theorem C55_md_matches_statement_partial : forall h es, h <> max_uint ->
  no_trace (skipn (cut_index h es) es) = true ->
  truncate_md h es = spec_md h es /\
  count_trace (firstn (cut_index h es) es) = count_trace es.
Proof.
  intros h es Hm H. split; [exact (truncate_md_matches_statement h es Hm H) | exact (trace_kept_before_cut h es H)].
Qed.
Print Assumptions C55_md_matches_statement_partial.

(* ... and REFUTED otherwise (known finding F-C55-trace-bin-after-cut, clause 4):
   limit 4, entries [abcdef:10 bytes; grpc-trace-bin:1 byte] -> nothing kept, although the
   statement's reading keeps the grpc-trace-bin entry. *)
Theorem C55_trace_always_kept_refuted :
  exists h es, h <> max_uint /\ In w_trace es /\ is_trace w_trace = true /\
    truncate_md h es = ([], true) /\ spec_md h es = ([w_trace], true).
Proof. exact trace_after_cut_refuted. Qed.
Print Assumptions C55_trace_always_kept_refuted.

(* Build applies truncateMetadata to client and server headers ... *)
Theorem C55_build_header : forall kind h es, kind <> 2 -> build_md kind h es = truncate_md h es.
Proof. exact build_md_header. Qed.
Print Assumptions C55_build_header.

(* ... but not to trailers: REFUTED for ServerTrailer entries (known finding
   F-C55-trailer-not-truncated, clause 5): their metadata is logged whole with flag false. *)
Theorem C55_trailer_truncated_refuted :
  exists h es, h <> max_uint /\ h < counted_size es /\
    build_md 2 h es = (es, false) /\ spec_md h es = ([], true).
Proof. exact trailer_not_truncated_refuted. Qed.
Print Assumptions C55_trailer_truncated_refuted.

(* "a message entry contains at most the message limit bytes of the payload, and the
   truncated flag is set exactly when something was dropped" (Data = payload[:len]) *)
Theorem C55_msg : forall m n, 0 <= m <= max_uint -> 0 <= n < 2 ^ 63 ->
  truncate_msg m n = (Z.min n m, m <? n).
Proof. exact truncate_msg_spec. Qed.
Print Assumptions C55_msg.

(* "Headers gRPC omits from logs (grpc-* other than grpc-trace-bin, :path, :authority,
   content-type, user-agent, te, lb-token) never appear": prop_omit is that list ... *)
Theorem C55_omit_list : forall k, prop_omit k = true <->
  ((exists s, k = k_grpc_dash ++ s) /\ k <> k_trace) \/
  In k (map bytes_of [":path"; ":authority"; "content-type"; "user-agent"; "te"; "lb-token"]%string).
Proof. exact prop_omit_spec. Qed.
Print Assumptions C55_omit_list.

(* ... and no such key is in mdToMetadataProto's result, for any map in any iteration
   order, nor in what Build logs for a header or trailer made from it. *)
Theorem C55_omit : forall md, no_omitted (md_to_proto md) = true.
Proof. exact md_to_proto_no_omitted. Qed.
Print Assumptions C55_omit.

Theorem C55_omit_logged : forall kind h md,
  no_omitted (fst (build_md kind h (md_to_proto md))) = true.
Proof. exact logged_no_omitted. Qed.
Print Assumptions C55_omit_logged.

(* The executable predicate evaluated on implementation traces (all clauses except the two
   refuted ones) holds on every model trace. *)
Theorem C55_holds_on_every_model_trace : forall ops, forallb op_wf ops = true ->
  exists obs, run ops = Some obs /\ holds_b ops obs = true.
Proof. exact model_trace_holds. Qed.
Print Assumptions C55_holds_on_every_model_trace.

(* the two refuted clauses are false on the model's own trace of the witnesses *)
Theorem C55_finding_clauses_fail_on_model :
  clause_op [1; 0; 4; 2; 17; 10; 48; 0; 1; 84] (run_dop (DMd 0 4 [w_abcdef; w_trace]))
    = [(1, 0, true); (4, 0, false)] /\
  clause_op [1; 2; 4; 1; 17; 10; 48] (run_dop (DMd 2 4 [w_abcdef]))
    = [(6, 0, true); (5, 0, false)].
Proof. exact finding_clauses_fail_on_model. Qed.
Print Assumptions C55_finding_clauses_fail_on_model.

(* non-vacuity: a list with a trace entry in front of the cut, limit 9:
   a(1+1) trace(5, not counted) abcdef(6+2) fit exactly 10 > 9 -> cut before abcdef *)
Example C55_witness :
  truncate_md 9 [(bytes_of "a", 1, 65); (k_trace, 5, 84); (bytes_of "abcdef", 2, 66); (bytes_of "a", 3, 67)]
    = ([(bytes_of "a", 1, 65); (k_trace, 5, 84)], true) /\
  truncate_md 10 [(bytes_of "a", 1, 65); (k_trace, 5, 84); (bytes_of "abcdef", 2, 66)]
    = ([(bytes_of "a", 1, 65); (k_trace, 5, 84); (bytes_of "abcdef", 2, 66)], false) /\
  truncate_msg 3 5 = (3, true) /\ truncate_msg 5 5 = (5, false) /\
  map key_omit (map bytes_of ["grpc-tags-bin"; "grpc-status-details-bin"; "grpc-bin"; "grpc-trace-bin"; "user-key-bin"]%string)
    = [true; true; true; false; false] /\
  map prop_omit (map bytes_of ["grpc-tags-bin"; "grpc-status-details-bin"; "grpc-bin"; "grpc-trace-bin"; "user-key-bin"]%string)
    = [true; true; true; false; false] /\
  md_to_proto [(bytes_of "grpc-status", [(1, 48)]); (bytes_of "a", [(1, 65); (2, 66)]); (k_trace, [(1, 84)])]
    = [(bytes_of "a", 1, 65); (bytes_of "a", 2, 66); (k_trace, 1, 84)] /\
  forallb op_wf [[1; 0; 9; 3; 16; 1; 65; 0; 5; 84; 17; 2; 66]; [2; 0; 3; 5];
                 [3; 2; 8; 1; 1; 48; 16; 1; 1; 65]; [4; 2; -1; 16; 1; 1; 65]] = true.
Proof. vm_compute. repeat split. Qed.
