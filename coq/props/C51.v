(* C51: a cluster stays usable until every RPC routed to it is committed.
   Theorems only; each is closed by [exact] of a lemma from proof/ClusterRef_proofs.v.
   The model (model/ClusterRef.v) is the xDS resolver's reference counting: a heap of
   clusterInfo objects (key, refCount, unsubscribe calls), the active set
   (activeClusters + activePlugins), the current config selector and the RPCs with the
   clusterInfo their OnCommitted closure captured.  [reachable s]: s is the state after
   some list of operations (Update / SelectConfig / OnCommitted / resource error, any
   length, any interleaving).  in_sel id c = 1 iff the selector c references clusterInfo id;
   cnt_live id rs = number of uncommitted RPCs holding clusterInfo id. *)
From Coq Require Import List ZArith Bool.
From VLib Require Import Codec Machine.
From VModel Require Import ClusterRef.
From VProof Require Import ClusterRef_proofs.
Import ListNotations.
Open Scope Z_scope.

(* clusterInfo.refCount is exactly: one for the current config selector if it references the
   cluster, plus one per uncommitted RPC routed to it -- in every reachable state. *)
Theorem C51_refcount_accounting : forall s, reachable s -> forall id, (id < length (heap s))%nat ->
  ci_ref (get (heap s) id) = in_sel id (cur s) + cnt_live id (rpcs s).
Proof. exact accounting. Qed.
Print Assumptions C51_refcount_accounting.

(* "After the xDS resolver selects a cluster for an RPC, that cluster stays in the channel's
   configuration ... until the RPC is committed ..., even if the route configuration removes
   it in the meantime": in every reachable state the clusterInfo of every uncommitted RPC is
   in activeClusters/activePlugins with refCount >= 1 (whatever updates happened since) ... *)
Theorem C51_kept : forall s, reachable s -> forall r, In r (rpcs s) -> rp_done r = false ->
  In (rp_ci r) (active s) /\ 1 <= ci_ref (get (heap s) (rp_ci r)) /\
  rp_key r = ci_key (get (heap s) (rp_ci r)).
Proof. exact kept. Qed.
Print Assumptions C51_kept.

(* ... and every sendNewServiceConfig from a reachable state (pruning included) lists it among
   the children it emits.  (The first emission of an Update happens in the middle of the
   step; it is covered by clause 2 of C51_holds_on_every_model_trace.) *)
Theorem C51_kept_in_every_config : forall s, reachable s -> forall s' w, send s = (s', w) ->
  forall r, In r (rpcs s) -> rp_done r = false ->
  In (rp_ci r) (sort_ids (heap s') (active s')) /\ rp_key r = ci_key (get (heap s') (rp_ci r)).
Proof. exact kept_in_send. Qed.
Print Assumptions C51_kept_in_every_config.

(* "The commit hook runs at most once per RPC": OnCommitted marks the RPC done ... *)
Theorem C51_commit_marks_done : forall j s s' ws p, Inv s -> 0 <= j ->
  nth_error (rpcs s) (Z.to_nat j) = Some p -> do_commit j s = (s', ws) ->
  exists p', nth_error (rpcs s') (Z.to_nat j) = Some p' /\ rp_done p' = true /\ rp_ci p' = rp_ci p.
Proof. exact commit_marks_done. Qed.
Print Assumptions C51_commit_marks_done.

(* ... and calling it again changes nothing (no decrement, no service config) *)
Theorem C51_commit_once : forall j s p, nth_error (rpcs s) (Z.to_nat j) = Some p -> rp_done p = true ->
  0 <= j ->
  do_commit j s = (s, [[6; 0; ci_ref (get (heap s) (rp_ci p)); ci_ref (get (heap s) (rp_ci p))]]).
Proof. exact commit_once. Qed.
Print Assumptions C51_commit_once.

(* "once all such RPCs are done the removed cluster is dropped from the configuration": a
   clusterInfo referenced neither by the current selector nor by an uncommitted RPC is
   absent after the next sendNewServiceConfig ... *)
Theorem C51_eventually_dropped : forall s, reachable s -> forall id, (id < length (heap s))%nat ->
  in_sel id (cur s) = 0 -> cnt_live id (rpcs s) = 0 ->
  forall s' w, send s = (s', w) -> ~ In id (active s').
Proof. exact dropped_at_send. Qed.
Print Assumptions C51_eventually_dropped.

(* ... and after a route update the active set holds only what the new routes, the previous
   selector, or an uncommitted RPC reference. *)
Theorem C51_update_drops_unreferenced : forall rs s s' ws, reachable s -> do_update rs s = (s', ws) ->
  forall id, In id (active s') ->
  In id (sel_ids (cur s')) \/ In id (sel_ids (cur s)) \/ cnt_live id (rpcs s) <> 0.
Proof. exact update_drops. Qed.
Print Assumptions C51_update_drops_unreferenced.

(* The invariant used above holds in every reachable state (induction over the op list). *)
Theorem C51_invariant : forall s, reachable s -> Inv s.
Proof. exact reachable_inv. Qed.
Print Assumptions C51_invariant.

(* The executable predicate evaluated on implementation traces holds on every model trace,
   for every list of operations. *)
Theorem C51_holds_on_every_model_trace : forall cfg ops,
  exists obs, run cfg ops = Some obs /\ holds_b cfg ops obs = true.
Proof. exact model_trace_holds. Qed.
Print Assumptions C51_holds_on_every_model_trace.

(* Scope note, NOT a violation: resource errors (LDS/RDS resource-not-found) are outside the
   property's quantifier (route configuration updates removing and re-adding clusters).  After
   Update{c1}; SelectConfig -> c1; a resource error makes the resolver push the empty service
   config while RPC 0 is uncommitted (pinned by TestResolverRemovedWithRPCs); the cluster
   keeps its reference and stays in the active set.  The behaviour is part of the model and
   is compared with the implementation by correspondence; no property clause is attached. *)
Theorem C51_resource_error_scope_note :
  In [1; 0; 0; 0; 1] (run_from st0 w_ops) /\
  (exists r, In r (rpcs (state_after st0 w_ops)) /\ rp_done r = false /\ rp_key r = 1 /\
     In (rp_ci r) (active (state_after st0 w_ops)) /\
     ci_ref (get (heap (state_after st0 w_ops)) (rp_ci r)) = 1).
Proof. exact resource_error_scope_note. Qed.
Print Assumptions C51_resource_error_scope_note.

(* non-vacuity: Update{c1}; select c1; Update{c2} (c1 removed, still emitted with count 2
   then kept with count 1); commit (count 0, unsubscribe called); Update{c2} drops c1. *)
Example C51_witness :
  run [] [[1; 1]; [2; 0; 0]; [1; 2]; [3; 0]; [1; 2]]
  = Some [[1; 1; 1; 1; 1]; [3; 0; 1; 1; 0]; [2; 1; 1]; [3; 1; 0; 1; 0; 1; 2; 0];
          [1; 1; 2; 1; 2; 2; 1; 0; 1]; [3; 1; 0; 1; 0; 1; 1; 0; 2; 1; 0];
          [6; 1; 1; 0]; [3; 0; 1; 0; 1; 2; 1; 0];
          [1; 1; 1; 2; 2]; [3; 0; 2; 1; 0]].
Proof. vm_compute. reflexivity. Qed.
