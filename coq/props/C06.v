(* C06: gRPC message framing round-trips and size limits are enforced.
   Theorems only; each is closed by [exact] of a lemma from proof/Framing_proofs.v.
   Vocabulary (model/Framing.v): a stream is a list of chunks (DATA frames) [cs]; a reader
   [mkR cs er pos]; [recvAndDecompress dec c r] is one call of rpc_util.recvAndDecompress
   under configuration [c] (receive limit, server/client, legacy Decompressor kind,
   encoding.Compressor kind, grpc-encoding) and returns (result, bytes obtained from the
   decompressor, reader); [recv_all] calls it until the first non-message result;
   [spec_recv] is the same step on the unsegmented byte stream; [dec k p] is what the
   external decompressor of codec [k] does with payload [p] (universally quantified: gzip
   and every custom codec); results: RMsg, REOF (io.EOF), RUnexp (io.ErrUnexpectedEOF,
   INTERNAL after toRPCErr), RStatus code _. *)
From Coq Require Import List ZArith Bool.
From VLib Require Import Codec Machine.
From VModel Require Import Framing.
From VProof Require Import Framing_proofs.
Import ListNotations.
Open Scope Z_scope.

(* "For any sequence of messages (any sizes, compressed or not) and any split of the byte
   stream into frames, the receiver yields exactly the sent messages in order":
   for every compressor/decompressor pair with dec (comp x) = x, every list of messages
   (compressed?, content) that respect the limit (msg_ok), and EVERY chunking [cs] of the
   concatenated frames, the receiver returns exactly the contents, in order, then io.EOF. *)
Theorem C06_roundtrip : forall dec comp c,
  (forall x, dec (active c) (comp x) = DStream x true) ->
  forall ms cs, Forall (msg_ok comp c) ms -> concat cs = concat (map (wire comp) ms) ->
  recv_all dec c (S (length ms)) (mkR cs false 0) = map (fun m => RMsg (snd m)) ms ++ [REOF].
Proof. exact roundtrip. Qed.
Print Assumptions C06_roundtrip.

(* the results never depend on how the byte stream is split into frames, for any stream
   (valid or not), any decompressor behaviour and any number of calls *)
Theorem C06_segmentation_independent : forall dec c fuel cs1 cs2, concat cs1 = concat cs2 ->
  recv_all dec c fuel (mkR cs1 false 0) = recv_all dec c fuel (mkR cs2 false 0).
Proof. exact segmentation_independent. Qed.
Print Assumptions C06_segmentation_independent.

(* each call of the chunked reader is the specification step on the flat stream *)
Theorem C06_refines_flat_spec : forall dec c r s, rel r s ->
  exists r', recvAndDecompress dec c r = (fst (spec_recv dec c s), r') /\
             rel r' (snd (spec_recv dec c s)).
Proof. exact recv_refines. Qed.
Print Assumptions C06_refines_flat_spec.

(* the compressor law is satisfiable: the toy run-length codec of the driver has it *)
Theorem C06_toy_codec_law : forall x, toy_dec (toy_comp x) = DStream x true.
Proof. exact toy_law. Qed.
Print Assumptions C06_toy_codec_law.

(* "A message whose declared ... size exceeds the receive limit fails the RPC with
   RESOURCE_EXHAUSTED": and only the five header bytes have been taken from the stream *)
Theorem C06_declared_too_big : forall dec c r, r_er r = false ->
  5 <= blen (concat (r_chunks r)) ->
  limit c < be32 (firstn 4 (skipn 1 (concat (r_chunks r)))) ->
  exists r', recvAndDecompress dec c r = (RStatus cResourceExhausted 2, 0, r') /\
             r_pos r' = r_pos r + 5 /\ r_er r' = false /\
             concat (r_chunks r') = skipn 5 (concat (r_chunks r)).
Proof. exact declared_too_big. Qed.
Print Assumptions C06_declared_too_big.

(* "... or decompressed size exceeds the receive limit fails the RPC with
   RESOURCE_EXHAUSTED": never a message; RESOURCE_EXHAUSTED whenever the decompressor's
   stream is error-free or the path is size-aware (a third-party legacy Decompressor that
   itself fails after more than limit bytes yields INTERNAL instead) *)
Theorem C06_decompressed_too_big : forall dec c p content ok, 0 <= limit c -> active c <> 0 ->
  dec (active c) p = DStream content ok -> limit c < blen content ->
  (forall out, fst (decompress dec c p) <> RMsg out) /\
  (ok = true \/ (bounded_path c = true /\ limit c < max_i64) ->
   fst (decompress dec c p) = RStatus cResourceExhausted 2).
Proof. exact decompressed_too_big. Qed.
Print Assumptions C06_decompressed_too_big.

(* "decompression never materializes more than limit+1 bytes": for the built-in gzip
   Decompressor (doWithMaxSize) and for every encoding.Compressor (bounded_path), for every
   payload and every decompressor behaviour; limit = MaxInt64 is excluded as in the code *)
Theorem C06_materialise_bound : forall dec c p, 0 <= limit c < max_i64 -> bounded_path c = true ->
  snd (decompress dec c p) <= limit c + 1.
Proof. exact materialise_bound. Qed.
Print Assumptions C06_materialise_bound.

(* ... REFUTED for a third-party legacy Decompressor (finding F-C06-legacy-decompressor-
   unbounded, clause 5): Do(r) is not bounded; limit 40, payload [200;9;41;9] of the toy
   run-length codec -> 241 bytes materialised before RESOURCE_EXHAUSTED is returned *)
Theorem C06_materialise_bound_legacy_refuted :
  exists c p, 0 <= limit c < max_i64 /\ dcKind c = 2 /\
    decompress (dec_of [] DHdrErr) c p = (RStatus cResourceExhausted 2, 241) /\ limit c + 1 < 241.
Proof. exact materialise_unbounded_legacy_refuted. Qed.
Print Assumptions C06_materialise_bound_legacy_refuted.

(* "a compressed flag without a usable decompressor, or an unknown flag value, is an
   error": flag 1 with empty/identity grpc-encoding -> INTERNAL; flag 1 with no decompressor
   installed -> UNIMPLEMENTED on a server, INTERNAL on a client; any other flag -> INTERNAL *)
Theorem C06_flag_identity_encoding : forall dec c d, enc c = 0 \/ enc c = 1 ->
  after_parse dec c (PMsg 1 d) = (RStatus cInternal 4, 0).
Proof. exact flag_identity_encoding. Qed.
Print Assumptions C06_flag_identity_encoding.

Theorem C06_flag_no_decompressor : forall dec c d, 2 <= enc c -> dcKind c = 0 -> compKind c = 0 ->
  after_parse dec c (PMsg 1 d) =
  (RStatus (if isServer c then cUnimplemented else cInternal) 4, 0).
Proof. exact flag_no_decompressor. Qed.
Print Assumptions C06_flag_no_decompressor.

Theorem C06_flag_unknown : forall dec c pf d, pf <> 0 -> pf <> 1 ->
  after_parse dec c (PMsg pf d) = (RStatus cInternal 4, 0).
Proof. exact flag_unknown. Qed.
Print Assumptions C06_flag_unknown.

(* "never a silently misdecoded message": whatever is delivered is backed by a complete
   frame hdr ++ payload at the read position with the declared length = the payload length
   <= limit, and is either the payload itself (flag 0) or exactly the complete, error-free
   output of the installed decompressor on that payload (flag 1, non-identity encoding);
   it fits the limit. *)
Theorem C06_delivered_sound : forall dec c s out n s', 0 <= limit c ->
  spec_recv dec c s = (RMsg out, n, s') ->
  f_er s = false /\
  exists hdr payload, f_buf s = hdr ++ payload ++ f_buf s' /\ length hdr = 5%nat /\
    be32 (skipn 1 hdr) = blen payload /\ blen payload <= limit c /\ blen out <= limit c /\
    f_pos s' = f_pos s + 5 + blen payload /\
    ((nth 0 hdr 0 = 0 /\ out = payload /\ n = 0) \/
     (nth 0 hdr 0 = 1 /\ enc c <> 0 /\ enc c <> 1 /\ active c <> 0 /\
      dec (active c) payload = DStream out true /\ n = blen out)).
Proof. exact delivered_sound. Qed.
Print Assumptions C06_delivered_sound.

(* truncated streams (lying prefixes): a stream that ends inside a payload gives
   io.ErrUnexpectedEOF (INTERNAL), never a short message; a stream that ends inside a
   header gives io.EOF (what transport.Stream.ReadMessageHeader reports: the failing read
   returns no bytes, so its conversion to io.ErrUnexpectedEOF does not fire), never a
   message; every later call returns io.EOF *)
Theorem C06_truncated_payload : forall dec c s, f_er s = false -> 5 <= blen (f_buf s) ->
  be32 (firstn 4 (skipn 1 (f_buf s))) <= limit c ->
  blen (f_buf s) - 5 < be32 (firstn 4 (skipn 1 (f_buf s))) ->
  spec_recv dec c s = (RUnexp, 0, mkF [] true (f_pos s + blen (f_buf s))).
Proof. exact truncated_payload. Qed.
Print Assumptions C06_truncated_payload.

Theorem C06_truncated_header : forall dec c s, f_er s = false -> blen (f_buf s) < 5 ->
  spec_recv dec c s = (REOF, 0, mkF [] true (f_pos s + blen (f_buf s))).
Proof. exact truncated_header. Qed.
Print Assumptions C06_truncated_header.

Theorem C06_after_error_eof : forall dec c s, f_er s = true -> spec_recv dec c s = (REOF, 0, s).
Proof. exact after_error_eof. Qed.
Print Assumptions C06_after_error_eof.

(* end-to-end path (cfg[5] = 1: a raw HTTP/2 peer feeds DATA frames to a real ClientConn):
   the client's RecvMsg results depend only on the concatenated DATA bytes ... *)
Theorem C06_e2e_segmentation : forall dec c os1 os2 stopped,
  concat (chunks_of os1) = concat (chunks_of os2) ->
  forall k, run_ops true stopped dec c (r_init true os1) (repeat ORecv k) =
            run_ops true stopped dec c (r_init true os2) (repeat ORecv k).
Proof. exact e2e_segmentation. Qed.
Print Assumptions C06_e2e_segmentation.

(* ... and the model's end-to-end traces of: a stream cut inside a header (3 of 5 bytes, then
   trailers with status OK) -> io.EOF; a stream cut inside a payload -> INTERNAL; a declared
   length of limit+1 -> RESOURCE_EXHAUSTED; in each case the client stops there *)
Example C06_e2e_witness :
  run [40; 0; 0; 0; 0; 1] [[1; 3; 0; 0; 0]; [2]; [2]] = Some [[]; [1; 0; 0; 0; 0; 0]; []] /\
  run [40; 0; 0; 0; 0; 1] [[1; 4; 0; 0; 0; 0]; [1; 3; 3; 7; 7]; [2]; [2]] = Some [[]; []; [3; 13; 0; 0; 0; 0]; []] /\
  run [40; 0; 0; 0; 0; 1] [[2]; [1; 5; 0; 0; 0; 0; 41]; [2]] = Some [[3; 8; 0; 0; 0; 0]; []; []] /\
  (* a mismatching legacy WithDecompressor on the channel (cfg[2] = 2) changes nothing: the
     toy-compressed message [3 x 9] under the registered encoding is decoded by the named codec *)
  run [40; 0; 2; 2; 2; 1] [[1; 7; 1; 0; 0; 0; 2; 3; 9]; [2]; [2]] =
  run [40; 0; 0; 2; 2; 1] [[1; 7; 1; 0; 0; 0; 2; 3; 9]; [2]; [2]] /\
  run [40; 0; 2; 2; 2; 1] [[1; 7; 1; 0; 0; 0; 2; 3; 9]; [2]; [2]] =
    Some [[]; [0; 0; 3; cksum [9; 9; 9]; 0; 0]; [1; 0; 0; 0; 0; 0]] /\
  wf [40; 0; 0; 0; 0; 1] [[1; 3; 0; 0; 0]; [2]; [2]] = true.
Proof. vm_compute. repeat split. Qed.

(* The executable predicate that is evaluated on implementation traces (all clauses but the
   refuted clause 5) holds on every trace of the model, for every well-formed case. *)
Theorem C06_holds_on_every_model_trace : forall cfg ops, wf cfg ops = true ->
  exists obs, run cfg ops = Some obs /\ holds_b cfg ops obs = true.
Proof. exact model_trace_holds. Qed.
Print Assumptions C06_holds_on_every_model_trace.

(* the refuted clause is false on the model's own trace of the witness *)
Theorem C06_finding_clause_fails_on_model :
  let cfg := [40; 0; 2; 0; 2] in
  let ops := [[1; 9; 1; 0; 0; 0; 4; 200; 9; 41; 9]; [2]] in
  wf cfg ops = true /\
  exists obs, run cfg ops = Some obs /\
    clauses cfg ops obs = [(0, 0, true); (2, 1, true); (5, 1, false)].
Proof. exact finding_clause_fails_on_model. Qed.
Print Assumptions C06_finding_clause_fails_on_model.

(* non-vacuity: three messages (plain, toy-compressed, empty) sent through the toy codec,
   delivered from a byte-wise and from a single-chunk stream; a zip bomb under the
   encoding.Compressor path is cut at limit+1 bytes *)
Example C06_witness :
  let c := mkCfg 40 true 0 2 2 in
  let ms := [(false, [7; 8; 9]); (true, [5; 5; 6]); (false, [])] in
  let flat := concat (map (wire toy_comp) ms) in
  recv_all (dec_of [] DHdrErr) c 4 (mkR (map (fun b => [b]) flat) false 0)
    = [RMsg [7; 8; 9]; RMsg [5; 5; 6]; RMsg []; REOF] /\
  recv_all (dec_of [] DHdrErr) c 4 (mkR [flat] false 0)
    = [RMsg [7; 8; 9]; RMsg [5; 5; 6]; RMsg []; REOF] /\
  decompress (dec_of [] DHdrErr) c [200; 9; 41; 9] = (RStatus cResourceExhausted 2, 41) /\
  wf [40; 1; 0; 2; 2] [[1; 3; 1; 0; 0]; [1; 6; 0; 4; 2; 5; 1; 6]; [2]; [2]] = true.
Proof. vm_compute. repeat split. Qed.
