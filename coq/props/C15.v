(* C15: keepalive detects dead peers in bounded time and never kills healthy ones.
   Theorems only; each is closed by [exact] of a lemma from proof/Keepalive_proofs.v.
   Part A is the keepalive loop (http2Client.keepalive; the server loop is the instance without
   dormancy), a timed machine over virtual milliseconds; Part B is the server's ping-abuse
   ledger (http2Server.handlePing).  TCP_USER_TIMEOUT and OS timers are outside. *)
From Coq Require Import List ZArith Bool.
From VLib Require Import Codec Machine.
From VModel Require Import Keepalive.
From VProof Require Import Keepalive_proofs.
Import ListNotations.
Open Scope Z_scope.

(* "a connection that receives some byte at least once every Time is never closed by keepalive":
   for EVERY timeline of waits, reads, stream opens/closes and ack behaviour, if the loop has
   closed the transport then the close came exactly Timeout after the last ping with nothing read
   in between, and - unless that ping was the one sent on waking up from dormancy - nothing had
   been read during the Time + Timeout before the close (k_timer = instant of the close). *)
Theorem C15_healthy_never_killed : forall c ops, cfg_ok c -> xs_ok ops ->
  let s := kreach c (kinit c) ops in
  k_closed s = true ->
  k_timer s = k_ping s + kc_timeout c /\ k_last s <= k_prev s /\
  (k_wake s = false -> k_last s + kc_time c + kc_timeout c <= k_timer s).
Proof. exact healthy_never_killed. Qed.
Print Assumptions C15_healthy_never_killed.

(* For a wake-up ping the sentence is FALSE of the code (since 7e22c66 refreshes prevNano on
   wake-up and pings at once): Time 2 s, Timeout 1 s, dormant; a byte at 3.002 s, a stream at
   3.003 s: ping at 3.003 s, closed at 4.003 s although a byte was read 1.001 s earlier. *)
Theorem C15_wake_ping_kills_recently_heard_peer :
  krun (mkkc 2000 1000 false) (kinit (mkkc 2000 1000 false)) [(1, KWait); (2, KRead); (0, KOpen); (1, KWait)] =
  [[1001]; [3002]; [3003; 6; 3003]; [4004; 8; 4003]].
Proof. exact wake_ping_kills_recently_heard_peer. Qed.
Print Assumptions C15_wake_ping_kills_recently_heard_peer.

(* Dead-peer bound, in three steps (partial: not assembled into one statement over all timelines).
   (1) once the loop has noticed a read L, the next firing is at max(now, L + Time); *)
Theorem C15_dead_peer_bound_partial_timer : forall c s, k_prev s < k_last s ->
  snd (fire c s) = [] /\ k_timer (fst (fire c s)) = Z.max (k_timer s) (k_last s + kc_time c) /\
  k_prev (fst (fire c s)) = k_last s /\ k_out (fst (fire c s)) = false.
Proof. exact fire_observes_read. Qed.
Print Assumptions C15_dead_peer_bound_partial_timer.

(* (2) a firing with nothing read since, no ping outstanding and keepalive applicable (a stream
   is open or PermitWithoutStream) sends the ping at that instant; *)
Theorem C15_dead_peer_bound_partial_ping : forall c s, k_last s <= k_prev s -> k_out s = false ->
  (kc_permit c = true \/ 1 <= k_streams s) ->
  snd (fire c s) = [(6, k_timer s)] /\ k_out (fst (fire c s)) = true /\ k_ping (fst (fire c s)) = k_timer s.
Proof. exact fire_pings. Qed.
Print Assumptions C15_dead_peer_bound_partial_ping.

(* (3) from a ping on, if nothing more is read and keepalive stays applicable, the transport is
   closed exactly Timeout after the ping, whatever the ratio Timeout / Time (k bounds the number
   of timer rounds). *)
Theorem C15_dead_peer_bound_partial_close : forall c, cfg_ok c -> forall k s target, kinv c s ->
  k_closed s = false -> k_dorm s = false -> k_out s = true -> k_last s <= k_prev s ->
  (kc_permit c = true \/ 1 <= k_streams s) ->
  k_left s <= Z.of_nat k * kc_time c -> k_timer s + k_left s < target ->
  let r := advance (S k) c s target in
  k_closed (fst r) = true /\ k_timer (fst r) = k_ping s + kc_timeout c /\
  exists pre, snd r = pre ++ [(8, k_ping s + kc_timeout c)].
Proof. exact ping_to_close. Qed.
Print Assumptions C15_dead_peer_bound_partial_close.

(* (4) a wake-up from dormancy (first stream after an idle period) pings at that instant with
   prevNano = lastRead, so by (3) a peer that stays silent is closed exactly Timeout after the
   moment keepalive became applicable, even if a byte had arrived while the loop was dormant; *)
Theorem C15_dead_peer_bound_partial_wake : forall c s, cfg_ok c -> kinv c s -> k_closed s = false -> k_dorm s = true ->
  let r := act c s KOpen in
  snd r = [(6, k_now s)] /\ k_ping (fst r) = k_now s /\ k_out (fst r) = true /\ k_dorm (fst r) = false /\
  k_prev (fst r) = k_last s /\ (k_ack s = false -> k_last (fst r) = k_last s) /\
  k_timer (fst r) + k_left (fst r) = k_now s + kc_timeout c /\ k_streams (fst r) = k_streams s + 1.
Proof. exact wake_pings. Qed.
Print Assumptions C15_dead_peer_bound_partial_wake.

(* the witness of the former stale-read defect now meets the bound: byte at 92.002 s while
   dormant, stream at 192.003 s, one ping, closed at 197.003 s = wake-up + Timeout *)
Theorem C15_dormancy_wake_bound_witness :
  krun (mkkc 10000 5000 false) (kinit (mkkc 10000 5000 false))
       [(12, KWait); (80, KRead); (100, KOpen); (4, KWait); (0, KWait); (4, KWait); (1, KWait); (10, KWait)] =
  [[12001]; [92002]; [192003; 6; 192003]; [196004]; [196005]; [200006; 8; 197003]; [201007]; [211008]].
Proof. exact dormancy_wake_bound_witness. Qed.
Print Assumptions C15_dormancy_wake_bound_witness.

(* "A server never sends GOAWAY ENHANCE_YOUR_CALM to a client whose consecutive pings are at
   least MinTime apart while it has streams (or PermitWithoutStream) and at least two hours apart
   otherwise": such a ping adds no strike and produces no GOAWAY. *)
Theorem C15_no_false_goaway : forall c s, 0 <= p_strikes s <= 2 ->
  (p_lastping s < 0 \/ p_lastping s + policy_gap c s <= p_now s) ->
  snd (on_ping c s) = [] /\ p_strikes (fst (on_ping c s)) <= p_strikes s /\ p_goaway (fst (on_ping c s)) = p_goaway s.
Proof. exact no_false_goaway. Qed.
Print Assumptions C15_no_false_goaway.

(* "it does send it after a third too-early ping that is not separated from the previous ones by
   server-sent headers or data": every too-early ping without reset adds one strike, the third
   one is answered by GOAWAY(ENHANCE_YOUR_CALM = 11). *)
Theorem C15_strike_counts : forall c s, p_reset s = false -> 0 <= p_strikes s < 2 ->
  0 <= p_lastping s -> p_now s < p_lastping s + policy_gap c s ->
  snd (on_ping c s) = [] /\ p_strikes (fst (on_ping c s)) = p_strikes s + 1 /\ p_reset (fst (on_ping c s)) = false.
Proof. exact strike_counts. Qed.
Print Assumptions C15_strike_counts.
Theorem C15_third_strike : forall c s, p_reset s = false -> p_strikes s = 2 ->
  0 <= p_lastping s -> p_now s < p_lastping s + policy_gap c s ->
  snd (on_ping c s) = [(7, 11)] /\ p_goaway (fst (on_ping c s)) = true.
Proof. exact third_strike. Qed.
Print Assumptions C15_third_strike.

(* The predicate evaluated on implementation traces holds on every trace of the model. *)
Theorem C15_holds_on_every_model_trace : forall cfg ops, wf cfg ops = true ->
  exists obs, run cfg ops = Some obs /\ holds_b cfg ops obs = true.
Proof. exact model_trace_holds. Qed.
Print Assumptions C15_holds_on_every_model_trace.

(* non-vacuity: Time 5 s, Timeout 2 s, a stream open, silent peer: ping at 5.000 s, closed at
   7.000 s; and four pings 1 s apart under MinTime 5 s: the fourth is the third strike *)
Example C15_witness :
  run [0; 5000; 2000; 0] [[3; 0]; [1; 4]; [1; 0]; [1; 1]; [1; 1]; [1; 5]] =
    Some [[1]; [4002]; [4003]; [5004; 6; 5000]; [6005]; [11006; 8; 7000]] /\
  run [1; 5000; 0] [[3; 0]; [2; 0]; [2; 1]; [2; 1]; [2; 4]] =
    Some [[1]; [2]; [1003]; [2004]; [6005; 7; 11]].
Proof. vm_compute. split; reflexivity. Qed.
