(* C15: keepalive detects dead peers in bounded time and never kills healthy ones.
   Theorems only; each is closed by [exact] of a lemma from proof/Keepalive_proofs.v.
   Part A is the keepalive loop (http2Client.keepalive; the server loop is the instance without
   dormancy), a timed machine over virtual milliseconds; Part B is the server's ping-abuse
   ledger (http2Server.handlePing).  TCP_USER_TIMEOUT and OS timers are outside. *)
From Coq Require Import List ZArith Bool.
From VLib Require Import Codec Machine.
From VModel Require Import Keepalive.
From VProof Require Import Keepalive_proofs.
Import ListNotations.
Open Scope Z_scope.

(* "a connection that receives some byte at least once every Time is never closed by keepalive":
   for EVERY timeline of waits, reads, stream opens/closes (dormancy and wake-ups included) and
   ack behaviour, if the loop has closed the transport then nothing had been read during the
   Time + Timeout before the close (k_timer = instant of the close), and the close came exactly
   Timeout after the last ping. *)
Theorem C15_healthy_never_killed : forall c ops, cfg_ok c -> xs_ok ops ->
  let s := kreach c (kinit c) ops in
  k_closed s = true ->
  k_last s + kc_time c + kc_timeout c <= k_timer s /\ k_timer s = k_ping s + kc_timeout c.
Proof. exact healthy_never_killed. Qed.
Print Assumptions C15_healthy_never_killed.

(* ... in the property's own direction: at the end of EVERY timeline - hence at every op boundary
   of every timeline - a transport whose last received byte is less than Time + Timeout old (in
   particular one that receives a byte at least once every Time) is not closed. *)
Theorem C15_healthy_alive : forall c ops, cfg_ok c -> xs_ok ops ->
  let s := kreach c (kinit c) ops in
  k_now s < k_last s + kc_time c + kc_timeout c -> k_closed s = false.
Proof. exact healthy_alive. Qed.
Print Assumptions C15_healthy_alive.

(* "an endpoint that receives nothing from its peer closes the connection no later than Timeout
   after the later of (last received byte + Time) and the moment keepalive became applicable".
   For EVERY timeline (waits, reads, stream opens/closes, dormancy and wake-ups, GOAWAY/draining,
   ping acks on/off), with
     t0 = k_last s       the instant of the last byte received on the timeline (KRead, GOAWAY or
                         ping ack; "nothing is read after t0" holds by definition of last),
     a  = appl_since     the moment keepalive last became applicable (applicable c s = a stream
                         is open or PermitWithoutStream; 0 when applicable from the start; it has
                         been applicable without interruption since a),
   if keepalive is applicable at the end and the clock is past max(t0 + Time, a) + Timeout, then
   the transport is closed, it was closed (k_timer = instant of the close) no later than
   max(t0 + Time, a) + Timeout, and the close event is in the trace.  (k_now is the model clock:
   per op the executor fires at most fuel_for = 2*dt/min(Time,Timeout)+6 timers, ample for every
   decodable op.) *)
Theorem C15_dead_peer_closed : forall c ops, cfg_ok c -> xs_ok ops ->
  let s := kreach c (kinit c) ops in
  let t0 := k_last s in
  let a := appl_since c ops in
  applicable c s = true ->
  Z.max (t0 + kc_time c) a + kc_timeout c < k_now s ->
  k_closed s = true /\ k_timer s <= Z.max (t0 + kc_time c) a + kc_timeout c /\
  shows_close (krun c (kinit c) ops) = true.
Proof. exact dead_peer_closed. Qed.
Print Assumptions C15_dead_peer_closed.

(* the hypotheses are met by the plain dead peer: Time 5 s, Timeout 2 s, a stream from 1 ms on,
   nothing ever read: applicable since a = 1 ms, t0 = 0, closed at 7.000 s = t0 + Time + Timeout *)
Example C15_dead_peer_closed_witness :
  let c := mkkc 5000 2000 false in
  let ops := [(0, KOpen); (4, KWait); (0, KWait); (1, KWait); (1, KWait); (5, KWait)] in
  let s := kreach c (kinit c) ops in
  applicable c s = true /\ appl_since c ops = 1 /\ k_last s = 0 /\ k_now s = 11006 /\
  k_closed s = true /\ k_timer s = 7000.
Proof. vm_compute. repeat split; reflexivity. Qed.

(* the witness against the first repair (7e22c66 alone closed this peer at 4.003 s): Time 2 s,
   Timeout 1 s, dormant; a byte at 3.002 s, a stream at 3.003 s.  No ping on wake-up; the ping
   comes at 5.002 s = t0 + Time and the still silent peer is closed at 6.002 s. *)
Theorem C15_wake_does_not_kill_recently_heard_peer :
  krun (mkkc 2000 1000 false) (kinit (mkkc 2000 1000 false))
       [(1, KWait); (2, KRead); (0, KOpen); (1, KWait); (1, KWait); (1, KWait)] =
  [[1001]; [3002]; [3003]; [4004]; [5005; 6; 5002]; [6006; 8; 6002]].
Proof. exact wake_does_not_kill_recently_heard_peer. Qed.
Print Assumptions C15_wake_does_not_kill_recently_heard_peer.

(* The steps of the loop behind C15_dead_peer_closed, each for an arbitrary state (they also give
   the exact instants, where the theorem above gives the bound).
   (1) once the loop has noticed a read L, the next firing is at max(now, L + Time); *)
Theorem C15_dead_peer_step_timer : forall c s, k_prev s < k_last s ->
  snd (fire c s) = [] /\ k_timer (fst (fire c s)) = Z.max (k_timer s) (k_last s + kc_time c) /\
  k_prev (fst (fire c s)) = k_last s /\ k_out (fst (fire c s)) = false.
Proof. exact fire_observes_read. Qed.
Print Assumptions C15_dead_peer_step_timer.

(* (2) a firing with nothing read since, no ping outstanding and keepalive applicable (a stream
   is open or PermitWithoutStream) sends the ping at that instant; *)
Theorem C15_dead_peer_step_ping : forall c s, k_last s <= k_prev s -> k_out s = false ->
  (kc_permit c = true \/ 1 <= k_streams s) ->
  snd (fire c s) = [(6, k_timer s)] /\ k_out (fst (fire c s)) = true /\ k_ping (fst (fire c s)) = k_timer s.
Proof. exact fire_pings. Qed.
Print Assumptions C15_dead_peer_step_ping.

(* (3) from a ping on, if nothing more is read and keepalive stays applicable, the transport is
   closed exactly Timeout after the ping, whatever the ratio Timeout / Time (k bounds the number
   of timer rounds). *)
Theorem C15_dead_peer_step_close : forall c, cfg_ok c -> forall k s target, kinv c s ->
  k_closed s = false -> k_dorm s = false -> k_out s = true -> k_last s <= k_prev s ->
  (kc_permit c = true \/ 1 <= k_streams s) ->
  k_left s <= Z.of_nat k * kc_time c -> k_timer s + k_left s < target ->
  let r := advance (S k) c s target in
  k_closed (fst r) = true /\ k_timer (fst r) = k_ping s + kc_timeout c /\
  exists pre, snd r = pre ++ [(8, k_ping s + kc_timeout c)].
Proof. exact ping_to_close. Qed.
Print Assumptions C15_dead_peer_step_close.

(* (4) a wake-up from dormancy at a (first stream after an idle period): if a byte was read while
   dormant (t0 = last) it is treated as read activity - no ping before t0 + Time, ping at once
   if that is already past; otherwise the ping goes out at a.  With (2) and (3): a silent peer
   is closed at max(t0 + Time, a) + Timeout.  (A stream can only be opened on a transport that
   is not draining.) *)
Theorem C15_dead_peer_step_wake : forall c s, cfg_ok c -> kinv c s -> k_closed s = false -> k_dorm s = true ->
  k_drain s = false ->
  let r := act c s KOpen in
  k_dorm (fst r) = false /\
  (k_prev s < k_last s ->
     k_prev (fst r) = k_last s /\
     (k_now s < k_last s + kc_time c -> snd r = [] /\ k_out (fst r) = false /\ k_timer (fst r) = k_last s + kc_time c) /\
     (k_last s + kc_time c <= k_now s -> snd r = [(6, k_now s)] /\ k_ping (fst r) = k_now s /\ k_out (fst r) = true)) /\
  (k_last s <= k_prev s -> snd r = [(6, k_now s)] /\ k_ping (fst r) = k_now s /\ k_out (fst r) = true /\
                           k_timer (fst r) + k_left (fst r) = k_now s + kc_timeout c).
Proof. exact wake_step. Qed.
Print Assumptions C15_dead_peer_step_wake.

(* the witness of the former stale-read defect meets the bound: byte at 92.002 s while dormant,
   stream at 192.003 s, one ping, closed at 197.003 s = max(t0 + Time, a) + Timeout *)
Theorem C15_dormancy_wake_bound_witness :
  krun (mkkc 10000 5000 false) (kinit (mkkc 10000 5000 false))
       [(12, KWait); (80, KRead); (100, KOpen); (4, KWait); (0, KWait); (4, KWait); (1, KWait); (10, KWait)] =
  [[12001]; [92002]; [192003; 6; 192003]; [196004]; [196005]; [200006; 8; 197003]; [201007]; [211008]].
Proof. exact dormancy_wake_bound_witness. Qed.
Print Assumptions C15_dormancy_wake_bound_witness.

(* (5) keepalive stays applicable on a transport that is draining after a graceful GOAWAY (a
   stream is still open): for the loop the GOAWAY is a read and nothing else, and (1)-(3) are
   stated for every state, draining ones included. *)
Theorem C15_dead_peer_step_draining : forall c s, k_closed s = false -> 1 <= k_streams s ->
  let r := act c s KGoAway in
  snd r = [] /\ k_drain (fst r) = true /\ k_last (fst r) = k_now s /\ k_closed (fst r) = false /\
  k_timer (fst r) = k_timer s /\ k_out (fst r) = k_out s /\ k_left (fst r) = k_left s /\
  k_prev (fst r) = k_prev s /\ k_dorm (fst r) = k_dorm s /\ k_streams (fst r) = k_streams s.
Proof. exact goaway_only_a_read. Qed.
Print Assumptions C15_dead_peer_step_draining.

(* ... witness: Time 5 s, Timeout 2 s; a stream at 1 ms, GOAWAY at 2 ms, then silence: ping at
   5.002 s = GOAWAY + Time, closed at 7.002 s *)
Theorem C15_draining_dead_peer_witness :
  krun (mkkc 5000 2000 false) (kinit (mkkc 5000 2000 false)) [(0, KOpen); (0, KGoAway); (5, KWait); (3, KWait)] =
  [[1]; [2]; [5003; 6; 5002]; [8004; 8; 7002]].
Proof. exact draining_dead_peer_witness. Qed.
Print Assumptions C15_draining_dead_peer_witness.

(* "closes the connection": for every timeline, a transport that the loop has closed shows the
   close event in its observations (what clause 8 demands of the implementation's trace at the
   moments at which the model's transport is closed). *)
Theorem C15_closed_transport_shows_close : forall c ops, cfg_ok c -> xs_ok ops ->
  k_closed (kreach c (kinit c) ops) = true -> shows_close (krun c (kinit c) ops) = true.
Proof. exact closed_shown. Qed.
Print Assumptions C15_closed_transport_shows_close.

(* "A server never sends GOAWAY ENHANCE_YOUR_CALM to a client whose consecutive pings are at
   least MinTime apart while it has streams (or PermitWithoutStream) and at least two hours apart
   otherwise": such a ping adds no strike and produces no GOAWAY. *)
Theorem C15_no_false_goaway : forall c s, 0 <= p_strikes s <= 2 ->
  (p_lastping s < 0 \/ p_lastping s + policy_gap c s <= p_now s) ->
  snd (on_ping c s) = [] /\ p_strikes (fst (on_ping c s)) <= p_strikes s /\ p_goaway (fst (on_ping c s)) = p_goaway s.
Proof. exact no_false_goaway. Qed.
Print Assumptions C15_no_false_goaway.

(* ... over whole timelines: with a client that respects the policy (polite: every PING at least
   MinTime after the previous one while it has streams or PermitWithoutStream, at least two hours
   otherwise), whatever else happens (streams opened and finished, waits), no GOAWAY is ever sent,
   no strike is ever recorded and the trace carries no event at all. *)
Theorem C15_polite_client_never_goaway : forall c ops s, p_goaway s = false -> p_strikes s = 0 -> polite c s ops ->
  p_goaway (preach c s ops) = false /\ p_strikes (preach c s ops) = 0 /\
  Forall (fun ob => evs ob = []) (prun c s ops).
Proof. exact polite_never_goaway. Qed.
Print Assumptions C15_polite_client_never_goaway.

(* "it does send it after a third too-early ping that is not separated from the previous ones by
   server-sent headers or data": every too-early ping without reset adds one strike, the third
   one is answered by GOAWAY(ENHANCE_YOUR_CALM = 11). *)
Theorem C15_strike_counts : forall c s, p_reset s = false -> 0 <= p_strikes s < 2 ->
  0 <= p_lastping s -> p_now s < p_lastping s + policy_gap c s ->
  snd (on_ping c s) = [] /\ p_strikes (fst (on_ping c s)) = p_strikes s + 1 /\ p_reset (fst (on_ping c s)) = false.
Proof. exact strike_counts. Qed.
Print Assumptions C15_strike_counts.
Theorem C15_third_strike : forall c s, p_reset s = false -> p_strikes s = 2 ->
  0 <= p_lastping s -> p_now s < p_lastping s + policy_gap c s ->
  snd (on_ping c s) = [(7, 11)] /\ p_goaway (fst (on_ping c s)) = true.
Proof. exact third_strike. Qed.
Print Assumptions C15_third_strike.

(* ... as one timeline: from any state without strikes (last ping in the past), three pings in a
   row with nothing but time between them, each too early for the policy: the first two are
   tolerated, the third is answered by GOAWAY(ENHANCE_YOUR_CALM). *)
Theorem C15_three_early_pings : forall c s x1 x2 x3,
  p_goaway s = false -> p_reset s = false -> p_strikes s = 0 -> 0 <= p_lastping s <= p_now s ->
  0 <= x1 -> 0 <= x2 -> 0 <= x3 ->
  p_now s + 1000 * x1 + 1 < p_lastping s + policy_gap c s ->
  1000 * x2 + 1 < policy_gap c s -> 1000 * x3 + 1 < policy_gap c s ->
  exists t1 t2 t3, prun c s [(x1, PPing); (x2, PPing); (x3, PPing)] = [[t1]; [t2]; [t3; 7; 11]] /\
                   p_goaway (preach c s [(x1, PPing); (x2, PPing); (x3, PPing)]) = true.
Proof. exact three_early_pings. Qed.
Print Assumptions C15_three_early_pings.

(* The predicate evaluated on implementation traces holds on every trace of the model. *)
Theorem C15_holds_on_every_model_trace : forall cfg ops, wf cfg ops = true ->
  exists obs, run cfg ops = Some obs /\ holds_b cfg ops obs = true.
Proof. exact model_trace_holds. Qed.
Print Assumptions C15_holds_on_every_model_trace.

(* non-vacuity: Time 5 s, Timeout 2 s, a stream open, silent peer: ping at 5.000 s, closed at
   7.000 s; and four pings 1 s apart under MinTime 5 s: the fourth is the third strike *)
Example C15_witness :
  run [0; 5000; 2000; 0] [[3; 0]; [1; 4]; [1; 0]; [1; 1]; [1; 1]; [1; 5]] =
    Some [[1]; [4002]; [4003]; [5004; 6; 5000]; [6005]; [11006; 8; 7000]] /\
  run [1; 5000; 0] [[3; 0]; [2; 0]; [2; 1]; [2; 1]; [2; 4]] =
    Some [[1]; [2]; [1003]; [2004]; [6005; 7; 11]].
Proof. vm_compute. split; reflexivity. Qed.
