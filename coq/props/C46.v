(* C46: xDS routing selects the right virtual host, route and cluster.
   Theorems only; each is closed by [exact] of a lemma from proof/XdsRoute_proofs.v.
   Strings are byte lists; metadata is the list of (key, value) pairs in append order;
   xxhash is an arbitrary function H and the hash-policy regex rewrite
   (regexp ReplaceAllString) an arbitrary function RW. *)
From Coq Require Import List ZArith Bool.
From VLib Require Import Codec Machine.
From VModel Require Matchers.
From VModel Require Import XdsRoute.
From VProof Require Matchers_proofs.
From VProof Require Import XdsRoute_proofs.
Import ListNotations.
Open Scope Z_scope.

(* "the client uses the virtual host whose domain best matches the authority (exact >
   suffix > prefix > wildcard, longer pattern first)".  mtype: 4 exact, 3 suffix "*x",
   2 prefix "x*", 1 "*", 0 invalid; klt/kle compare (mtype, length) lexicographically.
   With fl the (virtual host index, domain) pairs in configuration order:
   nil if some pattern is invalid; otherwise nil iff no pattern matches, else the host of
   a matching pattern d that is strictly better than every matching pattern before it and
   at least as good as every matching pattern after it (so ties go to the first). *)
Theorem C46_vhost : forall host vhs,
  let fl := flat_from 0 vhs in
  ((exists e, In e fl /\ mtype (snd e) = 0) -> find_best host vhs = None) /\
  ((forall e, In e fl -> mtype (snd e) <> 0) ->
   match find_best host vhs with
   | None => forall e, In e fl -> dmatch (snd e) host = false
   | Some i => exists d p1 p2, fl = p1 ++ (i, d) :: p2 /\ dmatch d host = true /\
       (forall e, In e p1 -> dmatch (snd e) host = true -> klt (snd e) d) /\
       (forall e, In e p2 -> dmatch (snd e) host = true -> kle (snd e) d)
   end).
Proof. exact find_best_spec. Qed.
Print Assumptions C46_vhost.

(* fl lists exactly the domains of every virtual host, tagged with the host's index *)
Theorem C46_vhost_pairs : forall vhs i d,
  In (i, d) (flat_from 0 vhs) <->
  exists ds, 0 <= i /\ nth_error vhs (Z.to_nat (i - 0)) = Some ds /\ In d ds.
Proof. intros vhs i d. exact (in_flat_from vhs 0 i d). Qed.
Print Assumptions C46_vhost_pairs.

(* what each pattern kind matches *)
Theorem C46_domain_patterns : forall d host,
  (mtype d = 4 -> (dmatch d host = true <-> host = d)) /\
  (mtype d = 3 -> exists s, d = star :: s /\ (dmatch d host = true <-> exists r, host = r ++ s)) /\
  (mtype d = 2 -> exists p, d = p ++ [star] /\ (dmatch d host = true <-> exists r, host = p ++ r)) /\
  (mtype d = 1 -> d = [star] /\ dmatch d host = true) /\
  (mtype d = 0 -> dmatch d host = false).
Proof. exact dmatch_meaning. Qed.
Print Assumptions C46_domain_patterns.

(* the loop agrees with the independent quadratic checker used on implementation traces *)
Theorem C46_vhost_checker : forall host vhs, find_best host vhs = vhost_ref host vhs.
Proof. exact find_best_ref. Qed.
Print Assumptions C46_vhost_checker.

(* "and the first route whose path, header and runtime-fraction matchers all match":
   a successful SelectConfig (code 0) used route i = the first route that matches the
   metadata used for matching, that route is a forwarding route, the "cluster" is either
   the weighted pick j for the draw w, or - for a route naming a cluster specifier plugin -
   the plugin (j = -1, name reported), and the hash is generateHash of the route's policies *)
Theorem C46_route : forall H RW chan rs m em ex method t w i j g h tail,
  select H RW chan rs m em ex method t w = 0 :: i :: j :: g :: h :: tail ->
  exists pre r post, rs = pre ++ r :: post /\ i = Z.of_nat (length pre) /\
    route_match r method (match_md m em ex) t = true /\
    (forall r', In r' pre -> route_match r' method (match_md m em ex) t = false) /\
    r_action r = 1 /\
    ((r_plugin r = [] /\ wrr_pick (r_ws r) w = Some j /\ tail = []) \/
     (r_plugin r <> [] /\ j = -1 /\ tail = put_bytes (r_plugin r))) /\
    g = b2z (snd (gen_hash H RW chan m (if ex then em else []) (r_pols r))) /\
    (g = 1 -> h = i64 (fst (gen_hash H RW chan m (if ex then em else []) (r_pols r)))).
Proof. exact select_ok_spec. Qed.
Print Assumptions C46_route.

(* no route matches  <->  "no matched route was found" *)
Theorem C46_no_route : forall H RW chan rs m em ex method t w,
  (forall r, In r rs -> route_match r method (match_md m em ex) t = false) <->
  select H RW chan rs m em ex method t w = [1; 0; 0; 0; 0].
Proof. exact select_none_spec. Qed.
Print Assumptions C46_no_route.

(* a route matches iff its path matcher, every header matcher and its fraction match *)
Theorem C46_route_match : forall r method m t,
  route_match r method m t = true <->
  path_match r method = true /\ (forall h, In h (r_hdrs r) -> hdr_match h m = true) /\
  match r_frac r with None => True | Some f => t <= f end.
Proof. exact route_match_spec. Qed.
Print Assumptions C46_route_match.

Theorem C46_path_match : forall r method,
  (r_pkind r = 2 -> (path_match r method = true <-> Matchers_proofs.lang (r_re r) method)) /\
  (r_ci r = false -> r_pkind r = 1 -> (path_match r method = true <-> method = r_path r)) /\
  (r_ci r = false -> r_pkind r <> 1 -> r_pkind r <> 2 ->
     (path_match r method = true <-> exists rest, method = r_path r ++ rest)).
Proof. exact path_match_spec. Qed.
Print Assumptions C46_path_match.

(* the header matchers of a route are exactly those of C47 (all kinds: string matchers with
   ignore_case, range, present, regex; theorems C47_header_* of props/C47.v), evaluated on
   the metadata grouped by key: each key maps to its values in order ... *)
Theorem C46_header_matchers_are_C47 : forall h m,
  hdr_match h m =
  (if h_kind h =? 11 then Matchers.hdr_regex_eval (h_inv h) (h_name h) (h_re h) (to_mdt m)
   else Matchers.hdr_eval Matchers.tl true (h_kind h) (h_inv h) (h_a h) (h_b h) (h_name h) (h_arg h) (to_mdt m)) /\
  forall k, Matchers.md_get (to_mdt m) k = match vals m k with [] => None | vs => Some vs end.
Proof. intros h m. split; [reflexivity | exact (to_mdt_get m)]. Qed.
Print Assumptions C46_header_matchers_are_C47.

(* ... e.g. composed with C47_header_exact_prefix_suffix_contains *)
Theorem C46_header_simple : forall h m, 1 <= h_kind h <= 4 ->
  (hdr_match h m = true <->
   vals m (h_name h) <> [] /\
   (Matchers_proofs.cmpP (h_kind h) (h_arg h) (Matchers.join (vals m (h_name h))) <-> h_inv h = false)).
Proof. exact hdr_match_simple. Qed.
Print Assumptions C46_header_simple.

(* "The cluster is chosen among the route's weighted clusters in proportion to their
   weights": for every value w of the random source the pick is the cluster whose
   cumulative-weight interval [sum of earlier weights, + own weight) contains w mod total,
   so cluster x is picked for exactly weight(x) of the total values; if all weights are
   equal each cluster is picked for exactly one of the n values w mod n *)
Theorem C46_cluster : forall ws w, Forall (fun x => 0 <= x) ws -> ws <> [] ->
  exists j, wrr_pick ws w = Some j /\
   ((eqw ws = true /\ j = w mod slen ws /\ forall x y, In x ws -> In y ws -> x = y) \/
    (eqw ws = false /\ 0 < sumw ws /\
     exists pre x post, ws = pre ++ x :: post /\ j = Z.of_nat (length pre) /\
       sumw pre <= w mod sumw ws < sumw pre + x)).
Proof. exact wrr_pick_spec. Qed.
Print Assumptions C46_cluster.

(* "the request hash depends only on the configured hash-policy inputs": it is the
   rotate-left-xor fold of the per-policy hashes up to the first terminal policy that
   produced one (generated = some policy produced one) ... *)
Theorem C46_hash_fold : forall H RW chan m em ps,
  gen_hash H RW chan m em ps =
  (fold_left mix (eff H RW chan m em ps) 0, negb (is_nil (eff H RW chan m em ps))).
Proof. exact gen_hash_fold. Qed.
Print Assumptions C46_hash_fold.

(* ... so two RPCs whose metadata give the same values for every non-"-bin" header named
   by a HEADER policy get the same hash (channel id and policy list, incl. the regex
   rewrites, being the same) *)
Theorem C46_hash_inputs_only : forall H RW ps chan m em m' em',
  (forall p, In p ps -> p_chan p = false -> suffixb dashbin (p_name p) = false ->
     hash_values m em (p_name p) = hash_values m' em' (p_name p)) ->
  gen_hash H RW chan m em ps = gen_hash H RW chan m' em' ps.
Proof. exact gen_hash_inputs_only. Qed.
Print Assumptions C46_hash_inputs_only.

(* the hash of one policy: channel id; or xxhash of the (regex-rewritten) joined values,
   extra metadata taking precedence; None for "-bin" headers and absent headers *)
Theorem C46_policy_hash : forall H RW chan m em p,
  pol_hash H RW chan m em p =
  if p_chan p then Some chan else
  if suffixb dashbin (p_name p) then None else
  match hash_values m em (p_name p) with
  | [] => None
  | vs => Some (H (match p_re p with Some (re, sub) => RW re sub (join vs) | None => join vs end))
  end.
Proof. reflexivity. Qed.
Print Assumptions C46_policy_hash.

Theorem C46_hash_terminal : forall H RW pre p post chan m em,
  p_term p = true -> pol_hash H RW chan m em p <> None ->
  gen_hash H RW chan m em (pre ++ p :: post) = gen_hash H RW chan m em (pre ++ [p]).
Proof. exact gen_hash_terminal. Qed.
Print Assumptions C46_hash_terminal.

(* note, consistent with the statement (the hash still depends only on policy inputs): a
   policy that yields no hash for this RPC is skipped entirely - even a TERMINAL one after a
   hash has been generated does not stop the fold (Envoy would stop there) *)
Theorem C46_hash_noop_policy_note : forall H RW pre p post chan m em,
  pol_hash H RW chan m em p = None ->
  gen_hash H RW chan m em (pre ++ p :: post) = gen_hash H RW chan m em (pre ++ post).
Proof. exact gen_hash_noop_policy. Qed.
Print Assumptions C46_hash_noop_policy_note.

(* "a runtime fraction of f per million matches exactly f of the million possible random
   draws (so 0 never matches)": the code matches the draws t <= f, i.e. min(f+1, 10^6)
   of them ... *)
Theorem C46_fraction : forall f, 0 <= f ->
  (forall t, frac_match f t = true <-> t <= f) /\
  count_upto (Z.to_nat million) (frac_match f) = Z.min (f + 1) million.
Proof. intros f Hf. split; [intro t; exact (frac_match_spec f t) | exact (frac_million f Hf)]. Qed.
Print Assumptions C46_fraction.

(* ... so the sentence is false of the code (KNOWN FINDING, clause 9): some fraction below
   10^6 does not match exactly f draws, and fraction 0 matches a draw *)
Theorem C46_fraction_exactly_f_refuted :
  (exists f, 0 <= f < million /\ count_upto (Z.to_nat million) (frac_match f) <> f) /\
  (exists t, 0 <= t < million /\ frac_match 0 t = true).
Proof. exact frac_exact_refuted. Qed.
Print Assumptions C46_fraction_exactly_f_refuted.

Theorem C46_fraction_clause_refuted :
  run [0] [[2; 0; 0]] = Some [[1]] /\ clauses [0] [[2; 0; 0]] [[1]] = [(9, 0, false)].
Proof. exact clause9_refuted. Qed.
Print Assumptions C46_fraction_clause_refuted.

(* The executable predicate evaluated on implementation traces (every clause except the
   known-finding clause 9) holds on every trace of the model, for every list of decodable
   operations. *)
Theorem C46_holds_on_every_model_trace : forall chan ops, forallb op_wf ops = true ->
  exists obs, run [chan] ops = Some obs /\ holds_b [chan] ops obs = true.
Proof. exact model_trace_holds. Qed.
Print Assumptions C46_holds_on_every_model_trace.

(* non-vacuity: "a.b" beats "*.b" beats "a.*" beats "*"; the longer suffix wins; a route
   with weights 3,2,5 and draw 3 picks cluster 1; the hypotheses are satisfiable *)
Example C46_witness :
  find_best [97;46;98] [[[42]]; [[97;46;42]]; [[42;46;98]]; [[97;46;98]]] = Some 3 /\
  find_best [97;46;98] [[[42]]; [[97;46;42]]; [[42;46;98]; [42;98]]] = Some 2 /\
  find_best [97;46;98] [[[42;98]]; [[42;46;98]]; [[42;46;98]]] = Some 1 /\
  wrr_pick [3; 2; 5] 3 = Some 1 /\
  forallb op_wf [[10;0;0;1;5;1;1;47]; [12;3]; [12;2]; [13;1;0;0]; [3;5;4;2;47;120]; [2;5;6]] = true /\
  run [7] [[10;0;0;1;5;1;1;47]; [12;3]; [12;2]; [13;1;0;0]; [3;5;4;2;47;120]; [2;5;6]]
    = Some [[]; []; []; []; [0;0;1;1;7]; [0]].
Proof. vm_compute. repeat split. Qed.

(* a plugin route with a regex path, a regex header matcher and a rewritten hash input *)
Example C46_witness_plugin :
  run [7] [[9;0;0;1; 3;1;47;5;2]; [19;1;112]; [8;0;1;107; 3;1;97;5;2]; [13;0;0;1;107]; [18;1;97;1;88];
           [20;1;107;2;97;98]; [25;1;97;1;88;2;97;98;2;88;98]; [24;5;2;88;98]; [3;0;0;2;47;120]]
    = Some [[]; []; []; []; []; []; [2;88;98]; [5]; [0;0;-1;1;5;1;112]].
Proof. vm_compute. reflexivity. Qed.
