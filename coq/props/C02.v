(* C02: outbound per-stream byte order, completeness and END_STREAM placement.
   Model: coq/model/Loopy.v.  The audit (Loopy.b_op, b_frame, b_snap) keeps, from the history
   only, for every open stream the queue b_q of messages the application wrote that are not yet
   completely on the wire, as (bytes remaining, endStream) in write order.  Payload bytes are
   positions: the driver fills message k of a stream with a pattern of the byte offset and
   reports for every DATA frame whether its payload is the pattern at the stream's send offset
   (bit `ok` of FData), so "next len bytes of the oldest unfinished message" is "no loss,
   duplication or reordering".
   Theorems only; each is closed by [exact] of a lemma from proof/Loopy_proofs.v. *)
From Coq Require Import List ZArith Bool.
From VLib Require Import Codec Machine.
From VModel Require Import Loopy.
From VProof Require Import Loopy_proofs.
Import ListNotations.
Open Scope Z_scope.

(* On every trace of the model, for every side and every list (any length, any interleaving) of
   well-formed control items in which trailers do not ask for RST_STREAM (op_wf2; see the
   refuted lemma below) and the application writes nothing on a stream after a message with
   endStream (no_data_after_end), the whole audit passes: clauses 6-11 for every frame and
   clause 13 (a stream in state `empty` has everything it was given on the wire: completeness)
   after every item. *)
Theorem C02_audit_passes_on_every_model_trace : forall sd ops,
  forallb op_wf2 ops = true -> no_data_after_end [] ops = true -> all_ok (c02 ops (srun sd ops)) = true.
Proof. exact c02_model. Qed.
Print Assumptions C02_audit_passes_on_every_model_trace.

(* What a passing audit says about a DATA frame: the stream is open (no RST_STREAM/trailers/
   cleanup before it), END_STREAM has not been sent, the frame is the next len bytes
   (0 <= len <= rem, payload matches the position pattern) of the oldest unfinished message,
   END_STREAM is set iff the frame completes a message written with endStream - and then the
   stream is marked ended so that any later DATA frame fails clause 7 (exactly once, on the last frame). *)
Theorem C02_data_frame_is_next_bytes_in_order : forall bl tr id len es ok,
  ok2 (snd (b_frame (bl, tr) (FData id len es ok))) = true ->
  exists b rem mes tl, aget id bl = Some b /\ b_ended b = false /\ b_q b = (rem, mes) :: tl /\
    0 <= len <= rem /\ ok = true /\ (es = true <-> len = rem /\ mes = true) /\
    aget id (fst (fst (b_frame (bl, tr) (FData id len es ok)))) =
      Some (if len =? rem then mkB tl (b_closing b) es else mkB ((rem - len, mes) :: tl) (b_closing b) false).
Proof. exact b_frame_data_meaning. Qed.
Print Assumptions C02_data_frame_is_next_bytes_in_order.

(* Trailers (HEADERS with END_STREAM) pass only when every byte written before them is on the
   wire, and they close the stream. *)
Theorem C02_trailers_after_all_data : forall bl tr id len eh,
  ok2 (snd (b_frame (bl, tr) (FHeaders id len true eh))) = true ->
  exists b, aget id bl = Some b /\ b_q b = [] /\
            fst (b_frame (bl, tr) (FHeaders id len true eh)) = (adel id bl, id :: tr).
Proof. exact b_frame_trailers_meaning. Qed.
Print Assumptions C02_trailers_after_all_data.

(* A DATA or HEADERS frame for a stream that is not open (after its RST_STREAM, trailers or
   cleanup) fails the audit: so on model traces there is none. *)
Theorem C02_silence_after_close : forall bl tr id len es x,
  aget id bl = None ->
  ok2 (snd (b_frame (bl, tr) (FData id len es x))) = false /\
  ok2 (snd (b_frame (bl, tr) (FHeaders id len es x))) = false.
Proof. exact b_frame_closed_stream. Qed.
Print Assumptions C02_silence_after_close.

(* REFUTED as written: "no frame for a stream follows its ... trailers".  When trailers carry
   cleanup.rst (server finishing a stream the client has not half-closed) the same item writes
   RST_STREAM right after the trailers (RFC 7540 8.1 allows it).  Clause 11 is exactly this. *)
Theorem C02_rst_after_trailers_refuted :
  exists ops, forallb op_wf ops = true /\ no_data_after_end [] ops = true /\
    map o_frames (srun 1 ops) = [[]; [FHeaders 1 3 true true; FRst 1]] /\
    first_fail (c02 ops (srun 1 ops)) = Some (11, 1).
Proof. exact c02_rst_after_trailers_refuted. Qed.
Print Assumptions C02_rst_after_trailers_refuted.

(* Above loopy: http2Client.write (modelled by api_writes, compared with a real http2Client on
   every run by op 30) never accepts a Write after an accepted one with Last - this is the
   hypothesis no_data_after_end of the first theorem, established at the transport API. *)
Theorem C02_client_write_rejects_after_last : forall l d, api_ok d (api_writes d l) = true.
Proof. exact api_ok_model. Qed.
Print Assumptions C02_client_write_rejects_after_last.

Theorem C02_holds_on_every_model_trace : forall cfg ops, case_wf2 cfg ops = true ->
  exists obs, run cfg ops = Some obs /\ holds_C02 ops obs = true.
Proof. exact c02_bridge. Qed.
Print Assumptions C02_holds_on_every_model_trace.

(* non-vacuity: two server streams with 20000 byte messages interleave 16384/16384/3621/3621,
   trailers queued behind stream 1's data come out right after its last byte. *)
Example C02_witness :
  let wops := [[3;1]; [3;3]; [6;1;5;20000;0]; [6;3;5;20000;0]; [5;1;1;0;3;0]; [10]; [10]; [10]; [10]] in
  case_wf2 [1] wops = true /\
  match dec_ops wops with
  | Some os => map o_frames (srun 1 os)
  | None => []
  end =
  [[]; []; []; []; []; [FData 1 16384 false true]; [FData 3 16384 false true];
   [FData 1 3621 false true; FHeaders 1 3 true true]; [FData 3 3621 false true]].
Proof. vm_compute. split; reflexivity. Qed.
