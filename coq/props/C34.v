(* C34: pick_first connects in order, picks only READY, keeps sticky TF.
   Theorems only; each is closed by [exact] of a lemma from proof/PickFirst_proofs.v.
   Model: model/PickFirst.v, a function-by-function transcription of pickfirst.go.
   Addresses are codes fam*1000+n.  Operations: resolver update (any list) | resolver error |
   state report s of ANY sub-channel ever created (also shut-down ones), in any order |
   250ms pass (the happy-eyeballs timer fires if scheduled) | ExitIdle.
   [reachable s]: s is the state after any list of such operations, of any length. *)
From Coq Require Import List ZArith Bool Permutation.
From VLib Require Import Codec.
From VModel Require Import PickFirst.
From VProof Require Import PickFirst_proofs.
Import ListNotations.
Open Scope Z_scope.

(* "Address pre-processing is a permutation of the de-duplicated input that preserves the
   relative order within each family": for every address list *)
Theorem C34_preprocess_perm : forall l, Permutation (preprocess l) (dedup l).
Proof. exact preprocess_perm. Qed.
Print Assumptions C34_preprocess_perm.

Theorem C34_preprocess_family_order : forall l f,
  filter (fun a => fam a =? f) (preprocess l) = filter (fun a => fam a =? f) (dedup l).
Proof. exact preprocess_family_order. Qed.
Print Assumptions C34_preprocess_family_order.

(* de-duplication: no duplicates, same set of addresses, first occurrences in input order;
   hence at most one entry (one sub-channel, one attempt per pass) per address *)
Theorem C34_dedup : forall l,
  NoDup (dedup l) /\ (forall x, In x (dedup l) <-> In x l) /\ sublist (dedup l) l.
Proof. intros l. repeat split; [apply dedup_NoDup|apply dedup_In|apply dedup_In|apply dedup_acc_sublist]. Qed.
Print Assumptions C34_dedup.

Theorem C34_preprocess_nodup : forall l,
  NoDup (preprocess l) /\ (forall x, In x (preprocess l) <-> In x l).
Proof. intros l. split; [apply preprocess_NoDup|apply preprocess_In]. Qed.
Print Assumptions C34_preprocess_nodup.

(* the resolver's first address stays first (the families alternate starting with it) *)
Theorem C34_preprocess_head : forall a l, exists r, preprocess (a :: l) = a :: r.
Proof. exact preprocess_head. Qed.
Print Assumptions C34_preprocess_head.

(* "never reports READY or returns a subchannel unless that subchannel's latest state is READY,
   and once one becomes READY all other subchannels are shut down": in every reachable state,
   whatever the next operation, READY is published only while processing the READY report of
   a sub-channel sc that has not been shut down, the picker returns exactly sc, and every
   other sub-channel ever created was shut down before or is shut down in this operation. *)
Theorem C34_ready_sound : forall s op x, reachable s ->
  In (READY, x) (u_events (snd (step_main s op))) ->
  exists sc, op = [2; zn sc; READY] /\ x = zn sc /\ (sc < nsc s)%nat /\ d_shut (sds s sc) = false /\
             forall sc', (sc' < nsc s)%nat -> sc' <> sc ->
               d_shut (sds s sc') = true \/ In (zn sc') (s_scs (snd (step_main s op))).
Proof. exact ready_only_on_ready_report. Qed.
Print Assumptions C34_ready_sound.

(* the sub-channels the policy holds are exactly the ones created and not shut down *)
Theorem C34_active_iff_not_shut : forall s, reachable s ->
  (forall sc, In sc (subs s) -> (sc < nsc s)%nat /\ d_shut (sds s sc) = false) /\
  (forall sc, (sc < nsc s)%nat -> ~ In sc (subs s) -> d_shut (sds s sc) = true).
Proof. exact reachable_alive. Qed.
Print Assumptions C34_active_iff_not_shut.

(* "after every address failed it reports TRANSIENT_FAILURE and keeps reporting it (not
   CONNECTING) until some subchannel becomes READY": from any reachable state in which TF
   published at the end of a pass over a non-empty list stands (nothing else published since,
   no empty address list since) and no active sub-channel's latest state is READY, NO
   operation publishes CONNECTING - resolver updates adding or removing addresses, reports of
   any sub-channel in any order, timer firings, ExitIdle, resolver errors.  The only exception
   is the code's own (A62): an empty address list, after which CONNECTING is forced.  A
   published IDLE (CONNECTING->IDLE of a sub-channel, which the code treats as a connection
   that was READY and got lost) ends stickiness like READY does. *)
Theorem C34_sticky_tf : forall s op u, reachable s -> sticky_eff s = true ->
  (forall r, op = 1 :: r -> filter valid_addr r <> []) ->
  In u (u_events (snd (step_main s op))) -> fst u <> CONNECTING.
Proof. exact sticky_tf. Qed.
Print Assumptions C34_sticky_tf.

Theorem C34_sticky_flag_means_tf : forall s, reachable s -> sticky s = true -> bstate s = TF.
Proof. exact sticky_means_tf. Qed.
Print Assumptions C34_sticky_flag_means_tf.

(* The bridge for clauses 1 (READY soundness) and 4 (sticky TF): they hold on every trace
   of the model, for every op list.
   PARTIAL: clauses 2 (C34_order: at most one in-pass Connect per operation, to the address
   the pass has advanced to, strictly after the previous position) and 3
   (C34_tf_after_all_failed: list exhausted and every active sub-channel in TF while a pass
   runs => TF published in that operation) are evaluated on implementation traces on every
   run but are NOT yet proved of the model; missing: an invariant relating
   connectionFailedInFirstPass to the positions the pass has gone past. *)
Theorem C34_holds_on_every_model_trace_partial : forall ops,
  exists obs, run ops = Some obs /\ holds_1_4 ops obs = true.
Proof. exact model_trace_holds. Qed.
Print Assumptions C34_holds_on_every_model_trace_partial.

(* non-vacuity: interleaving; the former sticky-TF counterexample (only TF is published when
   the added address is tried); a late READY from a shut-down sub-channel is ignored *)
Example C34_witness :
  preprocess [1001; 2001; 1001; 1002; 5; 2002; 2003] = [1001; 2001; 5; 1002; 2002; 2003] /\
  snd (run_from init [[1; 1001]; [2; 0; 1]; [2; 0; 3]; [1; 1002]; [2; 1; 1]; [2; 1; 3]]) =
    [[1; 1; -1]; [2; 0; 1001]; [3; 0]; [12; 0]; [0]; [0]; [1; 3; -1]; [0];
     [14; 0]; [2; 1; 1002]; [3; 1]; [12; 0]; [0]; [0]; [1; 3; -1]; [0]] /\
  sticky_eff (fst (run_from init [[1; 1001]; [2; 0; 1]; [2; 0; 3]])) = true /\
  snd (run_from init [[1; 1001; 1002]; [2; 0; 1]; [1; 1002]; [1; 1001; 1002]; [2; 0; 2]]) =
    [[1; 1; -1]; [2; 0; 1001]; [3; 0]; [12; 0]; [0]; [0]; [14; 0]; [1; 1; -1]; [2; 1; 1002]; [3; 1]; [12; 0]; [0];
     [1; 1; -1]; [2; 2; 1001]; [3; 2]; [12; 0]; [0]; [0]].
Proof. vm_compute. repeat split; reflexivity. Qed.
