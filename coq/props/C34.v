(* C34: pick_first connects in order, picks only READY, keeps sticky TF.
   Theorems only; each is closed by [exact] of a lemma from proof/PickFirst_proofs.v.
   Model: model/PickFirst.v, a function-by-function transcription of pickfirst.go.
   Addresses are codes fam*1000+n.  Operations: resolver update (any list) | resolver error |
   state report s of ANY sub-channel ever created (also shut-down ones), in any order |
   250ms pass (the happy-eyeballs timer fires if scheduled) | ExitIdle.
   [reachable s]: s is the state after any list of such operations, of any length. *)
From Coq Require Import List ZArith Bool Permutation.
From VLib Require Import Codec.
From VModel Require Import PickFirst.
From VProof Require Import PickFirst_proofs.
Import ListNotations.
Open Scope Z_scope.

(* "Address pre-processing is a permutation of the de-duplicated input that preserves the
   relative order within each family": for every address list *)
Theorem C34_preprocess_perm : forall l, Permutation (preprocess l) (dedup l).
Proof. exact preprocess_perm. Qed.
Print Assumptions C34_preprocess_perm.

Theorem C34_preprocess_family_order : forall l f,
  filter (fun a => fam a =? f) (preprocess l) = filter (fun a => fam a =? f) (dedup l).
Proof. exact preprocess_family_order. Qed.
Print Assumptions C34_preprocess_family_order.

(* de-duplication: no duplicates, same set of addresses, first occurrences in input order;
   hence at most one entry (one sub-channel, one attempt per pass) per address *)
Theorem C34_dedup : forall l,
  NoDup (dedup l) /\ (forall x, In x (dedup l) <-> In x l) /\ sublist (dedup l) l.
Proof. intros l. repeat split; [apply dedup_NoDup|apply dedup_In|apply dedup_In|apply dedup_acc_sublist]. Qed.
Print Assumptions C34_dedup.

Theorem C34_preprocess_nodup : forall l,
  NoDup (preprocess l) /\ (forall x, In x (preprocess l) <-> In x l).
Proof. intros l. split; [apply preprocess_NoDup|apply preprocess_In]. Qed.
Print Assumptions C34_preprocess_nodup.

(* the resolver's first address stays first (the families alternate starting with it) *)
Theorem C34_preprocess_head : forall a l, exists r, preprocess (a :: l) = a :: r.
Proof. exact preprocess_head. Qed.
Print Assumptions C34_preprocess_head.

(* "never reports READY or returns a subchannel unless that subchannel's latest state is READY,
   and once one becomes READY all other subchannels are shut down": in every reachable state,
   whatever the next operation, READY is published only while processing the READY report of
   a sub-channel sc that has not been shut down, the picker returns exactly sc, and every
   other sub-channel ever created was shut down before or is shut down in this operation. *)
Theorem C34_ready_sound : forall s op x, reachable s ->
  In (READY, x) (u_events (snd (step_main s op))) ->
  exists sc, op = [2; zn sc; READY] /\ x = zn sc /\ (sc < nsc s)%nat /\ d_shut (sds s sc) = false /\
             forall sc', (sc' < nsc s)%nat -> sc' <> sc ->
               d_shut (sds s sc') = true \/ In (zn sc') (s_scs (snd (step_main s op))).
Proof. exact ready_only_on_ready_report. Qed.
Print Assumptions C34_ready_sound.

(* the sub-channels the policy holds are exactly the ones created and not shut down *)
Theorem C34_active_iff_not_shut : forall s, reachable s ->
  (forall sc, In sc (subs s) -> (sc < nsc s)%nat /\ d_shut (sds s sc) = false) /\
  (forall sc, (sc < nsc s)%nat -> ~ In sc (subs s) -> d_shut (sds s sc) = true).
Proof. exact reachable_alive. Qed.
Print Assumptions C34_active_iff_not_shut.

(* "after every address failed it reports TRANSIENT_FAILURE and keeps reporting it (not
   CONNECTING) until some subchannel becomes READY": from any reachable state in which TF
   published at the end of a pass over a non-empty list stands (nothing else published since,
   no empty address list since) and no active sub-channel's latest state is READY, NO
   operation publishes CONNECTING - resolver updates adding or removing addresses, reports of
   any sub-channel in any order, timer firings, ExitIdle, resolver errors.  The only exception
   is the code's own (A62): an empty address list, after which CONNECTING is forced.  A
   published IDLE (CONNECTING->IDLE of a sub-channel, which the code treats as a connection
   that was READY and got lost) ends stickiness like READY does. *)
Theorem C34_sticky_tf : forall s op u, reachable s -> sticky_eff s = true ->
  (forall r, op = 1 :: r -> filter valid_addr r <> []) ->
  In u (u_events (snd (step_main s op))) -> fst u <> CONNECTING.
Proof. exact sticky_tf. Qed.
Print Assumptions C34_sticky_tf.

Theorem C34_sticky_flag_means_tf : forall s, reachable s -> sticky s = true -> bstate s = TF.
Proof. exact sticky_means_tf. Qed.
Print Assumptions C34_sticky_flag_means_tf.

(* "Within a pass it requests connections in the order of the de-duplicated address list
   interleaved by address family, at most one new attempt per address": in every reachable
   state, whatever the next operation, if a pass is running after it and was running before it
   or the operation is one that (re)starts passes (resolver update, ExitIdle in IDLE), then
   before any TF publication the operation calls Connect at most once, on a sub-channel whose
   address is the one the cursor of b.addressList (the pre-processed list of the theorems
   above, which has no duplicates) points to, and - unless the pass was (re)started - the
   cursor has moved strictly forward, so no address gets a second attempt. *)
Theorem C34_order : forall s op, reachable s ->
  firstPass (fst (step_main s op)) = true -> (firstPass s = true \/ is_start s op = true) ->
  connects_before_tf (snd (step_main s op)) = [] \/
  exists sc, connects_before_tf (snd (step_main s op)) = [zn sc] /\ (sc < nsc (fst (step_main s op)))%nat /\
     d_addr (sds (fst (step_main s op)) sc) = cur_addr (fst (step_main s op)) /\
     (is_start s op = true \/ (idx s < idx (fst (step_main s op)))%nat).
Proof. exact order_readable. Qed.
Print Assumptions C34_order.

(* "at most one new attempt per address": b.addressList always holds a pre-processed list (no
   duplicates), it changes only in resolver updates, and unless the operation (re)starts the
   pass (resolver update, ExitIdle in IDLE: both put the cursor on the first address) the cursor
   never moves back except when a sub-channel becomes READY (seekTo; the policy is then READY)
   or an established connection is lost (reset; the policy is then IDLE).  With C34_order (every in-pass Connect is at the cursor, which has moved
   strictly forward) no address of the list gets two attempts in one pass. *)
Theorem C34_list_nodup : forall s, reachable s -> NoDup (addrs s).
Proof. exact reachable_addrs_nodup. Qed.
Print Assumptions C34_list_nodup.

Theorem C34_cursor_monotone : forall s op, is_start s op = false ->
  addrs (fst (step_main s op)) = addrs s /\
  ((idx s <= idx (fst (step_main s op)))%nat \/
   bstate (fst (step_main s op)) = READY \/ bstate (fst (step_main s op)) = IDLE).
Proof. exact cursor_monotone. Qed.
Print Assumptions C34_cursor_monotone.

(* "after every address failed it reports TRANSIENT_FAILURE": (a) with the list exhausted and
   every active sub-channel marked connectionFailedInFirstPass, endFirstPassIfPossibleLocked
   ends the pass, publishes TF and leaves the policy in TF; (b) in ANY state and for ANY
   operation a first pass ends only by publishing TF in that operation. *)
Theorem C34_tf_after_all_failed : forall s,
  al_valid s = false -> forallb (fun sc => d_failed (sds s sc)) (subs s) = true ->
  firstPass (fst (end_first_pass s)) = false /\ tf_published (snd (end_first_pass s)) = true /\
  bstate (fst (end_first_pass s)) = TF.
Proof. exact efp_spec. Qed.
Print Assumptions C34_tf_after_all_failed.

Theorem C34_pass_ends_only_with_tf : forall s op,
  firstPass s = true -> firstPass (fst (step_main s op)) = false ->
  exists pk, In (TF, pk) (u_events (snd (step_main s op))).
Proof. exact pass_ends_with_tf. Qed.
Print Assumptions C34_pass_ends_only_with_tf.

(* The defect repaired by 5362b94 (ExitIdle restarted the pass without resetting the cursor:
   if the cursor had moved while IDLE was published, the sub-channels before it lost their
   failure mark and were never visited, the pass never ended, no TF, no Connect ever again):
   on the repaired machine the witness history - update [a; b]; sc0 CONNECTING, IDLE; sc0 TF
   (cursor -> 1); ExitIdle; sc1 TF - restarts at the first address (cursor 1 = sc1 after
   skipping sc0, which is in TF and marked again), ends the pass with TF published, and
   re-connects sub-channels that report IDLE afterwards. *)
Theorem C34_exit_idle_restart_witness :
  let s := fst (run_from init midstart_prefix) in
  let s' := fst (step_main s [2; 1; 3]) in
  idx s = 1%nat /\ midstart s = false /\ firstPass s = true /\
  snd (step_main s [2; 1; 3]) = [[1; 3; -1]] /\ firstPass s' = false /\ bstate s' = TF /\ all_failed s' = true /\
  snd (step_main s' [2; 0; 0]) = [[3; 0]] /\ snd (step_main s' [2; 1; 0]) = [[3; 1]].
Proof. exact exit_idle_restart_witness. Qed.
Print Assumptions C34_exit_idle_restart_witness.

(* "after every address failed it reports TRANSIENT_FAILURE", as an invariant over ALL
   histories: in no reachable state with a pass running is the address list exhausted with
   every active sub-channel's latest state TRANSIENT_FAILURE - such a state is left, in the
   operation that would create it, by ending the pass, which publishes TF (theorems above). *)
Theorem C34_no_silent_all_failed : forall s, reachable s -> firstPass s = true -> all_failed s = false.
Proof. exact reachable_not_all_failed. Qed.
Print Assumptions C34_no_silent_all_failed.

(* the joint invariant behind it, in every reachable state: at most one active sub-channel per
   address (Dv); their addresses lie in the list (Sv); an active sub-channel whose latest state is
   READY is the only one, the cursor is on it, no timer runs and READY is published (Rv); a
   running timer means a pass runs and the cursor's sub-channel is not in TF (Cv); a sub-channel
   in TF without connectionFailedInFirstPass has not been passed by the cursor (Fv); with the
   list exhausted during a pass some active sub-channel is not in TF (Ev) *)
Theorem C34_joint_invariant : forall s, reachable s -> Dv s /\ Sv s /\ Rv s /\ Cv s /\ Fv s /\ Ev s.
Proof. exact reachable_joint. Qed.
Print Assumptions C34_joint_invariant.

(* The bridge: every clause (1 READY soundness, 2 order, 3 a pass ends only by publishing TF,
   4 sticky TF, 5 no silent all-failed state) holds on every trace of the model, for every
   op list. *)
Theorem C34_holds_on_every_model_trace : forall ops,
  exists obs, run ops = Some obs /\ holds_b ops obs = true.
Proof. exact model_trace_holds. Qed.
Print Assumptions C34_holds_on_every_model_trace.

(* non-vacuity: interleaving; the former sticky-TF counterexample (only TF is published when
   the added address is tried); a late READY from a shut-down sub-channel is ignored *)
Example C34_witness :
  preprocess [1001; 2001; 1001; 1002; 5; 2002; 2003] = [1001; 2001; 5; 1002; 2002; 2003] /\
  snd (run_from init [[1; 1001]; [2; 0; 1]; [2; 0; 3]; [1; 1002]; [2; 1; 1]; [2; 1; 3]]) =
    [[1; 1; -1]; [2; 0; 1001]; [3; 0]; [12; 0]; [0]; [0]; [1; 3; -1]; [0];
     [14; 0]; [2; 1; 1002]; [3; 1]; [12; 0]; [0]; [0]; [1; 3; -1]; [0]] /\
  sticky_eff (fst (run_from init [[1; 1001]; [2; 0; 1]; [2; 0; 3]])) = true /\
  snd (run_from init [[1; 1001; 1002]; [2; 0; 1]; [1; 1002]; [1; 1001; 1002]; [2; 0; 2]]) =
    [[1; 1; -1]; [2; 0; 1001]; [3; 0]; [12; 0]; [0]; [0]; [14; 0]; [1; 1; -1]; [2; 1; 1002]; [3; 1]; [12; 0]; [0];
     [1; 1; -1]; [2; 2; 1001]; [3; 2]; [12; 0]; [0]; [0]].
Proof. vm_compute. repeat split; reflexivity. Qed.
