(* C34: pick_first connects in order, picks only READY, keeps sticky TF.
   Theorems only; each is closed by [exact] of a lemma from proof/PickFirst_proofs.v.
   Model: model/PickFirst.v.  Addresses are codes fam*1000+n.  The policy is driven in
   rounds: a resolver update with any address list, then every connection request is
   answered CONNECTING,TRANSIENT_FAILURE except the k-th (CONNECTING,READY).
   [reachable s]: s is the state after any number of rounds / resolver errors. *)
From Coq Require Import List ZArith Bool Permutation.
From VLib Require Import Codec.
From VModel Require Import PickFirst.
From VProof Require Import PickFirst_proofs.
Import ListNotations.
Open Scope Z_scope.

(* "Address pre-processing is a permutation of the de-duplicated input that preserves the
   relative order within each family": for every address list *)
Theorem C34_preprocess_perm : forall l, Permutation (preprocess l) (dedup l).
Proof. exact preprocess_perm. Qed.
Print Assumptions C34_preprocess_perm.

Theorem C34_preprocess_family_order : forall l f,
  filter (fun a => fam a =? f) (preprocess l) = filter (fun a => fam a =? f) (dedup l).
Proof. exact preprocess_family_order. Qed.
Print Assumptions C34_preprocess_family_order.

(* de-duplication: no duplicates, same set of addresses, first occurrences in input order;
   hence at most one entry (one sub-channel, one attempt per pass) per address *)
Theorem C34_dedup : forall l,
  NoDup (dedup l) /\ (forall x, In x (dedup l) <-> In x l) /\ sublist (dedup l) l.
Proof. intros l. repeat split; [apply dedup_NoDup|apply dedup_In|apply dedup_In|apply dedup_acc_sublist]. Qed.
Print Assumptions C34_dedup.

Theorem C34_preprocess_nodup : forall l,
  NoDup (preprocess l) /\ (forall x, In x (preprocess l) <-> In x l).
Proof. intros l. split; [apply preprocess_NoDup|apply preprocess_In]. Qed.
Print Assumptions C34_preprocess_nodup.

(* the resolver's first address stays first (the families alternate starting with it) *)
Theorem C34_preprocess_head : forall a l, exists r, preprocess (a :: l) = a :: r.
Proof. exact preprocess_head. Qed.
Print Assumptions C34_preprocess_head.

(* In every reachable state, for every resolver update l0 and every choice k of the
   attempt that succeeds (none if k is out of range), the events ch of the round satisfy:
   ready_ok: READY is published only with a picker returning the sub-channel that was just
     answered READY, after every other sub-channel (old and new) received Shutdown;
   order_ok: NewSubConn/Connect are issued once per fresh sub-channel, for addresses forming
     a subsequence (in order) of preprocess l0 - which has no duplicates (C34_preprocess_nodup);
   tf_ok: if no attempt succeeded the pass ends with TRANSIENT_FAILURE;
   and while sticky no CONNECTING is published before READY. *)
Theorem C34_round_properties : forall s k l0, reachable s ->
  let ch := snd (round s k l0) in
  let l' := preprocess (filter valid_addr l0) in
  ready_ok s ch = true /\ order_ok l' ch = true /\
  (filter valid_addr l0 <> [] ->
   match rdy s with Some p => memz (fst p) l' | None => false end = false -> tf_ok k ch = true) /\
  (sticky s = true -> connecting_before_ready ch false = None).
Proof. exact round_properties. Qed.
Print Assumptions C34_round_properties.

(* "after every address failed it reports TRANSIENT_FAILURE and keeps reporting it (not
   CONNECTING) until some subchannel becomes READY": from any reachable sticky state (TF
   reported after a pass over a non-empty list) EVERY resolver update - adding, removing or
   keeping addresses, any successful attempt k or none - publishes only TRANSIENT_FAILURE or
   READY, never CONNECTING, and leaves the policy sticky again or READY.  The only way out
   without READY is the code's A62 exception: an empty address list (resolver-error TF,
   naddrs = 0), after which the next non-empty update forces CONNECTING.
   (Code as repaired by commit 4e698e5; before it the new sub-channel of an added address
   published CONNECTING - that witness is replayed as case 0 of every run.) *)
Theorem C34_sticky_tf : forall s k l0, reachable s -> sticky s = true ->
  let r := round s k l0 in
  (forall u, In u (u_events (snd r)) -> fst u = TF \/ fst u = READY) /\
  connecting_before_ready (snd r) false = None /\
  (sticky (fst r) = true \/ bstate (fst r) = READY \/ filter valid_addr l0 = []).
Proof. exact sticky_tf. Qed.
Print Assumptions C34_sticky_tf.

Theorem C34_sticky_tf_resolver_error : forall s, sticky s = true ->
  snd (resolver_error s) = [evU TF (-1)] /\ sticky (fst (resolver_error s)) = true.
Proof. exact sticky_tf_resolver_error. Qed.
Print Assumptions C34_sticky_tf_resolver_error.

(* All clauses (1-5) evaluated on implementation traces hold on every trace of the model,
   for every op list. *)
Theorem C34_holds_on_every_model_trace : forall ops,
  exists obs, run ops = Some obs /\ holds_b ops obs = true.
Proof. exact model_trace_holds. Qed.
Print Assumptions C34_holds_on_every_model_trace.

(* non-vacuity; the third line is the former sticky-TF counterexample: [a1] fails -> TF,
   update [a2] -> the new sub-channel is tried, nothing but TF is published *)
Example C34_witness :
  preprocess [1001; 2001; 1001; 1002; 5; 2002; 2003] = [1001; 2001; 5; 1002; 2002; 2003] /\
  snd (run_from (fst (run_from init [[1; -1; 1001]])) [[1; -1; 1002]]) =
    [[12; 0]; [14; 0]; [2; 1; 1002]; [3; 1]; [1; 3; -1]; [0]] /\
  sticky (fst (run_from init [[1; -1; 1001]])) = true /\
  snd (run_from init [[1; 1; 1000; 2; 0]]) =
    [[12; 0]; [1; 1; -1]; [2; 0; 1000]; [3; 0]; [2; 1; 2]; [3; 1]; [14; 0]; [1; 2; 1]; [0]].
Proof. vm_compute. repeat split; reflexivity. Qed.
