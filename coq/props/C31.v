(* C31: serialized callbacks run in FIFO order exactly once.
   Theorems only; each is closed by [exact] of a lemma from proof/Serializer_proofs.v.
   "All interleavings" = all lists of atomic steps: a mutex-protected method body, a channel
   receive, one instruction of the serializer's run goroutine (FRun / GRun), the context
   cancellation and the AfterFunc goroutine are each one op of the list. *)
From Coq Require Import List ZArith Bool.
From VLib Require Import Codec.
From VModel Require Import Serializer.
From VProof Require Import Serializer_proofs.
Import ListNotations.
Open Scope Z_scope.

(* ---- the unbounded queue ---- *)
(* every value accepted by Put is delivered exactly once and in order: at any point the
   accepted values are the delivered values followed by what is still buffered *)
Theorem C31_unbounded_fifo : forall ops obs bf, exec1 ub0 ops = Some (obs, bf) ->
  accepted ops obs = delivered ops obs ++ pending bf.
Proof. exact ub_fifo. Qed.
Print Assumptions C31_unbounded_fifo.

(* end-of-stream is signalled only after all values were consumed, and is final *)
Theorem C31_eos_after_all : forall ops1 obs1 b1 b',
  exec1 ub0 ops1 = Some (obs1, b1) -> ub_recv b1 = (b', REos) ->
  accepted ops1 obs1 = delivered ops1 obs1 /\
  forall ops2 obs2 b2, exec1 b1 ops2 = Some (obs2, b2) ->
    accepted ops2 obs2 = [] /\ delivered ops2 obs2 = [].
Proof. exact ub_eos_after_all. Qed.
Print Assumptions C31_eos_after_all.

Theorem C31_put_after_close_fails : forall ops obs b v b' ok,
  exec1 ub0 ops = Some (obs, b) -> ub_put v b = (b', ok) -> ok = negb (existsb is_close ops).
Proof. exact ub_put_after_close_fails. Qed.
Print Assumptions C31_put_after_close_fails.

(* close(b.c) is never followed by a send on b.c (no panic) *)
Theorem C31_no_send_on_closed : forall ops obs b,
  exec1 ub0 ops = Some (obs, b) -> closed b = true -> closing b = true /\ backlog b = [].
Proof. exact ub_no_send_on_closed. Qed.
Print Assumptions C31_no_send_on_closed.

(* ---- the serializing executor ---- *)
(* submission order, each exactly once: the started callbacks are a prefix of the accepted ones,
   the rest is received-not-yet-started or still queued *)
Theorem C31_serializer_fifo : forall l sf e, steps2 sz0 l = (sf, e) ->
  accs2 sz0 l = started e ++ inflight (spc sf) ++ pending (sq sf).
Proof. exact ser_fifo. Qed.
Print Assumptions C31_serializer_fifo.

(* one item at a time: start/finish events alternate and match *)
Theorem C31_serializer_one_at_a_time : forall l sf e, steps2 sz0 l = (sf, e) ->
  seq_run None e = Some (cur (spc sf)).
Proof. exact ser_one_at_a_time. Qed.
Print Assumptions C31_serializer_one_at_a_time.

(* everything submitted before shutdown runs before shutdown is reported complete (Done);
   after Done nothing is accepted, started or finished *)
Theorem C31_serializer_done : forall l1 s1 e1,
  steps2 sz0 l1 = (s1, e1) -> existsb is_edone e1 = true ->
  sfired s1 = true /\ scan s1 = true /\ accs2 sz0 l1 = started e1 /\ seq_run None e1 = Some None /\
  forall l2 s2 e2, steps2 s1 l2 = (s2, e2) -> forallb is_efail e2 = true /\ accs2 s1 l2 = [].
Proof. exact ser_done. Qed.
Print Assumptions C31_serializer_done.

(* work submitted after shutdown (= the buffer was closed) never runs and its submitter is told *)
Theorem C31_serializer_rejected_after_shutdown : forall l s e x,
  steps2 sz0 l = (s, e) -> sfired s = true ->
  step2 s (FSched x) = (s, [EFail x]) /\ acc_f2 s (FSched x) = [].
Proof. exact ser_rejected_after_close. Qed.
Print Assumptions C31_serializer_rejected_after_shutdown.

Theorem C31_serializer_accepted_before_shutdown : forall l s e x,
  steps2 sz0 l = (s, e) -> sfired s = false ->
  snd (step2 s (FSched x)) = [] /\ acc_f2 s (FSched x) = [x].
Proof. exact ser_accepted_before_close. Qed.
Print Assumptions C31_serializer_accepted_before_shutdown.

Theorem C31_serializer_only_accepted_run : forall l sf e x,
  steps2 sz0 l = (sf, e) -> In (EStart x) e -> In x (accs2 sz0 l).
Proof. exact ser_only_accepted_run. Qed.
Print Assumptions C31_serializer_only_accepted_run.

(* FINDING (clause 10): with "shutdown" read as "the context was cancelled" the sentence is
   false: between cancel() and the AfterFunc goroutine's Close a submission is accepted and run *)
Theorem C31_cancel_window_refuted :
  exists l1 l2 sf e, steps2 sz0 (l1 ++ FCancel :: FSched 2 :: l2) = (sf, e) /\
                     In (EStart 2) e /\ ~ In (EFail 2) e.
Proof. exact ser_cancel_window_refuted. Qed.
Print Assumptions C31_cancel_window_refuted.

Theorem C31_cancel_window_clause10 :
  exists obs, run [2] [[1; 1]; [3]; [1; 2]; [4]; [1; 3]; [2]; [2]] = Some obs /\
              first_fail (clauses [2] [[1; 1]; [3]; [1; 2]; [4]; [1; 3]; [2]; [2]] obs) = Some (10, 2).
Proof. exact cancel_window_clause10. Qed.
Print Assumptions C31_cancel_window_clause10.

(* ---- publish/subscribe ---- *)
(* a subscriber receives a prefix of: the latest value at subscription, then every value
   published while it is subscribed (before shutdown), in publish order -- for every order in
   which Publish ranges over the subscriber map (the ord argument of GPub) and with test
   blockers (GBlock/GRelease) making the queue lag arbitrarily.  Hypotheses: s is not the id
   reserved for the test blocker; Subscriber objects are not re-subscribed (FINDING clause 11,
   see C31_pubsub_resubscribe_stale) *)
Theorem C31_pubsub_order : forall s l pf e, s <> blocker -> steps3 ps0 l = (pf, e) -> NoDup (sub_ids l) ->
  exists rest, owed_spec s sp0 l = del_to s e ++ rest.
Proof. exact pubsub_order. Qed.
Print Assumptions C31_pubsub_order.

(* nothing after unsubscription (this half needs no hypothesis) *)
Theorem C31_pubsub_nothing_after_unsubscribe : forall s l1 p1 e1 l2 p2 e2, s <> blocker ->
  steps3 ps0 l1 = (p1, e1) -> memz s (psubs p1) = false ->
  steps3 p1 l2 = (p2, e2) -> ~ In s (sub_ids l2) -> del_to s e2 = [].
Proof. exact pubsub_nothing_when_unsubscribed. Qed.
Print Assumptions C31_pubsub_nothing_after_unsubscribe.

(* FINDING (clause 11, reproduced on the real code by the driver): a Subscriber that unsubscribes
   and subscribes again while the run goroutine lags receives callbacks queued during its first
   subscription, so it does not start with the latest value at subscription *)
Theorem C31_pubsub_resubscribe_stale :
  del_to 1 (snd (steps3 ps0 stale_ops)) = [2; 2] /\ owed_spec 1 sp0 stale_ops = [1; 2; 2].
Proof. exact pubsub_resubscribe_stale. Qed.
Print Assumptions C31_pubsub_resubscribe_stale.

(* ---- bridge: the predicate evaluated on implementation traces holds on every model trace ---- *)
Theorem C31_holds_on_every_model_trace : forall cfg ops, wf cfg ops = true ->
  exists obs, run cfg ops = Some obs /\ holds_b cfg ops obs = true.
Proof. exact model_trace_holds. Qed.
Print Assumptions C31_holds_on_every_model_trace.

Theorem C31_resubscribe_clause11 :
  exists obs, run [3] [[1; 1]; [7]; [2; 1]; [2; 2]; [6; 1]; [1; 1]; [8]] = Some obs /\
              existsb (fun c => (fst (fst c) =? 11) && negb (snd c))
                      (clauses [3] [[1; 1]; [7]; [2; 1]; [2; 2]; [6; 1]; [1; 1]; [8]] obs) = true.
Proof. exact resubscribe_clause11. Qed.
Print Assumptions C31_resubscribe_clause11.

Example C31_witness :
  wf [1] [[1; 5]; [1; 6]; [3]; [4]; [2]; [4]; [2]; [4]] = true /\
  run [1] [[1; 5]; [1; 6]; [3]; [4]; [2]; [4]; [2]; [4]] =
    Some [[1]; [1]; []; [1; 5]; []; [1; 6]; []; [2; 0]] /\
  wf [2] [[1; 1]; [1; 2]; [5]; [1; 3]; [2]; [2]] = true /\
  run [2] [[1; 1]; [1; 2]; [5]; [1; 3]; [2]; [2]] =
    Some [[1; 1; 0]; []; []; [3; 3; 0]; [2; 1; 0; 1; 2; 0]; [2; 2; 0; 4; 0; 0]] /\
  wf [3] [[2; 7]; [1; 1]; [2; 8]; [6; 1]; [2; 9]] = true /\
  run [3] [[2; 7]; [1; 1]; [2; 8]; [6; 1]; [2; 9]] = Some [[]; [5; 1; 7]; [5; 1; 8]; []; []].
Proof. vm_compute. repeat split. Qed.
