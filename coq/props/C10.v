(* C10: a handler's status reaches the client unchanged.
   Theorems only; each is closed by [exact] of a lemma from proof/StatusWire_proofs.v.
   [wire s] is what the client observes (nil error?, code, message, details) when the
   handler returns the status s (code 0 = the handler returns nil); [sanitize] is C08's
   "invalid UTF-8 replaced by U+FFFD". *)
From Coq Require Import List ZArith Bool.
From VLib Require Import Codec Machine.
From VModel Require PctEnc.
From VModel Require Import StatusWire.
From VProof Require Import StatusWire_proofs.
Import ListNotations.
Open Scope Z_scope.

(* "observed by the client with the same code": every code 0 .. 2^31-1, in range or not *)
Theorem C10_code : forall s, 0 <= h_code s <= max_i32 -> r_code (wire s) = h_code s.
Proof. exact wire_code. Qed.
Print Assumptions C10_code.

(* "the same message (with invalid UTF-8 replaced by U+FFFD)": any byte string *)
Theorem C10_message : forall s, 0 <= h_code s <= max_i32 ->
  forallb PctEnc.is_byte (h_msg s) = true -> h_code s <> 0 ->
  r_msg (wire s) = PctEnc.sanitize (h_msg s).
Proof. exact wire_msg. Qed.
Print Assumptions C10_message.

(* "and the same details": any detail list, when the status can be marshalled (its message
   and type_urls are valid UTF-8) *)
Theorem C10_details : forall s, 0 <= h_code s <= max_i32 -> h_code s <> 0 ->
  (h_details s = [] \/ marshalable s = true) -> r_details (wire s) = h_details s.
Proof. exact wire_details. Qed.
Print Assumptions C10_details.

(* "A handler returning nil yields a nil client error, and a non-OK status never becomes a
   nil error": for every uint32 code, including those the client cannot parse *)
Theorem C10_nil_iff_ok : forall s, 0 <= h_code s < 2 ^ 32 -> r_nil (wire s) = (h_code s =? 0).
Proof. exact wire_nil. Qed.
Print Assumptions C10_nil_iff_ok.

(* all of it at once: the observation is exactly the reference *)
Theorem C10_status_unchanged : forall s, 0 <= h_code s <= max_i32 ->
  forallb PctEnc.is_byte (h_msg s) = true ->
  (h_code s = 0 \/ h_details s = [] \/ marshalable s = true) -> wire s = expected s.
Proof. exact wire_expected. Qed.
Print Assumptions C10_status_unchanged.

(* The bound on the code is needed: code 2^31 arrives as UNKNOWN "malformed grpc-status" *)
Theorem C10_code_above_int32_refuted :
  wire (mkst (2 ^ 31) [98] []) =
    mkres false 2 (msg_malformed_pre ++ [50;49;52;55;52;56;51;54;52;56] ++ msg_malformed_post) [] /\
  expected (mkst (2 ^ 31) [98] []) = mkres false (2 ^ 31) [98] [].
Proof. exact code_above_int32_refuted. Qed.
Print Assumptions C10_code_above_int32_refuted.

(* So is marshalability: code 5, message "\xff", one detail: the detail is dropped *)
Theorem C10_details_dropped_refuted :
  wire (mkst 5 [255] [([116], [118])]) = mkres false 5 [239; 191; 189] [] /\
  expected (mkst 5 [255] [([116], [118])]) = mkres false 5 [239; 191; 189] [([116], [118])].
Proof. exact details_dropped_refuted. Qed.
Print Assumptions C10_details_dropped_refuted.

Theorem C10_holds_on_every_model_trace : forall ops, forallb op_wf ops = true ->
  exists obs, run ops = Some obs /\ holds_b ops obs = true.
Proof. exact model_trace_holds. Qed.
Print Assumptions C10_holds_on_every_model_trace.

(* non-vacuity: streaming, code 99, message "a%\xffb", one detail ("t", "\x00") has an
   invalid message so it is not well-formed; the same with message "a%b" is *)
Example C10_witness :
  op_wf [1; 1; 99; 3;97;37;98; 1; 1;116; 1;0] = true /\
  run [[1; 1; 99; 3;97;37;98; 1; 1;116; 1;0]; [1; 0; 0; 1;120; 0]] =
    Some [[0; 99; 3;97;37;98; 1; 1;116; 1;0]; [1; 0; 0; 0]] /\
  op_wf [1; 1; 99; 4;97;37;255;98; 1; 1;116; 1;0] = false.
Proof. vm_compute. repeat split. Qed.
