(* C41: RLS keys are faithful and the RLS cache is consistent.
   Theorems only; each is closed by [exact] of a lemma from proof/RLS_proofs.v. *)
From Coq Require Import List ZArith Bool.
From VLib Require Import Codec Machine.
From VModel Require Import RLS.
From VProof Require Import RLS_proofs.
Import ListNotations.
Open Scope Z_scope.

(* ---- "The RLS key for a request contains, for each header key builder, the comma-joined
        values of the first configured header present, plus the configured
        host/service/method and constant keys" ----
   For every well-formed builder (keys of headers/constants distinct, extra keys fresh and
   pairwise distinct), every metadata, host, service and method: *)
Theorem C41_key_map_header : forall b md host service method, wf_builder b = true ->
  forall key names, In (key, names) (b_hdrs b) ->
  kv_get key (builder_map b md host service method) = option_map join_comma (first_present names md).
Proof. exact key_map_header. Qed.
Print Assumptions C41_key_map_header.

Theorem C41_key_map_host : forall b md host service method, wf_builder b = true ->
  is_empty (b_host b) = false -> kv_get (b_host b) (builder_map b md host service method) = Some host.
Proof. exact key_map_host. Qed.
Print Assumptions C41_key_map_host.

Theorem C41_key_map_service : forall b md host service method, wf_builder b = true ->
  is_empty (b_svc b) = false ->
  kv_get (b_svc b) (builder_map b md host service method) = Some (trim_slash service).
Proof. exact key_map_service. Qed.
Print Assumptions C41_key_map_service.

Theorem C41_key_map_method : forall b md host service method, wf_builder b = true ->
  is_empty (b_meth b) = false -> kv_get (b_meth b) (builder_map b md host service method) = Some method.
Proof. exact key_map_method. Qed.
Print Assumptions C41_key_map_method.

Theorem C41_key_map_constant : forall b md host service method, wf_builder b = true ->
  forall k v, In (k, v) (b_consts b) -> kv_get k (builder_map b md host service method) = Some v.
Proof. exact key_map_const. Qed.
Print Assumptions C41_key_map_constant.

(* ... and nothing else (for every builder, well-formed or not). *)
Theorem C41_key_map_only : forall b md host service method k v,
  kv_get k (builder_map b md host service method) = Some v -> key_allowed b k = true.
Proof. exact key_map_only. Qed.
Print Assumptions C41_key_map_only.

(* Exact content of the map for every builder (later writes win: constants, method, service,
   host, headers). *)
Theorem C41_key_map_exact : forall b md host service method k,
  kv_get k (builder_map b md host service method) = expected b md host service method k.
Proof. exact builder_map_get. Qed.
Print Assumptions C41_key_map_exact.

(* Without pairwise distinct extra keys the sentence is false: extra_keys {host:"k",
   service:"k"} passes MakeBuilderMap and the key map carries the service under "k". *)
Theorem C41_extra_keys_overlap_refuted :
  kv_get [107] (builder_map cex_overlap [] [104] [47;115;47] [109]) = Some [115] /\
  shadow_ok cex_overlap [104] [47;115;47] (builder_map cex_overlap [] [104] [47;115;47] [109]) = false.
Proof. exact extra_keys_overlap_refuted. Qed.
Print Assumptions C41_extra_keys_overlap_refuted.

(* ---- "two requests with different key maps never share a cache entry" ----
   cache key = (path, mapToString(key map)).  True when keys contain neither ',' nor '=' and
   values contain no ',': *)
Theorem C41_key_string_injective_guarded : forall m1 m2,
  guard_map m1 = true -> guard_map m2 = true -> kv_str m1 = kv_str m2 -> m1 = m2.
Proof. exact kv_str_inj. Qed.
Print Assumptions C41_key_string_injective_guarded.

Theorem C41_no_shared_entry_guarded : forall bm md1 host1 md2 host2 path m1 m2,
  rls_key bm md1 host1 path = Some m1 -> rls_key bm md2 host2 path = Some m2 ->
  guard_map m1 = true -> guard_map m2 = true -> m1 <> m2 -> kv_str m1 <> kv_str m2.
Proof. exact no_shared_entry_guarded. Qed.
Print Assumptions C41_no_shared_entry_guarded.

(* False in general: headers x:["1","b=2"] and x:["1"], y:["2"] give the key maps
   {a:"1,b=2"} and {a:"1", b:"2"} with the same string "a=1,b=2" (finding). *)
Theorem C41_no_shared_entry_refuted :
  exists m1 m2, rls_key cex_bm cex_md1 [104] [47;115;47;109] = Some m1 /\
                rls_key cex_bm cex_md2 [104] [47;115;47;109] = Some m2 /\
                m1 <> m2 /\ kv_str m1 = kv_str m2.
Proof. exact shared_entry_refuted. Qed.
Print Assumptions C41_no_shared_entry_refuted.

(* ---- "The data cache's accounted size always equals the sum of its entries' sizes" ----
   after every sequence of add (absent key) / get / resize / evictExpired / updateEntrySize /
   remove / sleep / stop operations *)
Theorem C41_cache_size : forall maxsize ops,
  c_cur (cache_exec (cache_init maxsize) ops) = sum_sizes (c_ents (cache_exec (cache_init maxsize) ops)).
Proof. exact cache_size_invariant. Qed.
Print Assumptions C41_cache_size.

(* ---- "eviction removes least-recently-used entries first (stopping at entries not yet
        evictable)" ----  l is in LRU order (least recently used first): the pass removes a
   prefix ev, every removed entry is evictable, the size decreases by the removed sizes, and it
   stops because the target is reached, the cache is empty, or the next entry is not evictable *)
Theorem C41_lru_eviction : forall now size l cur l' cur' ev,
  evict now size l cur = (l', cur', ev) ->
  l = ev ++ l' /\ cur' = cur - sum_sizes ev /\ Forall (fun e => e_evict e <= now) ev /\
  (cur' <= size \/ l' = [] \/ exists e r, l' = e :: r /\ e_evict e > now).
Proof. exact evict_spec. Qed.
Print Assumptions C41_lru_eviction.

(* ---- "the adaptive throttler's probability is computed from the accept/throttle counts of
        exactly the last 30 seconds" ----
   lookback: after any sequence of add/sum calls at non-negative times (in any order, the
   clock may go backwards) the moving sum is the sum of the values added at bin indices in
   (head - bins, head], and it equals the sum of the ring buffer *)
Theorem C41_lookback_window : forall bins dur ops,
  0 < bins -> 0 < Z.quot dur bins -> forallb lop_wf ops = true ->
  let l := fold_left lb_step ops (lb_new bins dur) in
  l_total l = wsum (Z.quot dur bins) bins (l_head l) (fold_left lop_hist ops []) /\
  sum_list (l_buf l) = l_total l.
Proof. exact lookback_window. Qed.
Print Assumptions C41_lookback_window.

(* head is the bin of the latest time seen *)
Theorem C41_lookback_head : forall l t v,
  l_head (lb_add l t v) = Z.max (l_head l) (Z.quot t (l_width l)) /\
  l_head (fst (lb_sum l t)) = Z.max (l_head l) (Z.quot t (l_width l)).
Proof. intros l t v. split; [apply add_head | apply sum_head]. Qed.
Print Assumptions C41_lookback_head.

(* in time units: an event at least bins*width (30 s) older than now is outside the window,
   an event less than (bins-1)*width (29.7 s) older is inside *)
Theorem C41_window_in_time : forall bins width now t, 0 < bins -> 0 < width -> 0 <= t -> 0 <= now ->
  (t <= now - bins * width -> (Z.quot now width - bins <? Z.quot t width) = false) /\
  (now - (bins - 1) * width < t -> t <= now -> (Z.quot now width - bins <? Z.quot t width) = true).
Proof. exact window_in_time. Qed.
Print Assumptions C41_window_in_time.

(* ShouldThrottle decides (throttles - accepts) / (accepts + throttles + 8) > rnd on exactly
   these window sums, and records a throttled call as a throttle *)
Theorem C41_throttle_decision : forall bins width, 0 < bins -> 0 < width ->
  forall la lt ha ht now rnd, winv bins width la ha -> winv bins width lt ht -> 0 <= now ->
  let s' := fst (should_throttle (mkT la lt) now rnd) in
  let r := snd (should_throttle (mkT la lt) now rnd) in
  r = prob_gt (wsum width bins (l_head (t_acc s')) ha) (wsum width bins (l_head (t_thr s')) ht) rnd /\
  winv bins width (t_acc s') ha /\ winv bins width (t_thr s') (if r then (now, 1) :: ht else ht) /\
  Z.quot now width <= l_head (t_acc s') /\ Z.quot now width <= l_head (t_thr s').
Proof. exact should_throttle_spec. Qed.
Print Assumptions C41_throttle_decision.

(* The executable predicate that is evaluated on implementation traces holds on every trace
   of the model, for every well-formed configuration and operation list. *)
Theorem C41_holds_on_every_model_trace : forall cfg ops, wf cfg ops = true ->
  exists obs, run cfg ops = Some obs /\ holds_b cfg ops obs = true.
Proof. exact model_trace_holds. Qed.
Print Assumptions C41_holds_on_every_model_trace.

(* non-vacuity *)
Example C41_witness :
  wf_builder (mkB [([97], [[120]; [121]])] [([99], [49])] [104] [115] [109]) = true /\
  rls_key [([47;115;47;109], mkB [([97], [[120]; [121]])] [([99], [49])] [104] [115] [109])]
          [([121], [[49]; [50]])] [72] [47;115;47;109]
  = Some [([97], [49;44;50]); ([99], [49]); ([104], [72]); ([109], [109]); ([115], [115])] /\
  wf [2; 10] [[1;1;6;0;0;0]; [1;2;6;5;0;0]; [3;0]; [7;6]; [3;0]] = true /\
  run [2; 10] [[1;1;6;0;0;0]; [1;2;6;5;0;0]; [3;0]]
  = Some [[1;0;0;6;6;10;1;1;0]; [1;0;0;6;6;10;1;2;5]; [0;0;0;6;6;0;1;2;5]] /\
  wf [3; 4; 4000] [[1;0;2]; [1;1500;3]; [2;4100]; [3;4100;0]; [1;100;7]] = true /\
  run [3; 4; 4000] [[1;0;2]; [1;1500;3]; [2;4100]] = Some [[0;2;2]; [1;5;5]; [4;3;3]].
Proof. vm_compute. repeat split. Qed.
