(* C01: outbound DATA never exceeds the peer's flow-control windows; frame sizes.
   Model: coq/model/Loopy.v (loopyWriter as a sequential machine).  The window ledger
   (Loopy.ledger, l_op, l_frame) is computed from the history only - the ops handed to loopy
   and the frames it wrote - never from the writer's own counters:
     g_conn = 65535 + all connection-level WINDOW_UPDATE increments, s_conn = DATA bytes written,
     g_oiws = the peer's current SETTINGS_INITIAL_WINDOW_SIZE,
     g_open id = (increments received on the stream since it was opened, DATA bytes written on it).
   Theorems only; each is closed by [exact] of a lemma from proof/Loopy_proofs.v. *)
From Coq Require Import List ZArith Bool.
From VLib Require Import Codec Machine.
From VModel Require Import Loopy.
From VProof Require Import Loopy_proofs.
Import ListNotations.
Open Scope Z_scope.

(* For every side, every list of well-formed control items of any length (any interleaving of
   writes, window updates, settings changes, resets, trailers, processData calls), every frame
   f the writer emits satisfies frame_ok w.r.t. the ledger g of the history up to that frame:
     DATA(id,len):  0 <= len <= 16384, and if len > 0 then
                    s_conn g + len <= g_conn g                     (connection window)
                    and the stream is open with sent + len <= g_oiws g + incs   (stream window:
                    current initial window + WINDOW_UPDATE increments, also after SETTINGS lowered it)
     HEADERS/CONTINUATION fragment: 0 <= len <= 16384. *)
Theorem C01_every_frame_within_windows_and_frame_size : forall sd ops, forallb op_wf ops = true ->
  forall pre o post obpre ob obpost fa f fb,
    ops = pre ++ o :: post -> srun sd ops = obpre ++ ob :: obpost -> length obpre = length pre ->
    o_frames ob = fa ++ f :: fb ->
    frame_ok (fst (l_frames (l_op (ledger_after l_init pre obpre) o (o_code ob) (o_frames ob)) fa)) f.
Proof. exact c01_every_frame. Qed.
Print Assumptions C01_every_frame_within_windows_and_frame_size.

(* A stream whose window is exhausted or negative (SETTINGS_INITIAL_WINDOW_SIZE lowered below
   what was already sent) gets no DATA bytes until credit is positive again. *)
Theorem C01_no_send_when_negative : forall g id len es ok incs sent,
  frame_ok g (FData id len es ok) -> aget id (g_open g) = Some (incs, sent) ->
  g_oiws g + incs - sent <= 0 -> len = 0.
Proof. exact c01_no_send_when_negative. Qed.
Print Assumptions C01_no_send_when_negative.

(* The uint32 wrap of `sendQuota += increment` can only make the writer's quota smaller than
   the true remaining window (this is what keeps the connection bound under peer increments
   that overflow 2^32). *)
Theorem C01_sendquota_wrap_is_conservative : forall sq inc, 0 <= sq + inc -> 0 <= u32 (sq + inc) <= sq + inc.
Proof. exact u32_add_le. Qed.
Print Assumptions C01_sendquota_wrap_is_conservative.

(* writeHeader splits a header block of any length L into fragments that carry exactly L bytes
   (each fragment is <= 16384 by the first theorem). *)
Theorem C01_header_fragments_carry_block : forall id es L, 0 <= L -> frag_lens (writeHeader id es L) = L.
Proof. exact writeHeader_carries_block. Qed.
Print Assumptions C01_header_fragments_carry_block.

(* The executable audit that is evaluated on implementation traces holds on every trace of the
   model, for every well-formed case. *)
Theorem C01_holds_on_every_model_trace : forall cfg ops, case_wf cfg ops = true ->
  exists obs, run cfg ops = Some obs /\ holds_C01 ops obs = true.
Proof. exact c01_bridge. Qed.
Print Assumptions C01_holds_on_every_model_trace.

(* non-vacuity: a server stream with a 70000 byte message, initial window lowered to 20000:
   16384 + 3616 bytes go out, the stream waits, a 100 byte WINDOW_UPDATE releases exactly 100
   bytes, and a connection increment of 2^32-1 wraps sendQuota from 45435 down to 45434. *)
Example C01_witness :
  let wops := [[3;1]; [2;20000]; [6;1;5;70000;0]; [10]; [10]; [10]; [1;1;100]; [10]; [1;0;4294967295]; [10]] in
  case_wf [1] wops = true /\
  match dec_ops wops with
  | Some os => map (fun o => (o_frames o, o_sq o)) (srun 1 os)
  | None => []
  end =
  [([], 65535); ([FAck], 65535); ([], 65535); ([FData 1 16384 false true], 49151);
   ([FData 1 3616 false true], 45535); ([], 45535); ([], 45535); ([FData 1 100 false true], 45435);
   ([], 45434); ([], 45434)].
Proof. vm_compute. split; reflexivity. Qed.
