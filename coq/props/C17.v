(* C17: blocked writers and stream waiters are always woken.
   Part (a): writeQuota.get / realReplenish at instruction granularity (model/WriteQuota.v):
   [exec (init false i) acts] ranges over every interleaving, of any length, of the
   instructions of one sender (gRPC allows one sending goroutine per stream) with any
   number of replenisher threads and close(done).
   Part (b): NewStream waiters (model/StreamQuota.v, shared with C13). *)
From Coq Require Import List ZArith Bool.
From VLib Require Import Codec Machine.
From VModel Require Import WriteQuota.
From VModel Require StreamQuota.
From VProof Require Import WriteQuota_proofs.
From VProof Require StreamQuota_proofs.
Import ListNotations.
Open Scope Z_scope.

(* "its quota returns to the initial value after all its data has been written":
   quota = initial - taken + replenished at every instant (for any number of senders). *)
Theorem C17_quota_conserved : forall mu i acts, let s := exec (init mu i) acts in
  quota s = i - got s + repl s /\ (got s = repl s -> quota s = i).
Proof. exact quota_conserved. Qed.
Print Assumptions C17_quota_conserved.

(* "A sender blocked because its stream exceeded the write quota is released once the writer
   has sent enough of its data": whenever the sender is at the select and quota is positive,
   the token is in the channel or a replenisher that crossed <=0 -> >0 is about to send it. *)
Theorem C17_no_lost_wakeup : forall i acts, let s := exec (init false i) acts in
  forall t sz, In (t, L3 sz) (gs s) -> 0 < quota s ->
  token s = true \/ exists r, In (r, true) (rs s).
Proof. exact no_lost_wakeup. Qed.
Print Assumptions C17_no_lost_wakeup.

Theorem C17_pending_sends_token : forall s r, lookup r (rs s) = Some true -> token (fst (astep s (RSend r))) = true.
Proof. exact pending_sends_token. Qed.
Print Assumptions C17_pending_sends_token.

Theorem C17_token_wakes : forall s t sz, lookup t (gs s) = Some (L3 sz) -> token s = true ->
  lookup t (gs (fst (astep s (GRecvTok t)))) = Some (L1 sz).
Proof. exact token_wakes. Qed.
Print Assumptions C17_token_wakes.

(* "... or the stream ends": done closed => the blocked sender returns errStreamDone. *)
Theorem C17_done_releases : forall s t sz, lookup t (gs s) = Some (L3 sz) -> done s = true ->
  snd (astep s (GRecvDone t)) = [2].
Proof. exact done_releases. Qed.
Print Assumptions C17_done_releases.

(* at every quiescent point (no replenisher in flight, sender cannot move) the sender is
   blocked only while quota <= 0, and not at all after done *)
Theorem C17_quiescent : forall s, Inv s -> multi s = false -> quiescent s -> rs s = [] ->
  (done s = true -> gs s = []) /\ (done s = false -> gs s <> [] -> quota s <= 0).
Proof. exact quiescent_blocked_only_without_quota. Qed.
Print Assumptions C17_quiescent.

Theorem C17_invariant_reachable : forall mu i acts, Inv (exec (init mu i) acts).
Proof. exact reach_inv. Qed.
Print Assumptions C17_invariant_reachable.

(* Scope note (not a violation: the property speaks of 'a sender' of 'its stream', and gRPC
   forbids concurrent SendMsg on one stream): without the one-sender contract one token
   cannot wake two waiters.
   init 10; A takes 10; B and C block; replenish 10 sends one token; B takes 1; C stays at the
   select with quota 9 > 0, empty channel, no replenisher in flight, done open. *)
Theorem C17_one_sender_hypothesis_needed_note : exists acts t sz, let s := exec (init true 10) acts in
  In (t, L3 sz) (gs s) /\ 0 < quota s /\ token s = false /\ rs s = [] /\ done s = false.
Proof.
  exists [GStart 0 10; GLoad 0; GAdd 0; GStart 1 1; GLoad 1; GStart 2 1; GLoad 2;
          RStart 3 10; RSend 3; GRecvTok 1; GLoad 1; GAdd 1], 2, 1.
  vm_compute. repeat split; try reflexivity. now left.
Qed.
Print Assumptions C17_one_sender_hypothesis_needed_note.

(* Part (b): "A NewStream call waiting for stream quota is woken whenever quota becomes
   available, so it never waits while quota is free". *)
Theorem C17_waiter_enabled : forall m acts,
  let s := StreamQuota.exec (StreamQuota.init m) acts in
  StreamQuota.dead s = false -> 0 < StreamQuota.quota s ->
  forall t g, In (t, StreamQuota.Blocked g) (StreamQuota.thr s) ->
  StreamQuota.can_recv s g = true \/
  (g = StreamQuota.cur s /\ exists t', In (t', StreamQuota.Retry) (StreamQuota.thr s)).
Proof. exact StreamQuota_proofs.waiter_enabled. Qed.
Print Assumptions C17_waiter_enabled.

Theorem C17_stream_waiters_quiescent : forall s held, StreamQuota_proofs.Inv s ->
  StreamQuota_proofs.quiescent s held -> StreamQuota_proofs.held_blocked s held ->
  (StreamQuota.dead s = true -> StreamQuota.parked s held = []) /\
  (StreamQuota.dead s = false -> StreamQuota.parked s held <> [] -> StreamQuota.quota s <= 0).
Proof. exact StreamQuota_proofs.quiescent_blocked_only_without_quota. Qed.
Print Assumptions C17_stream_waiters_quiescent.

(* The executable predicate evaluated on implementation traces holds on every one-sender
   model trace; the runner's macro steps are atomic steps only. *)
Theorem C17_holds_on_every_model_trace : forall i ops, forallb op_wf ops = true ->
  exists obs, run [i; 0] ops = Some obs /\ holds_b [i; 0] ops obs = true.
Proof. exact model_trace_holds. Qed.
Print Assumptions C17_holds_on_every_model_trace.

(* the other two kinds of cases of this check: stress cases (the model's observation is "no
   lost wake-up, nothing hung") and stream-admission cases (bridge theorem of StreamQuota) *)
Theorem C17_stress_trace_holds : forall i ops, forallb stress_wf ops = true ->
  exists obs, run [i; 2] ops = Some obs /\ holds_b [i; 2] ops obs = true.
Proof. exact stress_trace_holds. Qed.
Print Assumptions C17_stress_trace_holds.

Theorem C17_stream_trace_holds : forall m0 ops, forallb StreamQuota_proofs.op_wf ops = true ->
  exists obs, StreamQuota.run [m0] ops = Some obs /\ StreamQuota.holds_b [m0] ops obs = true.
Proof. exact StreamQuota_proofs.model_trace_holds. Qed.
Print Assumptions C17_stream_trace_holds.

(* "... or the stream ends", on a real client stream: in the stream-admission cases a sender
   may block in writeQuota.get of an open stream (it wrote more than the write quota to a peer
   that does not read); after every operation senders are blocked only on streams that are
   still open, i.e. the end of a stream (RST_STREAM, client close, transport close) releases
   its sender.  Clause 7 of the StreamQuota engine states this of the implementation. *)
Theorem C17_stream_end_releases_sender : forall s held e tid op s' held' e' o,
  StreamQuota.op_step s held e tid op = Some (s', held', e', o) ->
  forall id, In id (StreamQuota.wr e') -> In id (StreamQuota.open s').
Proof. exact StreamQuota_proofs.senders_only_on_open_streams. Qed.
Print Assumptions C17_stream_end_releases_sender.

Theorem C17_runner_steps_are_atomic_steps : forall s tid op s' o, Inv s ->
  op_step s tid op = Some (s', o) -> exists acts, s' = exec s acts.
Proof. exact op_step_reach. Qed.
Print Assumptions C17_runner_steps_are_atomic_steps.

(* non-vacuity; the last two conjuncts replay the out-of-scope two-sender schedule at the
   level of cases (model and implementation agree on it; no clause is evaluated on it) *)
Example C17_witness :
  run [10; 0] [[1; 10]; [1; 4]; [2; 3]; [2; 7]; [2; 4]] =
  Some [[0;0;0;1;0;10]; [0;0;1;0;0;0]; [-1;0;0;1;0;4]; [6;1;0;0;0;0]; [10;1;0;0;0;0]] /\
  forallb op_wf [[1; 10]; [1; 4]; [2; 3]; [2; 7]; [2; 4]] = true /\
  holds_b [10; 1] [[1; 10]; [1; 1]; [1; 1]; [2; 10]]
          [[0;0;0;1;0;10]; [0;0;1;0;0;0]; [0;0;2;0;0;0]; [9;0;1;1;0;1]] = true /\
  run [10; 1] [[1; 10]; [1; 1]; [1; 1]; [2; 10]] =
  Some [[0;0;0;1;0;10]; [0;0;1;0;0;0]; [0;0;2;0;0;0]; [9;0;1;1;0;1]].
Proof. vm_compute. repeat split; reflexivity. Qed.
