(* C47: header and string matchers implement Envoy matcher semantics.
   Theorems only; each is closed by [exact] of a lemma from proof/Matchers_proofs.v.
   Strings are code-point lists; a header map is an association list key -> value list
   ([md_get]); [join] is strings.Join(values, ","); UL / UU stand for unicode.ToLower /
   ToUpper above 127 and are arbitrary in every theorem that mentions them ([tl], [tu] are
   the values Go has on the code points the driver uses); [pe] = true is the code. *)
From Coq Require Import List ZArith Bool.
From VLib Require Import Codec Machine.
From VModel Require Import Matchers.
From VProof Require Import Matchers_proofs.
Import ListNotations.
Open Scope Z_scope.

(* "Every header matcher evaluates against the comma-joined values of the header: exact,
   prefix, suffix, contains ... compare as specified ... and invert flips the result only
   when the header is present": kinds 1..4 match iff the header is in the map and
   (comparison of the joined value with the argument holds  <->  invert is off).
   cmpP 1 = equal, 2 = has prefix, 3 = has suffix, 4 = contains. *)
Theorem C47_header_exact_prefix_suffix_contains : forall UL pe kind inv a b key arg m,
  1 <= kind <= 4 ->
  (hdr_eval UL pe kind inv a b key arg m = true <->
   exists vs, md_get m key = Some vs /\ (cmpP kind arg (join vs) <-> inv = false)).
Proof. exact hdr_simple_spec. Qed.
Print Assumptions C47_header_exact_prefix_suffix_contains.

(* "... and regex (full-string)": the header regex matcher matches iff the header is in the
   map and (the WHOLE joined value is in the language of the expression <-> invert off) *)
Theorem C47_header_regex : forall inv key r m,
  hdr_regex_eval inv key r m = true <->
  exists vs, md_get m key = Some vs /\ (lang r (join vs) <-> inv = false).
Proof.
  intros inv key r m. rewrite hdr_regex_spec. split; intros [vs [Hv Hx]]; exists vs; split; auto;
    rewrite <- Hx; [symmetry|]; apply rmatch_spec.
Qed.
Print Assumptions C47_header_regex.

Theorem C47_regex_full_string : forall s r, rmatch r s = true <-> lang r s.
Proof. exact rmatch_spec. Qed.
Print Assumptions C47_regex_full_string.

(* "range matches base-10 integers in [start, end)" *)
Theorem C47_header_range : forall UL pe inv a b key arg m,
  hdr_eval UL pe 5 inv a b key arg m = true <->
  exists vs, md_get m key = Some vs /\
    ((exists i, parse_int (join vs) = Some i /\ a <= i < b) <-> inv = false).
Proof. exact hdr_range_spec. Qed.
Print Assumptions C47_header_range.

(* parse_int accepts exactly an optional sign followed by one or more decimal digits whose
   value is an int64 *)
Theorem C47_parse_int_sound : forall s n, parse_int s = Some n ->
  min_i64 <= n <= max_i64 /\
  exists sg ds, s = sg ++ ds /\ (sg = [] \/ sg = [43] \/ sg = [45]) /\ ds <> [] /\
    forallb is_digit ds = true /\ n = (if str_eqb sg [45] then - dval ds else dval ds).
Proof. exact parse_int_sound. Qed.
Print Assumptions C47_parse_int_sound.

Theorem C47_parse_int_complete : forall sg ds, (sg = [] \/ sg = [43] \/ sg = [45]) -> ds <> [] ->
  forallb is_digit ds = true ->
  let n := if str_eqb sg [45] then - dval ds else dval ds in
  min_i64 <= n <= max_i64 -> parse_int (sg ++ ds) = Some n.
Proof. exact parse_int_complete. Qed.
Print Assumptions C47_parse_int_complete.

(* "invert flips the result only when the header is present": absent => no match whatever
   invert is; present => inverting flips (every matcher except present_match, incl. the
   StringMatcher-based kinds 7..10 and range) *)
Theorem C47_absent_never_matches : forall UL pe kind inv a b key arg m, kind <> 6 ->
  md_get m key = None -> hdr_eval UL pe kind inv a b key arg m = false.
Proof. exact hdr_absent. Qed.
Print Assumptions C47_absent_never_matches.

Theorem C47_invert_flips_when_present : forall UL pe kind inv a b key arg m vs, kind <> 6 ->
  md_get m key = Some vs ->
  hdr_eval UL pe kind (negb inv) a b key arg m = negb (hdr_eval UL pe kind inv a b key arg m).
Proof. exact hdr_invert. Qed.
Print Assumptions C47_invert_flips_when_present.

(* "while present_match compares presence": the code compares (header in the map AND its
   joined value non-empty) with (present_match xor invert) ... *)
Theorem C47_present : forall UL inv a b key arg m,
  hdr_eval UL true 6 inv a b key arg m = true <->
  ((exists vs, md_get m key = Some vs /\ join vs <> []) <-> xorb (z2b a) inv = true).
Proof. exact hdr_present_spec. Qed.
Print Assumptions C47_present.

(* ... so a header that is present with an empty value is treated as absent
   (KNOWN FINDING, clause 8) *)
Theorem C47_present_compares_presence_refuted :
  exists m key, md_get m key = Some [[]] /\ hdr_eval tl true 6 false 1 0 key [] m = false.
Proof. exact present_refuted. Qed.
Print Assumptions C47_present_compares_presence_refuted.

(* "String matchers with ignore_case compare ASCII case-insensitively": on ASCII pattern and
   input, whatever unicode.ToLower is ... *)
Theorem C47_ascii_ci : forall UL kind pat input, is_ascii pat -> is_ascii input ->
  (sm_eval UL kind true pat input = true <-> cmpP kind (map alower pat) (map alower input)) /\
  (sm_eval UL kind false pat input = true <-> cmpP kind pat input).
Proof. exact sm_ascii_ci. Qed.
Print Assumptions C47_ascii_ci.

(* "and path matchers with case_insensitive match paths equal (or prefixed) up to ASCII
   case": on ASCII pattern and path, whatever unicode.ToUpper is *)
Theorem C47_path_ascii_ci : forall UU kind pat path, is_ascii pat -> is_ascii path ->
  (path_eval UU kind true pat path = true <->
     if kind =? 1 then map aupper path = map aupper pat else exists r, map aupper path = map aupper pat ++ r) /\
  (path_eval UU kind false pat path = true <->
     if kind =? 1 then path = pat else exists r, path = pat ++ r).
Proof. exact path_ascii_ci. Qed.
Print Assumptions C47_path_ascii_ci.

(* "... including non-ASCII characters whose Unicode case mapping differs from ASCII
   folding": false of the code (KNOWN FINDING, clause 7): "k" matches KELVIN SIGN and the
   path "/s" matches "/" LONG S although they are not equal up to ASCII case *)
Theorem C47_ascii_ci_refuted_on_unicode :
  (sm_eval tl 1 true [107] [8490] = true /\ map alower [8490] <> map alower [107]) /\
  (path_eval tu 1 true [47; 115] [47; 383] = true /\ map aupper [47; 383] <> map aupper [47; 115]).
Proof. exact ascii_ci_refuted. Qed.
Print Assumptions C47_ascii_ci_refuted_on_unicode.

Theorem C47_clause7_refuted :
  run [] [[4; 1; 1; 1; 107; 1; 8490]] = Some [[1]] /\
  clauses [] [[4; 1; 1; 1; 107; 1; 8490]] [[1]] = [(4, 0, true); (7, 0, false)].
Proof. exact clause7_refuted. Qed.
Print Assumptions C47_clause7_refuted.

Theorem C47_clause8_refuted :
  run [] [[20; 1; 107; 0]; [1; 6; 0; 1; 0; 1; 107; 0]] = Some [[]; [0]] /\
  clauses [] [[20; 1; 107; 0]; [1; 6; 0; 1; 0; 1; 107; 0]] [[]; [0]] = [(3, 0, true); (8, 0, false)].
Proof. exact clause8_refuted. Qed.
Print Assumptions C47_clause8_refuted.

(* The executable predicate evaluated on implementation traces (every clause except the
   known-finding clauses 7 and 8) holds on every trace of the model, for every list of
   decodable operations. *)
Theorem C47_holds_on_every_model_trace : forall cfg ops, forallb op_wf ops = true ->
  exists obs, run cfg ops = Some obs /\ holds_b cfg ops obs = true.
Proof. exact model_trace_holds. Qed.
Print Assumptions C47_holds_on_every_model_trace.

(* non-vacuity: md {k: ["a","b"]}: exact "a,b" matches, inverted does not; range [5,6) on
   "+5"; regex a.* matches "ab" but a does not match "ab" (full string); ignore-case *)
Example C47_witness :
  forallb op_wf [[20;1;107;1;97]; [20;1;107;1;98]; [1;1;0;0;0;1;107;3;97;44;98];
                 [1;1;1;0;0;1;107;3;97;44;98]; [3;0;2;97;98;3;1;97;5;2]; [3;0;2;97;98;1;97];
                 [4;1;1;2;97;66;2;65;98]] = true /\
  run [] [[20;1;107;1;97]; [20;1;107;1;98]; [1;1;0;0;0;1;107;3;97;44;98];
          [1;1;1;0;0;1;107;3;97;44;98]; [3;0;2;97;98;3;1;97;5;2]; [3;0;2;97;98;1;97];
          [4;1;1;2;97;66;2;65;98]]
    = Some [[]; []; [1]; [0]; [1]; [0]; [1]] /\
  parse_int [43; 53] = Some 5 /\ parse_int [53; 32] = None.
Proof. vm_compute. repeat split. Qed.
