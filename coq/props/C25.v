(* C25: server stop semantics and the per-connection handler limit.
   Part D of ServerStop.v (theorems C25_graceful_waits ... C25_stop_cancels below): server.go
   stop(graceful) as a thread of atomic steps per call (quit + close listeners; first GOAWAY or
   close of the transport; wait for conns to be empty; handlersWG.Wait), one connection
   (serving -> first GOAWAY -> second GOAWAY, refusing -> closed), RPC arrival / handler
   return / delivery of the handler's status; [greach] = all interleavings, any number of
   RPCs and of concurrent Stop / GracefulStop calls.  [P4 g] = a stop(g) call has returned.
   Last sentence: "On any connection, no more than MaxConcurrentStreams handlers
   run at once" - the atomicSemaphore of server.go (newHandlerQuota in serveStreams).
   Model ServerStop.v: acquire = n.Add(-1) then (if negative) a receive on the 1-slot
   channel; release = n.Add(1) then (if <= 0) a send; one synchronous acquirer, any number of
   handler goroutines; [reachable] = all interleavings.  [holders] = running handlers plus
   the stream whose acquire has returned and whose handler is being started.
   Theorems only; each is closed by [exact] of a lemma from proof/ServerStop_proofs.v. *)
From Coq Require Import List ZArith Bool.
From VLib Require Import Codec Machine.
From VModel Require Import ServerStop.
From VProof Require Import ServerStop_proofs ServerStopBridge_proofs ServerStopSim_proofs.
Import ListNotations.
Open Scope Z_scope.

(* for every schedule and any number of handler goroutines, at most N handlers hold quota,
   and the counter stays within [-1, N] (so the int64 cannot wrap) *)
Theorem C25_semaphore_limit : forall s hs, reachable (s, hs) ->
  holders s hs <= cap s /\ -1 <= cnt s <= cap s.
Proof. exact handler_limit. Qed.
Print Assumptions C25_semaphore_limit.

(* the counter is negative only while the acquirer is blocked with all N units held and no
   answer under way; a blocked acquirer always has the counter at -1 (the next release will
   answer it), a token in the channel, or a releaser about to send one *)
Theorem C25_semaphore_blocked_acquirer : forall s hs, reachable (s, hs) ->
  (cnt s < 0 -> ap s = AWait /\ tok s = false /\ count is_send hs = 0 /\ count is_run hs = cap s) /\
  (ap s = AWait -> cnt s = -1 \/ tok s = true \/ count is_send hs = 1).
Proof. exact blocked_acquirer. Qed.
Print Assumptions C25_semaphore_blocked_acquirer.

(* the predicate evaluated on implementation traces holds on every trace of the sequential model *)
Theorem C25_holds_on_every_model_trace : forall c ops obs,
  run [0; c] ops = Some obs -> holds_b [0; c] ops obs = true.
Proof. exact sem_trace_holds. Qed.
Print Assumptions C25_holds_on_every_model_trace.

(* ... and clauses 4-9 (GracefulStop waits, handler's status, no accept after, Stop cancels,
   status reaches the client before GracefulStop returns, WaitForHandlers) hold on every
   trace of the sequential server model, for every configuration and every op list *)
Theorem C25_holds_on_every_server_model_trace : forall wk w ops obs,
  run [2; wk; w] ops = Some obs -> holds_b [2; wk; w] ops obs = true.
Proof. exact srv_trace_holds. Qed.
Print Assumptions C25_holds_on_every_server_model_trace.

(* "GracefulStop returns only after every in-flight handler has returned" *)
Theorem C25_graceful_waits : forall s, greach s -> In (P4 true) (stops s) ->
  cn s = CClosed /\ no_running (rs s).
Proof. exact graceful_waits. Qed.
Print Assumptions C25_graceful_waits.

(* "every RPC accepted ... completes with the handler's status": when a GracefulStop has
   returned and no Stop closed the transport, every RPC whose handler was started has
   returned a status, exactly that status reached the client, and its context was never
   cancelled - unless its own client cancelled it (CCancelled).  (Covers RPCs accepted before the call and those accepted in the
   window before the second GOAWAY.) *)
Theorem C25_accepted_complete_with_handler_status : forall s, greach s -> hardc s = false ->
  In (P4 true) (stops s) -> forall r, In r (rs s) -> hs r <> HNone -> clst r <> CCancelled ->
  exists st, hs r = HRet st /\ clst r = CHandler st /\ cxl r = false.
Proof. exact accepted_complete. Qed.
Print Assumptions C25_accepted_complete_with_handler_status.

(* "no RPC is accepted afterwards": an RPC arriving once the transport refuses (second GOAWAY
   written, or closed) never gets a handler; after any Stop / GracefulStop call has returned
   the transport is closed, so every later arrival is refused.  (Between the call and the
   second GOAWAY the server still accepts streams by design - they are waited for, see above.) *)
Theorem C25_no_accept_after : forall s, greach s ->
  (forall r, In r (rs s) -> late r = true -> hs r = HNone) /\
  (forall g, In (P4 g) (stops s) -> cn s = CClosed) /\
  (cn s = CDraining \/ cn s = CClosed -> hs (arrive (cn s)) = HNone /\ late (arrive (cn s)) = true).
Proof. exact no_accept_after. Qed.
Print Assumptions C25_no_accept_after.

(* "Stop cancels every handler's context and clients observe a non-OK status for unfinished
   RPCs": once a Stop call is past closeServerTransportsLocked, the transport is closed, every
   handler still running has its context cancelled, every client has a final status, and a
   client holds a handler's status only if that handler returned it (unfinished => error) *)
Theorem C25_stop_cancels : forall s, greach s ->
  In (P2 false) (stops s) \/ In (P3 false) (stops s) \/ In (P4 false) (stops s) ->
  cn s = CClosed /\ forall r, In r (rs s) ->
  (hs r = HRunning -> cxl r = true) /\ clst r <> CNone /\ (forall st, clst r = CHandler st -> hs r = HRet st).
Proof. exact stop_cancels. Qed.
Print Assumptions C25_stop_cancels.

(* WaitForHandlers(true): Stop returns only when no handler is running *)
Theorem C25_stop_waits_for_handlers : forall s, greach s -> wfhd s = true ->
  In (P4 false) (stops s) -> no_running (rs s).
Proof. exact stop_waits_for_handlers. Qed.
Print Assumptions C25_stop_waits_for_handlers.

(* LINK between the model the driver is compared with (Part C, executable, quiescent points)
   and the model the theorems above are about (Part D, atomic steps): every Part C operation
   (primitive + settle) is a sequence of Part D steps through the abstraction [abs]; hence
   the state after ANY script is reachable in Part D, for some list of returned stop calls. *)
Theorem C25_script_states_reachable : forall w ops,
  exists dn, greach (abs (srv_state (srv_init w) ops) dn) /\ MInv (srv_state (srv_init w) ops).
Proof. exact sim_run. Qed.
Print Assumptions C25_script_states_reachable.

(* ... so the Part D theorems speak about the driver's traces.  Example, read back in Part C
   terms: after any script, if the connection closed without a Stop, every accepted RPC that
   its client did not cancel has returned, its client holds exactly that status, and its
   stream was never torn down *)
Theorem C25_script_accepted_complete : forall w ops r,
  let s := srv_state (srv_init w) ops in
  In r (rpcs s) -> closed s = true -> hard s = false -> accepted r = true -> clst_of r <> CCancelled ->
  hs_of r = HRet (r_code r) /\ clst_of r = CHandler (r_code r) /\ r_dead r = false.
Proof. exact script_accepted_complete. Qed.
Print Assumptions C25_script_accepted_complete.

(* non-vacuity: N = 1: second acquire blocks, a release hands the unit over, and the
   acceptor rejects two holders with N = 1 *)
Example C25_witness :
  run [2; 2; 0] [[1; 0]; [1; 1]; [2; 1; 0]; [3]; [1; 0]; [6; 1]; [2; 0; 5]; [4]] =
    Some [[1; 0; 10; 0; 0]; [1; 1; 10; 1; 0]; [2; 1; 0; 11; 1; 0]; [3]; [1; 0; 13; 2; 14];
          [6; 1; 13; 1; 0]; [2; 0; 5; 11; 0; 5; 13; 0; 5; 14; 0; 0]; [4; 15; 0; 0]] /\
  holds_b [2; 0; 0] [] [[1; 0; 10; 0; 0]; [3; 14; 0; 0]] = false /\
  run [0; 1] [[1]; [1]; [1]; [2]; [2]; [2]] = Some [[1; 1]; [1; 0]; [1; 2]; [2; 1]; [2; 0]; [2; 2]] /\
  holds_b [0; 1] [] [[1; 1]; [1; 1]] = false /\ holds_b [1; 4; 100] [] [[4; 5; 100]] = false.
Proof. vm_compute. repeat split. Qed.
