(* C25, last sentence only: "On any connection, no more than MaxConcurrentStreams handlers
   run at once" - the atomicSemaphore of server.go (newHandlerQuota in serveStreams).
   Model ServerStop.v: acquire = n.Add(-1) then (if negative) a receive on the 1-slot
   channel; release = n.Add(1) then (if <= 0) a send; one synchronous acquirer, any number of
   handler goroutines; [reachable] = all interleavings.  [holders] = running handlers plus
   the stream whose acquire has returned and whose handler is being started.
   NOT covered: Stop / GracefulStop semantics (first two sentences of C25).
   Theorems only; each is closed by [exact] of a lemma from proof/ServerStop_proofs.v. *)
From Coq Require Import List ZArith Bool.
From VLib Require Import Codec Machine.
From VModel Require Import ServerStop.
From VProof Require Import ServerStop_proofs.
Import ListNotations.
Open Scope Z_scope.

(* for every schedule and any number of handler goroutines, at most N handlers hold quota,
   and the counter stays within [-1, N] (so the int64 cannot wrap) *)
Theorem C25_semaphore_limit_partial : forall s hs, reachable (s, hs) ->
  holders s hs <= cap s /\ -1 <= cnt s <= cap s.
Proof. exact handler_limit. Qed.
Print Assumptions C25_semaphore_limit_partial.

(* the counter is negative only while the acquirer is blocked with all N units held and no
   answer under way; a blocked acquirer always has the counter at -1 (the next release will
   answer it), a token in the channel, or a releaser about to send one *)
Theorem C25_semaphore_blocked_acquirer : forall s hs, reachable (s, hs) ->
  (cnt s < 0 -> ap s = AWait /\ tok s = false /\ count is_send hs = 0 /\ count is_run hs = cap s) /\
  (ap s = AWait -> cnt s = -1 \/ tok s = true \/ count is_send hs = 1).
Proof. exact blocked_acquirer. Qed.
Print Assumptions C25_semaphore_blocked_acquirer.

(* the predicate evaluated on implementation traces holds on every trace of the sequential model *)
Theorem C25_holds_on_every_model_trace : forall cfg ops obs,
  run cfg ops = Some obs -> holds_b cfg ops obs = true.
Proof. exact model_trace_holds. Qed.
Print Assumptions C25_holds_on_every_model_trace.

(* non-vacuity: N = 1: second acquire blocks, a release hands the unit over, and the
   acceptor rejects two holders with N = 1 *)
Example C25_witness :
  run [0; 1] [[1]; [1]; [1]; [2]; [2]; [2]] = Some [[1; 1]; [1; 0]; [1; 2]; [2; 1]; [2; 0]; [2; 2]] /\
  holds_b [0; 1] [] [[1; 1]; [1; 1]] = false /\ holds_b [1; 4; 100] [] [[4; 5; 100]] = false.
Proof. vm_compute. repeat split. Qed.
