(* C16: control-frame throttling never deadlocks and close releases everything.
   Theorems only; each is closed by [exact] of a lemma from proof/CtrlBuf_proofs.v.
   [exec (init m) acts] ranges over every interleaving, of any length, of the atomic
   steps of any number of producers (APut), the writer (AGet), readers inside
   throttle() (ALoad r / AWait r, separately schedulable), finish and close(done),
   for every throttle limit m >= 1. *)
From Coq Require Import List ZArith Bool.
From VLib Require Import Codec Machine.
From VModel Require Import CtrlBuf.
From VProof Require Import CtrlBuf_proofs.
Import ListNotations.
Open Scope Z_scope.

(* The throttling channel exists exactly while at least m throttled items are queued
   (and never after finish); the count is the number of queued throttled items; the
   close of the swapped-out channel in getOnceLocked never meets a nil pointer. *)
Theorem C16_chan_iff : forall m acts, 1 <= m -> let s := exec (init m) acts in
  pan s = false /\
  (closed s = false -> (cur s <> None <-> m <= trf s)) /\
  (closed s = true -> cur s = None) /\
  (closed s = false -> trf s = cnt_thr (q s)).
Proof. exact chan_iff. Qed.
Print Assumptions C16_chan_iff.

(* "The reader is blocked by throttling only while at least the configured number of
   peer-triggered control frames are queued": in every reachable state, a reader whose
   receive cannot complete sees count >= m, buffer not closed, done not closed. *)
Theorem C16_blocked_only_when_full : forall m acts r, 1 <= m -> let s := exec (init m) acts in
  blocked s r -> m <= trf s /\ closed s = false /\ dn s = false.
Proof. exact blocked_only_when_full. Qed.
Print Assumptions C16_blocked_only_when_full.

(* "... and it is released as soon as the queue drops below that number or the
   connection closes": in such a state the receive step of every reader that is inside
   throttle() completes (throttle returns), whatever channel it loaded and whenever. *)
Theorem C16_released : forall m acts r v, 1 <= m -> let s := exec (init m) acts in
  lookup r (rds s) = Some v ->
  trf s < m \/ closed s = true \/ dn s = true ->
  snd (astep s (AWait r)) = [1].
Proof. exact released. Qed.
Print Assumptions C16_released.

(* No lost wake-up: once reader r can return, no step of any other thread (including a
   later re-creation of the throttling channel) disables it again. *)
Theorem C16_release_is_stable : forall s a r, a <> AWait r -> enabled s r -> enabled (fst (astep s a)) r.
Proof. exact enabled_stable. Qed.
Print Assumptions C16_release_is_stable.

(* "After the control buffer is closed no item is accepted": put/executeAndPut return
   ErrConnClosing without running f and without changing anything; get fails; a second
   finish does nothing; closed is permanent. *)
Theorem C16_closed_rejects : forall s hf fo it, pan s = false -> closed s = true ->
  astep s (APut hf fo it) = (s, [0; 1; 0]) /\ astep s AGet = (s, [2; 0; 0]) /\
  astep s AFinish = (s, []).
Proof. exact closed_rejects. Qed.
Print Assumptions C16_closed_rejects.

Theorem C16_closed_is_permanent : forall l s, closed s = true -> closed (exec s l) = true.
Proof. exact exec_closed. Qed.
Print Assumptions C16_closed_is_permanent.

(* finish: closes, fails exactly the queued clientHeaders (in order), empties the list and
   closes the throttling channel a reader may be waiting on. *)
Theorem C16_finish_orphans : forall s, pan s = false -> closed s = false ->
  snd (astep s AFinish) = hdr_ids (q s) /\ q (fst (astep s AFinish)) = [] /\
  cur (fst (astep s AFinish)) = None /\
  (forall g, cur s = Some g -> chan_closed (fst (astep s AFinish)) g = true).
Proof. exact finish_orphans. Qed.
Print Assumptions C16_finish_orphans.

(* FIFO and conservation: everything ever accepted = handed to the writer ++ still queued
   ++ removed by finish, in this order. *)
Theorem C16_history : forall m acts, 1 <= m -> let s := exec (init m) acts in
  acc s = got s ++ q s ++ dropped s /\
  orph s = hdr_ids (dropped s) /\
  (closed s = false -> dropped s = []) /\
  (closed s = true -> q s = []).
Proof. exact history. Qed.
Print Assumptions C16_history.

(* "every queued stream-creation request is failed exactly once": after close, each
   accepted clientHeaders (distinct ids) was either handed to the writer or orphaned,
   never both, and never orphaned twice. *)
Theorem C16_orphans_once : forall m acts, 1 <= m -> let s := exec (init m) acts in
  closed s = true -> NoDup (hdr_ids (acc s)) ->
  NoDup (orph s) /\
  forall id, In id (hdr_ids (acc s)) ->
    (In id (hdr_ids (got s)) /\ ~ In id (orph s)) \/ (~ In id (hdr_ids (got s)) /\ In id (orph s)).
Proof. exact orphaned_exactly_once. Qed.
Print Assumptions C16_orphans_once.

(* acc / got / orph are history variables: they record exactly the step outputs *)
Theorem C16_ghost_put : forall s hf fo it, pan s = false ->
  let r := astep s (APut hf fo it) in
  acc (fst r) = acc s ++ (match it, snd r with Some i, 1 :: _ => [i] | _, _ => [] end) /\
  got (fst r) = got s /\ orph (fst r) = orph s.
Proof. exact ghost_put. Qed.
Print Assumptions C16_ghost_put.
Theorem C16_ghost_get : forall s, Inv s ->
  let r := astep s AGet in
  got (fst r) = got s ++ (match snd r with [1; k; id] => [(k, id)] | _ => [] end) /\
  acc (fst r) = acc s /\ orph (fst r) = orph s /\
  (snd r = [0; 0; 0] \/ snd r = [2; 0; 0] \/ exists k id, snd r = [1; k; id]).
Proof. exact ghost_get. Qed.
Print Assumptions C16_ghost_get.
Theorem C16_ghost_finish : forall s, Inv s ->
  let r := astep s AFinish in
  orph (fst r) = orph s ++ snd r /\ acc (fst r) = acc s /\ got (fst r) = got s.
Proof. exact ghost_finish. Qed.
Print Assumptions C16_ghost_finish.

(* The executable predicate evaluated on implementation traces holds on every trace of
   the model, and the states the case runner visits are reached by atomic steps only. *)
Theorem C16_holds_on_every_model_trace : forall m ops, 1 <= m -> forallb op_wf ops = true ->
  exists obs, run [m] ops = Some obs /\ holds_b [m] ops obs = true.
Proof. exact model_trace_holds. Qed.
Print Assumptions C16_holds_on_every_model_trace.

Theorem C16_runner_steps_are_atomic_steps : forall s op s' o,
  op_step s op = Some (s', o) -> exists acts, s' = exec s acts.
Proof. exact op_step_reach. Qed.
Print Assumptions C16_runner_steps_are_atomic_steps.

(* Race mode (cfg [max; 1]): the driver runs finish() against concurrently running
   producers/consumers and counts outcomes that the theorems above exclude for every
   interleaving of whole methods (channel left armed after finish, an accepted clientHeaders
   not orphaned exactly once, panic, hang); the model's observation is "none". *)
Theorem C16_race_trace_holds : forall m ops, forallb race_wf ops = true ->
  exists obs, run [m; 1] ops = Some obs /\ holds_b [m; 1] ops obs = true.
Proof. exact race_trace_holds. Qed.
Print Assumptions C16_race_trace_holds.

(* non-vacuity: limit 1; a reader loads the channel, the producer refills after the writer
   drained: the reader holding the old (closed) channel is released although the count is
   at the limit again, a new reader blocks, and finish orphans header 9 and releases it. *)
Example C16_witness :
  run [1] [[1;0;0;1;5]; [6;0]; [2]; [1;0;0;1;6]; [5;1]; [7;0]; [1;0;0;2;9]; [3]; [1;1;1;1;7]] =
  Some [[1;1;1;0;0;1;0;0]; [1;1;1;0;0;1]; [0;0;0;0;0;1;1;5]; [1;1;1;0;0;1;0;0]; [1;1;1;0;1;1];
        [1;1;1;0;1;1]; [1;1;2;0;1;1;0;0]; [1;0;0;1;0;9]; [1;0;0;1;0;0;1;0]] /\
  forallb op_wf [[1;0;0;1;5]; [6;0]; [2]; [1;0;0;1;6]; [5;1]; [7;0]; [1;0;0;2;9]; [3]; [1;1;1;1;7]] = true.
Proof. vm_compute. split; reflexivity. Qed.
