(* C32: RPCs are only sent on READY subchannels via the latest picker.
   Theorems only; each is closed by [exact] of a lemma from proof/Picker_proofs.v.
   Model: coq/model/Picker.v.  A state is [reachable] when it is the result of executing
   some op list (schedule of picker updates / reset / close, sub-channel state changes,
   RPC starts, Pick results, cancellations) from an initial state; [dstep s d] is one more
   op.  Thread fields: st 1 = parked in pick's select, 2 = inside picker.Pick, 3 = stream
   created, 4 = failed with status [code]; pgen = generation of the picker of the latest
   Pick call; npick / natt = Pick calls of the current pick / number of picks (attempts). *)
From Coq Require Import List ZArith Bool.
From VLib Require Import Codec.
From VModel Require Import Picker.
From VProof Require Import Picker_proofs.
Import ListNotations.
Open Scope Z_scope.

(* "a pick never uses a picker older than the one that was current when the pick started or
   last blocked": whenever a thread is inside Pick after a step, either it is still the same
   call as before the step, or the call is on the picker that is current after the step
   (generation gen (p s'), non-nil, channel not closed) - and within one pick that generation
   is strictly newer than the one of its previous Pick call. *)
Theorem C32_pick_uses_latest_picker : forall s d s' e n x x', reachable s -> dstep s d = (s', e) ->
  nth_error (ths s) n = Some x -> nth_error (ths s') n = Some x' -> st x' = 2 ->
  (st x = 2 /\ npick x' = npick x /\ natt x' = natt x) \/
  (pgen x' = gen (p s') /\ haspk (p s') = true /\ closed (p s') = false /\
   ((natt x' = natt x /\ npick x' = npick x + 1 /\ pgen x < pgen x') \/
    (natt x' = natt x + 1 /\ npick x' = 1))).
Proof. exact pick_uses_latest_picker. Qed.
Print Assumptions C32_pick_uses_latest_picker.

(* "An RPC attempt is only started on a transport whose subchannel was READY when the pick
   returned": a stream is created only by the step in which the thread's Pick call returns a
   SubConn a that is READY in that state; the transport used is that SubConn's. *)
Theorem C32_stream_only_on_ready : forall s d s' e n x x', reachable s -> dstep s d = (s', e) ->
  nth_error (ths s) n = Some x -> nth_error (ths s') n = Some x' -> st x <> 3 -> st x' = 3 ->
  exists a b, d = DPick (Z.of_nat n) 3 a b 0 /\ st x = 2 /\ ready (scs s) a = true /\ sc x' = a /\
              pgen x' = pgen x.
Proof. exact stream_only_on_ready. Qed.
Print Assumptions C32_stream_only_on_ready.

(* "Picks that get ErrNoSubConnAvailable or a non-ready subchannel block until a newer picker
   is published rather than failing, unless the picker returned an error for a fail-fast RPC
   or a status error": when the Pick call of thread t returns (kind 0 ErrNoSubConnAvailable,
   1 status error with code a, 2 other error, 3 SubConn a, 4 foreign SubConn),
   - a status error fails the RPC with that code (INTERNAL for the codes gRFC A54 forbids),
   - another error fails a fail-fast RPC with UNAVAILABLE,
   - otherwise the pick blocks (only if no newer picker exists), or calls Pick on a strictly
     newer picker, or fails only because the channel is closed / its context is done. *)
Theorem C32_block_rather_than_fail : forall s t kind a b ns s' e x x', reachable s ->
  dstep s (DPick t kind a b ns) = (s', e) -> getth s t = Some x -> applies5 s x kind a b ns = true ->
  nth_error (ths s') (Z.to_nat t) = Some x' ->
  (kind = 1 -> st x' = 4 /\ code x' = (if restricted a then 13 else a)) /\
  (kind = 2 -> ff x = true -> st x' = 4 /\ code x' = 14) /\
  ((kind = 0 \/ (kind = 2 /\ ff x = false) \/ (kind = 3 /\ ready (scs s) a = false) \/ kind = 4) ->
   (st x' = 1 /\ closed (p s) = false /\ ctxs x = 0 /\ (pgen x = gen (p s) \/ haspk (p s) = false)) \/
   (st x' = 2 /\ pgen x < pgen x') \/
   (st x' = 4 /\ ((closed (p s) = true /\ code x' = 1) \/ (ctxs x <> 0 /\ code x' = ctx_code (ctxs x))))).
Proof. exact block_rather_than_fail. Qed.
Print Assumptions C32_block_rather_than_fail.

(* the picker in use is the latest one the channel's CURRENT LB policy published: a picker
   published through a balancer wrapper that idle entry has closed (op [11;o], o <> 0) changes
   nothing - no thread moves, no Pick call is made on it -, publishing through the current
   wrapper is updatePicker, idle entry is reset (picks wait for a picker of the new policy) *)
Theorem C32_closed_policy_publish_is_noop : forall s o, o <> 0 -> step s [11; o] = (s, []).
Proof. exact closed_policy_publish_noop. Qed.
Print Assumptions C32_closed_policy_publish_is_noop.
Theorem C32_enter_idle_is_reset : forall s, step s [12] = dstep s DReset.
Proof. exact enter_idle_is_reset. Qed.
Print Assumptions C32_enter_idle_is_reset.

(* The executable predicate evaluated on implementation traces holds on every model trace,
   for every configuration and every op list. *)
Theorem C32_holds_on_every_model_trace : forall cfg ops s0, init cfg = Some s0 ->
  exists obs, run cfg ops = Some obs /\ holds_C32 cfg ops obs = true.
Proof. exact model_trace_holds_C32. Qed.
Print Assumptions C32_holds_on_every_model_trace.

(* non-vacuity: RPC 0 (wait-for-ready) starts without a picker and blocks; the first picker
   returns a SubConn that is not READY -> it blocks again; SubConn 0 becomes READY and a second
   picker is published -> Pick is called on generation 2 and the stream is created on SubConn 0 *)
Example C32_witness :
  run [1; 1] [[1;0;0]; [2]; [5;0;3;0;0;0]; [6;0;1]; [2]; [5;0;3;0;0;0]] =
    Some [[0; 1;-1;0;1;0]; [0; 2;1;1;1;0]; [0; 1;1;1;1;0]; [0; 1;1;1;1;0]; [0; 2;2;2;1;0]; [0; 3;2;2;1;0]] /\
  (exists s0, init [1; 1] = Some s0).
Proof. vm_compute. split; [reflexivity|eexists; reflexivity]. Qed.
