(* C03: a stream with data and window credit is always eventually written - safety form.
   Model: coq/model/Loopy.v.  Liveness is split into (1) an invariant of all reachable states
   (no stream is parked in waitingOnStreamQuota while it has credit; activeStreams is a
   duplicate-free list of exactly the established streams in state active) and (2) one-step
   facts of processData valid in every state (progress for the head, FIFO re-queueing).
   Theorems only; each is closed by [exact] of a lemma from proof/Loopy_proofs.v. *)
From Coq Require Import List ZArith Bool.
From VLib Require Import Codec Machine.
From VModel Require Import Loopy.
From VProof Require Import Loopy_proofs.
Import ListNotations.
Open Scope Z_scope.

(* No lost wake-up: after any list of well-formed control items (any order of data arrival,
   window exhaustion, WINDOW_UPDATEs - also before the stream starts waiting -, SETTINGS raising
   or lowering the initial window, closes), every stream in state waitingOnStreamQuota has
   oiws - bytesOutStanding <= 0, i.e. the peer has not granted it credit.  (The disjunct
   bos < -2^62 is the int64 wrap of int(oiws) - bytesOutStanding: it needs > 2^62 bytes of unused
   credit on one stream.)  And every id in activeStreams is an established stream in state active,
   listed once. *)
Theorem C03_no_lost_wakeup : forall sd ops, forallb op_wf ops = true ->
  let s := final (init sd) false ops in
  (forall id str, In (id, str) (estd s) -> st str = ST_WAITING -> oiws s - bos str <= 0 \/ bos str < neg62) /\
  NoDup (act s) /\
  (forall id, In id (act s) -> exists str, aget id (estd s) = Some str /\ st str = ST_ACTIVE).
Proof. exact c03_no_lost_wakeup. Qed.
Print Assumptions C03_no_lost_wakeup.

(* Progress: in every state with connection quota, if the head of activeStreams has a data item
   and positive stream quota, processData writes a DATA frame of that stream (isEmpty = false),
   with at least one byte unless the message is empty. *)
Theorem C03_progress : forall s id rest str h d es tl,
  0 < sq s -> act s = id :: rest -> aget id (estd s) = Some str -> itl str = IData h d es :: tl ->
  0 <= h -> 0 <= d -> 0 < strQuota s (bos str) ->
  exists len e fr, frames (snd (processData s)) = FData id len e true :: fr /\
                   r_empty (snd (processData s)) = false /\ (0 < h + d -> 0 < len).
Proof. exact c03_progress. Qed.
Print Assumptions C03_progress.

(* Round robin: processData serves the head of activeStreams; afterwards the list is the rest in
   unchanged order, with the served stream re-queued at the tail iff it still has data and
   credit (so between two services of a stream every other active stream is served once). *)
Theorem C03_round_robin_step : forall s id rest, act s = id :: rest -> sq s <> 0 ->
  let a := act (fst (processData s)) in a = rest \/ a = rest ++ [id] \/ a = remove_id id rest.
Proof. exact c03_round_robin. Qed.
Print Assumptions C03_round_robin_step.

(* Fairness (ranking).  before id a = the streams queued ahead of id in activeStreams; a "serving"
   processData call is one that finds sendQuota <> 0 and a non-empty list (it dequeues the head);
   service id s ops = (heads served before the call that serves id, whether that call occurs).
   For every reachable state and every well-formed item list of any length in which no item
   closes id (cleanupStream / trailers for id): the streams served while id waits are pairwise
   distinct and were all ahead of id - no stream is served twice between two services of id, at
   most k = |before| services precede id's - and once ops contains more than k serving calls id
   has been served: the stream at position k is served by the (k+1)-th next serving processData
   at the latest (exactly the (k+1)-th unless a stream ahead of it is closed meanwhile). *)
Theorem C03_round_robin_fairness : forall ops s id,
  Inv3 s -> forallb op_wf ops = true -> forallb (fun o => negb (closes id o)) ops = true -> In id (act s) ->
  NoDup (fst (service id s ops)) /\ incl (fst (service id s ops)) (before id (act s)) /\
  ((length (before id (act s)) < servings s ops)%nat -> snd (service id s ops) = true).
Proof. exact c03_fair. Qed.
Print Assumptions C03_round_robin_fairness.

Theorem C03_round_robin_fairness_reachable : forall sd pre ops id,
  forallb op_wf pre = true -> forallb op_wf ops = true ->
  forallb (fun o => negb (closes id o)) ops = true ->
  let s := final (init sd) false pre in
  In id (act s) ->
  NoDup (fst (service id s ops)) /\ incl (fst (service id s ops)) (before id (act s)) /\
  ((length (before id (act s)) < servings s ops)%nat -> snd (service id s ops) = true).
Proof. exact c03_fair_reachable. Qed.
Print Assumptions C03_round_robin_fairness_reachable.

Theorem C03_holds_on_every_model_trace : forall cfg ops, case_wf cfg ops = true ->
  exists obs, run cfg ops = Some obs /\ holds_C03 ops obs = true.
Proof. exact c03_bridge. Qed.
Print Assumptions C03_holds_on_every_model_trace.

(* non-vacuity: a WINDOW_UPDATE that arrives while the stream is still `active` (before
   processData notices the exhausted window) is not lost, and a SETTINGS raise wakes a waiter *)
Example C03_witness :
  let wops := [[3;1]; [2;10]; [6;1;5;100;0]; [10]; [1;1;20]; [10]; [10]; [2;50;1]; [10]] in
  case_wf [1] wops = true /\
  match dec_ops wops with
  | Some os => map (fun o => (o_frames o, o_act o, map (fun q => fst (fst (snd q))) (o_strs o))) (srun 1 os)
  | None => []
  end =
  [([], [], [1]); ([FAck], [], [1]); ([], [1], [0]); ([FData 1 10 false true], [], [2]);
   ([], [1], [0]); ([FData 1 20 false true], [], [2]); ([], [], [2]); ([FAck], [1], [0]);
   ([FData 1 40 false true], [], [2])].
Proof. vm_compute. split; reflexivity. Qed.
