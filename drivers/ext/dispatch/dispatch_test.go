//go:build verif

// C26 driver: server method dispatch (Server.handleStream) through a real
// grpc.Server and a real grpc.ClientConn over bufconn.
//
// cfg = [flags, nsvc, svc...]   flags bit 0: an UnknownServiceHandler is installed;
//                               bit 1: the server is driven through Server.ServeHTTP
//                               (net/http + h2c handler transport) instead of Server.Serve
// svc = [name(bytes), ns, n, name_0(bytes) ... name_{n-1}(bytes)]
//
//	the first ns names are registered as ServiceDesc.Streams, the others as
//	ServiceDesc.Methods (unary); handler (i, j) = j-th name of the i-th service.
//	A service whose name repeats an earlier one is not registered
//	(RegisterService would log.Fatal).
//
// op  = [1, path(bytes)]   one unary call cc.Invoke(ctx, path, ...)
// op  = [2, path(bytes)]   the same call through cc.NewStream(ctx, bidi desc, path):
//                          SendMsg, CloseSend, RecvMsg, RecvMsg (expects io.EOF)
// obs = [nran, kind, i, j, code, ukind, methok, respok]
//
//	nran   number of handler invocations the server recorded during the call
//	kind   0 no handler, 1 registered handler (i, j), 2 unknown-service handler
//	code   status code seen by the client
//	ukind  for UNIMPLEMENTED: 1 "malformed method name", 2 "unknown service",
//	       3 "unknown method", else 0
//	methok the handler saw grpc.Method(ctx) == path (1 when no handler ran)
//	respok the reply received by the client names the handler the server recorded
package dispatch

import (
	"context"
	"io"
	"net"
	"net/http"
	"strings"
	"sync"
	"testing"
	"time"

	"golang.org/x/net/http2"
	"golang.org/x/net/http2/h2c"
	"google.golang.org/grpc"
	"google.golang.org/grpc/codes"
	"google.golang.org/grpc/credentials/insecure"
	"google.golang.org/grpc/status"
	"google.golang.org/grpc/test/bufconn"
	"google.golang.org/protobuf/types/known/wrapperspb"
)

type vDispatchRec struct {
	kind, i, j int64
	method     string
}

type vDispatchEnv struct {
	mu   sync.Mutex
	recs []vDispatchRec
}

func (e *vDispatchEnv) rec(r vDispatchRec) {
	e.mu.Lock()
	e.recs = append(e.recs, r)
	e.mu.Unlock()
}

func (e *vDispatchEnv) take() []vDispatchRec {
	e.mu.Lock()
	defer e.mu.Unlock()
	r := e.recs
	e.recs = nil
	return r
}

func vDispatchID(kind, i, j int64) int64 {
	switch kind {
	case 1:
		return 1 + i*1000 + j
	case 2:
		return -1
	}
	return 0
}

type vDispatchSvc struct {
	name  string
	ns    int
	names []string
}

// decode cfg; ok=false when it does not parse (then nothing is registered)
func vDispatchCfg(cfg []int64) (unk bool, svcs []vDispatchSvc, ok bool) {
	if len(cfg) < 2 || cfg[1] < 0 {
		return false, nil, false
	}
	unk = cfg[0]&1 != 0
	n := int(cfg[1])
	w := cfg[2:]
	for k := 0; k < n; k++ {
		if len(w) == 0 || w[0] < 0 || int(w[0]) > len(w)-1 {
			return unk, nil, false
		}
		nb, r := vGetBytes(w)
		w = r
		if len(w) < 2 || w[0] < 0 || w[1] < 0 {
			return unk, nil, false
		}
		s := vDispatchSvc{name: string(nb), ns: int(w[0])}
		m := int(w[1])
		w = w[2:]
		for q := 0; q < m; q++ {
			if len(w) == 0 || w[0] < 0 || int(w[0]) > len(w)-1 {
				return unk, nil, false
			}
			mb, r2 := vGetBytes(w)
			w = r2
			s.names = append(s.names, string(mb))
		}
		svcs = append(svcs, s)
	}
	return unk, svcs, true
}

func vDispatchStream(e *vDispatchEnv, kind, i, j int64) grpc.StreamHandler {
	return func(_ any, stream grpc.ServerStream) error {
		m, _ := grpc.Method(stream.Context())
		e.rec(vDispatchRec{kind, i, j, m})
		in := new(wrapperspb.Int64Value)
		if err := stream.RecvMsg(in); err != nil {
			return err
		}
		return stream.SendMsg(wrapperspb.Int64(vDispatchID(kind, i, j)))
	}
}

func vDispatchUnary(e *vDispatchEnv, i, j int64) grpc.MethodHandler {
	return func(_ any, ctx context.Context, dec func(any) error, _ grpc.UnaryServerInterceptor) (any, error) {
		m, _ := grpc.Method(ctx)
		e.rec(vDispatchRec{1, i, j, m})
		in := new(wrapperspb.Int64Value)
		if err := dec(in); err != nil {
			return nil, err
		}
		return wrapperspb.Int64(vDispatchID(1, i, j)), nil
	}
}

func vDispatchExec(cfg []int64, ops [][]int64) ([][]int64, bool, []string) {
	unk, svcs, _ := vDispatchCfg(cfg)
	e := &vDispatchEnv{}
	var sopts []grpc.ServerOption
	if unk {
		sopts = append(sopts, grpc.UnknownServiceHandler(vDispatchStream(e, 2, 0, 0)))
	}
	srv := grpc.NewServer(sopts...)
	seen := map[string]bool{}
	for i, s := range svcs {
		if seen[s.name] {
			continue
		}
		seen[s.name] = true
		sd := &grpc.ServiceDesc{ServiceName: s.name, HandlerType: (*any)(nil)}
		for j, n := range s.names {
			if j < s.ns {
				sd.Streams = append(sd.Streams, grpc.StreamDesc{StreamName: n, Handler: vDispatchStream(e, 1, int64(i), int64(j)),
					ServerStreams: true, ClientStreams: true})
			} else {
				sd.Methods = append(sd.Methods, grpc.MethodDesc{MethodName: n, Handler: vDispatchUnary(e, int64(i), int64(j))})
			}
		}
		srv.RegisterService(sd, nil)
	}
	lis := bufconn.Listen(1 << 16)
	if len(cfg) > 0 && cfg[0]&2 != 0 {
		hs := &http.Server{Handler: h2c.NewHandler(srv, &http2.Server{})}
		go hs.Serve(lis)
		defer hs.Close()
	} else {
		go srv.Serve(lis)
	}
	defer srv.Stop()
	cc, err := grpc.NewClient("passthrough:///vdispatch",
		grpc.WithContextDialer(func(ctx context.Context, _ string) (net.Conn, error) { return lis.DialContext(ctx) }),
		grpc.WithTransportCredentials(insecure.NewCredentials()))
	if err != nil {
		panic(err)
	}
	defer cc.Close()

	var obs [][]int64
	tags := map[string]bool{}
	for _, op := range ops {
		if len(op) < 2 || (op[0] != 1 && op[0] != 2) || op[1] < 0 || int(op[1]) != len(op)-2 {
			obs = append(obs, []int64{})
			continue
		}
		pb, _ := vGetBytes(op[1:])
		path := string(pb)
		e.take()
		ctx, cancel := context.WithTimeout(context.Background(), 10*time.Second)
		out := new(wrapperspb.Int64Value)
		var err error
		if op[0] == 1 {
			err = cc.Invoke(ctx, path, wrapperspb.Int64(7), out)
		} else {
			var cs grpc.ClientStream
			cs, err = cc.NewStream(ctx, &grpc.StreamDesc{ClientStreams: true, ServerStreams: true}, path)
			if err == nil {
				if e1 := cs.SendMsg(wrapperspb.Int64(7)); e1 != nil && e1 != io.EOF {
					err = e1
				} else {
					cs.CloseSend()
					err = cs.RecvMsg(out)
					if err == nil {
						if e2 := cs.RecvMsg(new(wrapperspb.Int64Value)); e2 != io.EOF {
							err = e2
							if err == nil {
								err = status.Error(codes.Internal, "vDispatch: second reply")
							}
						}
					}
				}
			}
		}
		cancel()
		recs := e.take()
		st := status.Convert(err)
		var kind, ri, rj, ukind int64
		methok, respok := int64(1), int64(0)
		if len(recs) > 0 {
			kind, ri, rj = recs[0].kind, recs[0].i, recs[0].j
			methok = vB(recs[0].method == path)
		}
		var got int64
		if err == nil {
			got = out.GetValue()
		}
		if got == vDispatchID(kind, ri, rj) {
			respok = 1
		}
		msg := st.Message()
		switch {
		case strings.HasPrefix(msg, "malformed method name"):
			ukind = 1
		case strings.HasPrefix(msg, "unknown service"):
			ukind = 2
		case strings.HasPrefix(msg, "unknown method"):
			ukind = 3
		}
		obs = append(obs, []int64{int64(len(recs)), kind, ri, rj, int64(st.Code()), ukind, methok, respok})
		switch {
		case kind == 1:
			tags["handler"] = true
		case kind == 2:
			tags["unknown-handler"] = true
		case ukind == 1:
			tags["malformed"] = true
		case ukind == 2:
			tags["unknown-service"] = true
		case ukind == 3:
			tags["unknown-method"] = true
		default:
			tags["other"] = true
		}
	}
	var tl []string
	for _, k := range []string{"handler", "unknown-handler", "malformed", "unknown-service", "unknown-method", "other"} {
		if tags[k] {
			tl = append(tl, k)
		}
	}
	nt := tags["handler"] && tags["malformed"] && (tags["unknown-handler"] || (tags["unknown-service"] && tags["unknown-method"]))
	return obs, nt, tl
}

// ---- generation

// the same registry, served through Server.ServeHTTP
func vDispatchHTTP(cfg []int64) []int64 {
	cfg[0] |= 2
	return cfg
}

// paths with control bytes are not sent to the ServeHTTP server: x/net's http2 server answers
// an illegal header value with a connection-level error (the client sees UNAVAILABLE and
// reconnects), which is outside this engine
func vDispatchNoCtl(ops [][]int64) [][]int64 {
	var out [][]int64
	for _, op := range ops {
		ok := true
		for _, b := range op[2:] {
			if b < 0x20 || b == 0x7f {
				ok = false
			}
		}
		if ok {
			out = append(out, op)
		}
	}
	return out
}

func vDispatchEncCfg(unk bool, svcs []vDispatchSvc) []int64 {
	cfg := []int64{vB(unk), int64(len(svcs))}
	for _, s := range svcs {
		cfg = append(cfg, vBytes([]byte(s.name))...)
		cfg = append(cfg, int64(s.ns), int64(len(s.names)))
		for _, n := range s.names {
			cfg = append(cfg, vBytes([]byte(n))...)
		}
	}
	return cfg
}

func vDispatchOp(p string) []int64 { return vCat([]int64{1}, vBytes([]byte(p))) }

// the same path through NewStream
func vDispatchOpS(p string) []int64 { return vCat([]int64{2}, vBytes([]byte(p))) }

// names without '/' (method names) and with (nested service names)
var vDispatchPlain = []string{"a", "b", "A", "", "a.b", "S", "M", "\xc3\xa9", "a b", "ab"}
var vDispatchNested = []string{"a/b", "a/", "/a", "/", "a/b/c", "p.S/x", "//", "a//b"}

func vDispatchAllStrings(alpha string, maxLen int) []string {
	out := []string{""}
	prev := []string{""}
	for l := 1; l <= maxLen; l++ {
		var cur []string
		for _, p := range prev {
			for k := 0; k < len(alpha); k++ {
				cur = append(cur, p+alpha[k:k+1])
			}
		}
		out = append(out, cur...)
		prev = cur
	}
	return out
}

func vDispatchMutate(r *vRand, p string) string {
	b := []byte(p)
	switch r.Intn(10) {
	case 0: // drop the leading slash
		if len(b) > 0 {
			b = b[1:]
		}
	case 1: // double a slash / insert one
		k := r.Intn(len(b) + 1)
		b = append(b[:k:k], append([]byte{'/'}, b[k:]...)...)
	case 2: // trailing slash
		b = append(b, '/')
	case 3: // delete one byte
		if len(b) > 0 {
			k := r.Intn(len(b))
			b = append(b[:k:k], b[k+1:]...)
		}
	case 4: // change case of one letter
		if len(b) > 0 {
			k := r.Intn(len(b))
			if b[k] >= 'a' && b[k] <= 'z' {
				b[k] -= 32
			} else if b[k] >= 'A' && b[k] <= 'Z' {
				b[k] += 32
			}
		}
	case 5: // replace the last slash by a dot
		if k := strings.LastIndexByte(string(b), '/'); k >= 0 {
			b[k] = '.'
		}
	case 6: // extra component
		b = append(b, []byte("/"+vDispatchPlain[r.Intn(len(vDispatchPlain))])...)
	case 7: // non-ASCII byte
		k := r.Intn(len(b) + 1)
		b = append(b[:k:k], append([]byte{0xc3, 0xa9}, b[k:]...)...)
	case 8: // swap service and method around the last slash
		s := string(b)
		if k := strings.LastIndexByte(s, '/'); k >= 1 {
			b = []byte("/" + s[k+1:] + "/" + s[1:k])
		}
	case 9: // leading garbage
		b = append([]byte{"ab. /"[r.Intn(5)]}, b...)
	}
	return string(b)
}

func vDispatchGen(r *vRand, tier string, idx int) ([]int64, [][]int64) {
	var ops [][]int64
	if idx >= 10 && idx <= 14 {
		// the exhaustive chunks (no unknown handler) and the shadowing case once more, served
		// through Server.ServeHTTP
		cfg, ops := vDispatchGen(r, tier, map[int]int{10: 0, 11: 1, 12: 2, 13: 3, 14: 8}[idx])
		if idx < 14 && tier == "quick" { // quick tier: paths up to length 4 only
			var short [][]int64
			for _, op := range ops {
				if op[1] <= 4 {
					short = append(short, op)
				}
			}
			ops = short
		}
		return vDispatchHTTP(cfg), vDispatchNoCtl(ops)
	}
	switch {
	case idx < 8:
		// every string over {/, a, b} up to length 5 (364 paths, in 4 chunks) against a
		// registry that has plain, empty and nested service names; idx 4-7 with the
		// unknown-service handler
		svcs := []vDispatchSvc{
			{"a", 1, []string{"a", "b", ""}},
			{"a/b", 0, []string{"a", "b"}},
			{"", 1, []string{"a", ""}},
			{"/a", 1, []string{"b"}},
			{"b/", 0, []string{"b"}},
		}
		all := vDispatchAllStrings("/ab", 5)
		for k := idx % 4; k < len(all); k += 4 {
			if (k/4)%2 == 0 {
				ops = append(ops, vDispatchOp(all[k]))
			} else {
				ops = append(ops, vDispatchOpS(all[k]))
			}
		}
		return vDispatchEncCfg(idx >= 4, svcs), ops
	case idx == 8:
		// shadowing: duplicate service name (never registered), a name that is both a
		// stream and a method (the method wins), empty registry entries
		svcs := []vDispatchSvc{
			{"S", 2, []string{"M", "N", "M", "O", "O"}},
			{"S", 0, []string{"M", "Q"}},
			{"T", 1, []string{}},
			{"p.S/x", 1, []string{"M"}},
		}
		for _, p := range []string{"/S/M", "/S/N", "/S/O", "/S/Q", "/T/M", "/T/", "/p.S/x/M", "/p.S/x", "/p.S", "S/M", "/S", "/S/", "//S/M", "/S//M",
			"/S/M/", "", "/", "//", "/s/M", "/S/m", "/S/M\xc3\xa9", "/\xc3\xa9/M", " /S/M", "/S/M ",
			"/S/./M", "/x/../S/M", "/S/M/.", "/./S/M", "/S/N/../M",
			"/S/M\x00", "/S\x01/M", "\n/S/M", "/S/\tM", "/S/M\x7f", "/S/M\r\n", "/S/\x1fM", "/S/M\x80", "/S/M\xff", "/S/M"} {
			ops = append(ops, vDispatchOp(p), vDispatchOpS(p))
		}
		return vDispatchEncCfg(false, svcs), ops
	case idx == 9:
		// replay of the statement finding: a registered method name that contains '/'
		svcs := []vDispatchSvc{
			{"s", 0, []string{"a/b", "c"}},
			{"t/a", 0, []string{"b"}},
			{"t", 1, []string{"a/b"}},
		}
		for _, p := range []string{"/s/a/b", "/s/c", "/t/a/b", "/s/a", "/s/b"} {
			ops = append(ops, vDispatchOp(p))
		}
		return vDispatchEncCfg(false, svcs), ops
	}
	// random registry; method names never contain '/' here (see idx 9)
	nsvc := 1 + r.Intn(4)
	if r.Chance(8) {
		nsvc = 0
	}
	var svcs []vDispatchSvc
	for i := 0; i < nsvc; i++ {
		var s vDispatchSvc
		if r.Chance(40) {
			s.name = vDispatchNested[r.Intn(len(vDispatchNested))]
		} else {
			s.name = vDispatchPlain[r.Intn(len(vDispatchPlain))]
		}
		nm := r.Intn(5)
		for j := 0; j < nm; j++ {
			s.names = append(s.names, vDispatchPlain[r.Intn(len(vDispatchPlain))])
		}
		s.ns = r.Intn(nm + 1)
		svcs = append(svcs, s)
	}
	unk := r.Chance(35)
	nops := 24
	const alpha = "/ab.A \xc3\xa9S"
	for k := 0; k < nops; k++ {
		var p string
		c := r.Intn(100)
		switch {
		case c < 35 && len(svcs) > 0: // exact path of a registered pair
			s := svcs[r.Intn(len(svcs))]
			if len(s.names) > 0 {
				p = "/" + s.name + "/" + s.names[r.Intn(len(s.names))]
			} else {
				p = "/" + s.name + "/" + vDispatchPlain[r.Intn(len(vDispatchPlain))]
			}
		case c < 65 && len(svcs) > 0: // mutated registered path
			s := svcs[r.Intn(len(svcs))]
			m := vDispatchPlain[r.Intn(len(vDispatchPlain))]
			if len(s.names) > 0 && r.Chance(70) {
				m = s.names[r.Intn(len(s.names))]
			}
			p = vDispatchMutate(r, "/"+s.name+"/"+m)
			if r.Chance(20) {
				p = vDispatchMutate(r, p)
			}
		case c < 80: // known service name pool, random method pool
			sn := vDispatchPlain[r.Intn(len(vDispatchPlain))]
			if r.Chance(40) {
				sn = vDispatchNested[r.Intn(len(vDispatchNested))]
			}
			p = "/" + sn + "/" + vDispatchPlain[r.Intn(len(vDispatchPlain))]
		default: // random bytes over a small alphabet
			n := r.Intn(9)
			b := make([]byte, n)
			for q := range b {
				b[q] = alpha[r.Intn(len(alpha))]
			}
			p = string(b)
		}
		if r.Chance(4) { // a byte that is not legal in an HTTP/2 header value (or tab, which is)
			k := r.Intn(len(p) + 1)
			p = p[:k] + string([]byte{byte(r.PickInt(0, 1, 9, 10, 13, 31, 127))}) + p[k:]
		}
		if r.Chance(30) {
			ops = append(ops, vDispatchOpS(p))
			continue
		}
		ops = append(ops, vDispatchOp(p))
	}
	cfg := vDispatchEncCfg(unk, svcs)
	if r.Chance(30) {
		cfg = vDispatchHTTP(cfg)
		ops = vDispatchNoCtl(ops)
	}
	return cfg, ops
}

func TestVerif_Dispatch(t *testing.T) {
	vRunDriver(t, "Dispatch", 46, 800, vDispatchGen, vDispatchExec)
}
