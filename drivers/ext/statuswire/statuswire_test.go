//go:build verif

// C10 driver: the status a handler returns, observed by a real client
// (grpc.ClientConn -> bufconn -> grpc.Server), one connection per case, one RPC per op.
//
//	op  [1, mode, code, msg, n, (type_url, value)...]
//	     mode 0 unary (error => trailers-only response)
//	          1 server-streaming, the handler sends one message and then returns
//	          2 server-streaming, the handler returns immediately (trailers-only)
//	          3 as 2, and the client calls ClientStream.Header() before RecvMsg
//	          4 as 3 on a bidirectional stream
//	     code the uint32 status code; 0 means the handler returns nil
//	     msg, type_url, value byte strings [len, bytes...]; the handler returns
//	     status.FromProto(&spb.Status{Code: int32(code), Message: msg, Details: anys}).Err()
//	obs [isnil, code, msg, n, (type_url, value)...]   what status.Convert(err) shows on the client
//
//	op  [2, g, n, code]   stress: g goroutines x n RPCs on the same connection, alternately unary
//	     and server-streaming (trailers-only); every handler returns status.Error(code, "stress")
//	obs [bad]             number of RPCs whose client result is not exactly (code, "stress", no details)
package statuswire

import (
	"context"
	"io"
	"net"
	"strings"
	"sync"
	"sync/atomic"
	"testing"
	"time"

	spb "google.golang.org/genproto/googleapis/rpc/status"
	"google.golang.org/grpc"
	"google.golang.org/grpc/codes"
	"google.golang.org/grpc/credentials/insecure"
	"google.golang.org/grpc/status"
	"google.golang.org/grpc/test/bufconn"
	"google.golang.org/protobuf/types/known/anypb"
	"google.golang.org/protobuf/types/known/emptypb"
)

type vStatusWireEnv struct {
	stressCode uint32
	cc         *grpc.ClientConn
	srv        *grpc.Server
	cur        error
	send       bool
	stop       func()
}

func vStatusWireUnary(srv any, ctx context.Context, dec func(any) error, _ grpc.UnaryServerInterceptor) (any, error) {
	env := srv.(*vStatusWireEnv)
	in := new(emptypb.Empty)
	if err := dec(in); err != nil {
		return nil, err
	}
	if env.cur != nil {
		return nil, env.cur
	}
	return &emptypb.Empty{}, nil
}

func vStatusWireStream(srv any, ss grpc.ServerStream) error {
	env := srv.(*vStatusWireEnv)
	in := new(emptypb.Empty)
	if err := ss.RecvMsg(in); err != nil {
		return err
	}
	if env.send {
		if err := ss.SendMsg(&emptypb.Empty{}); err != nil {
			return err
		}
	}
	return env.cur
}

func vStatusWireStressUnary(srv any, ctx context.Context, dec func(any) error, _ grpc.UnaryServerInterceptor) (any, error) {
	env := srv.(*vStatusWireEnv)
	if err := dec(new(emptypb.Empty)); err != nil {
		return nil, err
	}
	return nil, status.Error(codes.Code(atomic.LoadUint32(&env.stressCode)), "stress")
}

func vStatusWireStressStream(srv any, ss grpc.ServerStream) error {
	env := srv.(*vStatusWireEnv)
	if err := ss.RecvMsg(new(emptypb.Empty)); err != nil {
		return err
	}
	return status.Error(codes.Code(atomic.LoadUint32(&env.stressCode)), "stress")
}

var vStatusWireDesc = grpc.ServiceDesc{
	ServiceName: "verif.StatusWire",
	HandlerType: (*any)(nil),
	Methods:     []grpc.MethodDesc{{MethodName: "U", Handler: vStatusWireUnary}, {MethodName: "SU", Handler: vStatusWireStressUnary}},
	Streams: []grpc.StreamDesc{{StreamName: "S", Handler: vStatusWireStream, ServerStreams: true},
		{StreamName: "SS", Handler: vStatusWireStressStream, ServerStreams: true},
		{StreamName: "B", Handler: vStatusWireStream, ServerStreams: true, ClientStreams: true}},
}

func vStatusWireStart() *vStatusWireEnv {
	env := &vStatusWireEnv{}
	lis := bufconn.Listen(1 << 20)
	env.srv = grpc.NewServer()
	env.srv.RegisterService(&vStatusWireDesc, env)
	go env.srv.Serve(lis)
	cc, err := grpc.NewClient("passthrough:///bufnet",
		grpc.WithContextDialer(func(ctx context.Context, _ string) (net.Conn, error) { return lis.DialContext(ctx) }),
		grpc.WithTransportCredentials(insecure.NewCredentials()))
	if err != nil {
		panic(err)
	}
	env.cc = cc
	env.stop = func() { cc.Close(); env.srv.Stop(); lis.Close() }
	return env
}

func vStatusWireStr(w []int64) (string, []int64, bool) {
	if len(w) == 0 || w[0] < 0 || int(w[0]) > len(w)-1 {
		return "", nil, false
	}
	b, r := vGetBytes(w)
	return string(b), r, true
}

func vStatusWireCall(env *vStatusWireEnv, mode int64) error {
	return vStatusWireCallM(env, mode, "/verif.StatusWire/U", "/verif.StatusWire/S")
}

func vStatusWireStress(env *vStatusWireEnv, g, n int, code uint32) int64 {
	atomic.StoreUint32(&env.stressCode, code)
	var bad int64
	var wg sync.WaitGroup
	for j := 0; j < g; j++ {
		wg.Add(1)
		go func(j int) {
			defer wg.Done()
			for i := 0; i < n; i++ {
				err := vStatusWireCallM(env, int64((i+j)%2)*2, "/verif.StatusWire/SU", "/verif.StatusWire/SS")
				st := status.Convert(err)
				if err == nil || uint32(st.Code()) != code || st.Message() != "stress" || len(st.Proto().GetDetails()) != 0 {
					atomic.AddInt64(&bad, 1)
				}
			}
		}(j)
	}
	wg.Wait()
	return bad
}

func vStatusWireCallM(env *vStatusWireEnv, mode int64, um, sm string) error {
	ctx, cancel := context.WithTimeout(context.Background(), 15*time.Second)
	defer cancel()
	if mode == 0 {
		return env.cc.Invoke(ctx, um, &emptypb.Empty{}, &emptypb.Empty{})
	}
	desc := &vStatusWireDesc.Streams[0]
	if mode == 4 {
		desc, sm = &vStatusWireDesc.Streams[2], "/verif.StatusWire/B"
	}
	cs, err := env.cc.NewStream(ctx, desc, sm)
	if err != nil {
		return err
	}
	if err := cs.SendMsg(&emptypb.Empty{}); err != nil && err != io.EOF {
		return err
	}
	cs.CloseSend()
	if mode >= 3 {
		cs.Header() // waits for the (trailers-only) response; the status must still come from RecvMsg
	}
	for {
		err := cs.RecvMsg(&emptypb.Empty{})
		if err == io.EOF {
			return nil
		}
		if err != nil {
			return err
		}
	}
}

func vStatusWireExec(cfg []int64, ops [][]int64) ([][]int64, bool, []string) {
	env := vStatusWireStart()
	defer env.stop()
	var obs [][]int64
	nt := false
	tagStress := false
	for _, op := range ops {
		var o []int64
		func() {
			if len(op) == 4 && op[0] == 2 && op[1] >= 0 && op[2] >= 0 && op[1] <= 256 && op[2] <= 100000 && op[3] >= 1 && op[3] <= 0xffffffff {
				o = []int64{vStatusWireStress(env, int(op[1]), int(op[2]), uint32(op[3]))}
				tagStress = true
				return
			}
			if len(op) < 4 || op[0] != 1 || op[1] < 0 || op[1] > 4 || op[2] < 0 || op[2] > 0xffffffff {
				return
			}
			mode, code := op[1], uint32(op[2])
			msg, w, ok := vStatusWireStr(op[3:])
			if !ok || len(w) == 0 || w[0] < 0 {
				return
			}
			n := int(w[0])
			w = w[1:]
			var anys []*anypb.Any
			for i := 0; i < n; i++ {
				tu, r, ok := vStatusWireStr(w)
				if !ok {
					return
				}
				val, r2, ok := vStatusWireStr(r)
				if !ok {
					return
				}
				anys = append(anys, &anypb.Any{TypeUrl: tu, Value: []byte(val)})
				w = r2
			}
			if len(w) != 0 {
				return
			}
			env.cur = status.FromProto(&spb.Status{Code: int32(code), Message: msg, Details: anys}).Err()
			env.send = mode == 1
			err := vStatusWireCall(env, mode)
			st := status.Convert(err)
			o = vCat([]int64{vB(err == nil), int64(uint32(st.Code()))}, vBytes([]byte(st.Message())))
			ds := st.Proto().GetDetails()
			o = append(o, int64(len(ds)))
			for _, d := range ds {
				o = vCat(o, vBytes([]byte(d.GetTypeUrl())), vBytes(d.GetValue()))
			}
			if code != 0 && (n > 0 || len(msg) > 0) {
				nt = true
			}
		}()
		obs = append(obs, o)
	}
	var tags []string
	if tagStress {
		tags = []string{"stress"}
	}
	return obs, nt, tags
}

// ---- generators ----

func vStatusWireOp(mode int64, code int64, msg string, details ...string) []int64 {
	w := vCat([]int64{1, mode, code}, vBytes([]byte(msg)), []int64{int64(len(details) / 2)})
	for _, d := range details {
		w = append(w, vBytes([]byte(d))...)
	}
	return w
}

var vStatusWireMsgs = []string{"\uFFFD", "bad input \uFFFD near offset 7", "\uFFFD\uFFFDx\uFFFD", "", "ok", "two words", "100% sure", "a\nb\tc", "café 世界 \U0001F600", "%41%zz%", "\x00\x7f", "trailing %", "~!@#$^&*()", strings400}

const strings400 = "0123456789012345678901234567890123456789012345678901234567890123456789012345678901234567890123456789" +
	"0123456789012345678901234567890123456789012345678901234567890123456789012345678901234567890123456789"

var vStatusWireBadMsgs = []string{"\xff", "ab\xc3", "\xe4\xb8", "x\xed\xa0\x80y", "\xc0\xaf", "ok\xf8ok"}

func vStatusWireRandDetails(r *vRand) []string {
	n := r.PickInt(0, 0, 1, 1, 2, 3)
	var ds []string
	for i := 0; i < n; i++ {
		tu := []string{"type.googleapis.com/x.Y", "", "t", "café"}[r.Intn(4)]
		m := r.Intn(6)
		b := make([]byte, m)
		for j := range b {
			b[j] = byte(r.Intn(256))
		}
		ds = append(ds, tu, string(b))
	}
	return ds
}

func vStatusWireGen(r *vRand, tier string, idx int) ([]int64, [][]int64) {
	var ops [][]int64
	if idx == 4 || (tier == "thorough" && idx%100 == 4) {
		// stress: many short concurrent RPCs with a non-OK status, every one must return it
		g, n := int64(16), int64(250)
		if tier == "thorough" {
			n = 1500
		}
		return nil, [][]int64{{2, g, n, 7}, vStatusWireOp(0, 3, "after"), {2, 1, n, 14}, {2, 4, n, 16}}
	}
	if idx == 5 || (tier == "thorough" && idx%100 == 5) {
		// trailer blocks above one HTTP/2 frame (16384 bytes after HPACK): HEADERS + CONTINUATION
		tilde := strings.Repeat("~", 12000) // '~' has a 13-bit Huffman code: about 19.5 KB on the wire
		big := make([]byte, 20000)
		for i := range big {
			big[i] = byte(r.Intn(256))
		}
		ops = [][]int64{vStatusWireOp(0, 5, tilde), vStatusWireOp(1, 9, "m", "t", string(big)), vStatusWireOp(2, 13, tilde, "t", "v")}
		if tier == "thorough" {
			huge := make([]byte, 70000)
			for i := range huge {
				huge[i] = byte(r.Intn(256))
			}
			ops = append(ops, vStatusWireOp(0, 3, "m", "t", string(huge)), vStatusWireOp(1, 7, tilde+tilde))
		}
		return nil, ops
	}
	if idx == 6 || (tier == "thorough" && idx%100 == 6) {
		// trailers-only non-OK response, Header() before RecvMsg: the status already received must win
		// over the stream's cancelled context (a random select in the transport: sampled 40 times)
		for i := 0; i < 40; i++ {
			ops = append(ops, vStatusWireOp(3+int64(i%2), int64(1+i%16), "hdr first", "t", "v"))
		}
		return nil, ops
	}
	switch idx {
	case 0: // finding replay: a code above 2^31-1
		return nil, [][]int64{vStatusWireOp(0, 1<<31, "big")}
	case 1: // finding replay: details + invalid UTF-8 message
		return nil, [][]int64{vStatusWireOp(0, 5, "bad\xff", "t", "v")}
	case 2: // every code 0..17 and the boundaries, each mode
		for _, c := range []int64{0, 1, 2, 3, 4, 5, 6, 7, 8, 9, 10, 11, 12, 13, 14, 15, 16, 17, 99, 1<<31 - 1} {
			for m := int64(0); m < 3; m++ {
				ops = append(ops, vStatusWireOp(m, c, "m", "t", "v"))
			}
		}
		return nil, ops
	case 3: // every message class, with and without details
		for _, s := range vStatusWireMsgs {
			ops = append(ops, vStatusWireOp(0, 2, s), vStatusWireOp(1, 3, s, "t", "\x00\xff"), vStatusWireOp(2, 0, s, "t", "v"))
		}
		for _, s := range vStatusWireBadMsgs {
			ops = append(ops, vStatusWireOp(0, 2, s), vStatusWireOp(1, 2, s), vStatusWireOp(2, 2, s))
		}
		return nil, ops
	}
	for i := 0; i < 8; i++ {
		code := r.PickI64(0, 1, 2, 3, 5, 13, 14, 16, 17, 1000, 1<<31-1)
		if r.Chance(60) {
			code = r.I64n(17)
		}
		ds := vStatusWireRandDetails(r)
		var msg string
		if len(ds) == 0 && r.Chance(25) {
			msg = vStatusWireBadMsgs[r.Intn(len(vStatusWireBadMsgs))]
		} else if r.Chance(70) {
			msg = vStatusWireMsgs[r.Intn(len(vStatusWireMsgs))]
		} else {
			n := r.Intn(8)
			rs := make([]rune, n)
			for j := range rs {
				rs[j] = rune(r.PickInt(0x20, 0x25, 0x7e, 0x7f, 0xe9, 0x7ff, 0x800, 0xfffd, 0xfffd, 0xffff, 0x10000, 0x10ffff, 0x41))
			}
			msg = string(rs)
		}
		ops = append(ops, vStatusWireOp(int64(r.Intn(5)), code, msg, ds...))
	}
	return nil, ops
}

func TestVerif_StatusWire(t *testing.T) {
	vRunDriver(t, "StatusWire", 30, 600, vStatusWireGen, vStatusWireExec)
}
