//go:build verif

package deadline_test

// C22 driver (engine Deadline): real ClientConns and Servers over net.Pipe in a synctest
// bubble (virtual time).  Every op drives one RPC with timeout d to block at one of the five
// blocking points and then lets its context become done:
//
//	op [point, kind, t, d]   point 1 pick (the dialer never completes), 2 stream quota
//	     (MAX_CONCURRENT_STREAMS=1 held by another RPC), 3 flow control (the handler does not
//	     read; 16 KiB messages until SendMsg blocks), 4 Header() (the handler sends nothing),
//	     5 RecvMsg (the handler sends its header only), 6 a UNARY RPC (cc.Invoke) in the middle
//	     of a response message (the peer is a scripted raw HTTP/2 endpoint that sends response
//	     headers, the 5-byte prefix announcing 100 bytes and 10 of them, then stalls);
//	     7 the back-off sleep before a retry (channel with a retry policy for UNAVAILABLE and a
//	     2*10^8 s back-off; the handler of attempt 1 answers trailers-only UNAVAILABLE; should
//	     the deadline outlast the back-off, the handler of attempt 2 sends nothing, point 4);
//	     kind 1 cancel after t ns, 2 let the deadline d ns pass
//	obs [status code, ns between the context becoming done and the blocked call returning,
//	     1 iff a handler ran, handler deadline - client deadline (ns), 1 iff the handler's
//	     context was done once the client call had returned (point 6: 1 iff the raw peer had
//	     received RST_STREAM for the RPC by then)]
//
// A point-6 RPC that is still blocked one virtual second after its context ended is released
// by the peer (rest of the message + OK trailers); its latency and status then show the hang.

import (
	"bytes"
	"context"
	"encoding/binary"
	"errors"
	"io"
	"net"
	"sync"
	"testing"
	"testing/synctest"
	"time"

	"golang.org/x/net/http2"
	"golang.org/x/net/http2/hpack"
	"google.golang.org/grpc"
	"google.golang.org/grpc/codes"
	"google.golang.org/grpc/credentials/insecure"
	"google.golang.org/grpc/encoding"
	"google.golang.org/grpc/status"
)

var vDeadlineT *testing.T

type vDeadlineCodec struct{}

func (vDeadlineCodec) Marshal(v any) ([]byte, error) { return *(v.(*[]byte)), nil }
func (vDeadlineCodec) Unmarshal(d []byte, v any) error {
	*(v.(*[]byte)) = append([]byte(nil), d...)
	return nil
}
func (vDeadlineCodec) Name() string { return "verifraw22" }

func init() { encoding.RegisterCodec(vDeadlineCodec{}) }

type vDeadlineLis struct {
	ch   chan net.Conn
	done chan struct{}
	once sync.Once
}

func (l *vDeadlineLis) Accept() (net.Conn, error) {
	select {
	case c := <-l.ch:
		return c, nil
	case <-l.done:
		return nil, errors.New("verif: listener closed")
	}
}
func (l *vDeadlineLis) Close() error   { l.once.Do(func() { close(l.done) }); return nil }
func (l *vDeadlineLis) Addr() net.Addr { return &net.UnixAddr{Name: "verif", Net: "unix"} }

// what the handler of the RPC under test saw
type vDeadlineSeen struct {
	mu       sync.Mutex
	ran      bool
	deadline time.Time
	hasDl    bool
	ctx      context.Context
}

type vDeadlineEnv struct {
	mu      sync.Mutex
	mode    int64 // behaviour of the next handler: 3 do not read, 4 send nothing, 5 send header only, 9 holder
	seen    *vDeadlineSeen
	release chan struct{}
}

func (e *vDeadlineEnv) handler(_ any, stream grpc.ServerStream) error {
	e.mu.Lock()
	mode, seen, rel := e.mode, e.seen, e.release
	e.mu.Unlock()
	first := false
	if mode != 9 && seen != nil {
		seen.mu.Lock()
		if !seen.ran {
			first = true
			seen.ran = true
			seen.deadline, seen.hasDl = stream.Context().Deadline()
			seen.ctx = stream.Context()
		}
		seen.mu.Unlock()
	}
	if mode == 7 && first {
		// trailers-only UNAVAILABLE: the client's retry policy backs off before attempt 2
		// (a later attempt - only when the deadline outlasts the back-off - sends nothing)
		return status.Error(codes.Unavailable, "verif: retryable failure")
	}
	if mode == 5 {
		stream.SendHeader(nil)
	}
	<-rel
	return nil
}

func vDeadlinePair(env *vDeadlineEnv, opts ...grpc.ServerOption) (*grpc.ClientConn, func()) {
	return vDeadlinePairSC(env, "", opts...)
}

// retry policy of channel E (blocking point 7): UNAVAILABLE is retried after a back-off of
// 2*10^8 s (x 0.8..1.2 jitter), longer than every deadline the generator uses but the 10^8 min one
const vDeadlineRetrySC = `{"methodConfig":[{"name":[{"service":"verif.S"}],"retryPolicy":{"maxAttempts":3,` +
	`"initialBackoff":"200000000s","maxBackoff":"200000000s","backoffMultiplier":1,"retryableStatusCodes":["UNAVAILABLE"]}}]}`

func vDeadlinePairSC(env *vDeadlineEnv, sc string, opts ...grpc.ServerOption) (*grpc.ClientConn, func()) {
	lis := &vDeadlineLis{ch: make(chan net.Conn), done: make(chan struct{})}
	srv := grpc.NewServer(append(opts, grpc.UnknownServiceHandler(env.handler))...)
	go srv.Serve(lis)
	dialer := func(ctx context.Context, _ string) (net.Conn, error) {
		c1, c2 := net.Pipe()
		select {
		case lis.ch <- c2:
			return c1, nil
		case <-ctx.Done():
			c1.Close()
			c2.Close()
			return nil, ctx.Err()
		}
	}
	dopts := []grpc.DialOption{grpc.WithTransportCredentials(insecure.NewCredentials()), grpc.WithContextDialer(dialer)}
	if sc != "" {
		dopts = append(dopts, grpc.WithDefaultServiceConfig(sc))
	}
	cc, err := grpc.NewClient("passthrough:///verif", dopts...)
	if err != nil {
		panic("verif: NewClient: " + err.Error())
	}
	cc.Connect()
	return cc, func() { cc.Close(); srv.Stop(); lis.Close() }
}

// vDeadlineRaw is the scripted raw HTTP/2 peer of blocking point 6.
type vDeadlineRaw struct {
	mu   sync.Mutex
	fr   *http2.Framer // of the connection that carried the last request
	last uint32        // stream id of the last request
	rst  map[uint32]bool
}

func (rs *vDeadlineRaw) serve(c net.Conn) {
	defer c.Close()
	preface := make([]byte, len(http2.ClientPreface))
	if _, err := io.ReadFull(c, preface); err != nil {
		return
	}
	fr := http2.NewFramer(c, c)
	rs.mu.Lock()
	err := fr.WriteSettings()
	rs.mu.Unlock()
	if err != nil {
		return
	}
	for {
		f, err := fr.ReadFrame()
		if err != nil {
			return
		}
		rs.mu.Lock()
		switch f := f.(type) {
		case *http2.SettingsFrame:
			if !f.IsAck() {
				fr.WriteSettingsAck()
			}
		case *http2.PingFrame:
			if !f.IsAck() {
				fr.WritePing(true, f.Data)
			}
		case *http2.RSTStreamFrame:
			rs.rst[f.StreamID] = true
		case *http2.HeadersFrame:
			if f.HeadersEnded() {
				var hb bytes.Buffer
				enc := hpack.NewEncoder(&hb)
				enc.WriteField(hpack.HeaderField{Name: ":status", Value: "200"})
				enc.WriteField(hpack.HeaderField{Name: "content-type", Value: "application/grpc+verifraw22"})
				fr.WriteHeaders(http2.HeadersFrameParam{StreamID: f.StreamID, BlockFragment: hb.Bytes(), EndHeaders: true})
				msg := make([]byte, 5+10)
				binary.BigEndian.PutUint32(msg[1:5], 100)
				fr.WriteData(f.StreamID, false, msg)
				rs.fr, rs.last = fr, f.StreamID
			}
		}
		rs.mu.Unlock()
	}
}

// finish the stalled response of the last request: rest of the payload and OK trailers
func (rs *vDeadlineRaw) release() {
	rs.mu.Lock()
	defer rs.mu.Unlock()
	if rs.fr == nil {
		return
	}
	rs.fr.WriteData(rs.last, false, make([]byte, 90))
	var hb bytes.Buffer
	enc := hpack.NewEncoder(&hb)
	enc.WriteField(hpack.HeaderField{Name: "grpc-status", Value: "0"})
	rs.fr.WriteHeaders(http2.HeadersFrameParam{StreamID: rs.last, BlockFragment: hb.Bytes(), EndHeaders: true, EndStream: true})
}

func (rs *vDeadlineRaw) gotRST() bool {
	rs.mu.Lock()
	defer rs.mu.Unlock()
	return rs.fr != nil && rs.rst[rs.last]
}

func vDeadlineExecIn(ops [][]int64) ([][]int64, bool, []string) {
	rel := make(chan struct{})
	env := &vDeadlineEnv{release: rel}
	// A: ordinary server with static 64 KiB stream windows (no BDP growth).  NOTE: with
	// InitialConnWindowSize(1<<20) instead, the first BDP update makes the server send
	// WINDOW_UPDATE(0, 131070-1048576 mod 2^32) and lose the connection (reported separately).
	ccA, closeA := vDeadlinePair(env, grpc.StaticStreamWindowSize(65535))
	// B: one concurrent stream, held for the whole case
	ccB, closeB := vDeadlinePair(env, grpc.MaxConcurrentStreams(1))
	// E: retry policy with a very long back-off (blocking point 7)
	ccE, closeE := vDeadlinePairSC(env, vDeadlineRetrySC)
	// C: a channel whose dial never completes
	ccC, err := grpc.NewClient("passthrough:///never", grpc.WithTransportCredentials(insecure.NewCredentials()),
		grpc.WithContextDialer(func(ctx context.Context, _ string) (net.Conn, error) { <-ctx.Done(); return nil, ctx.Err() }))
	if err != nil {
		panic("verif: NewClient: " + err.Error())
	}
	ccC.Connect()
	// D: the raw HTTP/2 peer of point 6
	raw := &vDeadlineRaw{rst: map[uint32]bool{}}
	ccD, err := grpc.NewClient("passthrough:///raw", grpc.WithTransportCredentials(insecure.NewCredentials()),
		grpc.WithContextDialer(func(ctx context.Context, _ string) (net.Conn, error) {
			c1, c2 := net.Pipe()
			go raw.serve(c2)
			return c1, nil
		}))
	if err != nil {
		panic("verif: NewClient: " + err.Error())
	}
	ccD.Connect()
	synctest.Wait()
	desc := &grpc.StreamDesc{StreamName: "M", ClientStreams: true, ServerStreams: true}
	copt := grpc.CallContentSubtype("verifraw22")
	// the holder RPC on B
	env.mu.Lock()
	env.mode = 9
	env.mu.Unlock()
	hctx, hcancel := context.WithCancel(context.Background())
	if _, err := ccB.NewStream(hctx, desc, "/verif.S/Hold", copt); err != nil {
		panic("verif: holder: " + err.Error())
	}
	synctest.Wait()
	defer func() {
		close(rel)
		hcancel()
		ccC.Close()
		ccD.Close()
		closeA()
		closeB()
		closeE()
		synctest.Wait()
	}()

	var out [][]int64
	points := map[int64]bool{}
	for _, op := range ops {
		if len(op) != 4 || op[0] < 1 || op[0] > 7 || (op[1] != 1 && op[1] != 2) || op[2] <= 0 || op[2] >= op[3] {
			continue
		}
		point, kind, t, d := op[0], op[1], time.Duration(op[2]), time.Duration(op[3])
		seen := &vDeadlineSeen{}
		env.mu.Lock()
		env.mode, env.seen = point, seen
		env.mu.Unlock()
		start := time.Now()
		ctx, cancel := context.WithTimeout(context.Background(), d)
		clientDl, _ := ctx.Deadline()
		var rmu sync.Mutex
		var retAt time.Time
		var code int64
		fin := make(chan struct{})
		go func() {
			defer close(fin)
			var err error
			cc := ccA
			switch point {
			case 1:
				cc = ccC
			case 2:
				cc = ccB
			case 7:
				cc = ccE
			}
			if point == 6 {
				var req, resp []byte
				err = ccD.Invoke(ctx, "/verif.S/U", &req, &resp, copt, grpc.WaitForReady(true))
				rmu.Lock()
				retAt = time.Now()
				code = int64(status.Code(err))
				rmu.Unlock()
				return
			}
			var st grpc.ClientStream
			st, err = cc.NewStream(ctx, desc, "/verif.S/M", copt, grpc.WaitForReady(true))
			if err == nil {
				switch point {
				case 3:
					b := make([]byte, 16384)
					for i := 0; i < 64 && err == nil; i++ {
						err = st.SendMsg(&b)
					}
					if err == io.EOF {
						var r []byte
						err = st.RecvMsg(&r)
					}
				case 4:
					_, err = st.Header()
					if err == nil { // Header() reports the failure through RecvMsg
						var r []byte
						err = st.RecvMsg(&r)
					}
				default:
					var r []byte
					err = st.RecvMsg(&r)
				}
			}
			rmu.Lock()
			retAt = time.Now()
			code = int64(status.Code(err))
			rmu.Unlock()
		}()
		synctest.Wait()
		expect := d
		if kind == 1 {
			time.Sleep(t)
			cancel()
			expect = t
		}
		if point == 6 {
			select {
			case <-fin:
			case <-time.After(time.Until(start.Add(expect)) + time.Second):
				raw.release()
				<-fin
			}
		} else {
			<-fin
		}
		synctest.Wait()
		rmu.Lock()
		lat := int64(retAt.Sub(start) - expect)
		c := code
		rmu.Unlock()
		seen.mu.Lock()
		ran, delta, hcan := int64(0), int64(0), int64(0)
		if seen.ran {
			ran = 1
			if seen.hasDl {
				delta = int64(seen.deadline.Sub(clientDl))
			} else {
				delta = -1
			}
			if seen.ctx.Err() != nil {
				hcan = 1
			}
		}
		seen.mu.Unlock()
		if point == 6 && raw.gotRST() {
			hcan = 1
		}
		cancel()
		out = append(out, []int64{c, lat, ran, delta, hcan})
		points[point] = true
	}
	return out, len(points) >= 3, nil
}

func vDeadlineExec(cfg []int64, ops [][]int64) (obs [][]int64, nt bool, tags []string) {
	synctest.Test(vDeadlineT, func(t *testing.T) {
		obs, nt, tags = vDeadlineExecIn(ops)
	})
	return
}

func vDeadlineGen(r *vRand, tier string, idx int) ([]int64, [][]int64) {
	var ops [][]int64
	ds := []int64{50000000, 1000000000, 1234567, 123456789123, 99999999, 100000001, 3600000000000, 7000000001, 60000000001}
	// remaining times of exactly 10^8 ns / us / ms / s / min: the largest values that do NOT fit
	// the 8 digits of grpc-timeout in their unit (virtual time makes the remaining time at send
	// exact).  The last two only with a cancellation (the virtual clock cannot run that far).
	tens := []int64{100000000, 100000000000, 100000000000000, 100000000000000000, 6000000000000000000}
	if idx == 0 {
		for p := int64(1); p <= 7; p++ {
			for k := int64(1); k <= 2; k++ {
				ops = append(ops, []int64{p, k, 1000000, ds[(p+k)%int64(len(ds))]})
			}
		}
		return nil, ops
	}
	if idx == 1 {
		for i, d := range tens {
			for p := int64(3); p <= 7; p++ {
				k := int64(2)
				if i >= 3 || (int64(i)+p)%3 == 0 {
					k = 1
				}
				ops = append(ops, []int64{p, k, 1000000, d})
			}
		}
		return nil, ops
	}
	n := 6 + r.Intn(6)
	for i := 0; i < n; i++ {
		d := ds[r.Intn(len(ds))]
		k := int64(1 + r.Intn(2))
		if r.Chance(40) {
			d = 1000000 + r.I64n(200000000000)
		} else if r.Chance(30) {
			j := r.Intn(len(tens))
			d = tens[j]
			if j >= 3 {
				k = 1
			}
		}
		t := 1 + r.I64n(min(d-1, 20000000))
		ops = append(ops, []int64{int64(1 + r.Intn(7)), k, t, d})
	}
	return nil, ops
}

func TestVerif_Deadline(t *testing.T) {
	vDeadlineT = t
	vRunDriver(t, "Deadline", 20, 300, vDeadlineGen, vDeadlineExec)
}
