//go:build verif

// C43 driver (engine XdsWatch): complete watcher callback histories of up to six watchers
// of the real XDSClient against the reference model coq/model/XdsWatch.v.  Harness: ads_test.go.
//
// One server (cfg [1]: it has the ignore_resource_deletion feature), type t0 requires all
// resources in every SotW response, t1 does not; names r0..r2; watchers 0..5 (several may
// watch the same resource); a permanent anchor watch on (t3, r0) keeps the channel alive and
// is not reported.  Watchers call done at once.
//
// ops [1,w,t,n] watch   [2,w] cancel   [3] let NewStream succeed   [4] let NewStream fail
//     [5,t,ver,nonce,(name,kind,content)*] response   [6] stream error   [8] sleep past the watch expiry
// obs per op: [applied, number of request words]; one word per watcher 0..5: [w, (kind, arg)*] (1 ResourceChanged content,
//     2 ResourceError e, 3 AmbientError e; e = 1 connection, 2 does not exist, 1000+c NACK);
//     then the requests of types 0/1 sent during the op, sorted by type: [100, t, names...]
package ads

import (
	"errors"
	"testing"
	"testing/synctest"
	"time"

	"google.golang.org/grpc/internal/xds/clients/xdsclient"
)

func vXdsWatchExec(cfg []int64, ops [][]int64) (obs [][]int64, nontrivial bool, tags []string) {
	ign := len(cfg) == 1 && cfg[0] == 1
	seen := map[string]int{}
	synctest.Test(vADST, func(t *testing.T) {
		feat := xdsclient.ServerFeature(0)
		if ign {
			feat = xdsclient.ServerFeatureIgnoreResourceDeletion
		}
		h := vADSNewHarness([]bool{true, false, false, false}, []xdsclient.ServerFeature{feat}, false)
		defer h.close()
		h.watch(99, 3, 0)
		synctest.Wait()
		in := func(x, lo, hi int64) bool { return x >= lo && x <= hi }
		for i, op := range ops {
			h.beginOp()
			applied := false
			code := int64(0)
			if len(op) > 0 {
				code = op[0]
			}
			switch {
			case code == 1 && len(op) == 4 && in(op[1], 0, 5) && in(op[2], 0, 1) && in(op[3], 0, 2):
				applied = h.watch(op[1], op[2], op[3])
			case code == 2 && len(op) == 2 && in(op[1], 0, 5):
				applied = h.unwatch(op[1])
			case code == 3 && len(op) == 1:
				applied = h.gate(0, false)
			case code == 4 && len(op) == 1:
				applied = h.gate(0, true)
				if applied {
					synctest.Wait()
					time.Sleep(vADSSettle)
				}
			case code == 5 && len(op) >= 4 && in(op[1], 0, 1) && op[2] >= 0 && op[3] >= 0:
				ok := true
				for j := 4; j < len(op); j++ {
					if !in(op[j], 0, 255) {
						ok = false
					}
				}
				if ok {
					applied = h.response(0, op[1:], i+1)
				}
			case code == 6 && len(op) == 1:
				applied = h.deliver(0, nil, errors.New("vads: stream broken"))
				if applied {
					synctest.Wait()
					time.Sleep(vADSSettle)
				}
			case code == 8 && len(op) == 1:
				time.Sleep(vADSExpire)
				applied = true
			}
			synctest.Wait()
			reqs, _ := h.takeReqs()
			nreq := int64(0)
			for _, r := range reqs {
				if r.typ == 0 || r.typ == 1 {
					nreq++
				}
			}
			obs = append(obs, []int64{vB(applied), nreq})
			h.mu.Lock()
			for w := int64(0); w < 6; w++ {
				obs = append(obs, vCat([]int64{w}, h.cb[w]))
				for j := 0; j+1 < len(h.cb[w]); j += 2 {
					k, a := h.cb[w][j], h.cb[w][j+1]
					switch {
					case k == 1 && code == 1:
						seen["replay"]++
					case k == 1:
						seen["changed"]++
					case k == 3 && a >= 1000:
						seen["ambient-nack"]++
					case k == 2 && a >= 1000:
						seen["resource-nack"]++
					case a == 2 && code == 8:
						seen["expired"]++
					case a == 2:
						seen["removed"]++
					case a == 1:
						seen["conn"]++
					}
				}
			}
			h.mu.Unlock()
			for _, r := range reqs {
				if r.typ == 0 || r.typ == 1 {
					obs = append(obs, vCat([]int64{100, r.typ}, r.names))
				}
			}
		}
	})
	for k := range seen {
		tags = append(tags, k)
	}
	nontrivial = seen["changed"] > 0 && seen["replay"] > 0 && (seen["ambient-nack"] > 0 || seen["resource-nack"] > 0) &&
		(seen["removed"] > 0 || seen["expired"] > 0 || ign)
	return
}

func vXdsWatchGen(r *vRand, tier string, idx int) (cfg []int64, ops [][]int64) {
	cfg = []int64{int64(idx % 4 / 3)} // every fourth case ignores deletions
	n := 40 + r.Intn(80)
	ver := int64(0)
	ops = append(ops, []int64{3})
	contents := []int64{7, 7, 8, 9}
	// scenario "stale expiry timer": watch (request sent, timer started), cancel, watch the same
	// resource again, the server delivers it, then sleep past the FIRST watch's expiry: nothing may be
	// reported.  Right after the first stream in every third case, at a random position in half of the others.
	scenario := func() {
		w, t, nm := int64(r.Intn(6)), int64(r.Intn(2)), int64(r.Intn(3))
		ver++
		ops = append(ops, []int64{3}, []int64{2, w}, []int64{1, w, t, nm}, []int64{2, w}, []int64{1, w, t, nm},
			[]int64{5, t, ver, ver, nm, 1, contents[r.Intn(len(contents))]}, []int64{8})
	}
	at := -1
	if idx%3 == 1 {
		scenario()
	} else if r.Chance(50) {
		at = 8 + r.Intn(n-8)
	}
	for len(ops) < n {
		if at >= 0 && len(ops) >= at {
			at = -1
			scenario()
			continue
		}
		switch x := r.Intn(100); {
		case x < 20:
			ops = append(ops, []int64{1, int64(r.Intn(6)), int64(r.Intn(2)), int64(r.Intn(3))})
		case x < 30:
			ops = append(ops, []int64{2, int64(r.Intn(6))})
		case x < 40:
			ops = append(ops, []int64{3})
		case x < 44:
			ops = append(ops, []int64{4})
		case x < 84:
			ver++
			op := []int64{5, int64(r.Intn(2)), ver, ver}
			for k := r.Intn(4); k > 0; k-- {
				kind := int64(1)
				if r.Chance(25) {
					kind = r.PickI64(0, 0, 0, 2)
				}
				op = append(op, int64(r.Intn(3)), kind, contents[r.Intn(len(contents))])
			}
			ops = append(ops, op)
		case x < 93:
			ops = append(ops, []int64{6})
		default:
			ops = append(ops, []int64{8})
		}
	}
	return
}

func TestVerif_XdsWatch(t *testing.T) {
	vADST = t
	vRunDriver(t, "XdsWatch", 40, 800, vXdsWatchGen, vXdsWatchExec)
}
