//go:build verif

// Shared harness for C42 (ADS), C43 (XdsWatch) and C44 (Fallback): the real
// internal/xds/clients/xdsclient.XDSClient is driven through its exported API with a
// scripted clients.TransportBuilder inside a testing/synctest bubble.  Every op is run to
// quiescence (synctest.Wait) before the next one, so a case is a deterministic function of
// (cfg, ops); everything whose order depends on Go map iteration is canonicalised (names
// sorted, requests of one op sorted by server and type, callbacks logged per watcher).
//
// Scripted server s (ServerURI "s<s>"):
//   - Transport.NewStream blocks at a gate until the driver lets it succeed or fail;
//   - Stream.Send decodes and records the DiscoveryRequest (fails once the stream is broken);
//   - Stream.Recv blocks until the driver delivers a response or an error.
//
// Resource types: URL "t<i>"; resources "r<n>"; a resource travels as an Any whose value is
// [name, kind, content(8 bytes)]: kind 1 = valid, 0 = invalid but named, 2 = undecodable.
//
// This file also holds the C42 driver (engine ADS); see vADSExec for its op/obs format.
package ads

import (
	"context"
	"encoding/binary"
	"errors"
	"fmt"
	"io"
	"sort"
	"strconv"
	"strings"
	"sync"
	"testing"
	"testing/synctest"
	"time"

	v3discoverypb "github.com/envoyproxy/go-control-plane/envoy/service/discovery/v3"
	"google.golang.org/grpc/internal/xds/clients"
	"google.golang.org/grpc/internal/xds/clients/xdsclient"
	"google.golang.org/protobuf/proto"
	"google.golang.org/protobuf/types/known/anypb"
)

var vADST *testing.T

const (
	vADSSettle = 150 * time.Second   // longer than the longest stream back-off (120s * 1.2)
	vADSExpiry = 1000 * time.Hour    // Config.WatchExpiryTimeout
	vADSExpire = vADSExpiry + time.Hour
)

// ---- resources and decoder

type vADSData struct {
	name    int64
	content int64
	raw     []byte
}

func (d *vADSData) Equal(o xdsclient.ResourceData) bool {
	od, ok := o.(*vADSData)
	return ok && od != nil && od.content == d.content
}
func (d *vADSData) Bytes() []byte { return d.raw }

type vADSDecoder struct{}

func (vADSDecoder) Decode(r *xdsclient.AnyProto, _ xdsclient.DecodeOptions) (*xdsclient.DecodeResult, error) {
	v := r.ToAny().GetValue()
	if len(v) != 10 {
		return nil, errors.New("vbadlen")
	}
	name, kind, content := int64(v[0]), v[1], int64(binary.BigEndian.Uint64(v[2:]))
	switch kind {
	case 1:
		return &xdsclient.DecodeResult{Name: "r" + strconv.FormatInt(name, 10), Resource: &vADSData{name: name, content: content, raw: v}}, nil
	case 0:
		return &xdsclient.DecodeResult{Name: "r" + strconv.FormatInt(name, 10)}, fmt.Errorf("vbad%d.", content)
	}
	return nil, fmt.Errorf("vbadtop%d.", content)
}

func vADSAny(typ int64, name, kind, content int64) *anypb.Any {
	v := make([]byte, 10)
	v[0], v[1] = byte(name), byte(kind)
	binary.BigEndian.PutUint64(v[2:], uint64(content))
	return &anypb.Any{TypeUrl: "t" + strconv.FormatInt(typ, 10), Value: v}
}

// ---- scripted transport

type vADSReq struct {
	srv, stream, typ, ver, nonce, errd, node int64
	names                                  []int64
}

type vADSMsg struct {
	b   []byte
	err error
}

type vADSGate struct{ fail bool }

type vADSStream struct {
	tr     *vADSTransport
	id     int64
	ctx    context.Context
	in     chan vADSMsg
	broken bool // guarded by h.mu
}

type vADSTransport struct {
	h       *vADSHarness
	srv     int64
	gate    chan vADSGate
	atGate  bool        // guarded by h.mu
	waiting *vADSStream // stream whose Recv is blocked, guarded by h.mu
	live    *vADSStream // latest stream created, guarded by h.mu
	closed  bool
}

type vADSHarness struct {
	mu       sync.Mutex
	client   *xdsclient.XDSClient
	nsrv     int64
	cur      []*vADSTransport // latest transport built per server (nil before / after Close)
	nstreams []int64
	reqs     []vADSReq
	built    []int64 // servers whose transport was built during this op
	closedEv []int64 // servers whose transport was closed during this op
	slow     bool
	held     []func()
	heldNow  int64 // done callbacks captured since the op began
	cb       map[int64][]int64 // watcher id -> flat callback log of this op [kind, arg]...
	cancels  map[int64]func()
	salt     int64 // non-zero: contents are made unique per op (C42)
}

type vADSBuilder struct{ h *vADSHarness }

func (b vADSBuilder) Build(si clients.ServerIdentifier) (clients.Transport, error) {
	h := b.h
	s, err := strconv.ParseInt(strings.TrimPrefix(si.ServerURI, "s"), 10, 64)
	if err != nil || s < 0 || s >= h.nsrv {
		return nil, errors.New("vads: unknown server")
	}
	tr := &vADSTransport{h: h, srv: s, gate: make(chan vADSGate)}
	h.mu.Lock()
	h.cur[s] = tr
	h.built = append(h.built, s)
	h.mu.Unlock()
	return tr, nil
}

func (tr *vADSTransport) NewStream(ctx context.Context, _ string) (clients.Stream, error) {
	h := tr.h
	h.mu.Lock()
	tr.atGate = true
	h.mu.Unlock()
	select {
	case g := <-tr.gate:
		h.mu.Lock()
		defer h.mu.Unlock()
		tr.atGate = false
		if g.fail {
			return nil, errors.New("vads: stream creation failed")
		}
		h.nstreams[tr.srv]++
		st := &vADSStream{tr: tr, id: h.nstreams[tr.srv], ctx: ctx, in: make(chan vADSMsg)}
		tr.live = st
		return st, nil
	case <-ctx.Done():
		h.mu.Lock()
		tr.atGate = false
		h.mu.Unlock()
		return nil, ctx.Err()
	}
}

func (tr *vADSTransport) Close() {
	h := tr.h
	h.mu.Lock()
	tr.closed = true
	if h.cur[tr.srv] == tr {
		h.cur[tr.srv] = nil
	}
	h.closedEv = append(h.closedEv, tr.srv)
	h.mu.Unlock()
}

func vADSNum(s string, prefix string) int64 {
	if s == "" {
		return 0
	}
	v, err := strconv.ParseInt(strings.TrimPrefix(s, prefix), 10, 64)
	if err != nil {
		return -1
	}
	return v
}

func (st *vADSStream) Send(b []byte) error {
	h := st.tr.h
	h.mu.Lock()
	defer h.mu.Unlock()
	if st.broken || st.tr.closed {
		return io.EOF
	}
	var req v3discoverypb.DiscoveryRequest
	if err := proto.Unmarshal(b, &req); err != nil {
		return err
	}
	r := vADSReq{srv: st.tr.srv, stream: st.id, typ: vADSNum(req.GetTypeUrl(), "t"),
		ver: vADSNum(req.GetVersionInfo(), "v"), nonce: vADSNum(req.GetResponseNonce(), "n")}
	if req.GetNode() != nil && req.GetNode().GetId() == "vnode" {
		r.node = 1
	}
	if req.GetErrorDetail() != nil && req.GetErrorDetail().GetMessage() != "" {
		r.errd = 1
	}
	for _, n := range req.GetResourceNames() {
		if strings.HasPrefix(n, "xdstp://") { // federated name xdstp://<authority>/<type>/r<k> (C44 shared mode)
			n = n[strings.LastIndex(n, "/")+1:]
		}
		r.names = append(r.names, vADSNum(n, "r"))
	}
	sort.Slice(r.names, func(i, j int) bool { return r.names[i] < r.names[j] })
	h.reqs = append(h.reqs, r)
	return nil
}

func (st *vADSStream) Recv() ([]byte, error) {
	h := st.tr.h
	h.mu.Lock()
	if st.broken {
		h.mu.Unlock()
		return nil, io.EOF
	}
	st.tr.waiting = st
	h.mu.Unlock()
	select {
	case m := <-st.in:
		h.mu.Lock()
		st.tr.waiting = nil
		h.mu.Unlock()
		return m.b, m.err
	case <-st.ctx.Done():
		h.mu.Lock()
		if st.tr.waiting == st {
			st.tr.waiting = nil
		}
		h.mu.Unlock()
		return nil, st.ctx.Err()
	}
}

// ---- watchers

type vADSWatcher struct {
	h  *vADSHarness
	id int64
}

func (w *vADSWatcher) put(kind, arg int64, done func()) {
	h := w.h
	h.mu.Lock()
	h.cb[w.id] = append(h.cb[w.id], kind, arg)
	if h.slow {
		h.held = append(h.held, done)
		h.heldNow++
		h.mu.Unlock()
		return
	}
	h.mu.Unlock()
	done()
}

// error classes: 1 connection, 2 resource not found, 1000+c NACK of the resource with
// content c, 3 NACK whose text has no content number, 0 anything else
func vADSErrClass(err error) int64 {
	s := err.Error()
	switch {
	case strings.Contains(s, "has been removed"):
		return 2
	case strings.Contains(s, "error received from xDS stream"):
		return 1
	case strings.Contains(s, "vbad"):
		i := strings.Index(s, "vbad") + 4
		j := i
		for j < len(s) && s[j] >= '0' && s[j] <= '9' {
			j++
		}
		if v, e := strconv.ParseInt(s[i:j], 10, 64); e == nil {
			return 1000 + v
		}
		return 3
	}
	return 0
}

func (w *vADSWatcher) ResourceChanged(d xdsclient.ResourceData, done func()) {
	c := int64(-1)
	if vd, ok := d.(*vADSData); ok && vd != nil {
		c = vd.content
	}
	w.put(1, c, done)
}
func (w *vADSWatcher) ResourceError(err error, done func()) { w.put(2, vADSErrClass(err), done) }
func (w *vADSWatcher) AmbientError(err error, done func())  { w.put(3, vADSErrClass(err), done) }

// ---- harness operations (all called from the bubble's main goroutine, at quiescence)

// types: sotw[i] tells whether type i has AllResourcesRequiredInSotW; feats[s] the server features
func vADSNewHarness(sotw []bool, feats []xdsclient.ServerFeature, slow bool) *vADSHarness {
	h := &vADSHarness{nsrv: int64(len(feats)), slow: slow, cb: map[int64][]int64{}, cancels: map[int64]func(){}}
	h.cur = make([]*vADSTransport, len(feats))
	h.nstreams = make([]int64, len(feats))
	rts := map[string]xdsclient.ResourceType{}
	for i, s := range sotw {
		u := "t" + strconv.Itoa(i)
		rts[u] = xdsclient.ResourceType{TypeURL: u, TypeName: u, AllResourcesRequiredInSotW: s, Decoder: vADSDecoder{}}
	}
	var servers []xdsclient.ServerConfig
	for i, f := range feats {
		servers = append(servers, xdsclient.ServerConfig{ServerIdentifier: clients.ServerIdentifier{ServerURI: "s" + strconv.Itoa(i)}, ServerFeature: f})
	}
	c, err := xdsclient.New(xdsclient.Config{
		Servers: servers, Node: clients.Node{ID: "vnode"}, TransportBuilder: vADSBuilder{h},
		ResourceTypes: rts, WatchExpiryTimeout: vADSExpiry,
	})
	if err != nil {
		panic(err)
	}
	h.client = c
	return h
}

// vADSNewHarnessShared is vADSNewHarness plus an authority "b" whose only server is the LAST
// server of the list (identical ServerConfig, so the xdsChannel to it is shared between the
// top-level authority and "b").
func vADSNewHarnessShared(sotw []bool, feats []xdsclient.ServerFeature) *vADSHarness {
	h := &vADSHarness{nsrv: int64(len(feats)), cb: map[int64][]int64{}, cancels: map[int64]func(){}}
	h.cur = make([]*vADSTransport, len(feats))
	h.nstreams = make([]int64, len(feats))
	rts := map[string]xdsclient.ResourceType{}
	for i, s := range sotw {
		u := "t" + strconv.Itoa(i)
		rts[u] = xdsclient.ResourceType{TypeURL: u, TypeName: u, AllResourcesRequiredInSotW: s, Decoder: vADSDecoder{}}
	}
	var servers []xdsclient.ServerConfig
	for i, f := range feats {
		servers = append(servers, xdsclient.ServerConfig{ServerIdentifier: clients.ServerIdentifier{ServerURI: "s" + strconv.Itoa(i)}, ServerFeature: f})
	}
	c, err := xdsclient.New(xdsclient.Config{
		Servers: servers, Node: clients.Node{ID: "vnode"}, TransportBuilder: vADSBuilder{h},
		Authorities:   map[string]xdsclient.Authority{"b": {XDSServers: []xdsclient.ServerConfig{servers[len(servers)-1]}}},
		ResourceTypes: rts, WatchExpiryTimeout: vADSExpiry,
	})
	if err != nil {
		panic(err)
	}
	h.client = c
	return h
}

// watchName registers watcher w on a resource given by its full name.
func (h *vADSHarness) watchName(w, typ int64, name string) bool {
	if _, ok := h.cancels[w]; ok {
		return false
	}
	h.cancels[w] = h.client.WatchResource("t"+strconv.FormatInt(typ, 10), name, &vADSWatcher{h: h, id: w})
	return true
}

func (h *vADSHarness) watch(w, typ, name int64) bool {
	if _, ok := h.cancels[w]; ok {
		return false
	}
	h.cancels[w] = h.client.WatchResource("t"+strconv.FormatInt(typ, 10), "r"+strconv.FormatInt(name, 10), &vADSWatcher{h: h, id: w})
	return true
}

func (h *vADSHarness) unwatch(w int64) bool {
	c, ok := h.cancels[w]
	if !ok {
		return false
	}
	delete(h.cancels, w)
	c()
	return true
}

// gate lets the pending NewStream of server s succeed or fail; false when no NewStream is pending
func (h *vADSHarness) gate(s int64, fail bool) bool {
	if s < 0 || s >= h.nsrv {
		return false
	}
	h.mu.Lock()
	tr := h.cur[s]
	ok := tr != nil && tr.atGate
	h.mu.Unlock()
	if !ok {
		return false
	}
	tr.gate <- vADSGate{fail: fail}
	return true
}

// deliver hands a response (or, with err, a stream failure) to the blocked Recv of server s
func (h *vADSHarness) deliver(s int64, b []byte, err error) bool {
	if s < 0 || s >= h.nsrv {
		return false
	}
	h.mu.Lock()
	tr := h.cur[s]
	var st *vADSStream
	if tr != nil && tr.waiting != nil && tr.waiting == tr.live {
		st = tr.waiting
		if err != nil {
			st.broken = true
		}
	}
	h.mu.Unlock()
	if st == nil {
		return false
	}
	st.in <- vADSMsg{b: b, err: err}
	return true
}

// resp: [typ, ver, nonce, (name, kind, content)*]
func (h *vADSHarness) response(s int64, a []int64, opIdx int) bool {
	if len(a) < 3 || (len(a)-3)%3 != 0 {
		return false
	}
	resp := &v3discoverypb.DiscoveryResponse{TypeUrl: "t" + strconv.FormatInt(a[0], 10)}
	if a[1] != 0 {
		resp.VersionInfo = "v" + strconv.FormatInt(a[1], 10)
	}
	if a[2] != 0 {
		resp.Nonce = "n" + strconv.FormatInt(a[2], 10)
	}
	for i := 3; i+2 < len(a); i += 3 {
		c := a[i+2]
		if h.salt != 0 {
			c = int64(opIdx)*h.salt + int64(i)
		}
		resp.Resources = append(resp.Resources, vADSAny(a[0], a[i]&0xff, a[i+1]&0xff, c))
	}
	b, err := proto.Marshal(resp)
	if err != nil {
		return false
	}
	return h.deliver(s, b, nil)
}

func (h *vADSHarness) release() int64 {
	h.mu.Lock()
	held := h.held
	h.held = nil
	h.mu.Unlock()
	for _, d := range held {
		d()
	}
	return int64(len(held))
}

func (h *vADSHarness) beginOp() {
	h.mu.Lock()
	h.reqs, h.built, h.closedEv, h.heldNow = nil, nil, nil, 0
	h.cb = map[int64][]int64{}
	h.mu.Unlock()
}

// recvWaiting: 1 when the ADS stream of server s is blocked in Recv on its latest stream,
// atGate: 1 when its runner is blocked in NewStream
func (h *vADSHarness) status(s int64) (recvWaiting, atGate int64) {
	h.mu.Lock()
	defer h.mu.Unlock()
	tr := h.cur[s]
	if tr == nil {
		return 0, 0
	}
	return vB(tr.waiting != nil && tr.waiting == tr.live), vB(tr.atGate)
}

// requests of this op: stable sort by (server, type); the node flags are returned in
// emission order per server
func (h *vADSHarness) takeReqs() (sorted []vADSReq, nodeFlags map[int64][]int64) {
	h.mu.Lock()
	defer h.mu.Unlock()
	nodeFlags = map[int64][]int64{}
	for _, r := range h.reqs {
		nodeFlags[r.srv] = append(nodeFlags[r.srv], r.node)
	}
	sorted = append(sorted, h.reqs...)
	sort.SliceStable(sorted, func(i, j int) bool {
		if sorted[i].srv != sorted[j].srv {
			return sorted[i].srv < sorted[j].srv
		}
		return sorted[i].typ < sorted[j].typ
	})
	return
}

func (h *vADSHarness) close() {
	h.release()
	h.client.Close()
	synctest.Wait()
	h.release()
}

// ---------------------------------------------------------------- C42 driver (engine ADS)
//
// One server, types t0..t3 (none requires SotW), unknown type URLs t4.., names r0..r3.
// Watcher (t,n) has id 4t+n, so "subscribed" = "has its one watcher".  The anchor watch
// (t3, r0) is registered before the first op and never cancelled: the channel is never torn
// down.  Resource contents are salted with the op index, so every named resource of a
// response produces exactly one callback per watcher (no de-duplication).
//
// cfg [slow]    slow=1: watchers keep their done callbacks until op 7
// ops [1,t,n] subscribe      [2,t,n] unsubscribe   [3] let NewStream succeed   [4] let NewStream fail
//     [5,t,ver,nonce,(name,kind,_)*] response   [6] stream error   [7] watchers done
// obs per op: header [applied, recvWaiting, outstanding, nodeflag*] (outstanding = done callbacks
//     of this op still held; nodeflags in emission order), then one word per request, stably
//     sorted by type: [stream, type, ver, nonce, errdetail, names (sorted)...]
func vADSExec(cfg []int64, ops [][]int64) (obs [][]int64, nontrivial bool, tags []string) {
	slow := len(cfg) > 0 && cfg[0] == 1
	nacks, restartsAfterAck, blockedSeen := 0, 0, 0
	acked := false
	synctest.Test(vADST, func(t *testing.T) {
		h := vADSNewHarness([]bool{false, false, false, false}, []xdsclient.ServerFeature{0}, slow)
		h.salt = 1000
		defer h.close()
		h.watch(12, 3, 0)
		synctest.Wait()
		h.release()
		for i, op := range ops {
			h.beginOp()
			applied := false
			code := int64(0)
			if len(op) > 0 {
				code = op[0]
			}
			switch {
			case code == 1 && len(op) == 3 && op[1] >= 0 && op[1] <= 2 && op[2] >= 0 && op[2] <= 3:
				applied = h.watch(4*op[1]+op[2], op[1], op[2])
			case code == 2 && len(op) == 3 && op[1] >= 0 && op[1] <= 2 && op[2] >= 0 && op[2] <= 3:
				applied = h.unwatch(4*op[1] + op[2])
			case code == 3 && len(op) == 1:
				applied = h.gate(0, false)
				if applied && acked {
					restartsAfterAck++
				}
			case code == 4 && len(op) == 1:
				applied = h.gate(0, true)
				if applied {
					synctest.Wait()
					time.Sleep(vADSSettle)
				}
			case code == 5 && len(op) >= 4 && op[1] >= 0 && op[1] <= 9 && op[2] >= 0 && op[3] >= 0:
				ok := true
				for j := 4; j < len(op); j++ {
					if op[j] < 0 || op[j] > 255 {
						ok = false
					}
				}
				if ok {
					applied = h.response(0, op[1:], i+1)
				}
			case code == 6 && len(op) == 1:
				applied = h.deliver(0, nil, errors.New("vads: stream broken"))
				if applied {
					synctest.Wait()
					time.Sleep(vADSSettle)
				}
			case code == 7 && len(op) == 1:
				h.release()
				applied = true
			}
			synctest.Wait()
			rw, _ := h.status(0)
			reqs, flags := h.takeReqs()
			h.mu.Lock()
			out := h.heldNow
			if code != 5 {
				out = 0
			}
			h.mu.Unlock()
			obs = append(obs, vCat([]int64{vB(applied), rw, out}, flags[0]))
			for _, r := range reqs {
				obs = append(obs, vCat([]int64{r.stream, r.typ, r.ver, r.nonce, r.errd}, r.names))
				if r.errd == 1 {
					nacks++
				} else if r.nonce != 0 {
					acked = true
				}
			}
			if code == 5 && applied && rw == 0 {
				blockedSeen++
			}
		}
	})
	nontrivial = nacks > 0 && restartsAfterAck > 0
	if nacks > 0 {
		tags = append(tags, "nack")
	}
	if restartsAfterAck > 0 {
		tags = append(tags, "restart-after-ack")
	}
	if blockedSeen > 0 {
		tags = append(tags, "recv-blocked")
	}
	return
}

func vADSRespOp(r *vRand, typ int64, ver, nonce int64) []int64 {
	op := []int64{5, typ, ver, nonce}
	for k := r.Intn(4); k > 0; k-- {
		kind := int64(1)
		if r.Chance(20) {
			kind = int64(r.PickI64(0, 0, 2))
		}
		op = append(op, int64(r.Intn(5)), kind, 0)
	}
	return op
}

func vADSGen(r *vRand, tier string, idx int) (cfg []int64, ops [][]int64) {
	cfg = []int64{int64(idx % 2)}
	n := 40 + r.Intn(80)
	ver, nonce := int64(0), int64(0)
	ops = append(ops, []int64{3})
	// scenario "type without subscriptions across a reconnect": subscribe T, get a response (nonce
	// recorded), unsubscribe everything of T, stream error, new stream, subscribe T again: the first
	// request for T on the new stream must carry an empty nonce.  Robust form (works from any state):
	// runs right after the first stream in every fourth case and at a random position in half of the others.
	scenario := func() {
		t := int64(r.Intn(3))
		nm := int64(r.Intn(4))
		ver++
		nonce++
		ops = append(ops, []int64{3}, []int64{7}, []int64{1, t, nm}, []int64{5, t, ver, nonce, nm, 1, 0}, []int64{7})
		for k := int64(0); k < 4; k++ {
			ops = append(ops, []int64{2, t, k})
		}
		ops = append(ops, []int64{6}, []int64{3}, []int64{1, t, int64(r.Intn(4))})
	}
	at := -1
	if idx%4 == 1 {
		scenario()
	} else if r.Chance(50) {
		at = 10 + r.Intn(n-10)
	}
	for len(ops) < n {
		if at >= 0 && len(ops) >= at {
			at = -1
			scenario()
			continue
		}
		switch x := r.Intn(100); {
		case x < 22:
			ops = append(ops, []int64{1, int64(r.Intn(3)), int64(r.Intn(4))})
		case x < 34:
			ops = append(ops, []int64{2, int64(r.Intn(3)), int64(r.Intn(4))})
		case x < 46:
			ops = append(ops, []int64{3})
		case x < 49:
			ops = append(ops, []int64{4})
		case x < 84:
			ver++
			nonce++
			typ := int64(r.Intn(4))
			if r.Chance(8) && idx%8 == 7 {
				typ = 4 + int64(r.Intn(2)) // unknown type URL
			}
			v := ver
			if r.Chance(10) {
				v = r.PickI64(0, 1, ver-1)
			}
			ops = append(ops, vADSRespOp(r, typ, v, nonce))
		case x < 92:
			ops = append(ops, []int64{6})
		default:
			ops = append(ops, []int64{7})
		}
		if cfg[0] == 1 && r.Chance(55) {
			ops = append(ops, []int64{7})
		}
	}
	return
}

func TestVerif_ADS(t *testing.T) {
	vADST = t
	vRunDriver(t, "ADS", 40, 800, vADSGen, vADSExec)
}
