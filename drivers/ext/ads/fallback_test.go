//go:build verif

// C44 driver (engine Fallback): gRFC A71 fallback of the real XDSClient authority over 1..3
// scripted management servers.  Harness: ads_test.go.
//
// cfg [N]  number of servers (priority = index).  One resource type (t1, no SotW deletion),
// names r0..r2, one watcher per name (id = name); no anchor: the channels are created and
// released by the authority.  Watchers call done at once.
//
// ops [1,n] watch rn   [2,n] cancel   [3,s] let NewStream of server s succeed   [4,s] let it fail
//     [5,s,ver,(name,kind,content)*] response from server s   [6,s] stream error on server s
// obs per op: [applied, #request words]; [200, servers whose channel was created (sorted)];
//     [201, servers whose channel was released (sorted)]; then per server that sent requests in this
//     op and was not released in it, the names of its LAST request: [100, s, names...] (sorted by s)
package ads

import (
	"errors"
	"sort"
	"testing"
	"testing/synctest"
	"time"

	"google.golang.org/grpc/internal/xds/clients/xdsclient"
)

func vFallbackExec(cfg []int64, ops [][]int64) (obs [][]int64, nontrivial bool, tags []string) {
	n := int64(1)
	if len(cfg) == 1 && cfg[0] >= 1 && cfg[0] <= 3 {
		n = cfg[0]
	}
	// cfg [2,1]: two servers; the channel to server 1 is shared with a second authority "b" that keeps a
	// permanent watch (resource xdstp://b/t1/r9, reported as name 9) on it
	shared := len(cfg) == 2 && cfg[0] == 2 && cfg[1] == 1
	if shared {
		n = 2
	}
	fallbacks, reverts := 0, 0
	sharedFb, sharedRev := 0, 0 // shared mode: requests on s1 naming / no longer naming resources 0..2
	sharedOn := false
	synctest.Test(vADST, func(t *testing.T) {
		var h *vADSHarness
		if shared {
			h = vADSNewHarnessShared([]bool{false, false}, make([]xdsclient.ServerFeature, n))
		} else {
			h = vADSNewHarness([]bool{false, false}, make([]xdsclient.ServerFeature, n), false)
		}
		defer h.close()
		if shared {
			h.watchName(99, 1, "xdstp://b/t1/r9")
			synctest.Wait()
		}
		in := func(x, lo, hi int64) bool { return x >= lo && x <= hi }
		for i, op := range ops {
			h.beginOp()
			applied := false
			code := int64(0)
			if len(op) > 0 {
				code = op[0]
			}
			switch {
			case code == 1 && len(op) == 2 && in(op[1], 0, 2):
				applied = h.watch(op[1], 1, op[1])
			case code == 2 && len(op) == 2 && in(op[1], 0, 2):
				applied = h.unwatch(op[1])
			case code == 3 && len(op) == 2 && in(op[1], 0, n-1):
				applied = h.gate(op[1], false)
			case code == 4 && len(op) == 2 && in(op[1], 0, n-1):
				applied = h.gate(op[1], true)
				if applied {
					synctest.Wait()
					time.Sleep(vADSSettle)
				}
			case code == 5 && len(op) >= 3 && in(op[1], 0, n-1) && op[2] >= 0:
				ok := true
				for j := 3; j < len(op); j++ {
					if !in(op[j], 0, 255) {
						ok = false
					}
				}
				if ok {
					applied = h.response(op[1], vCat([]int64{1, op[2], op[2]}, op[3:]), i+1)
				}
			case code == 6 && len(op) == 2 && in(op[1], 0, n-1):
				applied = h.deliver(op[1], nil, errors.New("vads: stream broken"))
				if applied {
					synctest.Wait()
					time.Sleep(vADSSettle)
				}
			}
			synctest.Wait()
			reqs, _ := h.takeReqs()
			h.mu.Lock()
			built := append([]int64(nil), h.built...)
			closed := append([]int64(nil), h.closedEv...)
			h.mu.Unlock()
			sort.Slice(built, func(a, b int) bool { return built[a] < built[b] })
			sort.Slice(closed, func(a, b int) bool { return closed[a] < closed[b] })
			isClosed := map[int64]bool{}
			for _, s := range closed {
				isClosed[s] = true
			}
			last := map[int64][]int64{}
			for _, r := range reqs {
				if !isClosed[r.srv] {
					last[r.srv] = vCat([]int64{100, r.srv}, r.names)
				}
			}
			obs = append(obs, []int64{vB(applied), int64(len(last))}, vCat([]int64{200}, built), vCat([]int64{201}, closed))
			for s := int64(0); s < n; s++ {
				if w, ok := last[s]; ok {
					obs = append(obs, w)
				}
			}
			for _, s := range built {
				if s > 0 {
					fallbacks++
				}
			}
			if w, ok := last[1]; ok && shared {
				has := false
				for _, nm := range w[2:] {
					if nm <= 2 {
						has = true
					}
				}
				if has && !sharedOn {
					sharedFb++
				}
				if !has && sharedOn && code == 5 {
					sharedRev++
				}
				sharedOn = has
			}
			if code == 5 && len(closed) > 0 {
				reverts++
			}
		}
	})
	nontrivial = (fallbacks > 0 && (reverts > 0 || n == 1)) || (shared && sharedFb > 0 && sharedRev > 0)
	if fallbacks > 0 {
		tags = append(tags, "fallback")
	}
	if reverts > 0 {
		tags = append(tags, "revert")
	}
	if sharedFb > 0 {
		tags = append(tags, "shared-fallback")
	}
	if sharedRev > 0 {
		tags = append(tags, "shared-revert")
	}
	return
}

func vFallbackGen(r *vRand, tier string, idx int) (cfg []int64, ops [][]int64) {
	n := int64(2 + idx%2)
	if idx%10 == 9 {
		n = 1
	}
	cfg = []int64{n}
	if idx%5 == 3 {
		// shared fallback channel: servers [s0, s1], s1 also serves a second authority
		cfg = []int64{2, 1}
		n = 2
		ver := int64(0)
		cnt := 30 + r.Intn(50)
		for len(ops) < cnt {
			switch x := r.Intn(100); {
			case x < 14:
				ops = append(ops, []int64{1, int64(r.Intn(3))})
			case x < 20:
				ops = append(ops, []int64{2, int64(r.Intn(3))})
			case x < 42:
				ops = append(ops, []int64{3, int64(r.Intn(2))})
			case x < 58:
				ops = append(ops, []int64{4, int64(r.Intn(2))})
			case x < 86:
				ver++
				op := []int64{5, int64(r.Intn(2)), ver}
				for k := r.Intn(3); k > 0; k-- {
					op = append(op, int64(r.Intn(3)), 1, int64(r.Intn(3)))
				}
				ops = append(ops, op)
			default:
				ops = append(ops, []int64{6, int64(r.Intn(2))})
			}
		}
		return
	}
	cnt := 30 + r.Intn(60)
	ver := int64(0)
	// even cases avoid the known finding (two servers) and the revert-loses-resource behaviour (all watches up front), so that their
	// traces are compared with the model in full
	calm := idx%2 == 0
	if calm {
		if n == 3 {
			n = 2
			cfg = []int64{n}
		}
		for k := int64(0); k < 1+int64(r.Intn(3)); k++ {
			ops = append(ops, []int64{1, k})
		}
	}
	srv := func() int64 {
		if r.Chance(50) {
			return 0
		}
		return int64(r.Intn(int(n)))
	}
	for len(ops) < cnt {
		switch x := r.Intn(100); {
		case x < 15:
			if calm {
				continue
			}
			ops = append(ops, []int64{1, int64(r.Intn(3))})
		case x < 22:
			ops = append(ops, []int64{2, int64(r.Intn(3))})
		case x < 42:
			ops = append(ops, []int64{3, srv()})
		case x < 60:
			ops = append(ops, []int64{4, srv()})
		case x < 85:
			ver++
			op := []int64{5, srv(), ver}
			for k := r.Intn(3); k > 0; k-- {
				kind := int64(1)
				if r.Chance(20) {
					kind = 0
				}
				op = append(op, int64(r.Intn(3)), kind, int64(r.Intn(3)))
			}
			ops = append(ops, op)
		default:
			ops = append(ops, []int64{6, srv()})
		}
	}
	return
}

func TestVerif_Fallback(t *testing.T) {
	vADST = t
	vRunDriver(t, "Fallback", 40, 800, vFallbackGen, vFallbackExec)
}
