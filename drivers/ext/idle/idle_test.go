//go:build verif

// C29 driver: internal/idle.Manager with a recording ClientConn.
//
// cfg [0, timeoutUnits]  sequential script inside a synctest bubble (1 unit = 1ms of fake time)
//
//	[1] OnCallBegin            [2] OnCallEnd (ignored when no RPC is in progress)
//	[3,d] sleep d units + 1ns, letting every due idle timer fire
//	[4] ExitIdleMode (Connect) [5] Close   [6] EnterIdleModeForTesting
//	obs = [op code, events of this op...], events: 0 cc.EnterIdleMode callback, 1 cc.ExitIdleMode
//	      callback, 2 OnCallBegin returned, 3 OnCallEnd about to be called, 4 Close about to be called
//
// cfg [1, G, iters, timeoutMicros, enterers, connecters]  goroutine stress on real time:
// G goroutines loop OnCallBegin/OnCallEnd with random pauses, `enterers` goroutines loop
// EnterIdleModeForTesting, `connecters` loop ExitIdleMode, the real idle timer runs with a
// tiny timeout.  Every event takes a ticket from one atomic counter at an instant inside
// the window it stands for (2 after OnCallBegin returned, 3 before OnCallEnd is called,
// 0/1 inside the callback), so the ticket order is a sound linearisation.
// ops = [[seed]]; obs = [[event codes in ticket order]] (not reproducible run to run).
//
// cfg [3, nB, connecters]  gated scenario on real time: the recording ClientConn's ExitIdleMode
// blocks on a gate (as clientconn.go's exitIdleMode takes time to rebuild resolver and
// balancer) and records event 1 only when it returns, i.e. when the channel HAS left idle
// mode.  RPC A calls OnCallBegin and blocks inside the callback; then nB more RPCs call
// OnCallBegin (and `connecters` goroutines call ExitIdleMode) while A is still inside it; 3ms
// later the gate opens.  An OnCallBegin that returns before the gate opens is logged (event 2)
// before event 1: the acceptor rejects it (clause 2).  obs = [[event codes in ticket order]].
package idle

import (
	"runtime"
	"sync"
	"sync/atomic"
	"testing"
	"testing/synctest"
	"time"

	"google.golang.org/grpc/internal/idle"
)

var vIdleT *testing.T

type vIdleCC struct {
	f       func(int64)
	gate    chan struct{} // when non-nil: ExitIdleMode blocks until it is closed
	entered chan struct{}
}

func (c *vIdleCC) EnterIdleMode() { c.f(0) }
func (c *vIdleCC) ExitIdleMode() {
	if c.gate != nil {
		select {
		case c.entered <- struct{}{}:
		default:
		}
		<-c.gate
	}
	c.f(1) // recorded when the channel has left idle mode
}

func vIdleExecGated(cfg []int64, ops [][]int64) (obs [][]int64, nontrivial bool, tags []string) {
	nB, nC := 2, 0
	if len(cfg) > 1 && cfg[1] > 0 && cfg[1] <= 16 {
		nB = int(cfg[1])
	}
	if len(cfg) > 2 && cfg[2] > 0 && cfg[2] <= 4 {
		nC = int(cfg[2])
	}
	var mu sync.Mutex
	var log []int64
	put := func(e int64) { mu.Lock(); log = append(log, e); mu.Unlock() }
	cc := &vIdleCC{f: put, gate: make(chan struct{}), entered: make(chan struct{}, 1)}
	m := idle.NewManager(cc, 10*time.Minute)
	var wg sync.WaitGroup
	rpc := func() {
		defer wg.Done()
		m.OnCallBegin()
		put(2)
	}
	wg.Add(1)
	go rpc() // A
	select {
	case <-cc.entered:
	case <-time.After(10 * time.Second):
	}
	for i := 0; i < nB; i++ {
		wg.Add(1)
		go rpc()
	}
	for i := 0; i < nC; i++ {
		wg.Add(1)
		go func() { defer wg.Done(); m.ExitIdleMode() }()
	}
	time.Sleep(3 * time.Millisecond)
	close(cc.gate)
	wg.Wait()
	for i := 0; i < nB+1; i++ {
		put(3)
		m.OnCallEnd()
	}
	put(4)
	m.Close()
	mu.Lock()
	w := append([]int64(nil), log...)
	mu.Unlock()
	return [][]int64{w}, true, []string{"gated"}
}

func vIdleExecSeq(cfg []int64, ops [][]int64) (obs [][]int64, nontrivial bool, tags []string) {
	tmo := int64(0)
	if len(cfg) > 1 {
		tmo = cfg[1]
	}
	timerEnter, beginExit, ends := 0, 0, 0
	synctest.Test(vIdleT, func(t *testing.T) {
		var mu sync.Mutex
		var log []int64
		put := func(e int64) { mu.Lock(); log = append(log, e); mu.Unlock() }
		m := idle.NewManager(&vIdleCC{f: put}, time.Duration(tmo)*time.Millisecond)
		active := 0
		for _, op := range ops {
			mu.Lock()
			start := len(log)
			mu.Unlock()
			code := int64(0)
			if len(op) > 0 {
				code = op[0]
			}
			switch {
			case len(op) == 1 && code == 1:
				m.OnCallBegin()
				put(2)
				active++
			case len(op) == 1 && code == 2:
				if active > 0 {
					put(3)
					m.OnCallEnd()
					active--
					ends++
				}
			case len(op) == 2 && code == 3:
				if op[1] >= 0 && op[1] <= 1000 {
					time.Sleep(time.Duration(op[1]) * time.Millisecond)
					synctest.Wait()
					time.Sleep(time.Nanosecond)
				}
			case len(op) == 1 && code == 4:
				m.ExitIdleMode()
			case len(op) == 1 && code == 5:
				put(4)
				m.Close()
			case len(op) == 1 && code == 6:
				m.EnterIdleModeForTesting()
			}
			synctest.Wait()
			mu.Lock()
			w := append([]int64{code}, log[start:]...)
			mu.Unlock()
			for _, e := range w[1:] {
				if e == 0 && code == 3 {
					timerEnter++
				}
				if e == 1 && code == 1 {
					beginExit++
				}
			}
			obs = append(obs, w)
		}
		m.Close()
		synctest.Wait()
	})
	nontrivial = timerEnter > 0 && beginExit > 0 && ends > 0
	if timerEnter > 0 {
		tags = append(tags, "timer-enter")
	}
	if beginExit > 0 {
		tags = append(tags, "begin-exit")
	}
	tags = append(tags, "seq")
	return
}

func vIdleExecStress(cfg []int64, ops [][]int64) (obs [][]int64, nontrivial bool, tags []string) {
	get := func(i int, def int64) int64 {
		if i < len(cfg) && cfg[i] > 0 {
			return cfg[i]
		}
		return def
	}
	G, iters, tmoUs := int(get(1, 4)), int(get(2, 300)), get(3, 30)
	enterers, connecters := int(get(4, 1)), int(get(5, 1))
	seed := uint64(1)
	if len(ops) > 0 && len(ops[0]) > 0 {
		seed = uint64(ops[0][0])
	}
	capN := 2*G*iters + 4096
	buf := make([]int32, capN)
	var n int64
	put := func(e int64) {
		i := atomic.AddInt64(&n, 1) - 1
		if i < int64(capN) {
			atomic.StoreInt32(&buf[i], int32(e)+1)
		}
	}
	old := runtime.GOMAXPROCS(4)
	defer runtime.GOMAXPROCS(old)
	m := idle.NewManager(&vIdleCC{f: put}, time.Duration(tmoUs)*time.Microsecond)
	var wg, aux sync.WaitGroup
	var stop int32
	pause := func(r *vRand) {
		switch r.Intn(8) {
		case 0:
			time.Sleep(time.Duration(r.Intn(int(3*tmoUs)+1)) * time.Microsecond)
		case 1, 2:
			runtime.Gosched()
		case 3:
			for k := r.Intn(200); k > 0; k-- {
				_ = atomic.LoadInt32(&stop)
			}
		}
	}
	for g := 0; g < G; g++ {
		wg.Add(1)
		r := &vRand{s: seed*1000003 + uint64(g)}
		go func() {
			defer wg.Done()
			for i := 0; i < iters; i++ {
				m.OnCallBegin()
				put(2)
				if r.Intn(4) == 0 {
					pause(r)
				}
				put(3)
				m.OnCallEnd()
				pause(r)
			}
		}()
	}
	for g := 0; g < enterers; g++ {
		aux.Add(1)
		r := &vRand{s: seed*7919 + uint64(g)}
		go func() {
			defer aux.Done()
			for atomic.LoadInt32(&stop) == 0 {
				m.EnterIdleModeForTesting()
				pause(r)
			}
		}()
	}
	for g := 0; g < connecters; g++ {
		aux.Add(1)
		r := &vRand{s: seed*104729 + uint64(g)}
		go func() {
			defer aux.Done()
			for atomic.LoadInt32(&stop) == 0 {
				m.ExitIdleMode()
				pause(r)
				pause(r)
			}
		}()
	}
	wg.Wait()
	atomic.StoreInt32(&stop, 1)
	aux.Wait()
	put(4)
	m.Close()
	time.Sleep(2 * time.Millisecond) // a timer callback that was already running
	cnt := atomic.LoadInt64(&n)
	if cnt > int64(capN) {
		cnt = int64(capN)
	}
	w := make([]int64, 0, cnt)
	enters := 0
	for i := int64(0); i < cnt; i++ {
		e := int64(atomic.LoadInt32(&buf[i])) - 1
		if e < 0 {
			break // ticket taken, value not yet stored: only possible after Close was logged
		}
		if e == 0 {
			enters++
		}
		w = append(w, e)
	}
	obs = [][]int64{w}
	nontrivial = enters >= 5
	tags = []string{"stress"}
	return
}

func vIdleExec(cfg []int64, ops [][]int64) ([][]int64, bool, []string) {
	if len(cfg) > 0 && cfg[0] == 1 {
		return vIdleExecStress(cfg, ops)
	}
	if len(cfg) > 0 && cfg[0] == 3 {
		return vIdleExecGated(cfg, ops)
	}
	return vIdleExecSeq(cfg, ops)
}

func vIdleScript(idx int) ([]int64, [][]int64) {
	B, E, C, X, Cl := []int64{1}, []int64{2}, []int64{4}, []int64{6}, []int64{5}
	A := func(d int64) []int64 { return []int64{3, d} }
	switch idx {
	case 0: // timer arithmetic: activity bit, lastCallEndTime based re-arm, exact deadlines
		return []int64{0, 5}, [][]int64{B, E, A(4), A(1), A(4), A(1), B, A(7), E, A(2), B, E, A(3), A(2), A(5), B, B, E, A(5), A(5), E, A(4), A(1), A(5), C, A(5), A(5), B, E}
	case 1: // forced idle with a pending timer, Connect when not idle, close while idle / with RPCs
		return []int64{0, 3}, [][]int64{C, C, X, X, A(3), B, X, E, X, A(1), B, A(1), A(1), E, A(2), A(1), A(3), B, Cl, E, B, C, A(9), X, E}
	case 2: // idleness disabled (timeout 0)
		return []int64{0, 0}, [][]int64{B, E, A(10), X, B, A(3), E, X, C, A(100), B, E, Cl, B, E}
	default: // close racing with nothing: after Close nothing exits idle
		return []int64{0, 2}, [][]int64{B, E, A(2), A(2), Cl, B, C, E, X, A(5)}
	}
}

func vIdleGen(r *vRand, tier string, idx int) (cfg []int64, ops [][]int64) {
	nStress, nEnum := 8, 0
	if tier != "quick" {
		nStress, nEnum = 40, 1296
	}
	if idx < 4 {
		return vIdleScript(idx)
	}
	idx -= 4
	if idx < 3 { // an RPC (or Connect) arriving while another caller is inside cc.ExitIdleMode
		return []int64{3, int64(1 + 2*idx), int64(idx % 2)}, [][]int64{{int64(idx)}}
	}
	idx -= 3
	if idx < nStress {
		G := int64(2 + r.Intn(5))
		iters := int64(2400) / G
		if tier != "quick" {
			iters = 8000 / G
		}
		return []int64{1, G, iters, r.PickI64(5, 20, 50, 200), int64(1 + r.Intn(2)), int64(r.Intn(2))}, [][]int64{{int64(r.Intn(1 << 30))}}
	}
	idx -= nStress
	if idx < nEnum { // every script of length 4 over 6 symbols, timeout 2
		sym := [][]int64{{1}, {2}, {3, 1}, {3, 2}, {4}, {6}}
		for k := 0; k < 4; k++ {
			ops = append(ops, sym[idx%6])
			idx /= 6
		}
		return []int64{0, 2}, ops
	}
	tmo := r.PickI64(0, 1, 2, 3, 5, 10)
	n := 20 + r.Intn(60)
	closeAt := -1
	if r.Chance(30) {
		closeAt = n/2 + r.Intn(n/2)
	}
	for i := 0; i < n; i++ {
		if i == closeAt {
			ops = append(ops, []int64{5})
			continue
		}
		switch x := r.Intn(100); {
		case x < 25:
			ops = append(ops, []int64{1})
		case x < 50:
			ops = append(ops, []int64{2})
		case x < 80:
			d := r.PickI64(0, 1, tmo-1, tmo, tmo+1, 2*tmo, r.I64n(2*tmo+3))
			if d < 0 {
				d = 0
			}
			ops = append(ops, []int64{3, d})
		case x < 88:
			ops = append(ops, []int64{4})
		default:
			ops = append(ops, []int64{6})
		}
	}
	return []int64{0, tmo}, ops
}

func TestVerif_Idle(t *testing.T) {
	vIdleT = t
	vRunDriver(t, "Idle", 67, 1803, vIdleGen, vIdleExec)
}
