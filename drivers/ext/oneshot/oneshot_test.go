//go:build verif

// C57 driver: internal/cache.TimeoutCache, grpcsync.Event, grpcsync.RefCounted.
//
// cfg [1, timeout_ns]  TimeoutCache inside a synctest bubble (timers fire on the fake clock;
// synctest.Wait() after every op, so every timer that is due has completely run)
//
//	[1,k,v] Add(k, v, callback logging v)   obs [item, ok]
//	[2,k]   Remove(k)                        obs [item, ok]   ([0,0] when absent)
//	[3,r]   Clear(r != 0)                    obs callbacks run during the op, ascending
//	[4,d]   time.Sleep(d ns)                 obs callbacks run during the op, ascending
//	[5]     Len()                            obs [n]
//
// cfg [2]  Event:       [1] Fire() obs [ret]   [2] HasFired() obs [b]   [3] Done() closed? obs [b]
// cfg [3]  RefCounted:  [1] TryIncrement() obs [ret]   [2] Decrement() obs [#onZero runs so far]
//
//	[3] Increment() obs [#onZero runs so far]
//
// cfg [4]  TimeoutCache, the fired-but-not-yet-locked timer window forced on the real code (real
// time, no bubble): [1,n] = n times { Add(k, timeout 1ms); lock c.mu from outside (the mutex
// field is reached with reflect+unsafe); start Remove(k), which queues on the mutex; sleep until
// the timer has fired, so that the timer function queues behind Remove; unlock }.
// obs [v1, v2]: v1 = iterations where Remove returned true and the callback ran anyway,
// v2 = iterations where the callback ran twice, or Remove returned false and the callback did not
// run exactly once.  Both are 0 for every lock order on a correct cache, so the observation is
// deterministic although the schedule is only forced, not controlled.
package oneshot

import (
	"reflect"
	"sort"
	"sync"
	"sync/atomic"
	"testing"
	"testing/synctest"
	"time"
	"unsafe"

	"google.golang.org/grpc/internal/cache"
	"google.golang.org/grpc/internal/grpcsync"
)

var vOneShotT *testing.T

type vOneShotLog struct {
	mu sync.Mutex
	ev []int64
}

func (l *vOneShotLog) add(v int64) {
	l.mu.Lock()
	l.ev = append(l.ev, v)
	l.mu.Unlock()
}
func (l *vOneShotLog) take() []int64 {
	l.mu.Lock()
	defer l.mu.Unlock()
	e := l.ev
	l.ev = nil
	sort.Slice(e, func(i, j int) bool { return e[i] < e[j] })
	if e == nil {
		e = []int64{}
	}
	return e
}

func vOneShotExec1(tmo int64, ops [][]int64) (obs [][]int64, nt bool, tags []string) {
	expired, removed, addDup := 0, 0, 0
	synctest.Test(vOneShotT, func(t *testing.T) {
		c := cache.NewTimeoutCache(time.Duration(tmo))
		lg := &vOneShotLog{}
		for _, op := range ops {
			var o []int64
			extra := true
			switch {
			case len(op) == 3 && op[0] == 1:
				v := op[2]
				it, ok := c.Add(op[1], v, func() { lg.add(v) })
				o = []int64{it.(int64), vB(ok)}
				if !ok {
					addDup++
				}
			case len(op) == 2 && op[0] == 2:
				it, ok := c.Remove(op[1])
				if ok {
					removed++
					o = []int64{it.(int64), 1}
				} else {
					o = []int64{0, 0}
				}
			case len(op) == 2 && op[0] == 3:
				c.Clear(op[1] != 0)
				extra = false
			case len(op) == 2 && op[0] == 4 && op[1] >= 0:
				time.Sleep(time.Duration(op[1]))
				extra = false
			case len(op) == 1 && op[0] == 5:
				o = []int64{int64(c.Len())}
			default:
				o = []int64{-1}
			}
			synctest.Wait()
			e := lg.take()
			if extra {
				// callbacks are not expected here; if any ran they are appended so that the
				// observation differs from the model's
				o = append(o, e...)
			} else {
				if op[0] == 4 {
					expired += len(e)
				}
				o = e
			}
			obs = append(obs, o)
		}
		c.Clear(false)
		synctest.Wait()
	})
	return obs, expired >= 1 && removed >= 1 && addDup >= 1, []string{"cache"}
}

func vOneShotExec2(ops [][]int64) ([][]int64, bool, []string) {
	e := grpcsync.NewEvent()
	var obs [][]int64
	fires := 0
	stressed := false
	for _, op := range ops {
		switch {
		case len(op) == 1 && op[0] == 1:
			fires++
			obs = append(obs, []int64{vB(e.Fire())})
		case len(op) == 1 && op[0] == 2:
			obs = append(obs, []int64{vB(e.HasFired())})
		case len(op) == 1 && op[0] == 3:
			select {
			case <-e.Done():
				obs = append(obs, []int64{1})
			default:
				obs = append(obs, []int64{0})
			}
		case len(op) == 3 && op[0] == 4 && op[1] >= 0 && op[2] >= 1 && op[2] <= 64:
			// stress: fresh Event per round, g goroutines released together, exactly one true
			bad := int64(0)
			g := int(op[2])
			res := make([]bool, g)
			for round := int64(0); round < op[1]; round++ {
				ev := grpcsync.NewEvent()
				start := make(chan struct{})
				var wg sync.WaitGroup
				wg.Add(g)
				for i := 0; i < g; i++ {
					go func(i int) {
						defer wg.Done()
						<-start
						res[i] = ev.Fire()
					}(i)
				}
				close(start)
				wg.Wait()
				cnt := 0
				for i := 0; i < g; i++ {
					if res[i] {
						cnt++
					}
				}
				if cnt != 1 {
					bad++
				}
			}
			stressed = true
			obs = append(obs, []int64{bad})
		default:
			obs = append(obs, []int64{-1})
		}
	}
	tags := []string{"event"}
	if stressed {
		tags = append(tags, "event-stress")
	}
	return obs, fires >= 2 || stressed, tags
}

func vOneShotExec3(ops [][]int64) ([][]int64, bool, []string) {
	zeros := int64(0)
	rc := grpcsync.NewRefCounted[int](7, func() { zeros++ })
	var obs [][]int64
	failed := false
	for _, op := range ops {
		switch {
		case len(op) == 1 && op[0] == 1:
			ok := rc.TryIncrement()
			if !ok {
				failed = true
			}
			obs = append(obs, []int64{vB(ok)})
		case len(op) == 1 && op[0] == 2:
			rc.Decrement()
			obs = append(obs, []int64{zeros})
		case len(op) == 1 && op[0] == 3:
			rc.Increment()
			obs = append(obs, []int64{zeros})
		default:
			obs = append(obs, []int64{-1})
		}
	}
	return obs, zeros >= 1 && failed, []string{"refcount"}
}

func vOneShotExec4(ops [][]int64) ([][]int64, bool, []string) {
	var obs [][]int64
	hits := 0
	for _, op := range ops {
		if len(op) == 3 && op[0] == 2 && op[1] >= 0 {
			// Clear(r) in place of Remove
			n := int(op[1])
			if n > 8 {
				n = 8
			}
			run := op[2] != 0
			notOnce, ranAfterClear := int64(0), 0
			for i := 0; i < n; i++ {
				c := cache.NewTimeoutCache(3 * time.Millisecond)
				mu := (*sync.Mutex)(unsafe.Pointer(reflect.ValueOf(c).Elem().FieldByName("mu").UnsafeAddr()))
				var cbs atomic.Int32
				c.Add(1, 1, func() { cbs.Add(1) })
				mu.Lock()
				started := make(chan struct{})
				done := make(chan struct{})
				go func() {
					close(started)
					c.Clear(run)
					close(done)
				}()
				<-started
				time.Sleep(8 * time.Millisecond) // Clear is queued on mu; the timer fires and queues behind it
				mu.Unlock()
				<-done
				time.Sleep(3 * time.Millisecond)
				k := cbs.Load()
				if run && k != 1 {
					notOnce++
				}
				if !run && k != 0 {
					ranAfterClear++
				}
				hits++
			}
			v2 := int64(0)
			if 2*ranAfterClear > n {
				v2 = 1
			}
			obs = append(obs, []int64{notOnce, v2})
			continue
		}
		if len(op) != 2 || op[0] != 1 || op[1] < 0 {
			obs = append(obs, []int64{-1})
			continue
		}
		n := int(op[1])
		if n > 8 {
			n = 8
		}
		v1, v2 := int64(0), int64(0)
		for i := 0; i < n; i++ {
			c := cache.NewTimeoutCache(time.Millisecond)
			mu := (*sync.Mutex)(unsafe.Pointer(reflect.ValueOf(c).Elem().FieldByName("mu").UnsafeAddr()))
			var cbs atomic.Int32
			c.Add(1, 1, func() { cbs.Add(1) })
			mu.Lock()
			res := make(chan bool, 1)
			go func() {
				_, ok := c.Remove(1)
				res <- ok
			}()
			time.Sleep(4 * time.Millisecond) // the timer fires; its function queues on mu behind Remove
			mu.Unlock()
			ok := <-res
			time.Sleep(3 * time.Millisecond) // let the timer function finish
			k := cbs.Load()
			if ok && k != 0 {
				v1++
			}
			if k > 1 || (!ok && k != 1) {
				v2++
			}
			if ok {
				hits++
			}
		}
		obs = append(obs, []int64{v1, v2})
	}
	tags := []string{"cache-window"}
	if hits > 0 {
		tags = append(tags, "window-hit")
	}
	return obs, hits > 0, tags
}

func vOneShotExec(cfg []int64, ops [][]int64) ([][]int64, bool, []string) {
	switch {
	case len(cfg) == 1 && cfg[0] == 4:
		return vOneShotExec4(ops)
	case len(cfg) == 2 && cfg[0] == 1 && cfg[1] >= 1:
		return vOneShotExec1(cfg[1], ops)
	case len(cfg) == 1 && cfg[0] == 2:
		return vOneShotExec2(ops)
	case len(cfg) == 1 && cfg[0] == 3:
		return vOneShotExec3(ops)
	}
	return nil, false, nil
}

func vOneShotGen(r *vRand, tier string, idx int) ([]int64, [][]int64) {
	var ops [][]int64
	if idx == 1 || (idx > 4 && idx%40 == 1) {
		return []int64{4}, [][]int64{{1, 5}, {2, 5, 0}, {2, 5, 1}}
	}
	if idx == 2 || (idx > 4 && idx%40 == 2) {
		rounds := int64(30000)
		if tier == "thorough" {
			rounds = 60000
		}
		return []int64{2}, [][]int64{{1}, {4, rounds, 8}, {2}, {4, rounds / 4, 2}, {1}}
	}
	switch {
	case idx%4 == 2:
		// Event: exhaustive-ish short sequences, then random
		n := 3 + r.Intn(12)
		for i := 0; i < n; i++ {
			ops = append(ops, []int64{int64(1 + r.Intn(3))})
		}
		if idx == 6 {
			ops = [][]int64{{2}, {3}, {1}, {2}, {3}, {1}, {1}, {2}, {3}}
		}
		return []int64{2}, ops
	case idx%4 == 3:
		// RefCounted: mostly balanced use, ending at zero, then attempts to resurrect
		held := 1
		n := 10 + r.Intn(40)
		viol := r.Chance(25)
		for i := 0; i < n; i++ {
			x := r.Intn(100)
			switch {
			case x < 35:
				ops = append(ops, []int64{1})
				if held > 0 {
					held++
				}
			case x < 45 && (held > 0 || viol):
				ops = append(ops, []int64{3})
				held++
			case held > 0 || (viol && r.Chance(30)):
				ops = append(ops, []int64{2})
				held--
			default:
				ops = append(ops, []int64{1})
			}
		}
		if !viol {
			for held > 0 {
				ops = append(ops, []int64{2})
				held--
			}
			ops = append(ops, []int64{1}, []int64{1})
		}
		return []int64{3}, ops
	}
	// TimeoutCache
	tmo := r.PickI64(1, 2, 10, 10, 100, 1000000000)
	if idx == 0 {
		tmo = 10
		// boundaries: one tick before / at / after the deadline, remove then expire, clear both ways
		return []int64{1, tmo}, [][]int64{
			{1, 1, 101}, {1, 1, 102}, {4, 9}, {5}, {4, 1}, {5}, {2, 1},
			{1, 1, 103}, {4, 9}, {2, 1}, {4, 1}, {4, 100},
			{1, 2, 104}, {1, 3, 105}, {4, 5}, {1, 4, 106}, {3, 1}, {4, 100}, {5},
			{1, 2, 107}, {1, 3, 108}, {3, 0}, {4, 100}, {1, 5, 109}, {4, 10}, {4, 0}, {2, 5},
		}
	}
	next := int64(100)
	n := 20 + r.Intn(50)
	for i := 0; i < n; i++ {
		x := r.Intn(100)
		k := int64(1 + r.Intn(4))
		switch {
		case x < 35:
			next++
			ops = append(ops, []int64{1, k, next})
		case x < 55:
			ops = append(ops, []int64{2, k})
		case x < 60:
			ops = append(ops, []int64{3, int64(r.Intn(2))})
		case x < 90:
			d := r.PickI64(0, 1, tmo-1, tmo, tmo+1, tmo/2, tmo/3+1)
			if d < 0 {
				d = 0
			}
			ops = append(ops, []int64{4, d})
		default:
			ops = append(ops, []int64{5})
		}
	}
	return []int64{1, tmo}, ops
}

func TestVerif_OneShot(t *testing.T) {
	vOneShotT = t
	vRunDriver(t, "OneShot", 60, 1200, vOneShotGen, vOneShotExec)
}
