//go:build verif

// C20 driver: internal/backoff.Exponential.Backoff and the backoff pacing of a real
// ClientConn sub-channel (addrConn.resetTransportAndUnlock / resetConnectBackoff) under
// testing/synctest virtual time.
//
//	cfg [BaseDelay, Float64bits(Multiplier), Float64bits(Jitter), MaxDelay]
//
//	[1, retries, rbits]  Exponential{cfg}.Backoff(retries)         obs [d]
//	                     (rbits is the model's stand-in for the unseedable rand draw)
//	[2, m]               dialer outcome: 0 fail, else succeed        obs [0, state]
//	[3, dt]              let dt ns of virtual time pass              obs [n, t1..tn, state]
//	[4]                  cc.ResetConnectBackoff()                    obs [n, t1..tn, state]
//	[5]                  drop the established connection             obs [n, t1..tn, state]
//	[6]                  cc.Connect()                                obs [n, t1..tn, state]
//	[7, h]               from now on a failing dial takes h ns to fail obs [0, state]
//	                     (connection accepted, no server preface: the dialer blocks for h
//	                     or until the connect deadline, whichever is first)
//
// t_i are the virtual times (ns since the start of the case) at which the dialer was
// called during the op; state is cc.GetState() at quiescence.  Ops 2-6 are executed only
// for "pacing" configurations (Jitter == +0, 1 <= Multiplier < +Inf, 1ms <= BaseDelay <=
// MaxDelay < 2^53); otherwise they are skipped with an empty observation.
package backoff

import (
	"context"
	"errors"
	"math"
	"net"
	"sync"
	"testing"
	"testing/synctest"
	"time"

	"google.golang.org/grpc"
	grpcbackoff "google.golang.org/grpc/backoff"
	"google.golang.org/grpc/credentials/insecure"
	ibackoff "google.golang.org/grpc/internal/backoff"
	"google.golang.org/grpc/test/bufconn"
)

var vBackoffT *testing.T

func vBackoffCfg(cfg []int64) (grpcbackoff.Config, bool) {
	if len(cfg) != 4 {
		return grpcbackoff.Config{}, false
	}
	return grpcbackoff.Config{
		BaseDelay:  time.Duration(cfg[0]),
		Multiplier: math.Float64frombits(uint64(cfg[1])),
		Jitter:     math.Float64frombits(uint64(cfg[2])),
		MaxDelay:   time.Duration(cfg[3]),
	}, true
}

func vBackoffPacingOK(c grpcbackoff.Config, cfg []int64) bool {
	return c.BaseDelay >= 1000000 && c.BaseDelay <= c.MaxDelay && int64(c.MaxDelay) < 1<<53 &&
		c.Multiplier >= 1 && c.Multiplier < math.Inf(1) && cfg[2] == 0
}

type vBackoffPacer struct {
	mu       sync.Mutex
	start    time.Time
	okmode   bool
	fdelay   time.Duration
	inflight int
	dials    []int64
	conn     net.Conn
	lis      *bufconn.Listener
}

func (p *vBackoffPacer) dial(ctx context.Context, _ string) (net.Conn, error) {
	p.mu.Lock()
	p.dials = append(p.dials, int64(time.Since(p.start)))
	ok := p.okmode
	fd := p.fdelay
	p.inflight++
	p.mu.Unlock()
	defer func() {
		p.mu.Lock()
		p.inflight--
		p.mu.Unlock()
	}()
	if !ok {
		if fd > 0 {
			// a slowly failing attempt: nothing is learnt before fd has passed or the
			// connect deadline expires
			tm := time.NewTimer(fd)
			defer tm.Stop()
			select {
			case <-tm.C:
			case <-ctx.Done():
			}
		}
		return nil, errors.New("verif: dial refused")
	}
	c, err := p.lis.DialContext(ctx)
	if err != nil {
		return nil, err
	}
	p.mu.Lock()
	p.conn = c
	p.mu.Unlock()
	return c, nil
}

func (p *vBackoffPacer) take() []int64 {
	p.mu.Lock()
	defer p.mu.Unlock()
	d := p.dials
	p.dials = nil
	return d
}

func vBackoffRun(c grpcbackoff.Config, cfg []int64, ops [][]int64, pacing bool) (obs [][]int64, ndials int, tags map[string]bool) {
	tags = map[string]bool{}
	exp := ibackoff.Exponential{Config: c}
	var p *vBackoffPacer
	var cc *grpc.ClientConn
	var srv *grpc.Server
	if pacing {
		p = &vBackoffPacer{start: time.Now(), lis: bufconn.Listen(1 << 16)}
		srv = grpc.NewServer()
		go srv.Serve(p.lis)
		var err error
		cc, err = grpc.NewClient("passthrough:///verif",
			grpc.WithTransportCredentials(insecure.NewCredentials()),
			grpc.WithContextDialer(p.dial),
			grpc.WithConnectParams(grpc.ConnectParams{Backoff: c, MinConnectTimeout: time.Second}),
			grpc.WithIdleTimeout(0),
			grpc.WithDisableServiceConfig())
		if err != nil {
			panic(err)
		}
		defer func() {
			cc.Close()
			srv.Stop()
			synctest.Wait()
		}()
	}
	pobs := func() []int64 {
		synctest.Wait()
		d := p.take()
		ndials += len(d)
		return vCat([]int64{int64(len(d))}, d, []int64{int64(cc.GetState())})
	}
	for _, op := range ops {
		if len(op) == 3 && op[0] == 1 {
			d := int64(exp.Backoff(int(op[1])))
			obs = append(obs, []int64{d})
			if d == math.MaxInt64 {
				tags["saturated"] = true
			}
			if d < 0 {
				tags["negative"] = true
			}
			continue
		}
		if !pacing {
			obs = append(obs, []int64{})
			continue
		}
		switch {
		case len(op) == 2 && op[0] == 2:
			p.mu.Lock()
			p.okmode = op[1] != 0
			p.mu.Unlock()
			obs = append(obs, pobs())
		case len(op) == 2 && op[0] == 3 && op[1] >= 0 && op[1] <= 60*cfg[0]:
			time.Sleep(time.Duration(op[1]))
			obs = append(obs, pobs())
		case len(op) == 1 && op[0] == 4:
			// also while a dial is in flight: the real code then only zeroes backoffIdx
			cc.ResetConnectBackoff()
			tags["reset"] = true
			p.mu.Lock()
			if p.inflight > 0 {
				tags["reset-in-flight"] = true
			}
			p.mu.Unlock()
			obs = append(obs, pobs())
		case len(op) == 2 && op[0] == 7 && op[1] >= 0:
			p.mu.Lock()
			p.fdelay = time.Duration(op[1])
			p.mu.Unlock()
			if op[1] > 0 {
				tags["slowfail"] = true
			}
			obs = append(obs, pobs())
		case len(op) == 1 && op[0] == 5:
			p.mu.Lock()
			cn := p.conn
			p.conn = nil
			p.mu.Unlock()
			if cn != nil {
				cn.Close()
				tags["drop"] = true
			}
			obs = append(obs, pobs())
		case len(op) == 1 && op[0] == 6:
			cc.Connect()
			obs = append(obs, pobs())
		default:
			obs = append(obs, []int64{})
		}
	}
	return obs, ndials, tags
}

func vBackoffExec(cfg []int64, ops [][]int64) ([][]int64, bool, []string) {
	c, ok := vBackoffCfg(cfg)
	if !ok {
		return nil, false, nil
	}
	hasPacing, hasN := false, false
	for _, op := range ops {
		if len(op) == 3 && op[0] == 1 {
			if op[1] != 0 {
				hasN = true
			}
		} else {
			hasPacing = true
		}
	}
	pacing := hasPacing && vBackoffPacingOK(c, cfg)
	var obs [][]int64
	var nd int
	var tg map[string]bool
	if pacing {
		synctest.Test(vBackoffT, func(t *testing.T) {
			obs, nd, tg = vBackoffRun(c, cfg, ops, true)
		})
	} else {
		obs, nd, tg = vBackoffRun(c, cfg, ops, false)
	}
	var tags []string
	for _, k := range []string{"saturated", "negative", "reset", "reset-in-flight", "drop", "slowfail"} {
		if tg[k] {
			tags = append(tags, k)
		}
	}
	if pacing {
		tags = append(tags, "pacing")
		return obs, nd >= 3, tags
	}
	tags = append(tags, "pure")
	return obs, hasN, tags
}

func vBackoffF(f float64) int64 { return int64(math.Float64bits(f)) }

var vBackoffFixed = [][4]int64{
	// default configuration
	{1e9, vBackoffF(1.6), vBackoffF(0.2), 120e9},
	// the configuration of the old float->int64 overflow (now saturating)
	{1e9, vBackoffF(1.6), vBackoffF(0.2), math.MaxInt64},
	{math.MaxInt64, vBackoffF(2), vBackoffF(1), math.MaxInt64},
	// NaN products: 0 * +Inf, NaN multiplier, NaN jitter
	{0, vBackoffF(math.Inf(1)), vBackoffF(0.2), 120e9},
	{1e9, vBackoffF(math.NaN()), vBackoffF(0.2), 120e9},
	{1e9, vBackoffF(1.6), vBackoffF(math.NaN()), 120e9},
	// negative base delay
	{-5, vBackoffF(1.6), vBackoffF(0.2), 120e9},
	{-1e9, vBackoffF(1e300), vBackoffF(1), 120e9},
	// jitter > 1, multiplier < 1, jitter 0 and 1, max < base, negative max
	{1e9, vBackoffF(1.6), vBackoffF(3), 120e9},
	{1e9, vBackoffF(0.5), vBackoffF(0.2), 120e9},
	{1e9, vBackoffF(1.6), vBackoffF(0), 120e9},
	{1e9, vBackoffF(1.6), vBackoffF(1), 120e9},
	{120e9, vBackoffF(1.6), vBackoffF(0.2), 1e9},
	{1e9, vBackoffF(1.6), vBackoffF(0.2), -1},
	{1, vBackoffF(1), vBackoffF(0.5), math.MaxInt64},
	{math.MinInt64, vBackoffF(1.6), vBackoffF(0.2), math.MinInt64},
	{1e9, vBackoffF(-2), vBackoffF(0.2), 120e9},
	{1e9, vBackoffF(1.6), vBackoffF(-0.5), 120e9},
}

func vBackoffRBits(r *vRand) int64 {
	switch r.Intn(6) {
	case 0:
		return 0
	case 1:
		return vBackoffF(1 - 1.0/(1<<53))
	case 2:
		return vBackoffF(0.5)
	}
	return vBackoffF(float64(r.U64()>>11) / (1 << 53))
}

func vBackoffPureOps(r *vRand, n int) [][]int64 {
	var ops [][]int64
	for _, k := range []int64{0, 1, 2, 3, 10, 92, 93, 94, 200, 2000, -1} {
		ops = append(ops, []int64{1, k, vBackoffRBits(r)})
	}
	for len(ops) < n {
		var k int64
		switch r.Intn(4) {
		case 0:
			k = int64(r.Intn(8))
		case 1:
			k = int64(r.Intn(120))
		case 2:
			k = int64(r.Intn(2000))
		default:
			k = int64(r.Intn(40))
		}
		ops = append(ops, []int64{1, k, vBackoffRBits(r)})
	}
	return ops
}

func vBackoffLogU(r *vRand) int64 { return int64(r.U64() >> uint(1+r.Intn(63))) }

func vBackoffGen(r *vRand, tier string, idx int) ([]int64, [][]int64) {
	if idx < len(vBackoffFixed) {
		c := vBackoffFixed[idx]
		return c[:], vBackoffPureOps(r, 40)
	}
	if idx == len(vBackoffFixed) || idx == len(vBackoffFixed)+1 {
		// slowly failing connection attempts: the wait must be counted from the failure.
		// 350ms-failures under a 500ms backoff, then failures that last until the connect
		// deadline (max(MinConnectTimeout 1s, backoff)), a reset, a success, a drop
		mult := 1.0
		if idx > len(vBackoffFixed) {
			mult = 1.6
		}
		cfg := []int64{500000000, vBackoffF(mult), 0, 20000000000}
		ops := [][]int64{{7, 350000000}, {6}, {3, 100000000}, {4}, {3, 300000000}, {3, 5000000000}, {4}, {3, 200000000}, {4}, {3, 3000000000}, {7, 2500000000}, {3, 9000000000},
			{4}, {3, 3000000000}, {7, 500000000}, {3, 6000000000}, {2, 1}, {3, 25000000000}, {5}, {2, 0}, {6}, {3, 4000000000}, {4}, {3, 2000000000}}
		return cfg, ops
	}
	if idx%2 == 0 {
		// pacing: deterministic strategy (Jitter = 0), one real ClientConn
		base := r.PickI64(1e6, 1e7, 1e9, 1e6+r.I64n(1e10))
		mult := []float64{1, 1.5, 1.6, 2, 10, 1.0000001}[r.Intn(6)]
		max := r.PickI64(base, 3*base, base+r.I64n(100*base), 120e9+base, 1<<53-1)
		cfg := []int64{base, vBackoffF(mult), 0, max}
		ops := [][]int64{{6}}
		n := 12 + r.Intn(20)
		for i := 0; i < n; i++ {
			switch r.Intn(14) {
			case 0:
				ops = append(ops, []int64{2, int64(r.Intn(2))})
			case 1:
				ops = append(ops, []int64{4})
			case 2:
				ops = append(ops, []int64{5})
			case 3:
				ops = append(ops, []int64{6})
			case 4:
				ops = append(ops, []int64{1, int64(r.Intn(10)), vBackoffRBits(r)})
			case 5:
				ops = append(ops, []int64{2, 1}, []int64{3, r.I64n(20 * base)}, []int64{5}, []int64{2, 0}, []int64{6})
			case 6:
				ops = append(ops, []int64{3, r.PickI64(base-1, base, base+1, 0, 1)})
			case 7, 8:
				// failing dials take a while: a fraction of the backoff, exactly the base
				// delay, longer than MinConnectTimeout (1s) / the backoff, or back to instant
				ops = append(ops, []int64{7, r.PickI64(0, base/2, base, base+1, 3*base, 1+r.I64n(4*base), 999999999, 1000000000, 2500000000)})
			default:
				ops = append(ops, []int64{3, r.I64n(r.PickI64(2*base, 8*base, 60*base))})
			}
		}
		return cfg, ops
	}
	// random configuration, pure ops
	base := vBackoffLogU(r)
	if r.Chance(10) {
		base = -base
	}
	max := vBackoffLogU(r)
	switch r.Intn(10) {
	case 0:
		max = math.MaxInt64
	case 1:
		max = -max
	}
	ms := []float64{0, 0.5, 1, 1.0000001, 1.6, 2, 10, 1e300, math.Inf(1), -1, math.NaN(), 0.999}
	js := []float64{0, 0.2, 0.5, 1, 1.5, 3, -0.2, 1e300, 0.999999, 1e-300}
	mult := ms[r.Intn(len(ms))]
	jit := js[r.Intn(len(js))]
	if r.Chance(30) {
		mult = 1 + float64(r.Intn(3000))/1000
	}
	if r.Chance(30) {
		jit = float64(r.U64()>>11) / (1 << 53)
	}
	return []int64{base, vBackoffF(mult), vBackoffF(jit), max}, vBackoffPureOps(r, 40)
}

func TestVerif_Backoff(t *testing.T) {
	vBackoffT = t
	vRunDriver(t, "Backoff", 60, 1200, vBackoffGen, vBackoffExec)
}
