//go:build verif

// C48 driver: internal/xds/rbac.ChainEngine and authz.StaticInterceptor.
//
//	[1, engines]  rbac.NewChainEngine(protos)                obs [ok]
//	[2, sdk]      authz.NewStatic(json)                      obs [ok]
//	[3, request]  IsAuthorized / UnaryInterceptor on a ctx   obs [code] 0 ok, 1 PermissionDenied, 2 nothing loaded / other
//
// A failed load leaves nothing loaded.  Wire format (coq/model/RBAC.v):
//
//	str = [len, bytes...]; list X = [n, X...]; bool = 0|1
//	smatch = [1..4, ic, str] exact/prefix/suffix/contains | [5, regex id]   (regex 0 ".+", 1 ".*")
//	hspec  = [1,str] exact [2,re] [3,lo,hi] range [4,b] present [5,str] prefix [6,str] suffix [7,str] contains [8,smatch]
//	addr   = [0] | [4, v] | [6, a, b, c, d] (32-bit words); cidr = addr, len
//	rule   = [1,list rule] and [2,list rule] or [3,rule] not [4] any [5,str,hspec,inv] header [6,smatch] path
//	         [7,cidr] dest ip [8,port] dest port [9,inv] metadata [10,smatch] sni [11,0]|[11,1,smatch] authenticated
//	         [12,variant,cidr] direct_remote_ip/source_ip/remote_ip
//	policy = list rule (permissions), list rule (principals); engine = action, list policy
//	srule  = str name, list str principals, list str paths, list (str key, list str values)
//	sdk    = str name, list srule deny, list srule allow
//	request = str path, list (str key, list str values), tls, hascert, list str uris, list str dns, str cn,
//	          addr remote, addr local, local port
package vrbac

import (
	"context"
	"crypto/tls"
	"crypto/x509"
	"crypto/x509/pkix"
	"encoding/json"
	"fmt"
	"net"
	"net/netip"
	"net/url"
	"testing"

	v3corepb "github.com/envoyproxy/go-control-plane/envoy/config/core/v3"
	v3rbacpb "github.com/envoyproxy/go-control-plane/envoy/config/rbac/v3"
	v3routepb "github.com/envoyproxy/go-control-plane/envoy/config/route/v3"
	v3matcherpb "github.com/envoyproxy/go-control-plane/envoy/type/matcher/v3"
	v3typepb "github.com/envoyproxy/go-control-plane/envoy/type/v3"
	"google.golang.org/grpc"
	"google.golang.org/grpc/authz"
	"google.golang.org/grpc/codes"
	"google.golang.org/grpc/credentials"
	"google.golang.org/grpc/internal/transport"
	"google.golang.org/grpc/internal/xds/rbac"
	"google.golang.org/grpc/metadata"
	"google.golang.org/grpc/peer"
	"google.golang.org/grpc/status"
	"google.golang.org/protobuf/types/known/wrapperspb"
)

// ---------------------------------------------------------------- word reader

type vRBACRd struct {
	w   []int64
	bad bool
}

func (r *vRBACRd) z() int64 {
	if r.bad || len(r.w) == 0 {
		r.bad = true
		return 0
	}
	x := r.w[0]
	r.w = r.w[1:]
	return x
}
func (r *vRBACRd) b() bool {
	x := r.z()
	if x != 0 && x != 1 {
		r.bad = true
	}
	return x == 1
}
func (r *vRBACRd) str() string {
	n := r.z()
	if r.bad || n < 0 || int(n) > len(r.w) {
		r.bad = true
		return ""
	}
	b := make([]byte, n)
	for i := range b {
		b[i] = byte(r.w[i])
	}
	r.w = r.w[n:]
	return string(b)
}
func (r *vRBACRd) n() int {
	n := r.z()
	if n < 0 || n > 1000 {
		r.bad = true
		return 0
	}
	return int(n)
}
func (r *vRBACRd) strs() []string {
	n := r.n()
	out := make([]string, 0, n)
	for i := 0; i < n && !r.bad; i++ {
		out = append(out, r.str())
	}
	return out
}

var vRBACRegex = []string{".+", ".*"}

func (r *vRBACRd) sm() *v3matcherpb.StringMatcher {
	k := r.z()
	if k == 5 {
		id := r.z()
		if id < 0 || id > 1 {
			r.bad = true
			return nil
		}
		return &v3matcherpb.StringMatcher{MatchPattern: &v3matcherpb.StringMatcher_SafeRegex{SafeRegex: &v3matcherpb.RegexMatcher{Regex: vRBACRegex[id]}}}
	}
	ic := r.b()
	s := r.str()
	m := &v3matcherpb.StringMatcher{IgnoreCase: ic}
	switch k {
	case 1:
		m.MatchPattern = &v3matcherpb.StringMatcher_Exact{Exact: s}
	case 2:
		m.MatchPattern = &v3matcherpb.StringMatcher_Prefix{Prefix: s}
	case 3:
		m.MatchPattern = &v3matcherpb.StringMatcher_Suffix{Suffix: s}
	case 4:
		m.MatchPattern = &v3matcherpb.StringMatcher_Contains{Contains: s}
	default:
		r.bad = true
	}
	return m
}

func (r *vRBACRd) header() *v3routepb.HeaderMatcher {
	h := &v3routepb.HeaderMatcher{Name: r.str()}
	switch k := r.z(); k {
	case 1:
		h.HeaderMatchSpecifier = &v3routepb.HeaderMatcher_ExactMatch{ExactMatch: r.str()}
	case 2:
		id := r.z()
		if id < 0 || id > 1 {
			r.bad = true
			return h
		}
		h.HeaderMatchSpecifier = &v3routepb.HeaderMatcher_SafeRegexMatch{SafeRegexMatch: &v3matcherpb.RegexMatcher{Regex: vRBACRegex[id]}}
	case 3:
		lo := r.z()
		hi := r.z()
		h.HeaderMatchSpecifier = &v3routepb.HeaderMatcher_RangeMatch{RangeMatch: &v3typepb.Int64Range{Start: lo, End: hi}}
	case 4:
		h.HeaderMatchSpecifier = &v3routepb.HeaderMatcher_PresentMatch{PresentMatch: r.b()}
	case 5:
		h.HeaderMatchSpecifier = &v3routepb.HeaderMatcher_PrefixMatch{PrefixMatch: r.str()}
	case 6:
		h.HeaderMatchSpecifier = &v3routepb.HeaderMatcher_SuffixMatch{SuffixMatch: r.str()}
	case 7:
		h.HeaderMatchSpecifier = &v3routepb.HeaderMatcher_ContainsMatch{ContainsMatch: r.str()}
	case 8:
		h.HeaderMatchSpecifier = &v3routepb.HeaderMatcher_StringMatch{StringMatch: r.sm()}
	default:
		r.bad = true
	}
	h.InvertMatch = r.b()
	return h
}

// addr returns the family (0, 4, 6) and the bytes.
func (r *vRBACRd) addr() (int, []byte) {
	w32 := func() []byte {
		x := r.z()
		if x < 0 || x >= 1<<32 {
			r.bad = true
		}
		return []byte{byte(x >> 24), byte(x >> 16), byte(x >> 8), byte(x)}
	}
	switch r.z() {
	case 0:
		return 0, nil
	case 4:
		return 4, w32()
	case 6:
		var b []byte
		for i := 0; i < 4; i++ {
			b = append(b, w32()...)
		}
		return 6, b
	}
	r.bad = true
	return 0, nil
}

func vRBACNetip(fam int, b []byte) netip.Addr {
	if fam == 4 {
		return netip.AddrFrom4([4]byte(b))
	}
	return netip.AddrFrom16([16]byte(b))
}

func (r *vRBACRd) cidr() *v3corepb.CidrRange {
	fam, b := r.addr()
	l := r.z()
	if r.bad || fam == 0 || l < 0 || l > 200 {
		r.bad = true
		return nil
	}
	return &v3corepb.CidrRange{AddressPrefix: vRBACNetip(fam, b).String(), PrefixLen: wrapperspb.UInt32(uint32(l))}
}

// vRBACNode is either a permission or a principal, built for the requested side;
// wrong is set when the tree uses a oneof case the side does not have.
type vRBACNode struct {
	perm  *v3rbacpb.Permission
	princ *v3rbacpb.Principal
}

func (r *vRBACRd) rules(side int, depth int, wrong *bool) []vRBACNode {
	n := r.n()
	out := make([]vRBACNode, 0, n)
	for i := 0; i < n && !r.bad; i++ {
		out = append(out, r.rule(side, depth, wrong))
	}
	return out
}

func vRBACPerms(ns []vRBACNode) []*v3rbacpb.Permission {
	out := make([]*v3rbacpb.Permission, 0, len(ns))
	for _, n := range ns {
		out = append(out, n.perm)
	}
	return out
}
func vRBACPrincs(ns []vRBACNode) []*v3rbacpb.Principal {
	out := make([]*v3rbacpb.Principal, 0, len(ns))
	for _, n := range ns {
		out = append(out, n.princ)
	}
	return out
}

func (r *vRBACRd) rule(side int, depth int, wrong *bool) vRBACNode {
	if depth > 64 {
		r.bad = true
	}
	if r.bad {
		return vRBACNode{}
	}
	pm := func(p *v3rbacpb.Permission, q *v3rbacpb.Principal) vRBACNode {
		if side == 0 {
			if p == nil {
				*wrong = true
				p = &v3rbacpb.Permission{Rule: &v3rbacpb.Permission_Any{Any: true}}
			}
			return vRBACNode{perm: p}
		}
		if q == nil {
			*wrong = true
			q = &v3rbacpb.Principal{Identifier: &v3rbacpb.Principal_Any{Any: true}}
		}
		return vRBACNode{princ: q}
	}
	switch r.z() {
	case 1:
		l := r.rules(side, depth+1, wrong)
		return pm(&v3rbacpb.Permission{Rule: &v3rbacpb.Permission_AndRules{AndRules: &v3rbacpb.Permission_Set{Rules: vRBACPerms(l)}}},
			&v3rbacpb.Principal{Identifier: &v3rbacpb.Principal_AndIds{AndIds: &v3rbacpb.Principal_Set{Ids: vRBACPrincs(l)}}})
	case 2:
		l := r.rules(side, depth+1, wrong)
		return pm(&v3rbacpb.Permission{Rule: &v3rbacpb.Permission_OrRules{OrRules: &v3rbacpb.Permission_Set{Rules: vRBACPerms(l)}}},
			&v3rbacpb.Principal{Identifier: &v3rbacpb.Principal_OrIds{OrIds: &v3rbacpb.Principal_Set{Ids: vRBACPrincs(l)}}})
	case 3:
		c := r.rule(side, depth+1, wrong)
		return pm(&v3rbacpb.Permission{Rule: &v3rbacpb.Permission_NotRule{NotRule: c.perm}},
			&v3rbacpb.Principal{Identifier: &v3rbacpb.Principal_NotId{NotId: c.princ}})
	case 4:
		return pm(&v3rbacpb.Permission{Rule: &v3rbacpb.Permission_Any{Any: true}},
			&v3rbacpb.Principal{Identifier: &v3rbacpb.Principal_Any{Any: true}})
	case 5:
		h := r.header()
		return pm(&v3rbacpb.Permission{Rule: &v3rbacpb.Permission_Header{Header: h}},
			&v3rbacpb.Principal{Identifier: &v3rbacpb.Principal_Header{Header: h}})
	case 6:
		m := &v3matcherpb.PathMatcher{Rule: &v3matcherpb.PathMatcher_Path{Path: r.sm()}}
		return pm(&v3rbacpb.Permission{Rule: &v3rbacpb.Permission_UrlPath{UrlPath: m}},
			&v3rbacpb.Principal{Identifier: &v3rbacpb.Principal_UrlPath{UrlPath: m}})
	case 7:
		return pm(&v3rbacpb.Permission{Rule: &v3rbacpb.Permission_DestinationIp{DestinationIp: r.cidr()}}, nil)
	case 8:
		p := r.z()
		if p < 0 || p >= 1<<32 {
			r.bad = true
		}
		return pm(&v3rbacpb.Permission{Rule: &v3rbacpb.Permission_DestinationPort{DestinationPort: uint32(p)}}, nil)
	case 9:
		m := &v3matcherpb.MetadataMatcher{Invert: r.b()}
		return pm(&v3rbacpb.Permission{Rule: &v3rbacpb.Permission_Metadata{Metadata: m}},
			&v3rbacpb.Principal{Identifier: &v3rbacpb.Principal_Metadata{Metadata: m}})
	case 10:
		return pm(&v3rbacpb.Permission{Rule: &v3rbacpb.Permission_RequestedServerName{RequestedServerName: r.sm()}}, nil)
	case 11:
		a := &v3rbacpb.Principal_Authenticated{}
		switch r.z() {
		case 0:
		case 1:
			a.PrincipalName = r.sm()
		default:
			r.bad = true
		}
		return pm(nil, &v3rbacpb.Principal{Identifier: &v3rbacpb.Principal_Authenticated_{Authenticated: a}})
	case 12:
		v := r.z()
		c := r.cidr()
		switch v {
		case 0:
			return pm(nil, &v3rbacpb.Principal{Identifier: &v3rbacpb.Principal_DirectRemoteIp{DirectRemoteIp: c}})
		case 1:
			return pm(nil, &v3rbacpb.Principal{Identifier: &v3rbacpb.Principal_SourceIp{SourceIp: c}})
		case 2:
			return pm(nil, &v3rbacpb.Principal{Identifier: &v3rbacpb.Principal_RemoteIp{RemoteIp: c}})
		}
		r.bad = true
	default:
		r.bad = true
	}
	return vRBACNode{}
}

func (r *vRBACRd) engines(wrong *bool) []*v3rbacpb.RBAC {
	ne := r.n()
	var out []*v3rbacpb.RBAC
	for i := 0; i < ne && !r.bad; i++ {
		a := r.z()
		if a < 0 || a > 2 {
			r.bad = true
			break
		}
		e := &v3rbacpb.RBAC{Action: v3rbacpb.RBAC_Action(a), Policies: map[string]*v3rbacpb.Policy{}}
		np := r.n()
		for j := 0; j < np && !r.bad; j++ {
			perms := r.rules(0, 0, wrong)
			princs := r.rules(1, 0, wrong)
			e.Policies[fmt.Sprintf("p%03d", j)] = &v3rbacpb.Policy{Permissions: vRBACPerms(perms), Principals: vRBACPrincs(princs)}
		}
		out = append(out, e)
	}
	return out
}

// ---------------------------------------------------------------- SDK policy JSON

type vRBACJHeader struct {
	Key    string   `json:"key"`
	Values []string `json:"values"`
}
type vRBACJRule struct {
	Name   string `json:"name"`
	Source struct {
		Principals []string `json:"principals"`
	} `json:"source"`
	Request struct {
		Paths   []string       `json:"paths"`
		Headers []vRBACJHeader `json:"headers"`
	} `json:"request"`
}
type vRBACJPolicy struct {
	Name  string       `json:"name"`
	Deny  []vRBACJRule `json:"deny_rules"`
	Allow []vRBACJRule `json:"allow_rules"`
}

func (r *vRBACRd) headers() []vRBACJHeader {
	n := r.n()
	out := make([]vRBACJHeader, 0, n)
	for i := 0; i < n && !r.bad; i++ {
		out = append(out, vRBACJHeader{Key: r.str(), Values: r.strs()})
	}
	return out
}

func (r *vRBACRd) srules() []vRBACJRule {
	n := r.n()
	out := make([]vRBACJRule, 0, n)
	for i := 0; i < n && !r.bad; i++ {
		var x vRBACJRule
		x.Name = r.str()
		x.Source.Principals = r.strs()
		x.Request.Paths = r.strs()
		x.Request.Headers = r.headers()
		out = append(out, x)
	}
	return out
}

// ---------------------------------------------------------------- request context

type vRBACStream struct{ method string }

func (s *vRBACStream) Method() string               { return s.method }
func (s *vRBACStream) SetHeader(metadata.MD) error  { return nil }
func (s *vRBACStream) SendHeader(metadata.MD) error { return nil }
func (s *vRBACStream) SetTrailer(metadata.MD) error { return nil }

type vRBACConn struct {
	net.Conn
	local net.Addr
}

func (c *vRBACConn) LocalAddr() net.Addr { return c.local }

func vRBACNetAddr(fam int, b []byte, port int) net.Addr {
	if fam == 0 {
		return &net.UnixAddr{Name: "/tmp/vrbac.sock", Net: "unix"}
	}
	return &net.TCPAddr{IP: net.IP(b), Port: port}
}

func vRBACURI(s string) *url.URL {
	if u, err := url.Parse(s); err == nil && u.String() == s {
		return u
	}
	return &url.URL{Opaque: s}
}

func (r *vRBACRd) request() context.Context { return r.requestD(0) }

// requestD builds the context with one ingredient left out:
// 1 no metadata, 2 no peer, 3 no transport stream (method), 4 no connection,
// 5 a local address without a port (unix socket listener).
func (r *vRBACRd) requestD(defect int64) context.Context {
	path := r.str()
	hs := r.headers()
	isTLS := r.b()
	hasCert := r.b()
	uris := r.strs()
	dns := r.strs()
	cn := r.str()
	rfam, rb := r.addr()
	lfam, lb := r.addr()
	lport := r.z()
	if r.bad || lfam == 0 || lport < 0 || lport > 65535 {
		r.bad = true
		return nil
	}
	md := metadata.MD{}
	for _, h := range hs {
		md[h.Key] = h.Values
	}
	ctx := context.Background()
	if defect != 1 {
		ctx = metadata.NewIncomingContext(ctx, md)
	}
	p := &peer.Peer{Addr: vRBACNetAddr(rfam, rb, 40000)}
	if isTLS {
		info := credentials.TLSInfo{}
		if hasCert {
			c := &x509.Certificate{DNSNames: dns}
			if cn != "" {
				c.Subject = pkix.Name{CommonName: cn}
			}
			for _, u := range uris {
				c.URIs = append(c.URIs, vRBACURI(u))
			}
			info.State = tls.ConnectionState{PeerCertificates: []*x509.Certificate{c}}
		}
		p.AuthInfo = info
	}
	if defect != 2 {
		ctx = peer.NewContext(ctx, p)
	}
	if defect != 3 {
		ctx = grpc.NewContextWithServerTransportStream(ctx, &vRBACStream{method: path})
	}
	switch defect {
	case 4:
	case 5:
		ctx = transport.SetConnection(ctx, &vRBACConn{local: vRBACNetAddr(0, nil, 0)})
	default:
		ctx = transport.SetConnection(ctx, &vRBACConn{local: vRBACNetAddr(lfam, lb, int(lport))})
	}
	return ctx
}

// vRBACSS is the ServerStream handed to StreamInterceptor.
type vRBACSS struct {
	grpc.ServerStream
	ctx context.Context
}

func (s *vRBACSS) Context() context.Context { return s.ctx }

// ---------------------------------------------------------------- exec

func vRBACCode(err error) int64 {
	if err == nil {
		return 0
	}
	if status.Code(err) == codes.PermissionDenied {
		return 1
	}
	return 2
}

func vRBACExec(cfg []int64, ops [][]int64) ([][]int64, bool, []string) {
	var obs [][]int64
	var chain *rbac.ChainEngine
	var static *authz.StaticInterceptor
	tagset := map[string]bool{}
	for _, op := range ops {
		if len(op) == 0 {
			obs = append(obs, []int64{})
			continue
		}
		r := &vRBACRd{w: op[1:]}
		switch op[0] {
		case 1:
			chain, static = nil, nil
			wrong := false
			es := r.engines(&wrong)
			if r.bad || len(r.w) != 0 {
				obs = append(obs, []int64{})
				continue
			}
			ok := false
			if !wrong {
				if ce, err := rbac.NewChainEngine(es, "vrbac"); err == nil {
					chain, ok = ce, true
				}
			}
			if !ok {
				tagset["load-fail"] = true
			}
			obs = append(obs, []int64{vB(ok)})
		case 2:
			chain, static = nil, nil
			var p vRBACJPolicy
			p.Name = r.str()
			p.Deny = r.srules()
			p.Allow = r.srules()
			if r.bad || len(r.w) != 0 {
				obs = append(obs, []int64{})
				continue
			}
			js, err := json.Marshal(&p)
			ok := false
			if err == nil {
				if si, err := authz.NewStatic(string(js)); err == nil {
					static, ok = si, true
				}
			}
			if !ok {
				tagset["sdk-reject"] = true
			}
			obs = append(obs, []int64{vB(ok)})
		case 3:
			ctx := r.request()
			if r.bad || len(r.w) != 0 {
				obs = append(obs, []int64{})
				continue
			}
			code := int64(2)
			switch {
			case chain != nil:
				code = vRBACCode(chain.IsAuthorized(ctx))
				tagset[fmt.Sprintf("chain-%d", code)] = true
			case static != nil:
				_, err := static.UnaryInterceptor(ctx, nil, nil, func(context.Context, any) (any, error) { return nil, nil })
				code = vRBACCode(err)
				tagset[fmt.Sprintf("sdk-%d", code)] = true
			}
			obs = append(obs, []int64{code})
		case 4:
			if len(op) < 3 || op[1] < 0 || op[1] > 5 || op[2] < 0 || op[2] > 1 {
				obs = append(obs, []int64{})
				continue
			}
			r = &vRBACRd{w: op[3:]}
			ctx := r.requestD(op[1])
			if r.bad || len(r.w) != 0 {
				obs = append(obs, []int64{})
				continue
			}
			code, invoked := int64(3), false
			switch {
			case chain != nil:
				err := chain.IsAuthorized(ctx)
				code, invoked = vRBACCode(err), err == nil
			case static != nil && op[2] == 0:
				_, err := static.UnaryInterceptor(ctx, nil, nil, func(context.Context, any) (any, error) { invoked = true; return nil, nil })
				code = vRBACCode(err)
			case static != nil:
				err := static.StreamInterceptor(nil, &vRBACSS{ctx: ctx}, nil, func(any, grpc.ServerStream) error { invoked = true; return nil })
				code = vRBACCode(err)
			}
			if op[1] != 0 && (chain != nil || static != nil) {
				tagset["incomplete-ctx"] = true
			}
			if invoked {
				tagset["handler-run"] = true
			}
			obs = append(obs, []int64{code, vB(invoked)})
		default:
			obs = append(obs, []int64{})
		}
	}
	var tags []string
	for _, t := range []string{"chain-0", "chain-1", "chain-2", "sdk-0", "sdk-1", "sdk-2", "load-fail", "sdk-reject", "incomplete-ctx", "handler-run"} {
		if tagset[t] {
			tags = append(tags, t)
		}
	}
	nt := (tagset["chain-0"] && tagset["chain-1"]) || (tagset["sdk-0"] && tagset["sdk-1"])
	return obs, nt, tags
}

// ---------------------------------------------------------------- generators

func vRBACStr(s string) []int64 { return vBytes([]byte(s)) }
func vRBACStrs(ss []string) []int64 {
	out := []int64{int64(len(ss))}
	for _, s := range ss {
		out = append(out, vRBACStr(s)...)
	}
	return out
}

var (
	vRBACPaths  = []string{"/svc.A/Get", "/svc.A/Put", "/svc.B/Get", "/pkg.Echo/Say", "/a", "/a/b", "", "/svc.A/get", "/line\nbreak", "*/Get/x", "/x/Get*"}
	vRBACKeys   = []string{"k1", "k2", "x-id", "x-n", ":method", ":path", "te", "content-type"}
	vRBACVals   = []string{"v1", "v2", "abc", "abd", "", "10", "-5", "+7", "9223372036854775807", "9223372036854775808", "007", "1_0", "POST", "a,b", "V1", "x\ny"}
	vRBACIDs    = []string{"spiffe://foo.com/sa", "spiffe://foo.com/sb", "spiffe://bar.org/x", "foo.com", "bar.org", "a.foo.com", "CN=alice", "alice", "bob", "", "*.foo.com", "SPIFFE://FOO.com/sa"}
	vRBACCNs    = []string{"alice", "bob", "foo.com", "", "x1"}
	vRBACNames  = []string{"r1", "r2", "r3", "admin", "", "r1"}
	vRBACV4     = []int64{0x0A000001, 0x0A000005, 0x0A0000FF, 0x0A000105, 0x0A010005, 0xC0A80001, 0xC0A80101, 0x7F000001, 0, 0xFFFFFFFF}
	vRBACV6     = [][4]int64{{0x20010DB8, 0, 0, 1}, {0x20010DB8, 0, 0, 0xFFFF}, {0x20010DB8, 1, 0, 1}, {0, 0, 0, 1}, {0, 0, 0xFFFF, 0x0A000005}, {0, 0, 0xFFFF, 0xC0A80001}, {0xFE800000, 0, 0, 5}, {0, 0, 0, 0}}
	vRBACLens4  = []int64{0, 1, 8, 16, 23, 24, 25, 31, 32, 33}
	vRBACLens6  = []int64{0, 16, 32, 48, 64, 96, 104, 120, 127, 128, 129}
	vRBACPorts  = []int64{80, 443, 8080, 0, 65535}
	vRBACDPorts = []int64{80, 443, 8080, 0, 65535, 65536, 4294967295}
)

func vRBACPick(r *vRand, xs []string) string { return xs[r.Intn(len(xs))] }

// a pattern related to the pool: whole string, a prefix, a suffix or an inner part of it
func vRBACPat(r *vRand, pool []string) string {
	s := vRBACPick(r, pool)
	if len(s) < 2 {
		return s
	}
	switch r.Intn(6) {
	case 0:
		return s[:1+r.Intn(len(s)-1)]
	case 1:
		return s[r.Intn(len(s)-1)+1:]
	case 2:
		i := r.Intn(len(s) - 1)
		return s[i : i+1+r.Intn(len(s)-i-1)]
	}
	return s
}

func vRBACUpper(r *vRand, s string) string {
	b := []byte(s)
	for i := range b {
		if b[i] >= 'a' && b[i] <= 'z' && r.Chance(40) {
			b[i] -= 32
		}
	}
	return string(b)
}

func vRBACGenSM(r *vRand, pool []string) []int64 {
	if r.Chance(12) {
		return []int64{5, int64(r.Intn(2))}
	}
	k := int64(1 + r.Intn(4))
	p := vRBACPat(r, pool)
	ic := r.Chance(25)
	if ic || r.Chance(10) {
		p = vRBACUpper(r, p)
	}
	if vRBACBad && r.Chance(4) {
		p = ""
	}
	if p == "" && !vRBACBad {
		k = 1 // an empty prefix/suffix/contains pattern is a load error
	}
	return vCat([]int64{k, vB(ic)}, vRBACStr(p))
}

func vRBACGenHeader(r *vRand) []int64 {
	key := vRBACPick(r, vRBACKeys[:4])
	if r.Chance(25) {
		key = vRBACPick(r, vRBACKeys)
	}
	out := vRBACStr(key)
	switch r.Intn(9) {
	case 0, 8:
		out = vCat(out, []int64{1}, vRBACStr(vRBACPick(r, vRBACVals)))
	case 1:
		out = append(out, 2, int64(r.Intn(2)))
	case 2:
		lo := r.PickI64(-10, 0, 5, 7, 10, 9223372036854775807, -9223372036854775808)
		hi := r.PickI64(-5, 0, 8, 10, 11, 100, 9223372036854775807)
		out = append(out, 3, lo, hi)
	case 3:
		out = append(out, 4, vB(r.Bool()))
	case 4:
		out = vCat(out, []int64{5}, vRBACStr(vRBACPat(r, vRBACVals)))
	case 5:
		out = vCat(out, []int64{6}, vRBACStr(vRBACPat(r, vRBACVals)))
	case 6:
		out = vCat(out, []int64{7}, vRBACStr(vRBACPat(r, vRBACVals)))
	case 7:
		out = vCat(out, []int64{8}, vRBACGenSM(r, vRBACVals))
	}
	return append(out, vB(r.Chance(30)))
}

func vRBACGenAddr(r *vRand, allowZero bool) []int64 {
	switch {
	case allowZero && r.Chance(5):
		return []int64{0}
	case r.Chance(60):
		v := vRBACV4[r.Intn(len(vRBACV4))]
		if r.Chance(20) {
			v ^= int64(1) << uint(r.Intn(32))
		}
		return []int64{4, v}
	}
	a := vRBACV6[r.Intn(len(vRBACV6))]
	if r.Chance(20) {
		a[r.Intn(4)] ^= int64(1) << uint(r.Intn(32))
	}
	return []int64{6, a[0], a[1], a[2], a[3]}
}

func vRBACGenCidr(r *vRand) []int64 {
	a := vRBACGenAddr(r, false)
	// the last entry of each table is one past the family's width: ParsePrefix fails
	if a[0] == 4 {
		n := len(vRBACLens4) - 1
		if vRBACBad && r.Chance(6) {
			return append(a, vRBACLens4[n])
		}
		return append(a, vRBACLens4[r.Intn(n)])
	}
	n := len(vRBACLens6) - 1
	if vRBACBad && r.Chance(6) {
		return append(a, vRBACLens6[n])
	}
	return append(a, vRBACLens6[r.Intn(n)])
}

func vRBACGenRule(r *vRand, side int, depth int) []int64 {
	k := r.Intn(100)
	if depth <= 0 && k < 36 {
		k = 36 + r.Intn(64)
	}
	switch {
	case k < 12, k >= 12 && k < 24:
		tag := int64(1)
		if k >= 12 {
			tag = 2
		}
		n := r.Intn(4)
		out := []int64{tag, int64(n)}
		for i := 0; i < n; i++ {
			out = append(out, vRBACGenRule(r, side, depth-1)...)
		}
		return out
	case k < 36:
		return vCat([]int64{3}, vRBACGenRule(r, side, depth-1))
	case k < 42:
		return []int64{4}
	case k < 56:
		return vCat([]int64{5}, vRBACGenHeader(r))
	case k < 70:
		return vCat([]int64{6}, vRBACGenSM(r, vRBACPaths))
	case k < 73:
		return []int64{9, vB(r.Bool())}
	}
	// side specific leaves (2% of them from the other side: the load must fail)
	s := side
	if vRBACBad && r.Chance(3) {
		s = 1 - s
	}
	if s == 0 {
		switch r.Intn(5) {
		case 0, 1:
			return vCat([]int64{7}, vRBACGenCidr(r))
		case 2, 3:
			return []int64{8, vRBACDPorts[r.Intn(len(vRBACDPorts))]}
		}
		return vCat([]int64{10}, vRBACGenSM(r, []string{"", "a", "foo.com"}))
	}
	switch r.Intn(5) {
	case 0:
		return []int64{11, 0}
	case 1, 2:
		return vCat([]int64{11, 1}, vRBACGenSM(r, vRBACIDs))
	}
	return vCat([]int64{12, int64(r.Intn(3))}, vRBACGenCidr(r))
}

// vRBACBad is set while generating a chain that may contain things the engine
// must reject (empty patterns, over-long prefixes, LOG action, wrong-side leaves).
var vRBACBad bool

func vRBACGenChain(r *vRand) []int64 {
	vRBACBad = r.Chance(20)
	defer func() { vRBACBad = false }()
	if !vRBACBad && r.Chance(40) {
		// a chain decided by a single leaf: one engine, one policy, one side is "any"
		// and the other a leaf (possibly under not), so every leaf kind is decisive
		side := r.Intn(2)
		leaf := vRBACGenRule(r, side, 0)
		if r.Chance(25) {
			leaf = vCat([]int64{3}, leaf)
		}
		out := []int64{1, 1, int64(r.Intn(2)), 1}
		if side == 0 {
			return vCat(out, []int64{1}, leaf, []int64{1, 4})
		}
		return vCat(out, []int64{1, 4}, []int64{1}, leaf)
	}
	ne := 1 + r.Intn(3)
	if r.Chance(5) {
		ne = 0
	}
	out := []int64{1, int64(ne)}
	for i := 0; i < ne; i++ {
		a := int64(r.Intn(2))
		if vRBACBad && r.Chance(10) {
			a = 2
		}
		np := r.Intn(4)
		out = append(out, a, int64(np))
		for j := 0; j < np; j++ {
			for side := 0; side < 2; side++ {
				n := 1 + r.Intn(2)
				if r.Chance(5) {
					n = 0
				}
				out = append(out, int64(n))
				for k := 0; k < n; k++ {
					out = append(out, vRBACGenRule(r, side, 1+r.Intn(4))...)
				}
			}
		}
	}
	return out
}

// an SDK wildcard pattern: exact, prefix*, *suffix, *, and odd ones (**, *x*)
func vRBACWild(r *vRand, pool []string) string {
	s := vRBACPick(r, pool)
	switch r.Intn(10) {
	case 0:
		return "*"
	case 1, 2:
		if len(s) > 1 {
			return s[:1+r.Intn(len(s)-1)] + "*"
		}
		return s + "*"
	case 3, 4:
		if len(s) > 1 {
			return "*" + s[1+r.Intn(len(s)-1):]
		}
		return "*" + s
	case 5:
		return vRBACPickStr(r, "**", "*a*", "*/Get*", "")
	}
	return s
}

func vRBACPickStr(r *vRand, xs ...string) string { return xs[r.Intn(len(xs))] }

func vRBACGenSRules(r *vRand, n int, bad bool) []int64 {
	out := []int64{int64(n)}
	names := []string{"r1", "r2", "r3", "r4", "admin", "dev"}
	for i := 0; i < n; i++ {
		name := names[i%len(names)]
		if bad && r.Chance(25) {
			name = vRBACPick(r, vRBACNames) // duplicates and the empty name
		}
		var princs, paths []string
		for j := r.PickInt(0, 0, 1, 1, 2); j > 0; j-- {
			princs = append(princs, vRBACWild(r, vRBACIDs))
		}
		for j := r.PickInt(0, 1, 1, 2); j > 0; j-- {
			paths = append(paths, vRBACWild(r, vRBACPaths))
		}
		nh := r.PickInt(0, 0, 0, 1, 1, 2)
		out = vCat(out, vRBACStr(name), vRBACStrs(princs), vRBACStrs(paths), []int64{int64(nh)})
		for j := 0; j < nh; j++ {
			key := vRBACPickStr(r, "k1", "k2", "x-id", "K1", "X-N")
			var vals []string
			for k := r.PickInt(1, 1, 2); k > 0; k-- {
				vals = append(vals, vRBACWild(r, vRBACVals))
			}
			if bad && r.Chance(15) {
				switch r.Intn(3) {
				case 0:
					key = vRBACPickStr(r, "", ":authority", "grpc-timeout", "Host", "te", "GRPC-x", "upgrade")
				case 1:
					vals = nil
				}
			}
			out = vCat(out, vRBACStr(key), vRBACStrs(vals))
		}
	}
	return out
}

func vRBACGenSdk(r *vRand) []int64 {
	bad := r.Chance(30)
	name := "authz"
	if bad && r.Chance(10) {
		name = ""
	}
	nd := r.PickInt(0, 1, 1, 2, 3)
	na := r.PickInt(1, 1, 2, 3)
	if bad && r.Chance(10) {
		na = 0
	}
	return vCat([]int64{2}, vRBACStr(name), vRBACGenSRules(r, nd, bad), vRBACGenSRules(r, na, bad))
}

func vRBACGenReq(r *vRand) []int64 { return vRBACGenReqK(r, -1) }

// vRBACGenCall: the same request run through the interceptor with a recording handler,
// half of the time with an incomplete context.
func vRBACGenCall(r *vRand) []int64 {
	req := vRBACGenReq(r)
	defect := int64(0)
	if r.Bool() {
		defect = int64(1 + r.Intn(5))
	}
	return vCat([]int64{4, defect, int64(r.Intn(2))}, req[1:])
}

// vRBACGenReqK: a request whose first header has key vRBACKeys[key] (when key >= 0).
func vRBACGenReqK(r *vRand, key int) []int64 {
	out := vCat([]int64{3}, vRBACStr(vRBACPick(r, vRBACPaths)))
	nh := 1 + r.Intn(4)
	perm := []int{0, 1, 2, 3, 4, 5, 6, 7}
	// shuffle the plain keys (0-3) and the special ones (4-7) separately and take
	// plain, plain, special, special: plain keys are present in most requests
	for i := 0; i < 4; i++ {
		j := i + r.Intn(4-i)
		perm[i], perm[j] = perm[j], perm[i]
		j = 4 + i + r.Intn(4-i)
		perm[4+i], perm[j] = perm[j], perm[4+i]
	}
	perm[2], perm[3], perm[4], perm[5] = perm[4], perm[5], perm[2], perm[3]
	if key >= 0 {
		for i := range perm {
			if perm[i] == key {
				perm[0], perm[i] = perm[i], perm[0]
			}
		}
	}
	out = append(out, int64(nh))
	for i := 0; i < nh; i++ {
		var vals []string
		for k := r.PickInt(0, 1, 1, 1, 2, 3); k > 0; k-- {
			vals = append(vals, vRBACPick(r, vRBACVals))
		}
		out = vCat(out, vRBACStr(vRBACKeys[perm[i]]), vRBACStrs(vals))
	}
	var uris, dns []string
	for k := r.PickInt(0, 0, 1, 2); k > 0; k-- {
		uris = append(uris, vRBACPick(r, vRBACIDs[:3]))
	}
	for k := r.PickInt(0, 0, 1, 2); k > 0; k-- {
		dns = append(dns, vRBACPick(r, vRBACIDs[3:]))
	}
	out = vCat(out, []int64{vB(r.Chance(75)), vB(r.Chance(80))}, vRBACStrs(uris), vRBACStrs(dns), vRBACStr(vRBACPick(r, vRBACCNs)),
		vRBACGenAddr(r, true), vRBACGenAddr(r, false), []int64{vRBACPorts[r.Intn(len(vRBACPorts))]})
	return out
}

// the fixed case: the duplicate-rule-name policy of the C48 finding (now rejected),
// a clean SDK policy, and a hand-written chain, each followed by requests.
func vRBACFixed() [][]int64 {
	req := func(path string, hs []vRBACJHeader, isTLS bool, uri string, remote []int64) []int64 {
		out := vCat([]int64{3}, vRBACStr(path), []int64{int64(len(hs))})
		for _, h := range hs {
			out = vCat(out, vRBACStr(h.Key), vRBACStrs(h.Values))
		}
		var uris []string
		if uri != "" {
			uris = []string{uri}
		}
		return vCat(out, []int64{vB(isTLS), 1}, vRBACStrs(uris), vRBACStrs([]string{"foo.com"}), vRBACStr("alice"),
			remote, []int64{4, 0x0A000001, 443})
	}
	srule := func(name string, princs, paths []string) []int64 {
		return vCat(vRBACStr(name), vRBACStrs(princs), vRBACStrs(paths), []int64{0})
	}
	reqs := [][]int64{
		req("/a/deny1", nil, true, "spiffe://foo.com/sa", []int64{4, 0x0A000005}),
		req("/a/deny2", nil, true, "spiffe://foo.com/sa", []int64{4, 0x0A000005}),
		req("/a/ok", nil, false, "", []int64{4, 0xC0A80001}),
		req("/b", []vRBACJHeader{{Key: "k1", Values: []string{"v1", "v2"}}}, true, "", []int64{6, 0, 0, 0xFFFF, 0x0A000005}),
	}
	var ops [][]int64
	// deny rules r:/a/deny1 and r:/a/deny2 share a name
	ops = append(ops, vCat([]int64{2}, vRBACStr("p"), []int64{2}, srule("r", nil, []string{"/a/deny1"}), srule("r", nil, []string{"/a/deny2"}),
		[]int64{1}, srule("all", nil, nil)))
	ops = append(ops, reqs...)
	ops = append(ops, vCat([]int64{2}, vRBACStr("p"), []int64{2}, srule("r", nil, []string{"/a/deny1"}), srule("s", nil, []string{"/a/deny2"}),
		[]int64{2}, srule("r", []string{"spiffe://foo.com/*"}, []string{"/a/*"}), srule("s", nil, []string{"*/ok"})))
	ops = append(ops, reqs...)
	for _, q := range [][]int64{reqs[2], reqs[0]} { // allowed by the policy / denied by it
		for defect := int64(0); defect <= 5; defect++ {
			for via := int64(0); via < 2; via++ {
				ops = append(ops, vCat([]int64{4, defect, via}, q[1:]))
			}
		}
	}
	// DENY {remote in 10.0.0.0/24 and not path /a/deny2}, ALLOW {any, authenticated foo.com-suffix or header k1 = "v1,v2"}
	ops = append(ops, vCat([]int64{1, 2},
		[]int64{1, 1, 1}, []int64{3, 6, 1, 0}, vRBACStr("/a/deny2"), []int64{1, 12, 0, 4, 0x0A000000, 24},
		[]int64{0, 1, 1, 4, 2}, []int64{11, 1, 2, 0}, vRBACStr("spiffe://foo.com/"), []int64{5}, vRBACStr("k1"), []int64{1}, vRBACStr("v1,v2"), []int64{0}))
	ops = append(ops, reqs...)
	// a star at both ends is a prefix pattern whose prefix starts with a literal star
	ops = append(ops, vCat([]int64{2}, vRBACStr("p"), []int64{0}, []int64{1}, srule("w", nil, []string{"*/Get*"})))
	ops = append(ops, req("*/Get/x", nil, false, "", []int64{4, 1}), req("/x/Get*", nil, false, "", []int64{4, 1}),
		req("/x/Get/x", nil, false, "", []int64{4, 1}))
	ops = append(ops, vCat([]int64{2}, vRBACStr("p"), []int64{0}, []int64{1}, srule("w", []string{"*a*"}, nil)))
	ops = append(ops, req("/a", nil, true, "*aXX", []int64{4, 1}), req("/a", nil, true, "XXa*", []int64{4, 1}),
		req("/a", nil, true, "XaX", []int64{4, 1}))
	return ops
}

// vRBACSweep: every header matcher kind x invert (idx 1) / every string matcher kind x
// ignore_case on the path and on the authenticated principal (idx 2), each as the only
// leaf of an ALLOW chain, followed by requests that carry the header.
func vRBACSweep(r *vRand, idx int) [][]int64 {
	var ops [][]int64
	single := func(side int, leaf []int64) []int64 {
		if side == 0 {
			return vCat([]int64{1, 1, 0, 1, 1}, leaf, []int64{1, 4})
		}
		return vCat([]int64{1, 1, 0, 1, 1, 4, 1}, leaf)
	}
	if idx == 1 {
		for kind := 0; kind < 8; kind++ {
			for inv := int64(0); inv < 2; inv++ {
				key := r.Intn(4)
				h := vRBACStr(vRBACKeys[key])
				switch kind {
				case 0:
					h = vCat(h, []int64{1}, vRBACStr(vRBACPick(r, vRBACVals)))
				case 1:
					h = append(h, 2, int64(r.Intn(2)))
				case 2:
					h = append(h, 3, r.PickI64(-10, 0, 7), r.PickI64(8, 11, 100))
				case 3:
					h = append(h, 4, vB(r.Bool()))
				case 4, 5, 6:
					h = vCat(h, []int64{int64(kind + 1)}, vRBACStr(vRBACPat(r, vRBACVals[:4])))
				case 7:
					h = vCat(h, []int64{8}, vRBACGenSM(r, vRBACVals))
				}
				ops = append(ops, single(r.Intn(2), vCat([]int64{5}, h, []int64{inv})))
				for i := 0; i < 4; i++ {
					ops = append(ops, vRBACGenReqK(r, key))
				}
			}
		}
		return ops
	}
	for kind := int64(1); kind <= 5; kind++ {
		for ic := int64(0); ic < 2; ic++ {
			for side := 0; side < 2; side++ {
				pool := vRBACPaths
				if side == 1 {
					pool = vRBACIDs
				}
				var sm []int64
				if kind == 5 {
					sm = []int64{5, ic}
				} else {
					p := vRBACPat(r, pool)
					if p == "" {
						p = "a"
					}
					if ic == 1 {
						p = vRBACUpper(r, p)
					}
					sm = vCat([]int64{kind, ic}, vRBACStr(p))
				}
				if side == 0 {
					ops = append(ops, single(0, vCat([]int64{6}, sm)))
				} else {
					ops = append(ops, single(1, vCat([]int64{11, 1}, sm)))
				}
				for i := 0; i < 4; i++ {
					ops = append(ops, vRBACGenReq(r))
				}
			}
		}
	}
	return ops
}

func vRBACGen(r *vRand, tier string, idx int) ([]int64, [][]int64) {
	if idx == 0 {
		return nil, vRBACFixed()
	}
	if idx == 1 || idx == 2 {
		return nil, vRBACSweep(r, idx)
	}
	var ops [][]int64
	for l := 0; l < 5; l++ {
		if (idx+l)%2 == 0 {
			ops = append(ops, vRBACGenChain(r))
		} else {
			ops = append(ops, vRBACGenSdk(r))
		}
		for i := 0; i < 8; i++ {
			ops = append(ops, vRBACGenReq(r))
		}
		for i := 0; i < 4; i++ {
			ops = append(ops, vRBACGenCall(r))
		}
	}
	return nil, ops
}

func TestVerif_RBAC(t *testing.T) {
	vRunDriver(t, "RBAC", 40, 800, vRBACGen, vRBACExec)
}
