//go:build verif

// C33 driver: the real gracefulswitch.Balancer between stub child policies and a
// recording balancer.ClientConn.
//
// cfg  [inl0, nz0, inl1, nz1, inl2, nz2]   behaviour of the three stub builders:
//
//	inl  -1 nothing inline | 0..3 UpdateState(inl) during Build |
//	     4..7 NewSubConn then UpdateState(inl-4) during Build | 8 NewSubConn during Build
//	nz   1 = on Close the child first calls NewSubConn and UpdateState(READY) ("noisy")
//
// ops
//
//	[1, b]        gsb.SwitchTo(builder b)
//	[2, id, s]    child id calls cc.UpdateState(s, picker(id))
//	[3, id]       child id calls cc.NewSubConn
//	[4, sc, s]    the channel delivers state s to sub-channel sc's listener
//	              (s = 4 SHUTDOWN only if sc.Shutdown() was called before)
//	[5]           gsb.Close()
//	[6, b]        gsb.UpdateClientConnState with the gracefulswitch config of builder b
//	[7, id, sc]   child id calls cc.RemoveSubConn(sc)
//	[8]           gsb.ResolverError
//	[9]           gsb.ExitIdle
//	[10, id]      child id calls cc.ResolveNow
//	[11, id, sc]  child id calls cc.UpdateAddresses(sc)
//	[12, id, j, s] child id calls cc.NewSubConn and, while that call is inside the channel's
//	              NewSubConn (gsb.mu not held), child j reports state s; the swap this may
//	              cause, including the asynchronous Close of the old wrapper, completes
//	              (synctest.Wait) before the channel's NewSubConn returns
//	[13, id, j, s] (id != j) child id reports READY and, while the channel's UpdateState that forwards
//	              it is still running (the state counts as seen by the channel when that call
//	              completes), child j reports state s from a second goroutine.  The forward is held
//	              only until the second goroutine has finished or is parked (bounded yields: it
//	              parks on gsb.mu).  Recorded as the two reports [2,id,2] [2,j,s], one chunk each.
//
// obs: one word per event, every op ends with [0]
//
//	[1, s, id]   channel got UpdateState(s) with the picker of child id (-1: not a child's picker)
//	[2, sc]      channel got NewSubConn, created sub-channel sc
//	[3, id]      child id was closed (Balancer.Close)
//	[4, id, b]   builder b built child id
//	[5, id, sc, s] child id received sub-channel state
//	[6, id] [7, id] [8, id]  child id received UpdateClientConnState / ResolverError / ExitIdle
//	[9]          channel got ResolveNow      [10, sc] channel got UpdateAddresses(sc)
//	[11, ok, sc] result of a child's NewSubConn   [12, err] result of SwitchTo
//	[13, err]    result of UpdateClientConnState  [14, sc] sc.Shutdown() called
//
// The asynchronous close of the old policy after a swap is awaited with
// synctest.Wait() at the end of the op; its events are listed after the op's
// synchronous events (the close event, then its Shutdown calls in increasing order).
package gswitch

import (
	"bytes"
	"encoding/json"
	"errors"
	"fmt"
	"runtime"
	"sort"
	"sync"
	"sync/atomic"
	"testing"
	"testing/synctest"

	"google.golang.org/grpc/balancer"
	"google.golang.org/grpc/connectivity"
	"google.golang.org/grpc/internal/balancer/gracefulswitch"
	"google.golang.org/grpc/resolver"
	"google.golang.org/grpc/serviceconfig"
)

type vGSwitchEnv struct {
	mu       sync.Mutex
	main     [][]int64
	async    [][]int64
	cfg      []int64
	children []*vGSwitchChild
	scs      []*vGSwitchSC
	gsb      *gracefulswitch.Balancer
	tags     map[string]bool
	during   func() // scripted re-entrant action, run once inside the channel's NewSubConn
	slowID   int64  // >= 0: the next UpdateState(READY, picker slowID) is slow (op 13), one-shot
	slowHook func(inSwap bool)
}

var vGSwitchCur *vGSwitchEnv

// events emitted by the goroutine that swap() starts are kept apart
func vGSwitchIsAsync() bool {
	buf := make([]byte, 8192)
	n := runtime.Stack(buf, false)
	return bytes.Contains(buf[:n], []byte("gracefulswitch.(*Balancer).swap.func1"))
}

func (e *vGSwitchEnv) ev(w ...int64) {
	as := vGSwitchIsAsync()
	e.mu.Lock()
	defer e.mu.Unlock()
	if as {
		e.async = append(e.async, w)
	} else {
		e.main = append(e.main, w)
	}
}

// sort maximal runs of Shutdown events (map iteration order inside bw.Close)
func vGSwitchSortRuns(evs [][]int64) [][]int64 {
	i := 0
	for i < len(evs) {
		if evs[i][0] != 14 {
			i++
			continue
		}
		j := i
		for j < len(evs) && evs[j][0] == 14 {
			j++
		}
		run := evs[i:j]
		sort.Slice(run, func(a, b int) bool { return run[a][1] < run[b][1] })
		i = j
	}
	return evs
}

func (e *vGSwitchEnv) flush() [][]int64 {
	synctest.Wait()
	e.mu.Lock()
	defer e.mu.Unlock()
	out := append(vGSwitchSortRuns(e.main), vGSwitchSortRuns(e.async)...)
	out = append(out, []int64{0})
	e.main, e.async = nil, nil
	return out
}

// ---- recording ClientConn

type vGSwitchCC struct {
	balancer.ClientConn
	e *vGSwitchEnv
}

type vGSwitchSC struct {
	balancer.SubConn
	e        *vGSwitchEnv
	id       int64
	listener func(balancer.SubConnState)
	shut     bool
}

func (s *vGSwitchSC) Shutdown() {
	s.e.mu.Lock()
	s.shut = true
	s.e.mu.Unlock()
	s.e.ev(14, s.id)
}
func (s *vGSwitchSC) Connect()                                           {}
func (s *vGSwitchSC) UpdateAddresses([]resolver.Address)                 {}
func (s *vGSwitchSC) RegisterHealthListener(func(balancer.SubConnState)) {}
func (s *vGSwitchSC) GetOrBuildProducer(balancer.ProducerBuilder) (balancer.Producer, func()) {
	return nil, func() {}
}

func (c *vGSwitchCC) NewSubConn(_ []resolver.Address, o balancer.NewSubConnOptions) (balancer.SubConn, error) {
	c.e.mu.Lock()
	sc := &vGSwitchSC{e: c.e, id: int64(len(c.e.scs)), listener: o.StateListener}
	c.e.scs = append(c.e.scs, sc)
	c.e.mu.Unlock()
	c.e.ev(2, sc.id)
	if h := c.e.during; h != nil {
		c.e.during = nil
		h()
	}
	return sc, nil
}
func (c *vGSwitchCC) RemoveSubConn(sc balancer.SubConn) { sc.Shutdown() }
func (c *vGSwitchCC) UpdateAddresses(sc balancer.SubConn, _ []resolver.Address) {
	c.e.ev(10, sc.(*vGSwitchSC).id)
}
func (c *vGSwitchCC) UpdateState(s balancer.State) {
	id := int64(-1)
	if p, ok := s.Picker.(*vGSwitchPicker); ok {
		id = p.id
	}
	if h := c.e.slowHook; h != nil && id >= 0 && id == c.e.slowID && s.ConnectivityState == connectivity.Ready {
		c.e.slowHook = nil
		buf := make([]byte, 8192)
		n := runtime.Stack(buf, false)
		h(bytes.Contains(buf[:n], []byte("gracefulswitch.(*Balancer).swap(")))
	}
	c.e.ev(1, int64(s.ConnectivityState), id)
}
func (c *vGSwitchCC) ResolveNow(resolver.ResolveNowOptions) { c.e.ev(9) }
func (c *vGSwitchCC) Target() string                        { return "verif" }

// ---- stub child policies

type vGSwitchPicker struct{ id int64 }

func (p *vGSwitchPicker) Pick(balancer.PickInfo) (balancer.PickResult, error) {
	return balancer.PickResult{}, balancer.ErrNoSubConnAvailable
}

type vGSwitchChild struct {
	e     *vGSwitchEnv
	id    int64
	b     int64
	cc    balancer.ClientConn
	noisy bool
}

func (c *vGSwitchChild) update(s int64) {
	c.cc.UpdateState(balancer.State{ConnectivityState: connectivity.State(s), Picker: &vGSwitchPicker{id: c.id}})
}
func (c *vGSwitchChild) newSC() (int64, int64) {
	var sc balancer.SubConn
	id := c.id
	e := c.e
	sc, err := c.cc.NewSubConn([]resolver.Address{{Addr: "a"}}, balancer.NewSubConnOptions{
		StateListener: func(st balancer.SubConnState) {
			e.ev(5, id, sc.(*vGSwitchSC).id, int64(st.ConnectivityState))
		}})
	if err != nil || sc == nil {
		return 0, -1
	}
	return 1, sc.(*vGSwitchSC).id
}
func (c *vGSwitchChild) UpdateClientConnState(balancer.ClientConnState) error {
	c.e.ev(6, c.id)
	return nil
}
func (c *vGSwitchChild) ResolverError(error) { c.e.ev(7, c.id) }
func (c *vGSwitchChild) UpdateSubConnState(sc balancer.SubConn, s balancer.SubConnState) {
	c.e.ev(5, c.id, sc.(*vGSwitchSC).id, int64(s.ConnectivityState))
}
func (c *vGSwitchChild) ExitIdle() { c.e.ev(8, c.id) }
func (c *vGSwitchChild) Close() {
	if c.noisy {
		// a policy that keeps talking while it is being closed
		c.newSC()
		c.update(2)
	}
	c.e.ev(3, c.id)
}

type vGSwitchBuilder struct{ b int64 }

func (b *vGSwitchBuilder) Name() string { return fmt.Sprintf("vgswitch_stub_%d", b.b) }
func (b *vGSwitchBuilder) ParseConfig(json.RawMessage) (serviceconfig.LoadBalancingConfig, error) {
	return nil, nil
}
func (b *vGSwitchBuilder) Build(cc balancer.ClientConn, _ balancer.BuildOptions) balancer.Balancer {
	e := vGSwitchCur
	inl, nz := int64(-1), int64(0)
	if int(2*b.b) < len(e.cfg) {
		inl = e.cfg[2*b.b]
	}
	if int(2*b.b+1) < len(e.cfg) {
		nz = e.cfg[2*b.b+1]
	}
	e.mu.Lock()
	c := &vGSwitchChild{e: e, id: int64(len(e.children)), b: b.b, cc: cc, noisy: nz == 1}
	e.children = append(e.children, c)
	e.mu.Unlock()
	e.ev(4, c.id, b.b)
	if inl >= 4 && inl <= 8 {
		c.newSC()
		e.tags["inline_newsc"] = true
	}
	if inl >= 0 && inl <= 3 {
		c.update(inl)
		e.tags["inline_update"] = true
	} else if inl >= 4 && inl <= 7 {
		c.update(inl - 4)
		e.tags["inline_update"] = true
	}
	return c
}

var vGSwitchBuilders = []*vGSwitchBuilder{{0}, {1}, {2}}

func init() {
	for _, b := range vGSwitchBuilders {
		balancer.Register(b)
	}
}

func vGSwitchExecIn(cfg []int64, ops [][]int64) (obs [][]int64, nontrivial bool, tags []string) {
	e := &vGSwitchEnv{cfg: cfg, tags: map[string]bool{}}
	vGSwitchCur = e
	cc := &vGSwitchCC{e: e}
	e.gsb = gracefulswitch.NewBalancer(cc, balancer.BuildOptions{})
	closed := false
	child := func(id int64) *vGSwitchChild {
		e.mu.Lock()
		defer e.mu.Unlock()
		if id < 0 || id >= int64(len(e.children)) {
			return nil
		}
		return e.children[id]
	}
	subconn := func(id int64) *vGSwitchSC {
		e.mu.Lock()
		defer e.mu.Unlock()
		if id < 0 || id >= int64(len(e.scs)) {
			return nil
		}
		return e.scs[id]
	}
	arg := func(op []int64, i int) int64 {
		if i < len(op) {
			return op[i]
		}
		return -1
	}
	for _, op := range ops {
		if len(op) == 0 {
			obs = append(obs, e.flush()...)
			continue
		}
		switch op[0] {
		case 1:
			if b := arg(op, 1); b >= 0 && b < 3 {
				err := e.gsb.SwitchTo(vGSwitchBuilders[b])
				e.ev(12, vB(err != nil))
			}
		case 2:
			if c, s := child(arg(op, 1)), arg(op, 2); c != nil && s >= 0 && s <= 3 {
				c.update(s)
			}
		case 3:
			if c := child(arg(op, 1)); c != nil {
				ok, sc := c.newSC()
				e.ev(11, ok, sc)
			}
		case 4:
			if sc, s := subconn(arg(op, 1)), arg(op, 2); sc != nil && s >= 0 && s <= 4 {
				e.mu.Lock()
				shut := sc.shut
				e.mu.Unlock()
				if s != 4 || shut {
					sc.listener(balancer.SubConnState{ConnectivityState: connectivity.State(s)})
				}
			}
		case 5:
			e.gsb.Close()
			closed = true
		case 6:
			if b := arg(op, 1); b >= 0 && b < 3 {
				js := json.RawMessage(fmt.Sprintf(`[{"vgswitch_stub_%d": {}}]`, b))
				lbc, perr := gracefulswitch.ParseConfig(js)
				if perr != nil {
					panic(perr)
				}
				err := e.gsb.UpdateClientConnState(balancer.ClientConnState{BalancerConfig: lbc})
				e.ev(13, vB(err != nil))
			}
		case 7:
			if c, sc := child(arg(op, 1)), subconn(arg(op, 2)); c != nil && sc != nil {
				c.cc.RemoveSubConn(sc)
			}
		case 8:
			e.gsb.ResolverError(errors.New("verif"))
		case 9:
			e.gsb.ExitIdle()
		case 10:
			if c := child(arg(op, 1)); c != nil {
				c.cc.ResolveNow(resolver.ResolveNowOptions{})
			}
		case 11:
			if c, sc := child(arg(op, 1)), subconn(arg(op, 2)); c != nil && sc != nil {
				c.cc.UpdateAddresses(sc, nil)
			}
		case 12:
			if c, j, s := child(arg(op, 1)), child(arg(op, 2)), arg(op, 3); c != nil && j != nil && s >= 0 && s <= 3 {
				e.during = func() {
					j.update(s)
					// let the goroutine of swap() (old wrapper's Close) finish, and list
					// its events here, before the channel's NewSubConn returns
					synctest.Wait()
					e.mu.Lock()
					e.main = append(e.main, vGSwitchSortRuns(e.async)...)
					e.async = nil
					e.mu.Unlock()
					e.tags["reentrant_report"] = true
				}
				ok, sc := c.newSC()
				e.during = nil
				e.ev(11, ok, sc)
			}
		}
		if len(op) == 4 && op[0] == 13 {
			if c, j, st := child(op[1]), child(op[2]), op[3]; op[1] != op[2] && st >= 0 && st <= 3 {
				obs = append(obs, vGSwitchRace(e, c, j, st)...)
			} else {
				obs = append(obs, e.flush()...)
			}
			continue
		}
		evs := e.flush()
		// tags: which swap rule fired
		for i, w := range evs {
			if w[0] == 3 && i > 0 && len(op) > 0 && (op[0] == 2 || op[0] == 1 || op[0] == 6) {
				for _, u := range evs[:i] {
					if u[0] == 1 && op[0] == 2 {
						if u[2] == op[1] {
							e.tags["swap_by_pending"] = true
						} else {
							e.tags["swap_by_current"] = true
						}
					}
				}
			}
		}
		if op[0] == 12 {
			for _, w := range evs {
				if w[0] == 11 && w[1] == 0 && len(evs) > 2 {
					e.tags["inflight_shutdown"] = true
				}
			}
		}
		obs = append(obs, evs...)
	}
	if !closed {
		e.gsb.Close()
		synctest.Wait()
	}
	for t := range e.tags {
		tags = append(tags, t)
	}
	sort.Strings(tags)
	nontrivial = e.tags["swap_by_pending"] || e.tags["swap_by_current"]
	return obs, nontrivial, tags
}

// op 13: two chunks, [2,id,2] then [2,j,s]
func vGSwitchRace(e *vGSwitchEnv, c, j *vGSwitchChild, st int64) [][]int64 {
	fired, inSwapFirst := false, false
	boundary := -1
	var g2done chan struct{}
	var finished atomic.Bool
	if c != nil {
		e.slowID = c.id
		e.slowHook = func(inSwap bool) {
			fired, inSwapFirst = true, inSwap
			g2done = make(chan struct{})
			go func() {
				defer close(g2done)
				if j != nil {
					j.update(st)
				}
				finished.Store(true)
			}()
			// hold the forward until the second report is through or parked (on gsb.mu)
			for i := 0; i < 3000 && !finished.Load(); i++ {
				runtime.Gosched()
			}
			if finished.Load() && j != nil {
				e.tags["race_overtaken"] = true
			}
			e.mu.Lock()
			boundary = len(e.main) + 1 // right after the event of this forward
			e.mu.Unlock()
		}
		c.update(2)
		e.slowHook = nil
	}
	if fired {
		<-g2done
		e.tags["race_forward"] = true
	} else {
		e.mu.Lock()
		boundary = len(e.main)
		e.mu.Unlock()
		if j != nil {
			j.update(st)
		}
	}
	synctest.Wait()
	e.mu.Lock()
	defer e.mu.Unlock()
	if boundary > len(e.main) {
		boundary = len(e.main)
	}
	p1 := append([][]int64{}, e.main[:boundary]...)
	p2 := append([][]int64{}, e.main[boundary:]...)
	as := vGSwitchSortRuns(e.async)
	if inSwapFirst {
		p1 = append(p1, as...)
	} else {
		p2 = append(p2, as...)
	}
	out := append(vGSwitchSortRuns(p1), []int64{0})
	out = append(out, vGSwitchSortRuns(p2)...)
	out = append(out, []int64{0})
	e.main, e.async = nil, nil
	return out
}

var vGSwitchT *testing.T

func vGSwitchExec(cfg []int64, ops [][]int64) (obs [][]int64, nontrivial bool, tags []string) {
	var pv any
	vGSwitchT.Run("case", func(t *testing.T) {
		synctest.Test(t, func(t *testing.T) {
			defer func() {
				if p := recover(); p != nil {
					pv = p
				}
			}()
			obs, nontrivial, tags = vGSwitchExecIn(cfg, ops)
		})
	})
	if pv != nil {
		panic(pv)
	}
	return
}

func vGSwitchGen(r *vRand, tier string, idx int) ([]int64, [][]int64) {
	cfg := []int64{-1, 0, -1, 0, -1, 0}
	if idx%3 != 0 {
		for b := 0; b < 3; b++ {
			if r.Chance(40) {
				cfg[2*b] = int64(r.Intn(10)) - 1
			}
			if r.Chance(35) {
				cfg[2*b+1] = 1
			}
		}
	}
	var ops [][]int64
	nch, nsc := int64(0), int64(0)
	n := 40 + r.Intn(80)
	if idx == 1 {
		// NewSubConn of the old policy in flight while the swap (and the old wrapper's Close) completes:
		// by a report of the pending policy, by a report of the old policy itself, and not at all
		return []int64{-1, 0, -1, 0, -1, 0}, [][]int64{{1, 0}, {2, 0, 2}, {3, 0}, {1, 1}, {12, 0, 1, 2}, {4, 1, 4},
			{3, 1}, {1, 2}, {12, 1, 1, 3}, {12, 2, 2, 1}, {12, 2, 0, 2}, {12, 0, 2, 2}, {1, 0}, {12, 3, 2, 2}, {12, 2, 3, 1}, {5}, {12, 3, 2, 2}}
	}
	if idx == 2 {
		// a report of the old policy whose forward is still in the channel while the pending policy
		// reports READY / TF from another goroutine; also with the roles exchanged and a dead policy
		return []int64{-1, 0, -1, 0, -1, 0}, [][]int64{{1, 0}, {2, 0, 2}, {3, 0}, {1, 1}, {13, 0, 1, 2}, {1, 2}, {13, 2, 1, 3},
			{1, 0}, {13, 1, 3, 3}, {13, 3, 0, 2}, {13, 0, 3, 1}, {1, 1}, {2, 3, 2}, {13, 3, 4, 1}, {13, 3, 4, 2}, {13, 9, 4, 2}, {13, 4, 4, 2}}
	}
	if idx == 0 {
		// the two swap rules, scripted
		return cfg, [][]int64{{1, 0}, {2, 0, 2}, {3, 0}, {1, 1}, {3, 1}, {2, 1, 1}, {2, 0, 2}, {2, 1, 2},
			{2, 0, 3}, {4, 0, 4}, {1, 2}, {2, 2, 1}, {2, 1, 2}, {2, 1, 0}, {2, 0, 2}, {3, 0}, {5}, {2, 2, 2}, {3, 2}, {1, 0}, {8}}
	}
	for i := 0; i < n; i++ {
		k := r.Intn(100)
		anych := func() int64 {
			if nch == 0 {
				return 0
			}
			if r.Chance(70) { // recent children are the live ones
				d := int64(r.Intn(3))
				if d >= nch {
					d = nch - 1
				}
				return nch - 1 - d
			}
			return r.I64n(nch + 1)
		}
		anysc := func() int64 { return r.I64n(nsc + 2) }
		switch {
		case k < 12:
			ops = append(ops, []int64{1, int64(r.Intn(3))})
			nch++
		case k < 50:
			ops = append(ops, []int64{2, anych(), r.PickI64(0, 1, 1, 2, 2, 2, 3)})
		case k < 58:
			ops = append(ops, []int64{3, anych()})
			nsc++
		case k < 61:
			ops = append(ops, []int64{12, anych(), anych(), r.PickI64(0, 1, 2, 2, 3, 3)})
			nsc++
		case k < 62 || (k < 66 && idx%2 == 0):
			ops = append(ops, []int64{13, anych(), anych(), r.PickI64(0, 1, 2, 2, 2, 3, 3)})
		case k < 72:
			ops = append(ops, []int64{4, anysc(), int64(r.Intn(5))})
		case k < 74:
			if i > n*2/3 && r.Chance(40) {
				ops = append(ops, []int64{5})
			}
		case k < 82:
			ops = append(ops, []int64{6, int64(r.Intn(3))})
			nch++
		case k < 87:
			ops = append(ops, []int64{7, anych(), anysc()})
		case k < 90:
			ops = append(ops, []int64{8})
		case k < 93:
			ops = append(ops, []int64{9})
		case k < 95:
			ops = append(ops, []int64{10, anych()})
		default:
			ops = append(ops, []int64{11, anych(), anysc()})
		}
	}
	return cfg, ops
}

func TestVerif_GSwitch(t *testing.T) {
	vGSwitchT = t
	vRunDriver(t, "GSwitch", 60, 1200, vGSwitchGen, vGSwitchExec)
}
