//go:build verif

// C09 driver: user metadata through real unary RPCs (grpc.ClientConn -> bufconn ->
// grpc.Server), one connection per case, one RPC per op.
//
// cfg = [len, authority bytes...]           the :authority the channel sends ("bufnet")
//
//	op [1, mode, md, ncalls, kvs..., H, T]
//	     mode    0 unary RPC, the handler calls grpc.SetHeader(ctx, H), grpc.SetTrailer(ctx, T)
//	             1 server-streaming, ss.SetHeader(H), ss.SetTrailer(T), one response message
//	             2 server-streaming, ss.SendHeader(H), ss.SetTrailer(T), one response message
//	             3 client-streaming (two request messages), ss.SetHeader(H), ss.SetTrailer(T)
//	             a handler returns the first error one of these calls gives it
//	     md      MD literal passed to NewOutgoingContext  [n, (key, nvals, vals...)...]
//	     kvs     argument lists of successive AppendToOutgoingContext calls [n, (key, val)...]
//	     H, T    MD literals the handler passes to grpc.SetHeader / grpc.SetTrailer
//	obs [code, called, sent, srvrc] ++ dump(handler's FromIncomingContext) ++ dump(client Header) ++ dump(client Trailer)
//	     sent = 1 iff the client's stats handler saw an OutHeader event for this RPC, i.e. the
//	     request header fields were handed to the wire; srvrc = status code of the error the
//	     handler got from SetHeader/SendHeader/SetTrailer (0 = every call returned nil)
//
//	op [3, mode, md, ncalls, kvs..., H, T, P]   as op 1, and the channel's LB policy (pick_first
//	     wrapped by the driver's "verif_pickmd" policy) returns PickResult.Metadata = P for the pick
//	obs  as op 1
//
//	op [2, n, (name, value)...]   a raw HTTP/2 peer (x/net/http2 Framer + hpack) opens its own
//	     connection to the same server and sends one unary request whose header block is
//	     :method POST, :scheme http, :path, :authority bufnet, content-type application/grpc,
//	     user-agent grpc-go/<Version>, te trailers, followed by the n given fields verbatim
//	obs [called, grpcstatus] ++ dump(handler's FromIncomingContext)
//	     grpcstatus = the grpc-status the peer received, -1 for RST_STREAM, -2 for anything else
//
// dump = [nkeys, (key, nvals, vals...)...] keys sorted; an absent MD dumps as [0].
// Transport constants are abbreviated: the user-agent value "grpc-go/<Version>" is
// reported as "UA", the content-type value "application/grpc" as "CT" (any other value
// is reported verbatim).
package mdwire

import (
	"bytes"
	"context"
	"encoding/base64"
	"io"
	"net"
	"sort"
	"strconv"
	"sync/atomic"
	"testing"
	"time"

	"golang.org/x/net/http2"
	"golang.org/x/net/http2/hpack"
	"google.golang.org/grpc"
	"google.golang.org/grpc/balancer"
	"google.golang.org/grpc/credentials/insecure"
	"google.golang.org/grpc/metadata"
	"google.golang.org/grpc/stats"
	"google.golang.org/grpc/status"
	"google.golang.org/grpc/test/bufconn"
	"google.golang.org/protobuf/types/known/emptypb"
)

func vMDWireStr(w []int64) (string, []int64, bool) {
	if len(w) == 0 || w[0] < 0 || int(w[0]) > len(w)-1 {
		return "", nil, false
	}
	b, r := vGetBytes(w)
	return string(b), r, true
}

func vMDWireStrs(w []int64) ([]string, []int64, bool) {
	if len(w) == 0 || w[0] < 0 {
		return nil, nil, false
	}
	n := int(w[0])
	w = w[1:]
	out := make([]string, 0, n)
	for i := 0; i < n; i++ {
		s, r, ok := vMDWireStr(w)
		if !ok {
			return nil, nil, false
		}
		out = append(out, s)
		w = r
	}
	return out, w, true
}

func vMDWireMD(w []int64) (metadata.MD, []int64, bool) {
	if len(w) == 0 || w[0] < 0 {
		return nil, nil, false
	}
	n := int(w[0])
	w = w[1:]
	md := metadata.MD{}
	for i := 0; i < n; i++ {
		k, r, ok := vMDWireStr(w)
		if !ok {
			return nil, nil, false
		}
		vs, r2, ok := vMDWireStrs(r)
		if !ok {
			return nil, nil, false
		}
		if _, dup := md[k]; dup {
			return nil, nil, false
		}
		md[k] = vs
		w = r2
	}
	return md, w, true
}

func vMDWireKVs(w []int64) ([]string, []int64, bool) {
	if len(w) == 0 || w[0] < 0 {
		return nil, nil, false
	}
	n := int(w[0])
	w = w[1:]
	var kv []string
	for i := 0; i < 2*n; i++ {
		s, r, ok := vMDWireStr(w)
		if !ok {
			return nil, nil, false
		}
		kv = append(kv, s)
		w = r
	}
	return kv, w, true
}

func vMDWireDump(md metadata.MD) []int64 {
	ks := make([]string, 0, len(md))
	for k := range md {
		ks = append(ks, k)
	}
	sort.Strings(ks)
	out := []int64{int64(len(md))}
	for _, k := range ks {
		out = append(out, vBytes([]byte(k))...)
		out = append(out, int64(len(md[k])))
		for _, v := range md[k] {
			switch {
			case k == "user-agent" && v == "grpc-go/"+grpc.Version:
				v = "UA"
			case k == "content-type" && v == "application/grpc":
				v = "CT"
			}
			out = append(out, vBytes([]byte(v))...)
		}
	}
	return out
}

type vMDWireCall struct {
	mode   int64
	h, t   metadata.MD
	called bool
	got    metadata.MD
	srvrc  int64
}

// "verif_pickmd": pick_first whose picker adds PickResult.Metadata = the current op's P.
var vMDWirePickMD atomic.Value // of vMDWirePickBox

type vMDWirePickBox struct{ md metadata.MD }

type vMDWirePickBuilder struct{}

func (vMDWirePickBuilder) Name() string { return "verif_pickmd" }
func (vMDWirePickBuilder) Build(cc balancer.ClientConn, opts balancer.BuildOptions) balancer.Balancer {
	return balancer.Get("pick_first").Build(&vMDWirePickCC{ClientConn: cc}, opts)
}

type vMDWirePickCC struct{ balancer.ClientConn }

func (c *vMDWirePickCC) UpdateState(s balancer.State) {
	s.Picker = &vMDWirePicker{s.Picker}
	c.ClientConn.UpdateState(s)
}

type vMDWirePicker struct{ p balancer.Picker }

func (p *vMDWirePicker) Pick(info balancer.PickInfo) (balancer.PickResult, error) {
	r, err := p.p.Pick(info)
	if err == nil {
		if b, ok := vMDWirePickMD.Load().(vMDWirePickBox); ok && b.md != nil {
			r.Metadata = b.md
		}
	}
	return r, err
}

func init() { balancer.Register(vMDWirePickBuilder{}) }

// vMDWireStats counts the header blocks the client transport wrote.
type vMDWireStats struct{ outHeaders int64 }

func (h *vMDWireStats) TagRPC(ctx context.Context, _ *stats.RPCTagInfo) context.Context { return ctx }
func (h *vMDWireStats) HandleRPC(_ context.Context, s stats.RPCStats) {
	if oh, ok := s.(*stats.OutHeader); ok && oh.Client {
		atomic.AddInt64(&h.outHeaders, 1)
	}
}
func (h *vMDWireStats) TagConn(ctx context.Context, _ *stats.ConnTagInfo) context.Context { return ctx }
func (h *vMDWireStats) HandleConn(context.Context, stats.ConnStats)                       {}

type vMDWireEnv struct {
	lis  *bufconn.Listener
	st   *vMDWireStats
	cc   *grpc.ClientConn
	srv  *grpc.Server
	cur  *vMDWireCall
	stop func()
}

func vMDWireHandler(srv any, ctx context.Context, dec func(any) error, _ grpc.UnaryServerInterceptor) (any, error) {
	env := srv.(*vMDWireEnv)
	in := new(emptypb.Empty)
	if err := dec(in); err != nil {
		return nil, err
	}
	c := env.cur
	c.called = true
	c.got, _ = metadata.FromIncomingContext(ctx)
	if err := grpc.SetHeader(ctx, c.h); err != nil {
		c.srvrc = int64(status.Code(err))
		return nil, err
	}
	if err := grpc.SetTrailer(ctx, c.t); err != nil {
		c.srvrc = int64(status.Code(err))
		return nil, err
	}
	return &emptypb.Empty{}, nil
}

func vMDWireStreamHandler(srv any, ss grpc.ServerStream) error {
	env := srv.(*vMDWireEnv)
	c := env.cur
	if c.mode == 3 {
		for {
			if err := ss.RecvMsg(new(emptypb.Empty)); err == io.EOF {
				break
			} else if err != nil {
				return err
			}
		}
	} else if err := ss.RecvMsg(new(emptypb.Empty)); err != nil {
		return err
	}
	c.called = true
	c.got, _ = metadata.FromIncomingContext(ss.Context())
	var err error
	if c.mode == 2 {
		err = ss.SendHeader(c.h)
	} else {
		err = ss.SetHeader(c.h)
	}
	if err != nil {
		c.srvrc = int64(status.Code(err))
		return err
	}
	ss.SetTrailer(c.t)
	return ss.SendMsg(&emptypb.Empty{})
}

var vMDWireDesc = grpc.ServiceDesc{
	ServiceName: "verif.MDWire",
	HandlerType: (*any)(nil),
	Methods:     []grpc.MethodDesc{{MethodName: "U", Handler: vMDWireHandler}},
	Streams: []grpc.StreamDesc{{StreamName: "SS", Handler: vMDWireStreamHandler, ServerStreams: true},
		{StreamName: "CS", Handler: vMDWireStreamHandler, ClientStreams: true}},
}

// vMDWireInvoke performs one RPC of the given shape and returns error, Header(), Trailer().
func vMDWireInvoke(ctx context.Context, cc *grpc.ClientConn, mode int64) (error, metadata.MD, metadata.MD) {
	if mode == 0 {
		var hdr, trl metadata.MD
		err := cc.Invoke(ctx, "/verif.MDWire/U", &emptypb.Empty{}, &emptypb.Empty{}, grpc.Header(&hdr), grpc.Trailer(&trl))
		return err, hdr, trl
	}
	desc, method, nsend := &vMDWireDesc.Streams[0], "/verif.MDWire/SS", 1
	if mode == 3 {
		desc, method, nsend = &vMDWireDesc.Streams[1], "/verif.MDWire/CS", 2
	}
	cs, err := cc.NewStream(ctx, desc, method)
	if err != nil {
		return err, nil, nil
	}
	for i := 0; i < nsend; i++ {
		if err := cs.SendMsg(&emptypb.Empty{}); err != nil {
			break
		}
	}
	cs.CloseSend()
	hdr, _ := cs.Header()
	for {
		err = cs.RecvMsg(new(emptypb.Empty))
		if err != nil {
			break
		}
	}
	if err == io.EOF {
		err = nil
	}
	return err, hdr, cs.Trailer()
}

func vMDWireStart() *vMDWireEnv {
	env := &vMDWireEnv{st: &vMDWireStats{}}
	lis := bufconn.Listen(1 << 20)
	env.lis = lis
	env.srv = grpc.NewServer()
	env.srv.RegisterService(&vMDWireDesc, env)
	go env.srv.Serve(lis)
	cc, err := grpc.NewClient("passthrough:///bufnet",
		grpc.WithContextDialer(func(ctx context.Context, _ string) (net.Conn, error) { return lis.DialContext(ctx) }),
		grpc.WithTransportCredentials(insecure.NewCredentials()),
		grpc.WithStatsHandler(env.st),
		grpc.WithDefaultServiceConfig(`{"loadBalancingConfig":[{"verif_pickmd":{}}]}`))
	if err != nil {
		panic(err)
	}
	env.cc = cc
	env.stop = func() { cc.Close(); env.srv.Stop(); lis.Close() }
	return env
}

// vMDWireRaw plays a minimal HTTP/2 client by hand.
func vMDWireRaw(env *vMDWireEnv, extra [][2]string) int64 {
	conn, err := env.lis.Dial()
	if err != nil {
		return -2
	}
	defer conn.Close()
	conn.SetDeadline(time.Now().Add(20 * time.Second))
	if _, err := conn.Write([]byte(http2.ClientPreface)); err != nil {
		return -2
	}
	fr := http2.NewFramer(conn, conn)
	fr.ReadMetaHeaders = hpack.NewDecoder(4096, nil)
	if err := fr.WriteSettings(); err != nil {
		return -2
	}
	var hb bytes.Buffer
	enc := hpack.NewEncoder(&hb)
	fields := [][2]string{{":method", "POST"}, {":scheme", "http"}, {":path", "/verif.MDWire/U"}, {":authority", "bufnet"},
		{"content-type", "application/grpc"}, {"user-agent", "grpc-go/" + grpc.Version}, {"te", "trailers"}}
	for _, f := range append(fields, extra...) {
		enc.WriteField(hpack.HeaderField{Name: f[0], Value: f[1]})
	}
	if err := fr.WriteHeaders(http2.HeadersFrameParam{StreamID: 1, BlockFragment: hb.Bytes(), EndHeaders: true}); err != nil {
		return -2
	}
	if err := fr.WriteData(1, true, []byte{0, 0, 0, 0, 0}); err != nil {
		return -2
	}
	for {
		f, err := fr.ReadFrame()
		if err != nil {
			return -2
		}
		switch f := f.(type) {
		case *http2.SettingsFrame:
			if !f.IsAck() {
				fr.WriteSettingsAck()
			}
		case *http2.PingFrame:
			if !f.IsAck() {
				fr.WritePing(true, f.Data)
			}
		case *http2.RSTStreamFrame:
			return -1
		case *http2.GoAwayFrame:
			return -2
		case *http2.MetaHeadersFrame:
			if f.StreamEnded() {
				for _, hf := range f.Fields {
					if hf.Name == "grpc-status" {
						if v, err := strconv.Atoi(hf.Value); err == nil {
							return int64(v)
						}
					}
				}
				return -2
			}
		}
	}
}

func vMDWireExec(cfg []int64, ops [][]int64) ([][]int64, bool, []string) {
	env := vMDWireStart()
	defer env.stop()
	var obs [][]int64
	nt := false
	tagset := map[string]bool{}
	for _, op := range ops {
		var o []int64
		func() {
			if len(op) >= 2 && op[0] == 2 && op[1] >= 0 {
				w := op[2:]
				var extra [][2]string
				for i := 0; i < int(op[1]); i++ {
					k, r, ok := vMDWireStr(w)
					if !ok {
						return
					}
					v, r2, ok := vMDWireStr(r)
					if !ok {
						return
					}
					extra = append(extra, [2]string{k, v})
					w = r2
				}
				if len(w) != 0 {
					return
				}
				c := &vMDWireCall{}
				env.cur = c
				gs := vMDWireRaw(env, extra)
				o = vCat([]int64{vB(c.called), gs}, vMDWireDump(c.got))
				tagset["rawpeer"] = true
				return
			}
			if len(op) < 3 || (op[0] != 1 && op[0] != 3) || op[1] < 0 || op[1] > 3 {
				return
			}
			mode := op[1]
			md, w, ok := vMDWireMD(op[2:])
			if !ok || len(w) == 0 || w[0] < 0 {
				return
			}
			n := int(w[0])
			w = w[1:]
			var calls [][]string
			for i := 0; i < n; i++ {
				kv, r, ok := vMDWireKVs(w)
				if !ok {
					return
				}
				calls = append(calls, kv)
				w = r
			}
			h, w, ok := vMDWireMD(w)
			if !ok {
				return
			}
			t, w, ok := vMDWireMD(w)
			if !ok {
				return
			}
			var pick metadata.MD
			if op[0] == 3 {
				if pick, w, ok = vMDWireMD(w); !ok {
					return
				}
				tagset["pickmd"] = true
			}
			if len(w) != 0 {
				return
			}
			vMDWirePickMD.Store(vMDWirePickBox{pick})
			defer vMDWirePickMD.Store(vMDWirePickBox{nil})
			c := &vMDWireCall{mode: mode, h: h, t: t}
			env.cur = c
			ctx, cancel := context.WithCancel(context.Background())
			defer cancel()
			ctx = metadata.NewOutgoingContext(ctx, md)
			for _, kv := range calls {
				ctx = metadata.AppendToOutgoingContext(ctx, kv...)
			}
			var hdr, trl metadata.MD
			sent0 := atomic.LoadInt64(&env.st.outHeaders)
			type res struct {
				err      error
				hdr, trl metadata.MD
			}
			done := make(chan res, 1)
			go func() {
				e, h2, t2 := vMDWireInvoke(ctx, env.cc, mode)
				done <- res{e, h2, t2}
			}()
			var err error
			select {
			case r := <-done:
				err, hdr, trl = r.err, r.hdr, r.trl
			case <-time.After(20 * time.Second):
				cancel()
				r := <-done
				err, hdr, trl = r.err, r.hdr, r.trl
				tagset["timeout"] = true
			}
			code := int64(status.Code(err))
			o = vCat([]int64{code, vB(c.called), atomic.LoadInt64(&env.st.outHeaders) - sent0, c.srvrc}, vMDWireDump(c.got), vMDWireDump(hdr), vMDWireDump(trl))
			if c.called {
				bin := false
				for k, v := range c.got {
					if len(k) > 4 && k[len(k)-4:] == "-bin" && len(v) > 0 {
						bin = true
					}
				}
				if bin && len(calls) > 0 {
					nt = true
				}
			} else {
				tagset["rejected"] = true
			}
		}()
		obs = append(obs, o)
	}
	var tags []string
	for t := range tagset {
		tags = append(tags, t)
	}
	sort.Strings(tags)
	return obs, nt, tags
}

// ---- generators ----

type vMDWireEntry struct {
	k  string
	vs []string
}

func vMDWireS(s string) []int64 { return vBytes([]byte(s)) }

func vMDWireEncMD(es []vMDWireEntry) []int64 {
	out := []int64{int64(len(es))}
	for _, e := range es {
		out = append(out, vMDWireS(e.k)...)
		out = append(out, int64(len(e.vs)))
		for _, v := range e.vs {
			out = append(out, vMDWireS(v)...)
		}
	}
	return out
}

func vMDWireEncKVs(kv []string) []int64 {
	out := []int64{int64(len(kv) / 2)}
	for _, s := range kv {
		out = append(out, vMDWireS(s)...)
	}
	return out
}

func vMDWireOpM(mode int64, md []vMDWireEntry, calls [][]string, h, t []vMDWireEntry) []int64 {
	w := vCat([]int64{1, mode}, vMDWireEncMD(md), []int64{int64(len(calls))})
	for _, kv := range calls {
		w = append(w, vMDWireEncKVs(kv)...)
	}
	return vCat(w, vMDWireEncMD(h), vMDWireEncMD(t))
}

func vMDWireOp(md []vMDWireEntry, calls [][]string, h, t []vMDWireEntry) []int64 {
	return vMDWireOpM(0, md, calls, h, t)
}

// vMDWireOpP: op 3, the picker returns PickResult.Metadata = p.
func vMDWireOpP(mode int64, md []vMDWireEntry, calls [][]string, h, t, p []vMDWireEntry) []int64 {
	w := vCat(vMDWireOpM(mode, md, calls, h, t), vMDWireEncMD(p))
	w[0] = 3
	return w
}

var vMDWireKeys = []string{"a", "b", "k-1", "x_.z", "0", "a-bin", "b-bin", "x.y-bin", "grpc-previous-rpc-attempts", "grpc-retry-pushback-ms", "grpc-accept-encoding", "bin", "-bin"}
var vMDWireUpper = []string{"A", "B", "K-1", "A-bin", "A-Bin", "B-BIN"}
var vMDWireReserved = []string{":authority", ":path", ":method", ":scheme", ":status", ":x", "content-type", "user-agent", "grpc-message-type", "grpc-encoding", "grpc-message", "grpc-status", "grpc-timeout", "te", ":a-bin"}
var vMDWireBadKeys = []string{"", "a b", "a/b", "é", "a:b", "A"}
var vMDWireVals = []string{"", "1", "v", " x ", "a,b", "~", "two words", "%41", "=="}

func vMDWireBinVal(r *vRand) string {
	n := r.PickInt(0, 1, 2, 3, 4, 5, 6, 7)
	b := make([]byte, n)
	for i := range b {
		if r.Chance(30) {
			b[i] = byte(r.PickInt(0, 255, 10, 13, 61, 128, 0xfb, 0xff))
		} else {
			b[i] = byte(r.Intn(256))
		}
	}
	return string(b)
}

func vMDWireIsBin(k string) bool { return len(k) >= 4 && k[len(k)-4:] == "-bin" }

func vMDWireVal(r *vRand, k string) string {
	if vMDWireIsBin(k) {
		return vMDWireBinVal(r)
	}
	return vMDWireVals[r.Intn(len(vMDWireVals))]
}

// valid (possibly reserved-name) entries; reservedPct = chance of a reserved key
func vMDWireRandMD(r *vRand, maxKeys, reservedPct int, server bool) []vMDWireEntry {
	n := r.Intn(maxKeys + 1)
	seen := map[string]bool{}
	var es []vMDWireEntry
	for i := 0; i < n; i++ {
		k := vMDWireKeys[r.Intn(len(vMDWireKeys))]
		if r.Chance(reservedPct) {
			k = vMDWireReserved[r.Intn(len(vMDWireReserved))]
		}
		if server && k == "grpc-accept-encoding" {
			k = "c"
		}
		if seen[k] {
			continue
		}
		seen[k] = true
		nv := r.PickInt(0, 1, 1, 2, 3)
		vs := make([]string, nv)
		for j := range vs {
			vs[j] = vMDWireVal(r, k)
		}
		es = append(es, vMDWireEntry{k, vs})
	}
	return es
}

func vMDWireRandCalls(r *vRand, reservedPct int) [][]string {
	n := r.PickInt(0, 1, 1, 2)
	var calls [][]string
	for i := 0; i < n; i++ {
		m := r.PickInt(0, 1, 2, 3)
		var kv []string
		for j := 0; j < m; j++ {
			k := vMDWireKeys[r.Intn(len(vMDWireKeys))]
			switch {
			case r.Chance(reservedPct):
				k = vMDWireReserved[r.Intn(len(vMDWireReserved))]
			case r.Chance(35):
				k = vMDWireUpper[r.Intn(len(vMDWireUpper))]
			}
			low := []byte(k)
			for x := range low {
				if low[x] >= 'A' && low[x] <= 'Z' {
					low[x] += 32
				}
			}
			kv = append(kv, k, vMDWireVal(r, string(low)))
		}
		calls = append(calls, kv)
	}
	return calls
}

func vMDWireGen(r *vRand, tier string, idx int) ([]int64, [][]int64) {
	cfg := vMDWireS("bufnet")
	E := func(k string, vs ...string) vMDWireEntry { return vMDWireEntry{k, vs} }
	switch idx {
	case 0: // statement deviations: hop-by-hop names that are valid user-metadata keys
		return cfg, [][]int64{vMDWireOp([]vMDWireEntry{E("host", "h1"), E("a", "1")}, nil, nil, nil)}
	case 1:
		return cfg, [][]int64{vMDWireOp([]vMDWireEntry{E("a", "1")}, [][]string{{"Host", "h1", "host", "h2"}}, nil, nil)}
	case 2:
		return cfg, [][]int64{vMDWireOp([]vMDWireEntry{E("connection", "close")}, nil, nil, nil)}
	case 3: // boundaries
		all := string(func() []byte {
			b := make([]byte, 256)
			for i := range b {
				b[i] = byte(i)
			}
			return b
		}())
		printable := string(func() []byte {
			var b []byte
			for c := 0x20; c <= 0x7e; c++ {
				b = append(b, byte(c))
			}
			return b
		}())
		return cfg, [][]int64{
			vMDWireOp(nil, nil, nil, nil),
			vMDWireOp([]vMDWireEntry{E("a"), E("b-bin")}, [][]string{{}}, []vMDWireEntry{E("h")}, []vMDWireEntry{E("t-bin")}),
			vMDWireOp([]vMDWireEntry{E("a-bin", all[:128], all[128:], "", "\x00", "\xff\xff", "\xfb\xff\xbf")}, [][]string{{"A-BIN", "\n", "a-bin", "=", "A-bin", "ab"}}, []vMDWireEntry{E("h-bin", all[100:200], "")}, []vMDWireEntry{E("t-bin", all[200:], "a", "ab", "abc", "abcd")}),
			vMDWireOp([]vMDWireEntry{E("a", printable, "", " ")}, [][]string{{"A", "2"}, {"a", "3", "B", "4"}}, []vMDWireEntry{E("h", printable)}, []vMDWireEntry{E("t", printable, "")}),
			vMDWireOp([]vMDWireEntry{E("a", "\x7f")}, nil, nil, nil),
			vMDWireOp([]vMDWireEntry{E("a", "\x1f")}, nil, nil, nil),
			vMDWireOp(nil, [][]string{{"a", "ok", "b", "\n"}}, nil, nil),
			vMDWireOp([]vMDWireEntry{E("", "x")}, nil, nil, nil),
			vMDWireOp(nil, [][]string{{"", "x"}}, nil, nil),
			vMDWireOp([]vMDWireEntry{E("A", "x")}, nil, nil, nil),
			vMDWireOp([]vMDWireEntry{E(":x", "\x00")}, nil, nil, nil),
			vMDWireOp([]vMDWireEntry{E(":x-bin", "\x00"), E(":authority", "evil"), E("user-agent", "evil"), E("content-type", "text/html"), E("te", "x"), E("grpc-status", "5"), E("grpc-message", "m"), E("grpc-timeout", "1n"), E("grpc-encoding", "gzip"), E("grpc-message-type", "t")},
				[][]string{{":Path", "/evil", "TE", "x", "Grpc-Timeout", "1n", "User-Agent", "evil", "k", "v"}},
				[]vMDWireEntry{E(":status", "500"), E("content-type", "text/html"), E("grpc-status", "5"), E("grpc-message", "m"), E("user-agent", "x"), E(":authority", "x"), E("grpc-encoding", "gzip"), E("te", "x"), E("h", "1")},
				[]vMDWireEntry{E("grpc-status", "5"), E("grpc-message", "m"), E("content-type", "x"), E(":status", "500"), E("user-agent", "x"), E("t", "1")}),
		}
	case 4: // every RPC shape: all byte values in -bin values, printable values, reserved names, empty metadata
		all := string(func() []byte {
			b := make([]byte, 256)
			for i := range b {
				b[i] = byte(i)
			}
			return b
		}())
		var ops [][]int64
		for m := int64(1); m <= 3; m++ {
			ops = append(ops,
				vMDWireOpM(m, nil, nil, nil, nil),
				vMDWireOpM(m, []vMDWireEntry{E("a-bin", all[:128], all[128:], ""), E("a", " x ", "")}, [][]string{{"A-BIN", "\n", "A", "2"}}, []vMDWireEntry{E("h-bin", all[100:200], ""), E("h", "~")}, []vMDWireEntry{E("t-bin", all[200:], "a", "ab"), E("t", "")}),
				vMDWireOpM(m, []vMDWireEntry{E("te", "x"), E("grpc-status", "5"), E(":path", "/evil"), E("k", "v")}, [][]string{{"User-Agent", "evil"}},
					[]vMDWireEntry{E(":status", "500"), E("content-type", "text/html"), E("grpc-status", "5"), E("h", "1")},
					[]vMDWireEntry{E("grpc-status", "5"), E("grpc-message", "m"), E("t", "1")}),
				vMDWireOpM(m, []vMDWireEntry{E("a", "\x7f")}, nil, nil, nil),
				vMDWireOpM(m, nil, [][]string{{"", "x"}}, nil, nil))
		}
		return cfg, ops
	case 5: // invalid header metadata given to ServerStream.SetHeader / SendHeader: refused with INTERNAL
		var ops [][]int64
		for m := int64(1); m <= 3; m++ {
			for _, h := range [][]vMDWireEntry{{E("h", "a\x7f")}, {E("h", "a\x80")}, {E("H", "1")}, {E("", "1")}, {E("h", "a\tb")}, {E("h!", "1")}, {E("ok", "1"), E("h", "\x00")}} {
				ops = append(ops, vMDWireOpM(m, []vMDWireEntry{E("a", "1")}, [][]string{{"B", "2"}}, h, []vMDWireEntry{E("t", "2")}))
			}
		}
		return cfg, ops
	case 10: // raw peer: padded / unpadded / malformed base64, reserved names from the peer
		R := func(kv ...string) []int64 {
			w := []int64{2, int64(len(kv) / 2)}
			for _, x := range kv {
				w = append(w, vMDWireS(x)...)
			}
			return w
		}
		return cfg, [][]int64{R(), R("k-bin", "YQ=="), R("k-bin", "YQ"), R("k-bin", "YWI="), R("k-bin", "YWI"), R("k-bin", "YWJj"), R("k-bin", "YWJjZA=="), R("k-bin", ""),
			R("k-bin", "YR=="), R("k-bin", "/+8="), R("k-bin", "AAECAwQFBgcICQoLDA0ODw=="), R("k-bin", "YQ==", "k-bin", "Yg", "k", "v", "k-bin", "Yw=="),
			R("k-bin", "YQ="), R("k-bin", "Y"), R("k-bin", "===="), R("k-bin", "YQ==YQ=="), R("k-bin", "Y Q=="), R("k-bin", "YQ=a"), R("k-bin", "a-b_"),
			R("te", "x", "grpc-status", "5", "grpc-message", "m", "grpc-message-type", "t", "k", "v"), R("grpc-timeout", "1S", "k", "v"),
			R("grpc-accept-encoding", "identity", "k", "v"), R("grpc-previous-rpc-attempts", "3"),
			R("user-agent", "evil"), R("content-type", "text/html"), R("host", "h"), R("host", "a", "host", "b"), R("connection", "close"),
			R(":authority", "other"), R(":foo", "x"), R("K", "v"), R("k", "a\x7fb"), R("k", "a\x80b"), R("", "v")}
	case 11: // LB pick metadata together with appended pairs, every RPC shape
		var ops [][]int64
		for m := int64(0); m <= 3; m++ {
			ops = append(ops,
				vMDWireOpP(m, []vMDWireEntry{E("a", "1"), E("s", "b"), E("e")}, [][]string{{"App", "x", "S", "ap"}, {"E", "z", "App-Bin", "\x00\xff"}},
					[]vMDWireEntry{E("h", "1")}, []vMDWireEntry{E("t", "2")}, []vMDWireEntry{E("lb", "L"), E("s", "lbs"), E("lb-bin", "\x00\xff"), E("e", "p"), E("f")}),
				vMDWireOpP(m, []vMDWireEntry{E("a", "1")}, [][]string{{"B", "2"}}, nil, nil, nil),
				vMDWireOpP(m, nil, nil, nil, nil, []vMDWireEntry{E("lb", "L")}),
				vMDWireOpP(m, nil, [][]string{{"B", "2", "b", "3"}}, nil, nil, []vMDWireEntry{E("b", "4"), E("te", "x"), E("grpc-status", "5"), E("user-agent", "evil")}),
				vMDWireOpP(m, []vMDWireEntry{E("a", "1")}, [][]string{{"B", "2"}}, nil, nil, []vMDWireEntry{E(":authority", "other"), E("lb", "L")}),
				vMDWireOpP(m, []vMDWireEntry{E("a", "1")}, [][]string{{"B", "2"}}, nil, nil, []vMDWireEntry{E("LB", "x")}),
				vMDWireOpP(m, []vMDWireEntry{E("a", "1")}, nil, nil, nil, []vMDWireEntry{E("lb", "\x7f")}),
				vMDWireOpP(m, []vMDWireEntry{E("a", "\n")}, nil, nil, nil, []vMDWireEntry{E("lb", "L")}))
		}
		return cfg, ops
	case 6: // finding replays: server metadata the API does not validate (unary helpers, SetTrailer)
		return cfg, [][]int64{vMDWireOpM(0, nil, nil, []vMDWireEntry{E("h", "a\x80")}, nil)}
	case 7:
		return cfg, [][]int64{vMDWireOpM(0, nil, nil, []vMDWireEntry{E("h", "a\x7f")}, nil)}
	case 8:
		return cfg, [][]int64{vMDWireOpM(1, nil, nil, nil, []vMDWireEntry{E("t", "a\x80")})}
	case 9:
		return cfg, [][]int64{vMDWireOpM(0, nil, nil, []vMDWireEntry{E("h", "1")}, []vMDWireEntry{E("T", "1")}),
			vMDWireOpM(3, nil, nil, []vMDWireEntry{E("h", "1")}, []vMDWireEntry{E("t", "\x7f")})}
	}
	var ops [][]int64
	n := 6
	for i := 0; i < n; i++ {
		md := vMDWireRandMD(r, 4, 15, false)
		calls := vMDWireRandCalls(r, 15)
		if r.Chance(12) { // an invalid pair somewhere
			switch r.Intn(4) {
			case 0:
				md = append(md, vMDWireEntry{vMDWireBadKeys[r.Intn(len(vMDWireBadKeys))], []string{"v"}})
			case 1:
				md = append(md, vMDWireEntry{"zz", []string{"ok", string([]byte{byte(r.PickInt(0, 9, 10, 13, 31, 127, 128, 255))})}})
			case 2:
				calls = append(calls, []string{vMDWireBadKeys[r.Intn(len(vMDWireBadKeys)-1)], "v"})
			default:
				calls = append(calls, []string{"Zz", string([]byte{'a', byte(r.PickInt(0, 10, 127, 200))})})
			}
		}
		if r.Chance(12) { // raw peer: -bin values in padded or unpadded base64, reserved names mixed in
			w := []int64{2, 0}
			nf := r.PickInt(1, 2, 3)
			for j := 0; j < nf; j++ {
				k := []string{"a-bin", "b-bin", "x.y-bin"}[r.Intn(3)]
				v := vMDWireBinVal(r)
				e := base64.RawStdEncoding.EncodeToString([]byte(v))
				if r.Bool() {
					e = base64.StdEncoding.EncodeToString([]byte(v))
				}
				switch r.Intn(6) {
				case 0:
					k, e = []string{"te", "grpc-status", "grpc-message", "grpc-message-type"}[r.Intn(4)], "x"
				case 1:
					k, e = vMDWireKeys[r.Intn(5)], vMDWireVals[r.Intn(len(vMDWireVals))]
				}
				w = append(w, vMDWireS(k)...)
				w = append(w, vMDWireS(e)...)
				w[1]++
			}
			ops = append(ops, w)
			continue
		}
		mode := int64(r.Intn(4))
		h, t := vMDWireRandMD(r, 3, 20, true), vMDWireRandMD(r, 3, 20, true)
		if mode != 0 && r.Chance(10) { // invalid header metadata on the validating path
			h = append(h, vMDWireEntry{[]string{"zz", "Zz", "z z"}[r.Intn(3)], []string{string([]byte{'a', byte(r.PickInt(0, 9, 31, 127, 128, 255))})}})
		}
		if r.Chance(25) { // the LB policy adds pick metadata
			pk := vMDWireRandMD(r, 3, 15, true)
			for j := range pk {
				if pk[j].k == ":authority" { // the override is exercised with a fixed host name in case 11
					pk[j].k = ":x"
				}
			}
			ops = append(ops, vMDWireOpP(mode, md, calls, h, t, pk))
			continue
		}
		ops = append(ops, vMDWireOpM(mode, md, calls, h, t))
	}
	return cfg, ops
}

func TestVerif_MDWire(t *testing.T) {
	vRunDriver(t, "MDWire", 30, 600, vMDWireGen, vMDWireExec)
}
