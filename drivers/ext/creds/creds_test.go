//go:build verif

// C58 driver: per-RPC credentials that require transport security, through a real
// grpc.ClientConn (grpc.NewClient -> validateTransportCredentials, NewHTTP2Client,
// getCallAuthData) and real grpc.Servers on loopback TCP / a unix socket.
//
// cfg = [kind, level, bundle, n, r_1 .. r_n]
//
//	kind  0 insecure.NewCredentials()      1 local.NewCredentials() over TCP 127.0.0.1
//	      2 local.NewCredentials() over a unix socket    3 credentials.NewTLS
//	      4 custom, CommonAuthInfo{level}  5 custom, AuthInfo without GetCommonAuthInfo
//	      6 custom, nil AuthInfo           7 custom named "insecure", CommonAuthInfo{level}
//	      8 no transport credentials       9 local.NewCredentials() on a conn whose RemoteAddr
//	                                         reports network level/4, address class level%4
//	r_i   1: dial-level per-RPC credential i has RequireTransportSecurity() = true
//	bundle 1: the transport credentials and the last dial credential are given through a
//	      credentials.Bundle (WithCredentialsBundle), the rest through WithPerRPCCredentials
//
// op  = [1, callkind]   one unary call; callkind 0 no call credentials, 1 call credentials
//
//	not requiring security, 2 requiring security (grpc.PerRPCCredentials)
//
// obs = [res, nsrv, extra, d_1 .. d_n, c]
//
//	res   0 OK, 1 grpc.NewClient failed, 2 UNAVAILABLE, 3 UNAUTHENTICATED, 9 anything else
//	nsrv  number of streams the server received during the call
//	extra credential-looking header fields seen by the server that no configured credential produced
//	d_i,c 0 metadata of that credential absent at the server, 1 present exactly once with the
//	      lower-cased key and the exact value, 2 anything else
package creds

import (
	"context"
	"crypto/tls"
	"crypto/x509"
	"fmt"
	"net"
	"os"
	"path/filepath"
	"strings"
	"sync"
	"testing"
	"time"

	"google.golang.org/grpc"
	"google.golang.org/grpc/codes"
	"google.golang.org/grpc/credentials"
	"google.golang.org/grpc/credentials/insecure"
	"google.golang.org/grpc/credentials/local"
	"google.golang.org/grpc/metadata"
	"google.golang.org/grpc/status"
	"google.golang.org/grpc/testdata"
	"google.golang.org/protobuf/types/known/emptypb"
)

// ---- servers (shared by all cases; every stream's metadata is recorded)

type vCredsEnvT struct {
	mu       sync.Mutex
	recs     []metadata.MD
	once     sync.Once
	err      error
	plain    string // host:port, no transport security
	localTCP string // host:port, local credentials
	localUDS string // socket path, local credentials
	tlsAddr  string // host:port, TLS
	tlsCfg   *tls.Config
}

var vCredsEnv vCredsEnvT

func (e *vCredsEnvT) handler(_ any, stream grpc.ServerStream) error {
	md, _ := metadata.FromIncomingContext(stream.Context())
	e.mu.Lock()
	e.recs = append(e.recs, md.Copy())
	e.mu.Unlock()
	var in emptypb.Empty
	if err := stream.RecvMsg(&in); err != nil {
		return err
	}
	return stream.SendMsg(&emptypb.Empty{})
}

func (e *vCredsEnvT) serve(network, addr string, opts ...grpc.ServerOption) (string, error) {
	lis, err := net.Listen(network, addr)
	if err != nil {
		return "", err
	}
	opts = append(opts, grpc.UnknownServiceHandler(e.handler))
	s := grpc.NewServer(opts...)
	go s.Serve(lis)
	return lis.Addr().String(), nil
}

func (e *vCredsEnvT) start() {
	e.once.Do(func() {
		if e.plain, e.err = e.serve("tcp", "127.0.0.1:0"); e.err != nil {
			return
		}
		if e.localTCP, e.err = e.serve("tcp", "127.0.0.1:0", grpc.Creds(local.NewCredentials())); e.err != nil {
			return
		}
		dir, err := os.MkdirTemp("", "vcreds")
		if err != nil {
			e.err = err
			return
		}
		e.localUDS = filepath.Join(dir, "s.sock")
		if _, e.err = e.serve("unix", e.localUDS, grpc.Creds(local.NewCredentials())); e.err != nil {
			return
		}
		cert, err := tls.LoadX509KeyPair(testdata.Path("x509/server1_cert.pem"), testdata.Path("x509/server1_key.pem"))
		if err != nil {
			e.err = err
			return
		}
		ca, err := os.ReadFile(testdata.Path("x509/server_ca_cert.pem"))
		if err != nil {
			e.err = err
			return
		}
		pool := x509.NewCertPool()
		if !pool.AppendCertsFromPEM(ca) {
			e.err = fmt.Errorf("bad CA pem")
			return
		}
		e.tlsCfg = &tls.Config{RootCAs: pool, ServerName: "x.test.example.com"}
		e.tlsAddr, e.err = e.serve("tcp", "127.0.0.1:0", grpc.Creds(credentials.NewTLS(&tls.Config{Certificates: []tls.Certificate{cert}})))
	})
}

// ---- custom transport credentials: no bytes on the wire, a chosen AuthInfo

type vCredsAICommon struct{ credentials.CommonAuthInfo }

func (vCredsAICommon) AuthType() string { return "vcreds" }

type vCredsAIBare struct{}

func (vCredsAIBare) AuthType() string { return "vcreds-bare" }

type vCredsTC struct {
	name  string
	kind  int64
	level int64
}

func (c *vCredsTC) ClientHandshake(_ context.Context, _ string, conn net.Conn) (net.Conn, credentials.AuthInfo, error) {
	switch c.kind {
	case 5:
		return conn, vCredsAIBare{}, nil
	case 6:
		return conn, nil, nil
	}
	return conn, vCredsAICommon{credentials.CommonAuthInfo{SecurityLevel: credentials.SecurityLevel(c.level)}}, nil
}
func (c *vCredsTC) ServerHandshake(conn net.Conn) (net.Conn, credentials.AuthInfo, error) {
	return conn, vCredsAIBare{}, nil
}
func (c *vCredsTC) Info() credentials.ProtocolInfo {
	return credentials.ProtocolInfo{SecurityProtocol: c.name}
}
func (c *vCredsTC) Clone() credentials.TransportCredentials { cp := *c; return &cp }
func (c *vCredsTC) OverrideServerName(string) error          { return nil }

// conn whose RemoteAddr is made up (kind 9)
type vCredsAddr struct{ network, addr string }

func (a vCredsAddr) Network() string { return a.network }
func (a vCredsAddr) String() string  { return a.addr }

type vCredsFakeConn struct {
	net.Conn
	remote vCredsAddr
}

func (c vCredsFakeConn) RemoteAddr() net.Addr { return c.remote }

func vCredsFakeAddr(level int64) vCredsAddr {
	network := []string{"tcp", "unix", "pipe"}[(level/4)%3]
	addr := []string{"127.9.9.9:1", "[::1]:1", `\\.\pipe\vcreds`, "10.1.2.3:1"}[level%4]
	if network == "unix" && level%4 == 3 {
		addr = "/tmp/vcreds-made-up.sock"
	}
	return vCredsAddr{network, addr}
}

// ---- per-RPC credentials and bundle

type vCredsPRC struct {
	name string
	req  bool
}

func vCredsKey(name string) string { return "VCreds-Tok-" + name }
func vCredsVal(name string) string { return "Secret " + name + " /+=~" }

func (c vCredsPRC) GetRequestMetadata(context.Context, ...string) (map[string]string, error) {
	return map[string]string{vCredsKey(c.name): vCredsVal(c.name)}, nil
}
func (c vCredsPRC) RequireTransportSecurity() bool { return c.req }

type vCredsBundle struct {
	tc  credentials.TransportCredentials
	prc credentials.PerRPCCredentials
}

func (b *vCredsBundle) TransportCredentials() credentials.TransportCredentials { return b.tc }
func (b *vCredsBundle) PerRPCCredentials() credentials.PerRPCCredentials       { return b.prc }
func (b *vCredsBundle) NewWithMode(string) (credentials.Bundle, error)         { return b, nil }

// ---- exec

type vCredsCfg struct {
	kind, level int64
	bundle      bool
	reqs        []bool
}

func vCredsDecode(cfg []int64) (vCredsCfg, bool) {
	var g vCredsCfg
	if len(cfg) < 4 || cfg[0] < 0 || cfg[0] > 9 || cfg[2] < 0 || cfg[2] > 1 || cfg[3] != int64(len(cfg)-4) {
		return g, false
	}
	g.kind, g.level, g.bundle = cfg[0], cfg[1], cfg[2] == 1
	for _, r := range cfg[4:] {
		if r != 0 && r != 1 {
			return g, false
		}
		g.reqs = append(g.reqs, r == 1)
	}
	if g.kind == 9 && (g.level < 0 || g.level > 11) {
		return g, false
	}
	return g, true
}

func vCredsDial(g vCredsCfg) (*grpc.ClientConn, error) {
	e := &vCredsEnv
	var tc credentials.TransportCredentials
	target := "passthrough:///" + e.plain
	var opts []grpc.DialOption
	switch g.kind {
	case 0:
		tc = insecure.NewCredentials()
	case 1:
		tc = local.NewCredentials()
		target = "passthrough:///" + e.localTCP
	case 2:
		tc = local.NewCredentials()
		target = "unix://" + e.localUDS
	case 3:
		tc = credentials.NewTLS(e.tlsCfg.Clone())
		target = "passthrough:///" + e.tlsAddr
		opts = append(opts, grpc.WithAuthority("x.test.example.com"))
	case 4, 5, 6:
		tc = &vCredsTC{name: "vcreds", kind: g.kind, level: g.level}
	case 7:
		tc = &vCredsTC{name: "insecure", kind: g.kind, level: g.level}
	case 8:
		tc = nil
	case 9:
		tc = local.NewCredentials()
		fa := vCredsFakeAddr(g.level)
		opts = append(opts, grpc.WithContextDialer(func(ctx context.Context, _ string) (net.Conn, error) {
			c, err := (&net.Dialer{}).DialContext(ctx, "tcp", e.plain)
			if err != nil {
				return nil, err
			}
			return vCredsFakeConn{Conn: c, remote: fa}, nil
		}))
	}
	n := len(g.reqs)
	direct := n
	if g.bundle {
		var prc credentials.PerRPCCredentials
		if n > 0 {
			direct = n - 1
			prc = vCredsPRC{name: fmt.Sprint(n - 1), req: g.reqs[n-1]}
		}
		opts = append(opts, grpc.WithCredentialsBundle(&vCredsBundle{tc: tc, prc: prc}))
	} else if tc != nil {
		opts = append(opts, grpc.WithTransportCredentials(tc))
	}
	for i := 0; i < direct; i++ {
		opts = append(opts, grpc.WithPerRPCCredentials(vCredsPRC{name: fmt.Sprint(i), req: g.reqs[i]}))
	}
	return grpc.NewClient(target, opts...)
}

// flag of one credential from the streams the server recorded during the call
func vCredsFlag(recs []metadata.MD, name string) int64 {
	var vals []string
	for _, md := range recs {
		vals = append(vals, md.Get(strings.ToLower(vCredsKey(name)))...)
	}
	switch {
	case len(vals) == 0:
		return 0
	case len(vals) == 1 && vals[0] == vCredsVal(name):
		return 1
	}
	return 2
}

func vCredsExec(cfg []int64, ops [][]int64) ([][]int64, bool, []string) {
	e := &vCredsEnv
	e.start()
	if e.err != nil {
		panic("vcreds servers: " + e.err.Error())
	}
	g, ok := vCredsDecode(cfg)
	if !ok {
		return nil, false, nil
	}
	n := len(g.reqs)
	tags := []string{fmt.Sprintf("kind%d", g.kind)}
	nt := false
	for _, r := range g.reqs {
		nt = nt || r
	}
	cc, derr := vCredsDial(g)
	if derr == nil {
		defer cc.Close()
	}
	var obs [][]int64
	for _, op := range ops {
		if len(op) != 2 || op[0] != 1 || op[1] < 0 || op[1] > 2 {
			continue
		}
		ck := op[1]
		if ck == 2 {
			nt = true
		}
		o := make([]int64, 4+n)
		if derr != nil {
			o[0] = 1
			obs = append(obs, o)
			tags = append(tags, "res1")
			continue
		}
		e.mu.Lock()
		before := len(e.recs)
		e.mu.Unlock()
		var copts []grpc.CallOption
		if ck != 0 {
			copts = append(copts, grpc.PerRPCCredentials(vCredsPRC{name: "call", req: ck == 2}))
		}
		ctx, cancel := context.WithTimeout(context.Background(), 20*time.Second)
		err := cc.Invoke(ctx, "/vcreds.S/M", &emptypb.Empty{}, &emptypb.Empty{}, copts...)
		cancel()
		switch status.Code(err) {
		case codes.OK:
			o[0] = 0
		case codes.Unavailable:
			o[0] = 2
		case codes.Unauthenticated:
			o[0] = 3
		default:
			o[0] = 9
		}
		e.mu.Lock()
		recs := append([]metadata.MD(nil), e.recs[before:]...)
		e.mu.Unlock()
		o[1] = int64(len(recs))
		known := map[string]bool{}
		for i := 0; i < n; i++ {
			o[3+i] = vCredsFlag(recs, fmt.Sprint(i))
			known[strings.ToLower(vCredsKey(fmt.Sprint(i)))] = true
		}
		if ck != 0 {
			known[strings.ToLower(vCredsKey("call"))] = true
		}
		o[3+n] = vCredsFlag(recs, "call")
		for _, md := range recs {
			for k, vv := range md {
				if strings.HasPrefix(strings.ToLower(k), "vcreds-") && !known[k] {
					o[2] += int64(len(vv))
				}
			}
		}
		if ck == 0 && o[3+n] != 0 {
			o[2]++
		}
		obs = append(obs, o)
		tags = append(tags, fmt.Sprintf("res%d", o[0]))
	}
	return obs, nt, tags
}

// ---- generator: the finite space is enumerated completely, then random longer cases

type vCredsKL struct{ kind, level int64 }

var vCredsEnum [][]int64

func vCredsBuildEnum() {
	kls := []vCredsKL{{0, 0}, {1, 0}, {2, 0}, {3, 0}, {4, -1}, {4, 0}, {4, 1}, {4, 2}, {4, 3}, {4, 4},
		{5, 0}, {6, 0}, {7, 1}, {7, 3}, {8, 0}}
	dials := [][]int64{{}, {1}, {0}, {0, 1}, {1, 0}}
	for _, kl := range kls {
		for b := int64(0); b < 2; b++ {
			for _, d := range dials {
				vCredsEnum = append(vCredsEnum, vCat([]int64{kl.kind, kl.level, b, int64(len(d))}, d))
			}
		}
	}
	for l := int64(0); l < 12; l++ {
		for b := int64(0); b < 2; b++ {
			for _, d := range [][]int64{{}, {1}} {
				vCredsEnum = append(vCredsEnum, vCat([]int64{9, l, b, int64(len(d))}, d))
			}
		}
	}
}

func vCredsGen(r *vRand, tier string, idx int) ([]int64, [][]int64) {
	if vCredsEnum == nil {
		vCredsBuildEnum()
	}
	if idx < len(vCredsEnum) {
		return vCredsEnum[idx], [][]int64{{1, 0}, {1, 1}, {1, 2}, {1, 2}, {1, 0}}
	}
	kind := r.PickI64(0, 1, 2, 3, 4, 4, 4, 4, 5, 6, 7, 7, 8, 9)
	level := int64(r.Intn(9)) - 3
	if r.Chance(5) {
		level = r.PickI64(1<<31-1, -(1 << 31), 1<<62, -(1 << 62))
	}
	if kind == 9 {
		level = int64(r.Intn(12))
	}
	n := r.Intn(5)
	cfg := []int64{kind, level, int64(r.Intn(2)), int64(n)}
	for i := 0; i < n; i++ {
		cfg = append(cfg, vB(r.Chance(35)))
	}
	var ops [][]int64
	for i, m := 0, 2+r.Intn(6); i < m; i++ {
		ops = append(ops, []int64{1, int64(r.Intn(3))})
	}
	return cfg, ops
}

func TestVerif_Creds(t *testing.T) {
	vCredsBuildEnum()
	vRunDriver(t, "Creds", len(vCredsEnum), len(vCredsEnum)+1500, vCredsGen, vCredsExec)
}
