//go:build verif

// C54 driver: the exported API of google.golang.org/grpc/health (Server).
//
// Runs inside a synctest bubble; every Watch stream is a goroutine calling Server.Watch with a
// fake grpc.ServerStreamingServer whose Send either returns at once or (hold = 1) blocks until
// the driver releases it or the stream's context is cancelled.  synctest.Wait() after every op,
// so every stream has advanced until it blocks.  Services are small integers (service 0 is the
// pre-registered empty name).
//
//	[1,svc,st] SetServingStatus   [2] Shutdown   [3] Resume
//	[4,svc]    Check              obs starts with [found, status]
//	[5,w,svc,hold] start Watch stream w (ignored if w was used)
//	[6,w]      let w's blocked Send return nil    [7,w] cancel w's context
//	obs (after the Check result) = stream events of the op, stably sorted by stream:
//	  [1,w,s] Send(s) entered  [2,w,s] Send(s) returned nil  [3,w,s] Send(s) failed  [4,w,0] Watch returned
package health

import (
	"context"
	"fmt"
	"sort"
	"sync"
	"testing"
	"testing/synctest"

	"google.golang.org/grpc"
	"google.golang.org/grpc/health"
	healthpb "google.golang.org/grpc/health/grpc_health_v1"
)

var vHealthT *testing.T

type vHealthLog struct {
	mu sync.Mutex
	ev []int64
}

func (l *vHealthLog) add(a, b, c int64) {
	l.mu.Lock()
	l.ev = append(l.ev, a, b, c)
	l.mu.Unlock()
}

type vHealthStream struct {
	grpc.ServerStream
	id     int64
	hold   bool
	ctx    context.Context
	cancel context.CancelFunc
	gate   chan struct{}
	lg     *vHealthLog
}

func (s *vHealthStream) Context() context.Context { return s.ctx }
func (s *vHealthStream) Send(r *healthpb.HealthCheckResponse) error {
	st := int64(r.Status)
	s.lg.add(1, s.id, st)
	if s.hold {
		select {
		case <-s.gate:
		case <-s.ctx.Done():
			s.lg.add(3, s.id, st)
			return s.ctx.Err()
		}
	}
	s.lg.add(2, s.id, st)
	return nil
}

func vHealthSvc(n int64) string {
	if n == 0 {
		return ""
	}
	return fmt.Sprintf("svc%d", n)
}

func vHealthExec(cfg []int64, ops [][]int64) (obs [][]int64, nt bool, tags []string) {
	sends, slow, shut := 0, false, false
	synctest.Test(vHealthT, func(t *testing.T) {
		srv := health.NewServer()
		lg := &vHealthLog{}
		streams := map[int64]*vHealthStream{}
		for _, op := range ops {
			var o []int64
			switch {
			case len(op) == 3 && op[0] == 1:
				srv.SetServingStatus(vHealthSvc(op[1]), healthpb.HealthCheckResponse_ServingStatus(op[2]))
			case len(op) == 1 && op[0] == 2:
				srv.Shutdown()
				shut = true
			case len(op) == 1 && op[0] == 3:
				srv.Resume()
			case len(op) == 2 && op[0] == 4:
				r, err := srv.Check(context.Background(), &healthpb.HealthCheckRequest{Service: vHealthSvc(op[1])})
				if err != nil {
					o = []int64{0, 0}
				} else {
					o = []int64{1, int64(r.Status)}
				}
			case len(op) == 4 && op[0] == 5:
				if streams[op[1]] == nil {
					ctx, cancel := context.WithCancel(context.Background())
					st := &vHealthStream{id: op[1], hold: op[3] != 0, ctx: ctx, cancel: cancel, gate: make(chan struct{}), lg: lg}
					streams[op[1]] = st
					if st.hold {
						slow = true
					}
					svc := vHealthSvc(op[2])
					go func() {
						srv.Watch(&healthpb.HealthCheckRequest{Service: svc}, st)
						lg.add(4, st.id, 0)
					}()
				}
			case len(op) == 2 && op[0] == 6:
				if st := streams[op[1]]; st != nil {
					select {
					case st.gate <- struct{}{}:
					default:
					}
				}
			case len(op) == 2 && op[0] == 7:
				if st := streams[op[1]]; st != nil {
					st.cancel()
				}
			default:
				o = []int64{-1}
			}
			synctest.Wait()
			lg.mu.Lock()
			e := lg.ev
			lg.ev = nil
			lg.mu.Unlock()
			n := len(e) / 3
			idx := make([]int, n)
			for i := range idx {
				idx[i] = i
			}
			sort.SliceStable(idx, func(a, b int) bool { return e[3*idx[a]+1] < e[3*idx[b]+1] })
			for _, i := range idx {
				o = append(o, e[3*i], e[3*i+1], e[3*i+2])
				if e[3*i] == 2 {
					sends++
				}
			}
			if o == nil {
				o = []int64{}
			}
			obs = append(obs, o)
		}
		for _, st := range streams {
			st.cancel()
		}
		synctest.Wait()
	})
	return obs, sends >= 3 && slow && shut, nil
}

func vHealthGen(r *vRand, tier string, idx int) ([]int64, [][]int64) {
	if idx == 0 {
		// scripted: unknown service, slow sender overwritten twice (A->B->A), shutdown/resume
		return []int64{}, [][]int64{
			{4, 0}, {4, 1}, {5, 1, 1, 0}, {5, 2, 0, 1}, {1, 1, 1}, {4, 1}, {1, 0, 2}, {1, 0, 1}, {6, 2},
			{1, 0, 2}, {6, 2}, {6, 2}, {2}, {4, 0}, {4, 1}, {1, 1, 1}, {4, 1}, {5, 3, 1, 0}, {5, 4, 2, 0},
			{3}, {4, 1}, {6, 2}, {6, 2}, {1, 2, 2}, {7, 1}, {7, 2}, {1, 1, 2}, {1, 0, 2}, {6, 2},
		}
	}
	var ops [][]int64
	nextW := int64(1)
	n := 25 + r.Intn(50)
	shutp := r.PickInt(2, 4, 8)
	for i := 0; i < n; i++ {
		x := r.Intn(100)
		svc := int64(r.Intn(4))
		w := int64(1 + r.Intn(int(nextW)))
		switch {
		case x < 35:
			ops = append(ops, []int64{1, svc, r.PickI64(1, 2, 1, 2, 0, 3)})
		case x < 35+shutp:
			ops = append(ops, []int64{2})
		case x < 35+2*shutp:
			ops = append(ops, []int64{3})
		case x < 60:
			ops = append(ops, []int64{4, svc})
		case x < 72 && nextW <= 6:
			ops = append(ops, []int64{5, nextW, svc, int64(r.Intn(2))})
			nextW++
		case x < 92:
			ops = append(ops, []int64{6, w})
		case x < 96:
			ops = append(ops, []int64{7, w})
		default:
			ops = append(ops, []int64{4, svc})
		}
	}
	return []int64{}, ops
}

func TestVerif_Health(t *testing.T) {
	vHealthT = t
	vRunDriver(t, "Health", 50, 1000, vHealthGen, vHealthExec)
}
