//go:build verif

// C31 driver: internal/buffer.Unbounded, grpcsync.CallbackSerializer, grpcsync.PubSub.
//
// cfg [1]  Unbounded[int64], single goroutine (every method is one mutex-protected step)
//
//	[1,v] Put(v)   obs [ok]        [2] Load()  obs []        [3] Close()  obs []
//	[4] non-blocking receive on Get()   obs [0,0] nothing | [1,v] value | [2,0] closed
//
// cfg [2]  CallbackSerializer inside a synctest bubble.  Callbacks log "start", block
// until released, log "finish".  The context is a custom context.Context implementing
// AfterFunc(func()) so that "context cancelled" and "the AfterFunc goroutine runs
// callbacks.Close" are separate, deterministic steps (with a standard context the second
// step is a goroutine started by cancel()).  After every op synctest.Wait() lets the run
// goroutine advance until it blocks.
//
//	[1,x] ScheduleOr(cb x, onFailure x)   [2] release the running callback
//	[3] cancel ctx   [4] run the registered AfterFunc function   [5] = [3] then [4]
//	obs = events of this op, 3 ints each: [1,x,0] start [2,x,0] finish [3,x,0] onFailure
//	      [4,0,0] Done() observed closed (first time)
//
// cfg [3]  PubSub, same context and settling.
//
//	[1,s] Subscribe(subscriber s) (ignored when subscribed)   [2,m] Publish(m)
//	[6,s] call s's cancel func (ignored when not subscribed)   [3] [4] [5] as above
//	[7] schedule a callback that blocks until released directly on the PubSub's own serializer
//	    (private field cs, reached with reflect+unsafe), so that everything published afterwards
//	    stays queued: the run goroutine lags   [8] release the blocked callback
//	obs = [5,s,m] per OnMessage during this op (stably sorted by s: Publish ranges over a
//	      map), then [4,0,0] when Done() is first observed closed
package serializer

import (
	"context"
	"reflect"
	"sort"
	"sync"
	"testing"
	"testing/synctest"
	"time"
	"unsafe"

	"google.golang.org/grpc/internal/buffer"
	"google.golang.org/grpc/internal/grpcsync"
)

var vSerializerT *testing.T

type vSerializerCtx struct {
	mu    sync.Mutex
	done  chan struct{}
	err   error
	fns   []func()
	fired bool
}

func vSerializerNewCtx() *vSerializerCtx { return &vSerializerCtx{done: make(chan struct{})} }

func (c *vSerializerCtx) Deadline() (time.Time, bool) { return time.Time{}, false }
func (c *vSerializerCtx) Done() <-chan struct{}       { return c.done }
func (c *vSerializerCtx) Value(any) any               { return nil }
func (c *vSerializerCtx) Err() error {
	c.mu.Lock()
	defer c.mu.Unlock()
	return c.err
}

// AfterFunc is the hook context.AfterFunc uses for non-standard parents.
func (c *vSerializerCtx) AfterFunc(f func()) func() bool {
	c.mu.Lock()
	defer c.mu.Unlock()
	c.fns = append(c.fns, f)
	return func() bool { return false }
}

func (c *vSerializerCtx) vCancel() {
	c.mu.Lock()
	defer c.mu.Unlock()
	if c.err == nil {
		c.err = context.Canceled
		close(c.done)
	}
}

func (c *vSerializerCtx) vFire() {
	c.mu.Lock()
	if c.err == nil || c.fired {
		c.mu.Unlock()
		return
	}
	c.fired = true
	fns := c.fns
	c.mu.Unlock()
	for _, f := range fns {
		f()
	}
}

func vSerializerExec1(ops [][]int64) ([][]int64, bool, []string) {
	b := buffer.NewUnbounded[int64]()
	var obs [][]int64
	got, eos := 0, false
	for _, op := range ops {
		switch {
		case len(op) == 2 && op[0] == 1:
			obs = append(obs, []int64{vB(b.Put(op[1]) == nil)})
		case len(op) == 1 && op[0] == 2:
			b.Load()
			obs = append(obs, []int64{})
		case len(op) == 1 && op[0] == 3:
			b.Close()
			obs = append(obs, []int64{})
		case len(op) == 1 && op[0] == 4:
			select {
			case v, ok := <-b.Get():
				if ok {
					got++
					obs = append(obs, []int64{1, v})
				} else {
					eos = true
					obs = append(obs, []int64{2, 0})
				}
			default:
				obs = append(obs, []int64{0, 0})
			}
		default:
			obs = append(obs, []int64{-1})
		}
	}
	return obs, got >= 2 && eos, []string{"unbounded"}
}

type vSerializerLog struct {
	mu sync.Mutex
	ev []int64
}

func (l *vSerializerLog) add(a, b, c int64) {
	l.mu.Lock()
	l.ev = append(l.ev, a, b, c)
	l.mu.Unlock()
}
func (l *vSerializerLog) take() []int64 {
	l.mu.Lock()
	defer l.mu.Unlock()
	e := l.ev
	l.ev = nil
	if e == nil {
		e = []int64{}
	}
	return e
}

func vSerializerCtxOp(ctx *vSerializerCtx, code int64) bool {
	switch code {
	case 3:
		ctx.vCancel()
	case 4:
		ctx.vFire()
	case 5:
		ctx.vCancel()
		ctx.vFire()
	default:
		return false
	}
	return true
}

func vSerializerExec2(ops [][]int64) (obs [][]int64, nt bool, tags []string) {
	starts, fails, window := 0, 0, false
	synctest.Test(vSerializerT, func(t *testing.T) {
		ctx := vSerializerNewCtx()
		cs := grpcsync.NewCallbackSerializer(ctx)
		synctest.Wait()
		lg := &vSerializerLog{}
		rel := make(chan struct{})
		doneSeen := false
		for _, op := range ops {
			switch {
			case len(op) == 2 && op[0] == 1:
				id := op[1]
				if ctx.Err() != nil && !ctx.fired {
					window = true
				}
				cs.ScheduleOr(func(context.Context) {
					lg.add(1, id, 0)
					<-rel
					lg.add(2, id, 0)
				}, func() { lg.add(3, id, 0) })
			case len(op) == 1 && op[0] == 2:
				select {
				case rel <- struct{}{}:
				default:
				}
			case len(op) == 1 && vSerializerCtxOp(ctx, op[0]):
			default:
				lg.add(-1, 0, 0)
			}
			synctest.Wait()
			e := lg.take()
			if !doneSeen {
				select {
				case <-cs.Done():
					doneSeen = true
					e = append(e, 4, 0, 0)
				default:
				}
			}
			for i := 0; i+2 < len(e); i += 3 {
				if e[i] == 1 {
					starts++
				}
				if e[i] == 3 {
					fails++
				}
			}
			obs = append(obs, e)
		}
		// tear down: shut the serializer down and let every callback return
		ctx.vCancel()
		ctx.vFire()
		for i := 0; i < len(ops)+4; i++ {
			synctest.Wait()
			select {
			case <-cs.Done():
				return
			default:
			}
			select {
			case rel <- struct{}{}:
			default:
			}
		}
	})
	tags = []string{"serializer"}
	if window {
		tags = append(tags, "cancel-window")
	}
	return obs, starts >= 2 && fails >= 1, tags
}

type vSerializerSub struct {
	id int64
	lg *vSerializerLog
}

func (s *vSerializerSub) OnMessage(msg any) { s.lg.add(5, s.id, msg.(int64)) }

func vSerializerExec3(ops [][]int64) (obs [][]int64, nt bool, tags []string) {
	deliveries, unsubs, lagged := 0, 0, false
	synctest.Test(vSerializerT, func(t *testing.T) {
		ctx := vSerializerNewCtx()
		ps := grpcsync.NewPubSub(ctx)
		synctest.Wait()
		lg := &vSerializerLog{}
		cs := *(**grpcsync.CallbackSerializer)(unsafe.Pointer(reflect.ValueOf(ps).Elem().FieldByName("cs").UnsafeAddr()))
		gate := make(chan struct{})
		objs := map[int64]*vSerializerSub{}
		cancels := map[int64]func(){}
		doneSeen := false
		for _, op := range ops {
			switch {
			case len(op) == 2 && op[0] == 1:
				s := op[1]
				if cancels[s] == nil {
					if objs[s] == nil {
						objs[s] = &vSerializerSub{id: s, lg: lg}
					}
					cancels[s] = ps.Subscribe(objs[s])
				}
			case len(op) == 2 && op[0] == 2:
				ps.Publish(op[1])
			case len(op) == 2 && op[0] == 6:
				if c := cancels[op[1]]; c != nil {
					c()
					delete(cancels, op[1])
					unsubs++
				}
			case len(op) == 1 && op[0] == 7:
				cs.TrySchedule(func(context.Context) { <-gate })
				lagged = true
			case len(op) == 1 && op[0] == 8:
				select {
				case gate <- struct{}{}:
				default:
				}
			case len(op) == 1 && vSerializerCtxOp(ctx, op[0]):
			default:
				lg.add(-1, 0, 0)
			}
			synctest.Wait()
			e := lg.take()
			n := len(e) / 3
			idx := make([]int, n)
			for i := range idx {
				idx[i] = i
			}
			sort.SliceStable(idx, func(a, b int) bool { return e[3*idx[a]+1] < e[3*idx[b]+1] })
			se := make([]int64, 0, len(e)+3)
			for _, i := range idx {
				se = append(se, e[3*i], e[3*i+1], e[3*i+2])
			}
			deliveries += n
			if !doneSeen {
				select {
				case <-ps.Done():
					doneSeen = true
					se = append(se, 4, 0, 0)
				default:
				}
			}
			obs = append(obs, se)
		}
		ctx.vCancel()
		ctx.vFire()
		for i := 0; i < len(ops)+4; i++ {
			synctest.Wait()
			select {
			case <-ps.Done():
				return
			default:
			}
			select {
			case gate <- struct{}{}:
			default:
			}
		}
	})
	tags = []string{"pubsub"}
	if lagged {
		tags = append(tags, "lagging-queue")
	}
	return obs, deliveries >= 3 && unsubs >= 1, tags
}

func vSerializerExec(cfg []int64, ops [][]int64) ([][]int64, bool, []string) {
	if len(cfg) != 1 {
		return nil, false, nil
	}
	switch cfg[0] {
	case 1:
		return vSerializerExec1(ops)
	case 2:
		return vSerializerExec2(ops)
	case 3:
		return vSerializerExec3(ops)
	}
	return nil, false, nil
}

func vSerializerGen(r *vRand, tier string, idx int) ([]int64, [][]int64) {
	kind := int64(idx%3 + 1)
	j := idx / 3
	var ops [][]int64
	next := int64(1)
	switch kind {
	case 1:
		switch j {
		case 0: // close while draining: EOS only after the final Load
			for _, c := range []int64{1, 1, 1, 3, 1, 4, 4, 2, 4, 2, 2, 4, 4, 2, 4, 4, 1, 2, 4} {
				if c == 1 {
					ops = append(ops, []int64{1, next})
					next++
				} else {
					ops = append(ops, []int64{c})
				}
			}
		case 1: // close on an empty buffer with a value still in the channel
			ops = [][]int64{{1, 7}, {3}, {1, 8}, {4}, {4}, {2}, {4}, {3}, {2}}
		default:
			n := 20 + r.Intn(40)
			pc := r.PickInt(0, 2, 5)
			for i := 0; i < n; i++ {
				x := r.Intn(100)
				switch {
				case x < 35:
					v := next
					next++
					if r.Chance(10) {
						v = int64(1 + r.Intn(3))
					}
					ops = append(ops, []int64{1, v})
				case x < 60:
					ops = append(ops, []int64{2})
				case x < 100-pc:
					ops = append(ops, []int64{4})
					if r.Chance(70) {
						ops = append(ops, []int64{2})
					}
				default:
					ops = append(ops, []int64{3})
				}
			}
		}
	case 2:
		switch j {
		case 0: // the cancel window (clause 10)
			ops = [][]int64{{1, 1}, {3}, {1, 2}, {4}, {1, 3}, {2}, {2}, {2}}
		case 1:
			ops = [][]int64{{1, 1}, {1, 2}, {1, 3}, {5}, {1, 4}, {2}, {2}, {1, 5}, {2}, {2}}
		default:
			n := 20 + r.Intn(40)
			win := j%8 == 7
			pc := r.PickInt(0, 2, 4)
			for i := 0; i < n; i++ {
				x := r.Intn(100)
				switch {
				case x < 45:
					ops = append(ops, []int64{1, next})
					next++
				case x < 100-2*pc:
					ops = append(ops, []int64{2})
				case x < 100-pc || !win:
					ops = append(ops, []int64{5})
				case r.Bool():
					ops = append(ops, []int64{3})
				default:
					ops = append(ops, []int64{4})
				}
			}
		}
	default:
		switch j {
		case 0:
			ops = [][]int64{{2, 1}, {1, 1}, {2, 2}, {1, 2}, {2, 3}, {6, 1}, {2, 4}, {1, 1}, {2, 5}, {5}, {2, 6}, {1, 3}}
		case 1: // lagging queue: publish, unsubscribe before the callbacks run, release
			ops = [][]int64{{1, 1}, {1, 2}, {7}, {2, 1}, {2, 2}, {6, 1}, {2, 3}, {8}, {2, 4}, {7}, {1, 3}, {2, 5}, {6, 2}, {5}, {2, 6}, {8}}
		case 2: // re-subscription of the same Subscriber object while its old callbacks are queued (clause 11)
			ops = [][]int64{{1, 1}, {7}, {2, 1}, {2, 2}, {6, 1}, {1, 1}, {8}}
		default:
			n := 20 + r.Intn(30)
			pc := r.PickInt(0, 2, 4)
			lag := j%2 == 1
			fresh := int64(10) // with a lagging queue subscriber ids are never reused
			for i := 0; i < n; i++ {
				x := r.Intn(100)
				s := int64(1 + r.Intn(5))
				switch {
				case lag && x < 8:
					ops = append(ops, []int64{7})
				case lag && x < 20:
					ops = append(ops, []int64{8})
				case lag && x < 32:
					fresh++
					ops = append(ops, []int64{1, fresh})
				case lag && x < 45:
					ops = append(ops, []int64{6, fresh - int64(r.Intn(3))})
				case x < 25:
					ops = append(ops, []int64{1, s})
				case x < 70:
					ops = append(ops, []int64{2, next})
					next++
				case x < 100-pc:
					ops = append(ops, []int64{6, s})
				default:
					ops = append(ops, []int64{r.PickI64(3, 4, 5, 5)})
				}
			}
		}
	}
	return []int64{kind}, ops
}

func TestVerif_Serializer(t *testing.T) {
	vSerializerT = t
	vRunDriver(t, "Serializer", 60, 1200, vSerializerGen, vSerializerExec)
}
