//go:build verif

// C53 driver (engine MemBuf): exported API of google.golang.org/grpc/mem.
//
//	cfg [1, threshold]  buffers over a tracking pool (every Get is a fresh array, Put poisons
//	                    the array with 238 and records which pooled allocation came back);
//	                    the buffer pooling threshold is set to `threshold` for the case.
//	   handles are numbered in creation order; one handle = one owned reference.
//	   [1,len,seed] NewBuffer   [2,len,seed] Copy   [3,h] Ref (new handle)   [4,h] Free
//	   [5,h,s,e] Slice          [6,h,n] SplitUnsafe (h keeps the left part)
//	   [7,h,n] ReadUnsafe       [8,h] ReadOnlyData
//	   [9,cnt,h...] BufferSlice.Reader   [10,r,n] Reader.Read   [11,r,n] Discard   [12,r] Close
//	   [13,cnt,h...] MaterializeToBuffer [14,r,n] Peek
//	   obs [0, nputs, allocation ids..., nmeta, meta..., nbytes, bytes...]  or [-1] (op skipped:
//	   dead handle / out of range, the calls that would panic are not made)
//	cfg [2, kind, tiers...]  real pools: kind 0 NewTieredBufferPool(sizes), 1 NewBinaryTieredBufferPool(exps)
//	   [1,n] Get(n)  obs [len, cap (-1 when served by the fallback pool), all cap bytes zero]
//	   [2,i] Put of the i-th buffer after poisoning its whole capacity  obs []
package membuf

import (
	"fmt"
	"io"
	"sort"
	"testing"

	"google.golang.org/grpc/internal"
	"google.golang.org/grpc/mem"
)

type vMemBufPool struct {
	pending []*[]byte
	fam     map[*byte]int64
	nfam    int64
	puts    []int64
	gets    int
}

func (p *vMemBufPool) Get(n int) *[]byte {
	b := make([]byte, n)
	p.pending = append(p.pending, &b)
	p.gets++
	return &b
}

func (p *vMemBufPool) Put(b *[]byte) {
	s := (*b)[:cap(*b)]
	id := int64(-1)
	if len(s) > 0 {
		if v, ok := p.fam[&s[0]]; ok {
			id = v
		}
	}
	p.puts = append(p.puts, id)
	for i := range s {
		s[i] = 238
	}
}

func vMemBufGenBytes(n, seed int64) []byte {
	out := make([]byte, n)
	for i := range out {
		out[i] = byte((((seed + int64(i)) % 200) + 200) % 200)
	}
	return out
}

func vMemBufObs(p *vMemBufPool, meta []int64, data []byte) []int64 {
	puts := append([]int64(nil), p.puts...)
	sort.Slice(puts, func(i, j int) bool { return puts[i] < puts[j] })
	o := []int64{0, int64(len(puts))}
	o = append(o, puts...)
	o = append(o, int64(len(meta)))
	o = append(o, meta...)
	o = append(o, vBytes(data)...)
	return o
}

func vMemBufBuffers(cfg []int64, ops [][]int64) ([][]int64, bool, []string) {
	thr := int(cfg[1])
	set := internal.SetBufferPoolingThresholdForTesting.(func(int))
	set(thr)
	defer set(1 << 10)
	pool := &vMemBufPool{fam: map[*byte]int64{}}
	var hs []mem.Buffer
	var rds []*mem.Reader
	// shadow ownership, only used to decide whether SplitUnsafe/ReadUnsafe (which mutate the
	// receiver and are meant for an exclusive owner) may be applied
	var objOf []int      // object id of each handle
	var rdObjs [][]int   // object ids an open reader was created over
	nextObj := 0
	freshObj := func() int { nextObj++; return nextObj }
	curObj := -1 // object id for the handle being created (-1 = fresh)
	exclusive := func(i int64) bool {
		if _, ok := hs[i].(mem.SliceBuffer); ok {
			return true
		}
		if fmt.Sprintf("%T", hs[i]) == "mem.emptyBuffer" {
			return true
		}
		n := 0
		for j := range hs {
			if hs[j] != nil && objOf[j] == objOf[i] {
				n++
			}
		}
		for _, l := range rdObjs {
			for _, o := range l {
				if o == objOf[i] {
					return false
				}
			}
		}
		return n == 1
	}
	var obs [][]int64
	skip := []int64{-1}
	totalPuts, derived := 0, 0
	getH := func(i int64) mem.Buffer {
		if i < 0 || i >= int64(len(hs)) {
			return nil
		}
		return hs[i]
	}
	getR := func(i int64) *mem.Reader {
		if i < 0 || i >= int64(len(rds)) {
			return nil
		}
		return rds[i]
	}
	isSlice := func(b mem.Buffer) bool { _, ok := b.(mem.SliceBuffer); return ok }
	// a new handle: register the pooled allocation (if the op took one from the pool and
	// wrapped it in a reference-counted buffer) and report [kind, len]
	newHandle := func(b mem.Buffer) []int64 {
		if len(pool.pending) > 0 && !isSlice(b) && b.Len() > 0 {
			arr := *pool.pending[len(pool.pending)-1]
			pool.fam[&arr[:1][0]] = pool.nfam
			pool.nfam++
		}
		hs = append(hs, b)
		if curObj < 0 {
			curObj = freshObj()
		}
		objOf = append(objOf, curObj)
		return vMemBufObs(pool, []int64{vB(isSlice(b)), int64(b.Len())}, nil)
	}
	handleList := func(w []int64) ([]mem.Buffer, []int, bool) {
		if len(w) == 0 || w[0] < 0 || int64(len(w)-1) != w[0] {
			return nil, nil, false
		}
		var out []mem.Buffer
		var ids []int
		for _, i := range w[1:] {
			b := getH(i)
			if b == nil {
				return nil, nil, false
			}
			out = append(out, b)
			ids = append(ids, objOf[i])
		}
		return out, ids, true
	}
	for _, op := range ops {
		pool.pending, pool.puts = nil, nil
		curObj = -1
		var o []int64
		switch {
		case len(op) == 3 && (op[0] == 1 || op[0] == 2):
			if op[1] < 0 || op[1] > 64 {
				o = skip
				break
			}
			data := vMemBufGenBytes(op[1], op[2])
			if op[0] == 2 {
				o = newHandle(mem.Copy(data, pool))
			} else if len(data) > thr {
				buf := pool.Get(len(data))
				copy(*buf, data)
				o = newHandle(mem.NewBuffer(buf, pool))
			} else {
				o = newHandle(mem.NewBuffer(&data, pool))
			}
		case len(op) == 2 && op[0] == 3:
			if b := getH(op[1]); b != nil {
				b.Ref()
				curObj = objOf[op[1]]
				o = newHandle(b)
			} else {
				o = skip
			}
		case len(op) == 2 && op[0] == 4:
			if b := getH(op[1]); b != nil {
				b.Free()
				hs[op[1]] = nil
				o = vMemBufObs(pool, nil, nil)
			} else {
				o = skip
			}
		case len(op) == 4 && op[0] == 5:
			b := getH(op[1])
			if b == nil || op[2] < 0 || op[2] > op[3] || op[3] > int64(b.Len()) {
				o = skip
				break
			}
			nb := b.Slice(int(op[2]), int(op[3]))
			if !isSlice(b) && nb.Len() > 0 && nb.Len() < b.Len() {
				derived++
			}
			if !isSlice(b) && nb.Len() > 0 && nb.Len() == b.Len() {
				curObj = objOf[op[1]] // the full slice is the same object with one more reference
			}
			o = newHandle(nb)
		case len(op) == 3 && op[0] == 6:
			b := getH(op[1])
			if b == nil || op[2] < 0 || op[2] > int64(b.Len()) || !exclusive(op[1]) {
				o = skip
				break
			}
			if !isSlice(b) && b.Len() > 0 {
				derived++
			}
			l, r := mem.SplitUnsafe(b, int(op[2]))
			hs[op[1]] = l
			o = newHandle(r)
		case len(op) == 3 && op[0] == 7:
			b := getH(op[1])
			if b == nil || op[2] < 0 || op[2] > 64 || !exclusive(op[1]) {
				o = skip
				break
			}
			dst := make([]byte, op[2])
			k, nb := mem.ReadUnsafe(dst, b)
			hs[op[1]] = nb
			o = vMemBufObs(pool, []int64{vB(nb == nil)}, dst[:k])
		case len(op) == 2 && op[0] == 8:
			if b := getH(op[1]); b != nil {
				o = vMemBufObs(pool, nil, append([]byte(nil), b.ReadOnlyData()...))
			} else {
				o = skip
			}
		case len(op) >= 1 && op[0] == 9:
			bs, ids, ok := handleList(op[1:])
			if !ok {
				o = skip
				break
			}
			r := mem.BufferSlice(bs).Reader()
			rds = append(rds, r)
			rdObjs = append(rdObjs, ids)
			o = vMemBufObs(pool, []int64{int64(r.Remaining())}, nil)
		case len(op) == 3 && op[0] == 10:
			r := getR(op[1])
			if r == nil || op[2] < 0 || op[2] > 64 {
				o = skip
				break
			}
			buf := make([]byte, op[2])
			k, err := r.Read(buf)
			o = vMemBufObs(pool, []int64{vB(err == io.EOF)}, buf[:k])
		case len(op) == 3 && op[0] == 11:
			r := getR(op[1])
			if r == nil {
				o = skip
				break
			}
			d, err := r.Discard(int(op[2]))
			o = vMemBufObs(pool, []int64{int64(d), vB(err != nil)}, nil)
		case len(op) == 2 && op[0] == 12:
			r := getR(op[1])
			if r == nil {
				o = skip
				break
			}
			r.Close()
			rdObjs[op[1]] = nil
			o = vMemBufObs(pool, nil, nil)
		case len(op) >= 1 && op[0] == 13:
			bs, ids, ok := handleList(op[1:])
			if !ok {
				o = skip
				break
			}
			if len(bs) == 1 {
				curObj = ids[0]
			}
			o = newHandle(mem.BufferSlice(bs).MaterializeToBuffer(pool))
		case len(op) == 3 && op[0] == 14:
			r := getR(op[1])
			if r == nil {
				o = skip
				break
			}
			res, err := r.Peek(int(op[2]), nil)
			var all []byte
			for _, x := range res {
				all = append(all, x...)
			}
			o = vMemBufObs(pool, []int64{vB(err == nil)}, all)
		default:
			o = skip
		}
		totalPuts += len(pool.puts)
		obs = append(obs, o)
	}
	tags := []string{"buffers"}
	if totalPuts > 0 {
		tags = append(tags, "puts")
	}
	if totalPuts == int(pool.nfam) && pool.nfam > 0 {
		tags = append(tags, "all-returned")
	}
	return obs, totalPuts > 0 && derived > 0, tags
}

func vMemBufGenBuffers(r *vRand, idx int) ([]int64, [][]int64) {
	thr := r.PickI64(0, 0, 4, 8)
	var ops [][]int64
	nh, nr := int64(0), int64(0)
	alive := map[int64]bool{}
	pickH := func() int64 {
		if nh == 0 || r.Chance(4) {
			return r.I64n(nh + 2)
		}
		for try := 0; try < 6; try++ {
			h := r.I64n(nh)
			if alive[h] {
				return h
			}
		}
		return r.I64n(nh)
	}
	newH := func() { alive[nh] = true; nh++ }
	n := 70
	for i := 0; i < n; i++ {
		switch c := r.Intn(100); {
		case c < 10 || nh == 0:
			ops = append(ops, []int64{1, r.PickI64(0, 1, 3, 5, 9, 12, 16), r.I64n(200)})
			newH()
		case c < 16:
			ops = append(ops, []int64{2, r.PickI64(0, 2, 5, 9, 13), r.I64n(200)})
			newH()
		case c < 24:
			ops = append(ops, []int64{3, pickH()})
			newH()
		case c < 40:
			h := pickH()
			ops = append(ops, []int64{4, h})
			delete(alive, h)
		case c < 54:
			s := r.I64n(8)
			ops = append(ops, []int64{5, pickH(), s, s + r.I64n(10)})
			newH()
		case c < 63:
			ops = append(ops, []int64{6, pickH(), r.I64n(10)})
			newH()
		case c < 70:
			h := pickH()
			k := r.PickI64(0, 1, 3, 20)
			ops = append(ops, []int64{7, h, k})
			if k == 20 {
				delete(alive, h)
			}
		case c < 78:
			ops = append(ops, []int64{8, pickH()})
		case c < 83:
			cnt := r.I64n(4)
			op := []int64{9, cnt}
			for j := int64(0); j < cnt; j++ {
				op = append(op, pickH())
			}
			ops = append(ops, op)
			nr++
		case c < 89:
			ops = append(ops, []int64{10, r.I64n(nr + 1), r.PickI64(0, 1, 2, 5, 30)})
		case c < 92:
			ops = append(ops, []int64{11, r.I64n(nr + 1), r.PickI64(-1, 0, 1, 4, 40)})
		case c < 94:
			ops = append(ops, []int64{12, r.I64n(nr + 1)})
		case c < 98:
			cnt := r.I64n(4)
			op := []int64{13, cnt}
			for j := int64(0); j < cnt; j++ {
				op = append(op, pickH())
			}
			ops = append(ops, op)
			newH()
		default:
			ops = append(ops, []int64{14, r.I64n(nr + 1), r.PickI64(0, 1, 6, 50)})
		}
	}
	// release everything (in most cases), so that every pooled allocation must come back
	if r.Chance(80) {
		for j := int64(0); j < nr; j++ {
			ops = append(ops, []int64{12, j})
		}
		for h := int64(0); h < nh; h++ {
			ops = append(ops, []int64{4, h})
		}
	}
	return []int64{1, thr}, ops
}

// ---------------------------------------------------------------- pools

func vMemBufPools(cfg []int64, ops [][]int64) ([][]int64, bool, []string) {
	kind := cfg[1]
	var pool mem.BufferPool
	maxTier := int64(-1)
	switch kind {
	case 0:
		var sizes []int
		for _, s := range cfg[2:] {
			if s < 0 || s > 1<<20 {
				return nil, false, []string{"badcfg"}
			}
			sizes = append(sizes, int(s))
			if s > maxTier {
				maxTier = s
			}
		}
		pool = mem.NewTieredBufferPool(sizes...)
	case 1:
		var exps []uint8
		for _, e := range cfg[2:] {
			if e < 0 || e > 20 {
				return nil, false, []string{"badcfg"}
			}
			exps = append(exps, uint8(e))
			if 1<<e > maxTier {
				maxTier = 1 << e
			}
		}
		p, err := mem.NewBinaryTieredBufferPool(exps...)
		if err != nil {
			return nil, false, []string{"badcfg"}
		}
		pool = p
	default:
		return nil, false, []string{"badcfg"}
	}
	var got []*[]byte
	put := map[int]bool{}
	var obs [][]int64
	reused := 0
	seen := map[*byte]bool{}
	for _, op := range ops {
		switch {
		case len(op) == 2 && op[0] == 1 && op[1] >= 0 && op[1] <= 20000:
			n := op[1]
			b := pool.Get(int(n))
			full := (*b)[:cap(*b)]
			zero := true
			for _, x := range full {
				if x != 0 {
					zero = false
				}
			}
			if len(full) > 0 {
				if seen[&full[0]] {
					reused++
				}
				seen[&full[0]] = true
			}
			c := int64(cap(*b))
			if n > maxTier || (kind == 1 && n == 0) {
				if c >= n {
					c = -1
				} else {
					c = -2
				}
			}
			got = append(got, b)
			obs = append(obs, []int64{int64(len(*b)), c, vB(zero)})
		case len(op) == 2 && op[0] == 2:
			i := int(op[1])
			if i >= 0 && i < len(got) && !put[i] {
				put[i] = true
				full := (*got[i])[:cap(*got[i])]
				for j := range full {
					full[j] = 238
				}
				pool.Put(got[i])
			}
			obs = append(obs, []int64{})
		default:
			obs = append(obs, []int64{-9})
		}
	}
	tags := []string{"pools"}
	if reused > 0 {
		tags = append(tags, "reused-buffer")
	}
	return obs, reused > 0, tags
}

func vMemBufGenPools(r *vRand, idx int) ([]int64, [][]int64) {
	cfg := []int64{2, int64(r.Intn(2))}
	nt := r.Intn(5)
	for i := 0; i < nt; i++ {
		if cfg[1] == 0 {
			cfg = append(cfg, r.PickI64(0, 8, 64, 100, 256, 1000, 4096, 5000))
		} else {
			cfg = append(cfg, r.PickI64(0, 3, 6, 8, 10, 12, 13))
		}
	}
	var ops [][]int64
	ng := int64(0)
	sizes := []int64{0, 1, 7, 8, 9, 63, 64, 65, 100, 255, 256, 257, 1000, 1024, 4095, 4096, 4097, 5000, 8192, 9000}
	for i := 0; i < 60; i++ {
		if ng > 0 && r.Chance(45) {
			ops = append(ops, []int64{2, r.I64n(ng)})
		} else {
			ops = append(ops, []int64{1, sizes[r.Intn(len(sizes))]})
			ng++
		}
	}
	return cfg, ops
}

func vMemBufExec(cfg []int64, ops [][]int64) ([][]int64, bool, []string) {
	if len(cfg) >= 2 && cfg[0] == 1 && cfg[1] >= 0 {
		return vMemBufBuffers(cfg, ops)
	}
	if len(cfg) >= 2 && cfg[0] == 2 {
		return vMemBufPools(cfg, ops)
	}
	return nil, false, []string{"badcfg"}
}

func vMemBufGen(r *vRand, tier string, idx int) ([]int64, [][]int64) {
	if idx%4 == 3 {
		return vMemBufGenPools(r, idx)
	}
	return vMemBufGenBuffers(r, idx)
}

func TestVerif_MemBuf(t *testing.T) {
	vRunDriver(t, "MemBuf", 40, 800, vMemBufGen, vMemBufExec)
}
