//go:build verif

package retry_test

// C18 driver (engine Retry): a real ClientConn (retry policy from a default service config,
// WithMaxCallAttempts, MaxRetryRPCBufferSize) against a real grpc.Server whose generic stream
// handler follows a per-attempt script and logs what each attempt received; everything runs
// in a synctest bubble over net.Pipe, so retry back-off timers are virtual.  RPCs whose scripts
// contain an unprocessed stream (act 3 / 4) run on a second ClientConn of the same configuration
// against a raw HTTP/2 server (x/net/http2 Framer) that follows the same scripts and can answer
// HEADERS with RST_STREAM(REFUSED_STREAM) or with a GOAWAY whose last-stream-id is below the stream.
// Outside the held-send schedule a client stats.Handler calls synctest.Wait() after every
// transport write (OutHeader, OutPayload: original and replayed), so the failure of an attempt
// is registered by the client before the next write: the schedule the model describes.
//
//	cfg [maxAttempts, channelMax, bufLimit, n, code_1..code_n]
//	op  [m, size_1..size_m, k, (r, act, code, pb) x k]   one RPC: the application sends the m
//	     messages (message i is size_i bytes starting with byte i), half-closes, then receives
//	     until an error; attempt j (0-based, told apart by grpc-previous-rpc-attempts) is served
//	     by script j (a missing script = success): read r messages (or until half-close), then
//	     act 0 fail with code before headers (pushback pb: 0 none, 1 "1", 2 "-1", 3 two values),
//	     act 1 send headers then fail with code, act 2 headers + one reply + OK,
//	     act 3 answer HEADERS with RST_STREAM(REFUSED_STREAM), act 4 answer HEADERS with
//	     GOAWAY(last-stream-id = stream id - 2) (raw server; script = number of the attempt)
//	op  [0, j, <op as above>]   the same RPC with two application goroutines: the SendMsg of
//	     message j is held (by a client stats.Handler, at OutPayload = right after the transport
//	     write on attempt 0, before withRetry re-takes cs.mu) until a concurrent RecvMsg has seen
//	     attempt 0 fail, retried, and attempt 1 has received the replayed messages 1..j-1
//	op  [-1, <op as above>]  the same RPC, but the application calls stream.Context() right after
//	     NewStream (commits the attempt): nothing may be retried, not even transparently
//	obs [nattempts, (grpc-previous-rpc-attempts, messages received, 1 iff they are messages
//	     1..n in order with the right sizes, 1 iff the half-close was seen) x nattempts,
//	     final status code seen by the application, replies received]

import (
	"bytes"
	"context"
	"errors"
	"fmt"
	"io"
	"net"
	"strconv"
	"strings"
	"sync"
	"testing"
	"testing/synctest"
	"time"

	"golang.org/x/net/http2"
	"golang.org/x/net/http2/hpack"
	"google.golang.org/grpc"
	"google.golang.org/grpc/codes"
	"google.golang.org/grpc/credentials/insecure"
	"google.golang.org/grpc/encoding"
	"google.golang.org/grpc/metadata"
	"google.golang.org/grpc/stats"
	"google.golang.org/grpc/status"
)

var vRetryT *testing.T

type vRetryCodec struct{}

func (vRetryCodec) Marshal(v any) ([]byte, error) { return *(v.(*[]byte)), nil }
func (vRetryCodec) Unmarshal(d []byte, v any) error {
	*(v.(*[]byte)) = append([]byte(nil), d...)
	return nil
}
func (vRetryCodec) Name() string { return "verifraw" }

func init() { encoding.RegisterCodec(vRetryCodec{}) }

type vRetryScript struct{ r, act, code, pb int64 }

type vRetryAttempt struct{ prev, n, inorder, eof int64 }

type vRetryEnv struct {
	mu      sync.Mutex
	scripts []vRetryScript
	sizes   []int64
	log     []vRetryAttempt
	stallJ  int64         // message index whose first SendMsg is held (0 = none)
	armed   bool          // the hold has not been used yet
	release chan struct{} // closed by attempt 1's handler once it has the replayed messages
	relOnce *sync.Once
	quiesce bool  // synctest.Wait() after every client transport write
	rawN    int64 // attempts the raw server has seen for the current RPC
}

// client stats handler: holds the first SendMsg of message stallJ right after its transport write
func (e *vRetryEnv) TagRPC(ctx context.Context, _ *stats.RPCTagInfo) context.Context   { return ctx }
func (e *vRetryEnv) TagConn(ctx context.Context, _ *stats.ConnTagInfo) context.Context { return ctx }
func (e *vRetryEnv) HandleConn(context.Context, stats.ConnStats)                       {}
func (e *vRetryEnv) HandleRPC(_ context.Context, s stats.RPCStats) {
	if oh, ok := s.(*stats.OutHeader); ok && oh.Client {
		e.mu.Lock()
		q := e.quiesce
		e.mu.Unlock()
		if q {
			synctest.Wait()
		}
		return
	}
	op, ok := s.(*stats.OutPayload)
	if !ok || !op.Client {
		return
	}
	e.mu.Lock()
	q := e.quiesce
	e.mu.Unlock()
	if q {
		synctest.Wait()
		return
	}
	b, ok := op.Payload.(*[]byte)
	if !ok || len(*b) == 0 {
		return
	}
	e.mu.Lock()
	hold := e.armed && e.stallJ > 0 && int64((*b)[0]) == e.stallJ
	if hold {
		e.armed = false
	}
	rel := e.release
	e.mu.Unlock()
	if hold {
		<-rel
	}
}

func (e *vRetryEnv) handler(_ any, stream grpc.ServerStream) error {
	prev := int64(0)
	if md, ok := metadata.FromIncomingContext(stream.Context()); ok {
		if v := md.Get("grpc-previous-rpc-attempts"); len(v) == 1 {
			p, _ := strconv.Atoi(v[0])
			prev = int64(p)
		}
	}
	e.mu.Lock()
	sc := vRetryScript{r: 1, act: 2}
	if prev < int64(len(e.scripts)) {
		sc = e.scripts[prev]
	}
	sizes := e.sizes
	e.mu.Unlock()
	at := vRetryAttempt{prev: prev, inorder: 1}
	for at.n < sc.r {
		var b []byte
		err := stream.RecvMsg(&b)
		if err == io.EOF {
			at.eof = 1
			break
		}
		if err != nil {
			at.inorder = 0
			break
		}
		if at.n >= int64(len(sizes)) || int64(len(b)) != sizes[at.n] || (len(b) > 0 && int64(b[0]) != at.n+1) {
			at.inorder = 0
		}
		at.n++
		e.mu.Lock()
		if e.stallJ > 0 && prev == 1 && at.n == e.stallJ-1 {
			e.relOnce.Do(func() { close(e.release) })
		}
		e.mu.Unlock()
	}
	e.mu.Lock()
	e.log = append(e.log, at)
	e.mu.Unlock()
	switch sc.act {
	case 0:
		switch sc.pb {
		case 1:
			stream.SetTrailer(metadata.Pairs("grpc-retry-pushback-ms", "1"))
		case 2:
			stream.SetTrailer(metadata.Pairs("grpc-retry-pushback-ms", "-1"))
		case 3:
			stream.SetTrailer(metadata.Pairs("grpc-retry-pushback-ms", "1", "grpc-retry-pushback-ms", "2"))
		}
		return status.Error(codes.Code(sc.code), "verif: scripted failure")
	case 1:
		stream.SendHeader(metadata.Pairs("verif", "h"))
		return status.Error(codes.Code(sc.code), "verif: scripted failure after headers")
	}
	reply := []byte{42}
	if err := stream.SendMsg(&reply); err != nil {
		return err
	}
	return nil
}

// ---- raw HTTP/2 server: same scripts, plus unprocessed streams ----
type vRetryRawStream struct {
	sc   vRetryScript
	at   vRetryAttempt
	buf  []byte
	done bool
}

func (e *vRetryEnv) serveRaw(c net.Conn) {
	defer c.Close()
	pre := make([]byte, len(http2.ClientPreface))
	if _, err := io.ReadFull(c, pre); err != nil {
		return
	}
	fr := http2.NewFramer(c, c)
	dec := hpack.NewDecoder(4096, nil)
	var hb bytes.Buffer
	enc := hpack.NewEncoder(&hb)
	if fr.WriteSettings() != nil {
		return
	}
	hdrs := func(id uint32, end bool, kv ...string) {
		hb.Reset()
		for i := 0; i+1 < len(kv); i += 2 {
			enc.WriteField(hpack.HeaderField{Name: kv[i], Value: kv[i+1]})
		}
		fr.WriteHeaders(http2.HeadersFrameParam{StreamID: id, BlockFragment: hb.Bytes(), EndHeaders: true, EndStream: end})
	}
	logAt := func(a vRetryAttempt) {
		e.mu.Lock()
		e.log = append(e.log, a)
		e.mu.Unlock()
	}
	act := func(id uint32, st *vRetryRawStream) {
		st.done = true
		logAt(st.at)
		code := strconv.Itoa(int(st.sc.code))
		switch st.sc.act {
		case 0:
			kv := []string{":status", "200", "content-type", "application/grpc", "grpc-status", code, "grpc-message", "verif: scripted failure"}
			switch st.sc.pb {
			case 1:
				kv = append(kv, "grpc-retry-pushback-ms", "1")
			case 2:
				kv = append(kv, "grpc-retry-pushback-ms", "-1")
			case 3:
				kv = append(kv, "grpc-retry-pushback-ms", "1", "grpc-retry-pushback-ms", "2")
			}
			hdrs(id, true, kv...)
		case 1:
			hdrs(id, false, ":status", "200", "content-type", "application/grpc", "verif", "h")
			hdrs(id, true, "grpc-status", code, "grpc-message", "verif: scripted failure after headers")
		default:
			hdrs(id, false, ":status", "200", "content-type", "application/grpc")
			fr.WriteData(id, false, []byte{0, 0, 0, 0, 1, 42})
			hdrs(id, true, "grpc-status", "0")
		}
	}
	streams := map[uint32]*vRetryRawStream{}
	for {
		f, err := fr.ReadFrame()
		if err != nil {
			return
		}
		switch f := f.(type) {
		case *http2.SettingsFrame:
			if !f.IsAck() {
				fr.WriteSettingsAck()
			}
		case *http2.PingFrame:
			if !f.IsAck() {
				fr.WritePing(true, f.Data)
			}
		case *http2.HeadersFrame:
			fields, _ := dec.DecodeFull(f.HeaderBlockFragment())
			id := f.StreamID
			prev := int64(0)
			for _, hf := range fields {
				if hf.Name == "grpc-previous-rpc-attempts" {
					p, _ := strconv.Atoi(hf.Value)
					prev = int64(p)
				}
			}
			e.mu.Lock()
			sc := vRetryScript{r: 1, act: 2}
			if e.rawN < int64(len(e.scripts)) {
				sc = e.scripts[e.rawN]
			}
			e.rawN++
			e.mu.Unlock()
			st := &vRetryRawStream{sc: sc, at: vRetryAttempt{prev: prev, inorder: 1}}
			streams[id] = st
			switch sc.act {
			case 3:
				st.done = true
				logAt(st.at)
				fr.WriteRSTStream(id, http2.ErrCodeRefusedStream)
			case 4:
				st.done = true
				logAt(st.at)
				last := uint32(0)
				if id >= 2 {
					last = id - 2
				}
				fr.WriteGoAway(last, http2.ErrCodeNo, nil)
			default:
				if f.StreamEnded() {
					st.at.eof = 1
					act(id, st)
				}
			}
		case *http2.DataFrame:
			id := f.StreamID
			if n := len(f.Data()); n > 0 {
				fr.WriteWindowUpdate(0, uint32(n))
			}
			st := streams[id]
			if st == nil || st.done {
				continue
			}
			st.buf = append(st.buf, f.Data()...)
			e.mu.Lock()
			sizes := e.sizes
			e.mu.Unlock()
			for !st.done && len(st.buf) >= 5 {
				n := int(st.buf[1])<<24 | int(st.buf[2])<<16 | int(st.buf[3])<<8 | int(st.buf[4])
				if len(st.buf) < 5+n {
					break
				}
				b := st.buf[5 : 5+n]
				if st.at.n >= int64(len(sizes)) || int64(n) != sizes[st.at.n] || (n > 0 && int64(b[0]) != st.at.n+1) {
					st.at.inorder = 0
				}
				st.buf = st.buf[5+n:]
				st.at.n++
				if st.at.n >= st.sc.r {
					act(id, st)
				}
			}
			if !st.done && f.StreamEnded() {
				st.at.eof = 1
				act(id, st)
			}
		case *http2.RSTStreamFrame:
			if st := streams[f.StreamID]; st != nil {
				st.done = true
			}
		}
	}
}

type vRetryLis struct {
	ch   chan net.Conn
	done chan struct{}
	once sync.Once
}

func (l *vRetryLis) Accept() (net.Conn, error) {
	select {
	case c := <-l.ch:
		return c, nil
	case <-l.done:
		return nil, errors.New("verif: listener closed")
	}
}
func (l *vRetryLis) Close() error   { l.once.Do(func() { close(l.done) }); return nil }
func (l *vRetryLis) Addr() net.Addr { return &net.UnixAddr{Name: "verif", Net: "unix"} }

func vRetryDecode(op []int64) (sizes []int64, scs []vRetryScript, ok bool) {
	if len(op) < 1 || op[0] < 1 || int(op[0]) > len(op)-2 {
		return nil, nil, false
	}
	m := int(op[0])
	sizes = op[1 : 1+m]
	for _, s := range sizes {
		if s < 0 {
			return nil, nil, false
		}
	}
	rest := op[1+m:]
	k := rest[0]
	rest = rest[1:]
	if k < 0 || int64(len(rest)) != 4*k {
		return nil, nil, false
	}
	for i := int64(0); i < k; i++ {
		s := vRetryScript{rest[4*i], rest[4*i+1], rest[4*i+2], rest[4*i+3]}
		if s.r < 1 || s.act < 0 || s.act > 4 || s.code < 1 || s.code > 16 || s.pb < 0 || s.pb > 3 {
			return nil, nil, false
		}
		scs = append(scs, s)
	}
	return sizes, scs, true
}

func vRetryExecIn(cfg []int64, ops [][]int64) ([][]int64, bool, []string) {
	if len(cfg) < 4 || cfg[3] < 0 || int(cfg[3]) != len(cfg)-4 || cfg[0] < 2 || cfg[0] > 10 || cfg[1] < 2 || cfg[1] > 10 || cfg[2] < 0 {
		return nil, false, nil
	}
	var cs []string
	for _, c := range cfg[4:] {
		cs = append(cs, strconv.Itoa(int(c)))
	}
	sc := fmt.Sprintf(`{"methodConfig":[{"name":[{"service":"verif.S"}],"retryPolicy":{"maxAttempts":%d,"initialBackoff":"0.001s","maxBackoff":"0.001s","backoffMultiplier":1,"retryableStatusCodes":[%s]}}]}`,
		cfg[0], strings.Join(cs, ","))
	env := &vRetryEnv{}
	lis := &vRetryLis{ch: make(chan net.Conn), done: make(chan struct{})}
	srv := grpc.NewServer(grpc.UnknownServiceHandler(env.handler))
	go srv.Serve(lis)
	dialer := func(ctx context.Context, _ string) (net.Conn, error) {
		c1, c2 := net.Pipe()
		select {
		case lis.ch <- c2:
			return c1, nil
		case <-ctx.Done():
			c1.Close()
			c2.Close()
			return nil, ctx.Err()
		}
	}
	cc, err := grpc.NewClient("passthrough:///verif",
		grpc.WithTransportCredentials(insecure.NewCredentials()),
		grpc.WithContextDialer(dialer),
		grpc.WithDefaultServiceConfig(sc),
		grpc.WithMaxCallAttempts(int(cfg[1])),
		grpc.WithStatsHandler(env),
	)
	if err != nil {
		panic("verif: NewClient: " + err.Error())
	}
	rawDialer := func(ctx context.Context, _ string) (net.Conn, error) {
		c1, c2 := net.Pipe()
		go env.serveRaw(c2)
		return c1, nil
	}
	ccRaw, err := grpc.NewClient("passthrough:///verifraw",
		grpc.WithTransportCredentials(insecure.NewCredentials()),
		grpc.WithContextDialer(rawDialer),
		grpc.WithDefaultServiceConfig(sc),
		grpc.WithMaxCallAttempts(int(cfg[1])),
		grpc.WithStatsHandler(env),
	)
	if err != nil {
		panic("verif: NewClient: " + err.Error())
	}
	defer func() {
		env.mu.Lock()
		env.quiesce = false
		env.mu.Unlock()
		ccRaw.Close()
		cc.Close()
		srv.Stop()
		lis.Close()
		synctest.Wait()
	}()
	cc.Connect()
	ccRaw.Connect()
	synctest.Wait()

	desc := &grpc.StreamDesc{StreamName: "M", ClientStreams: true, ServerStreams: true}
	var out [][]int64
	retried, bounded, stalled, transparent, unprocCounted, midOverflow, precommitted := false, false, false, false, false, false, false
	for _, op := range ops {
		stallJ := int64(0)
		if len(op) > 2 && op[0] == 0 {
			stallJ = op[1]
			op = op[2:]
		}
		precommit := false
		if len(op) > 1 && op[0] == -1 {
			precommit = true
			op = op[1:]
		}
		sizes, scs, ok := vRetryDecode(op)
		if !ok {
			continue
		}
		if stallJ != 0 && (stallJ < 2 || stallJ > int64(len(sizes)) || len(scs) < 2 || scs[0].r != stallJ || scs[0].act != 0 || scs[0].pb > 1 || scs[1].r < stallJ) {
			continue
		}
		useRaw := false
		for _, s := range scs {
			if s.act >= 3 {
				useRaw = true
			}
		}
		if stallJ != 0 && useRaw {
			continue
		}
		conn := cc
		if useRaw {
			conn = ccRaw
		}
		env.mu.Lock()
		env.scripts, env.sizes, env.log = scs, sizes, nil
		env.quiesce, env.rawN = stallJ == 0, 0
		env.stallJ, env.armed, env.release, env.relOnce = stallJ, false, make(chan struct{}), &sync.Once{}
		env.mu.Unlock()
		// a (virtual) one-hour deadline turns a lost message / deadlock into a status instead of a hang
		ctx, cancel := context.WithTimeout(context.Background(), time.Hour)
		final, replies := int64(0), int64(0)
		stream, err := conn.NewStream(ctx, desc, "/verif.S/M", grpc.CallContentSubtype("verifraw"), grpc.MaxRetryRPCBufferSize(int(cfg[2])))
		if err != nil {
			final = int64(status.Code(err))
		} else {
			synctest.Wait()
			if precommit {
				stream.Context() // commits the attempt
				precommitted = true
			}
			recvAll := func() {
				for {
					var b []byte
					err := stream.RecvMsg(&b)
					if err == nil {
						replies++
						continue
					}
					if err != io.EOF {
						final = int64(status.Code(err))
					}
					return
				}
			}
			var recvDone chan struct{}
			for i, s := range sizes {
				b := make([]byte, s)
				if s > 0 {
					b[0] = byte(i + 1)
				}
				if stallJ != 0 && int64(i+1) == stallJ {
					// from here on RecvMsg runs concurrently with the sends
					env.mu.Lock()
					env.armed = true
					env.mu.Unlock()
					recvDone = make(chan struct{})
					go func() { defer close(recvDone); recvAll() }()
					synctest.Wait()
					stalled = true
				}
				err := stream.SendMsg(&b)
				if recvDone == nil {
					synctest.Wait()
				}
				if err != nil {
					break
				}
			}
			stream.CloseSend()
			if recvDone != nil {
				<-recvDone
			} else {
				synctest.Wait()
				recvAll()
			}
		}
		env.mu.Lock()
		env.relOnce.Do(func() { close(env.release) })
		env.quiesce = false
		env.mu.Unlock()
		cancel()
		synctest.Wait()
		env.mu.Lock()
		lg := append([]vRetryAttempt{}, env.log...)
		env.mu.Unlock()
		o := []int64{int64(len(lg))}
		for _, a := range lg {
			o = append(o, a.prev, a.n, a.inorder, a.eof)
		}
		o = append(o, final, replies)
		out = append(out, o)
		if len(lg) > 1 {
			retried = true
			if lg[1].prev == 0 && scs[0].act >= 3 {
				transparent = true
			}
			for i := 1; i+1 < len(lg) && i < len(scs); i++ {
				if scs[i].act >= 3 {
					unprocCounted = true
				}
			}
			var cum int64
			for i, s := range sizes {
				cum += 5 + s
				if i > 0 && cum > cfg[2] {
					midOverflow = true
				}
			}
		}
		if int64(len(lg)) == min(cfg[0], cfg[1]) && len(lg) > 1 {
			bounded = true
		}
	}
	var tags []string
	if bounded {
		tags = append(tags, "hit-attempt-bound")
	}
	if stalled {
		tags = append(tags, "held-send")
	}
	if transparent {
		tags = append(tags, "transparent-retry")
	}
	if precommitted {
		tags = append(tags, "committed-by-application")
	}
	if unprocCounted {
		tags = append(tags, "unprocessed-later-attempt-retried")
	}
	if midOverflow {
		tags = append(tags, "retried-rpc-with-mid-stream-overflow")
	}
	return out, retried, tags
}

func vRetryExec(cfg []int64, ops [][]int64) (obs [][]int64, nt bool, tags []string) {
	synctest.Test(vRetryT, func(t *testing.T) {
		obs, nt, tags = vRetryExecIn(cfg, ops)
	})
	return
}

func vRetryGen(r *vRand, tier string, idx int) ([]int64, [][]int64) {
	allCodes := []int64{14, 8, 4, 13, 10}
	var cs []int64
	for _, c := range allCodes {
		if r.Chance(55) {
			cs = append(cs, c)
		}
	}
	if len(cs) == 0 {
		cs = []int64{14}
	}
	bl := r.PickI64(1<<20, 1<<20, 64, 200)
	cfg := append([]int64{int64(2 + r.Intn(6)), int64(2 + r.Intn(5)), bl, int64(len(cs))}, cs...)
	if idx == 0 {
		cfg = []int64{4, 5, 64, 2, 14, 8}
	}
	var ops [][]int64
	n := 8 + r.Intn(10)
	for i := 0; i < n; i++ {
		m := int64(1 + r.Intn(4))
		op := []int64{m}
		for j := int64(0); j < m; j++ {
			s := int64(1 + r.Intn(20))
			if bl < 1000 && r.Chance(30) {
				s = int64(1 + r.Intn(int(bl))) // the replay buffer limit may be exceeded at any message
			}
			if j == 0 && r.Chance(6) && bl < 1000 {
				s = bl // first message alone exceeds the replay buffer limit
			}
			op = append(op, s)
		}
		k := int64(r.Intn(8))
		op = append(op, k)
		unp := r.Chance(35) // this RPC meets unprocessed streams (raw server)
		for j := int64(0); j < k; j++ {
			act := r.PickI64(0, 0, 0, 0, 0, 0, 0, 1, 2)
			code := r.PickI64(14, 14, 14, 8, 4, 13, 10, 2)
			if r.Chance(60) {
				code = cs[r.Intn(len(cs))]
			}
			pb := r.PickI64(0, 0, 0, 0, 0, 1, 1, 2, 3)
			if unp && (j == 0 && r.Chance(70) || j > 0 && r.Chance(20)) {
				act = r.PickI64(3, 4)
			}
			op = append(op, int64(1+r.Intn(int(m)+1)), act, code, pb)
		}
		if r.Chance(8) {
			ops = append(ops, append([]int64{-1}, op...)) // committed by the application before sending
		}
		ops = append(ops, op)
		// the held-send schedule of a multi-message RPC
		if m >= 2 && r.Chance(35) && bl >= 1000 && !unp {
			j := int64(2 + r.Intn(int(m)-1))
			st := append([]int64{0, j}, op[:1+int(m)]...)
			k2 := int64(2 + r.Intn(3))
			st = append(st, k2, j, 0, cs[r.Intn(len(cs))], r.PickI64(0, 0, 1))
			st = append(st, j+int64(r.Intn(int(m-j)+2)), r.PickI64(0, 0, 2, 2, 1), cs[r.Intn(len(cs))], r.PickI64(0, 0, 1, 2))
			for x := int64(2); x < k2; x++ {
				st = append(st, int64(1+r.Intn(int(m)+1)), r.PickI64(0, 0, 1, 2), r.PickI64(14, 8, 4, 13), r.PickI64(0, 0, 1, 2, 3))
			}
			ops = append(ops, st)
		}
	}
	if idx == 0 {
		ops = [][]int64{
			{0, 2, 2, 1, 1, 2, 2, 0, 14, 0, 3, 2, 1, 0},                                // SendMsg(2) overtaken by a retry done by RecvMsg
			{0, 3, 3, 2, 2, 2, 3, 3, 0, 8, 1, 4, 0, 14, 0, 4, 2, 1, 0},                 // held third message, two retries
			{1, 3, 3, 1, 0, 14, 0, 1, 0, 8, 1, 1, 0, 14, 0},                            // three failures, fourth attempt succeeds
			{1, 3, 5, 1, 0, 14, 0, 1, 0, 14, 0, 1, 0, 14, 0, 1, 0, 14, 0, 1, 0, 14, 0}, // bound
			{2, 3, 4, 2, 3, 0, 14, 0, 1, 1, 14, 0},                                     // half-close replayed; headers then fail
			{1, 64, 1, 1, 0, 14, 0},                                                    // first message overflows the buffer: committed
			{1, 3, 1, 1, 0, 14, 2}, {1, 3, 1, 1, 0, 14, 3}, {1, 3, 1, 1, 0, 4, 0},
			{1, 3, 2, 1, 3, 14, 0, 1, 0, 14, 0},                                        // REFUSED_STREAM on the first attempt: transparent retry, then a counted one
			{2, 3, 3, 2, 1, 4, 14, 0, 3, 2, 1, 0},                                      // GOAWAY below the stream id: transparent retry on a new connection
			{1, 3, 5, 1, 3, 14, 0, 1, 0, 14, 0, 1, 0, 14, 0, 1, 0, 14, 0, 1, 0, 14, 0}, // transparent retry + the full bound of counted attempts
			{1, 3, 4, 1, 0, 14, 0, 1, 4, 14, 0, 1, 3, 14, 0, 1, 0, 4, 0},               // unprocessed later attempts are counted retries (UNAVAILABLE)
			{1, 3, 3, 1, 3, 14, 0, 1, 3, 14, 0, 1, 1, 14, 0},                           // refused twice: second refusal is a counted retry
			{3, 20, 20, 20, 3, 2, 0, 14, 0, 3, 0, 14, 0, 1, 0, 14, 0},                  // buffer limit exceeded by the third message: no retry after it
			{3, 20, 20, 20, 3, 1, 0, 14, 0, 2, 0, 14, 0, 3, 0, 14, 0},                  // same, two retries before
			{-1, 1, 3, 2, 1, 3, 14, 0, 1, 0, 14, 0},                                    // committed by the application, then refused: no transparent retry
			{-1, 1, 3, 2, 1, 0, 14, 0, 1, 0, 14, 0},                                    // committed by the application: no policy retry
			{1, 64, 2, 1, 3, 14, 0, 1, 0, 14, 0},                                       // refused before the overflowing first message is buffered: transparent retry, then committed
		}
	}
	return cfg, ops
}

func TestVerif_Retry(t *testing.T) {
	vRetryT = t
	vRunDriver(t, "Retry", 30, 500, vRetryGen, vRetryExec)
}
