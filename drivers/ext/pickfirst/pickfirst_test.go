//go:build verif

// C34 driver: the real pick_first policy (balancer registry, "pick_first") under a
// recording balancer.ClientConn, driven in "rounds".
//
// Addresses are codes fam*1000+n (fam 0 = not an IP literal, 1 = IPv4, 2 = IPv6, n < 256).
//
// ops
//
//	[1, k, a1..an]  resolver update with the address list a1..an (duplicates, mixed families,
//	                empty allowed); afterwards the driver answers every connection request
//	                (SubConn.Connect) in the order they are made: CONNECTING, then
//	                TRANSIENT_FAILURE - except the k-th request of this round (0-based), which
//	                is answered CONNECTING, READY.  k = -1: every attempt fails.
//	[4]             resolver error
//
// obs: one word per event, every op ends with [0]
//
//	[12, err]      result of UpdateClientConnState (listed first in its round)
//	[2, sc, a]     NewSubConn for address a created sub-channel sc
//	[3, sc]        sc.Connect()
//	[14, sc]       sc.Shutdown()   (maximal runs sorted: map iteration order)
//	[1, s, sc]     UpdateState(s); sc = the sub-channel the picker returns when s = READY, else -1
//
// The happy-eyeballs timer (250ms) never fires: the run is inside a synctest bubble and
// the driver never lets time advance; it is cancelled by the next event.
package pickfirst

import (
	"errors"
	"fmt"
	"sort"
	"testing"
	"testing/synctest"

	"google.golang.org/grpc/balancer"
	_ "google.golang.org/grpc/balancer/pickfirst"
	"google.golang.org/grpc/connectivity"
	"google.golang.org/grpc/resolver"
)

type vPickFirstEnv struct {
	evs     [][]int64
	scs     []*vPickFirstSC
	pending []*vPickFirstSC // Connect() called, not yet answered
}

type vPickFirstCC struct {
	balancer.ClientConn
	e *vPickFirstEnv
}

type vPickFirstSC struct {
	balancer.SubConn
	e        *vPickFirstEnv
	id       int64
	listener func(balancer.SubConnState)
}

func (s *vPickFirstSC) Connect() {
	s.e.evs = append(s.e.evs, []int64{3, s.id})
	s.e.pending = append(s.e.pending, s)
}
func (s *vPickFirstSC) Shutdown()                                             { s.e.evs = append(s.e.evs, []int64{14, s.id}) }
func (s *vPickFirstSC) UpdateAddresses([]resolver.Address)                    {}
func (s *vPickFirstSC) RegisterHealthListener(func(balancer.SubConnState))    {}
func (s *vPickFirstSC) GetOrBuildProducer(balancer.ProducerBuilder) (balancer.Producer, func()) {
	return nil, func() {}
}

func vPickFirstAddr(code int64) resolver.Address {
	fam, n := code/1000, code%1000
	switch fam {
	case 1:
		return resolver.Address{Addr: fmt.Sprintf("10.0.0.%d:80", n)}
	case 2:
		return resolver.Address{Addr: fmt.Sprintf("[::%x]:80", n+1)}
	default:
		return resolver.Address{Addr: fmt.Sprintf("host%d", n)}
	}
}

func vPickFirstCode(a resolver.Address) int64 {
	var n int64
	if _, err := fmt.Sscanf(a.Addr, "10.0.0.%d:80", &n); err == nil {
		return 1000 + n
	}
	if _, err := fmt.Sscanf(a.Addr, "[::%x]:80", &n); err == nil {
		return 2000 + n - 1
	}
	if _, err := fmt.Sscanf(a.Addr, "host%d", &n); err == nil {
		return n
	}
	return -1
}

func (c *vPickFirstCC) NewSubConn(addrs []resolver.Address, o balancer.NewSubConnOptions) (balancer.SubConn, error) {
	sc := &vPickFirstSC{e: c.e, id: int64(len(c.e.scs)), listener: o.StateListener}
	c.e.scs = append(c.e.scs, sc)
	code := int64(-1)
	if len(addrs) == 1 {
		code = vPickFirstCode(addrs[0])
	}
	c.e.evs = append(c.e.evs, []int64{2, sc.id, code})
	return sc, nil
}
func (c *vPickFirstCC) RemoveSubConn(sc balancer.SubConn)                      { sc.Shutdown() }
func (c *vPickFirstCC) UpdateAddresses(balancer.SubConn, []resolver.Address) {}
func (c *vPickFirstCC) ResolveNow(resolver.ResolveNowOptions)                 {}
func (c *vPickFirstCC) Target() string                                        { return "verif" }
func (c *vPickFirstCC) UpdateState(s balancer.State) {
	id := int64(-1)
	if s.ConnectivityState == connectivity.Ready {
		r, err := s.Picker.Pick(balancer.PickInfo{})
		if err == nil {
			if sc, ok := r.SubConn.(*vPickFirstSC); ok {
				id = sc.id
			}
		} else {
			id = -2
		}
	}
	c.e.evs = append(c.e.evs, []int64{1, int64(s.ConnectivityState), id})
}

func vPickFirstSortRuns(evs [][]int64) [][]int64 {
	i := 0
	for i < len(evs) {
		if evs[i][0] != 14 {
			i++
			continue
		}
		j := i
		for j < len(evs) && evs[j][0] == 14 {
			j++
		}
		run := evs[i:j]
		sort.Slice(run, func(a, b int) bool { return run[a][1] < run[b][1] })
		i = j
	}
	return evs
}

func vPickFirstExecIn(ops [][]int64) (obs [][]int64, nontrivial bool, tags []string) {
	e := &vPickFirstEnv{}
	cc := &vPickFirstCC{e: e}
	b := balancer.Get("pick_first").Build(cc, balancer.BuildOptions{})
	defer b.Close()
	tg := map[string]bool{}
	lastTF := false
	for _, op := range ops {
		e.evs, e.pending = nil, nil
		if len(op) >= 2 && op[0] == 1 {
			k := op[1]
			var addrs []resolver.Address
			for _, a := range op[2:] {
				if a >= 0 && a < 3000 && a%1000 < 256 {
					addrs = append(addrs, vPickFirstAddr(a))
				}
			}
			err := b.UpdateClientConnState(balancer.ClientConnState{ResolverState: resolver.State{Addresses: addrs}})
			ret := []int64{12, vB(err != nil)}
			attempt := int64(0)
			for len(e.pending) > 0 {
				sc := e.pending[0]
				e.pending = e.pending[1:]
				sc.listener(balancer.SubConnState{ConnectivityState: connectivity.Connecting})
				if attempt == k {
					sc.listener(balancer.SubConnState{ConnectivityState: connectivity.Ready})
					tg["ready"] = true
				} else {
					sc.listener(balancer.SubConnState{ConnectivityState: connectivity.TransientFailure, ConnectionError: errors.New("verif")})
				}
				attempt++
				if attempt > 1 {
					tg["multi_attempt"] = true
				}
			}
			synctest.Wait()
			evs := vPickFirstSortRuns(e.evs)
			for _, w := range evs {
				if w[0] == 1 && w[1] == 1 && lastTF {
					tg["connecting_after_tf"] = true
				}
				if w[0] == 1 {
					lastTF = w[1] == 3 && len(addrs) > 0
				}
			}
			obs = append(obs, ret)
			obs = append(obs, evs...)
		} else if len(op) >= 1 && op[0] == 4 {
			b.ResolverError(errors.New("verif"))
			obs = append(obs, vPickFirstSortRuns(e.evs)...)
		}
		obs = append(obs, []int64{0})
	}
	for t := range tg {
		tags = append(tags, t)
	}
	sort.Strings(tags)
	return obs, tg["ready"] && tg["multi_attempt"], tags
}

var vPickFirstT *testing.T

func vPickFirstExec(cfg []int64, ops [][]int64) (obs [][]int64, nontrivial bool, tags []string) {
	var pv any
	vPickFirstT.Run("case", func(t *testing.T) {
		synctest.Test(t, func(t *testing.T) {
			defer func() {
				if p := recover(); p != nil {
					pv = p
				}
			}()
			obs, nontrivial, tags = vPickFirstExecIn(ops)
		})
	})
	if pv != nil {
		panic(pv)
	}
	return
}

func vPickFirstGen(r *vRand, tier string, idx int) ([]int64, [][]int64) {
	if idx == 0 {
		// witness of the sticky-TF defect repaired by 4e698e5: [a1] fails -> TF; then [a2]:
		// before the fix CONNECTING was published, now only TF
		return nil, [][]int64{{1, -1, 1001}, {1, -1, 1002}}
	}
	if idx == 1 {
		return nil, [][]int64{{4}, {1, -1, 1001, 2001, 1001, 1002, 5, 2002, 2003}, {1, 2, 1001, 2001, 1002, 7}, {1, -1, 1002, 2001}, {1, -1}, {4}, {1, 0, 1001}, {1, -1, 9}, {4}}
	}
	var ops [][]int64
	n := 4 + r.Intn(12)
	pool := int64(2 + r.Intn(5))
	for i := 0; i < n; i++ {
		if r.Chance(10) {
			ops = append(ops, []int64{4})
			continue
		}
		m := r.Intn(8)
		if r.Chance(8) {
			m = 0
		}
		op := []int64{1, -1}
		for j := 0; j < m; j++ {
			op = append(op, int64(r.Intn(3))*1000+r.I64n(pool))
		}
		if r.Chance(55) {
			op[1] = int64(r.Intn(m + 1))
		}
		ops = append(ops, op)
	}
	return nil, ops
}

func TestVerif_PickFirst(t *testing.T) {
	vPickFirstT = t
	vRunDriver(t, "PickFirst", 80, 1600, vPickFirstGen, vPickFirstExec)
}
